"""Run TLC (exhaustive | simulate | trace validation) and parse what it says.

Nothing here decides a property: it starts the model checker on a module of /verif/spec,
hands it the trace file through the environment (IOEnv.TRACE_FILE) and returns the
numbers TLC itself prints (states generated / distinct, violated invariants, PrintT
tuples, per-action coverage).
"""
import os
import re
import shutil
import subprocess
import tempfile
import time

VERIF = os.path.dirname(os.path.dirname(os.path.abspath(__file__)))
SPEC = os.path.join(VERIF, "spec")
JAR = "/opt/veriftools/tla/tla2tools.jar"
DEPS = "/opt/veriftools/tla/CommunityModules-deps.jar"


class MachineryError(Exception):
    """TLC crashed / spec does not parse / trace malformed: exit code 2, never a verdict."""


# ----------------------------------------------------------------------------------------
# TLA+ value parser (for PrintT output and error-trace states)
# ----------------------------------------------------------------------------------------
class _P:
    def __init__(self, s):
        self.s = s
        self.i = 0

    def ws(self):
        while self.i < len(self.s) and self.s[self.i] in " \t\r\n":
            self.i += 1

    def peek(self, k=1):
        return self.s[self.i:self.i + k]

    def value(self):
        self.ws()
        c = self.peek()
        if c == '"':
            return self.string()
        if self.peek(2) == "<<":
            self.i += 2
            items = self.items(">>")
            return list(items)
        if c == "{":
            self.i += 1
            return {"__set__": self.items("}")}
        if c == "[":
            self.i += 1
            return self.record()
        if c == "(":
            self.i += 1
            return self.function()
        m = re.match(r"-?\d+", self.s[self.i:])
        if m:
            self.i += m.end()
            return int(m.group())
        m = re.match(r"[A-Za-z_][A-Za-z0-9_]*", self.s[self.i:])
        if m:
            self.i += m.end()
            w = m.group()
            return True if w == "TRUE" else False if w == "FALSE" else {"__mv__": w}
        raise ValueError("cannot parse TLA+ value at %r" % self.s[self.i:self.i + 40])

    def string(self):
        assert self.s[self.i] == '"'
        self.i += 1
        out = []
        while self.s[self.i] != '"':
            if self.s[self.i] == "\\":
                self.i += 1
                out.append({"n": "\n", "t": "\t"}.get(self.s[self.i], self.s[self.i]))
            else:
                out.append(self.s[self.i])
            self.i += 1
        self.i += 1
        return "".join(out)

    def items(self, close):
        out = []
        self.ws()
        if self.peek(len(close)) == close:
            self.i += len(close)
            return out
        while True:
            out.append(self.value())
            self.ws()
            if self.peek(len(close)) == close:
                self.i += len(close)
                return out
            if self.peek() != ",":
                raise ValueError("expected , at %r" % self.s[self.i:self.i + 40])
            self.i += 1

    def record(self):
        out = {}
        while True:
            self.ws()
            m = re.match(r"([A-Za-z_][A-Za-z0-9_]*)\s*\|->", self.s[self.i:])
            if not m:
                raise ValueError("bad record at %r" % self.s[self.i:self.i + 40])
            self.i += m.end()
            out[m.group(1)] = self.value()
            self.ws()
            if self.peek() == "]":
                self.i += 1
                return out
            self.i += 1  # ,

    def function(self):
        out = {}
        while True:
            k = self.value()
            self.ws()
            assert self.peek(2) == ":>", self.s[self.i:self.i + 40]
            self.i += 2
            v = self.value()
            out[k if not isinstance(k, list) else tuple(k)] = v
            self.ws()
            if self.peek() == ")":
                self.i += 1
                return out
            assert self.peek(2) == "@@", self.s[self.i:self.i + 40]
            self.i += 2


def parse_value(s):
    return _P(s).value()


def split_toplevel(text):
    """Split TLC stdout into top-level printed values (bracket matching), tolerant of
    multi-line PrintT output."""
    vals = []
    depth = 0
    cur = []
    instr = False
    i = 0
    while i < len(text):
        c = text[i]
        cur.append(c)
        if instr:
            if c == "\\":
                cur.append(text[i + 1])
                i += 1
            elif c == '"':
                instr = False
        elif c == '"':
            instr = True
        elif text.startswith("<<", i):
            depth += 1
            cur.append("<")
            i += 1
        elif text.startswith(">>", i):
            depth -= 1
            cur.append(">")
            i += 1
        elif c in "[{(":
            depth += 1
        elif c in "]})":
            depth -= 1
        if depth == 0 and c == "\n":
            vals.append("".join(cur))
            cur = []
        i += 1
    if cur:
        vals.append("".join(cur))
    return vals


class TLCResult:
    def __init__(self):
        self.rc = None
        self.out = ""
        self.generated = 0
        self.distinct = 0
        self.depth = 0
        self.violated = []      # names of violated invariants / properties
        self.assumption_failed = False
        self.deadlock = False
        self.error_states = []  # list of (header, text) of the first error trace
        self.prints = []        # parsed PrintT tuples whose first element is a string tag
        self.coverage = {}      # action name -> (distinct, total)
        self.wall = 0.0
        self.cmd = ""
        self.postcondition_failed = False

    def tagged(self, tag):
        return [p for p in self.prints if p and p[0] == tag]


def _parse(res, tags):
    out = res.out
    for m in re.finditer(r"(\d+) states generated, (\d+) distinct states found", out):
        res.generated, res.distinct = int(m.group(1)), int(m.group(2))
    m = re.search(r"The depth of the complete state graph search is (\d+)", out)
    if m:
        res.depth = int(m.group(1))
    for m in re.finditer(r"Invariant (\S+) is violated", out):
        res.violated.append(m.group(1))
    for m in re.finditer(r"Action property (\S+) is violated|Temporal properties were violated", out):
        res.violated.append(m.group(1) or "temporal")
    if "Assumption" in out and "is false" in out:
        res.assumption_failed = True
    if "Deadlock reached" in out:
        res.deadlock = True
    if re.search(r"POSTCONDITION|post ?condition", out, re.I) and re.search(r"(violated|false)", out, re.I):
        if re.search(r"[Pp]ost.?condition.*(violated|false)", out):
            res.postcondition_failed = True
    # error trace states
    for m in re.finditer(r"^State (\d+): <([^\n]*)>\n(.*?)(?=^State \d+:|^\d+ states generated|^Error:|\Z)",
                         out, re.S | re.M):
        res.error_states.append((m.group(2), m.group(3).strip()))
    # coverage:  <Action line ... of module M>: d:t
    for m in re.finditer(r"^<(\w+) line \d+, col \d+ to line \d+, col \d+ of module (\w+)>: (\d+):(\d+)", out, re.M):
        name = m.group(1)
        d, t = int(m.group(3)), int(m.group(4))
        od, ot = res.coverage.get(name, (0, 0))
        res.coverage[name] = (od + d, ot + t)
    if tags:
        res.prints = extract_tagged(out, tags)


def extract_tagged(out, tags):
    """All PrintT values of the form <<"TAG", ...>> (possibly pretty-printed over several lines)."""
    vals = []
    tagre = re.compile(r'^<<\s*"(%s)"' % "|".join(map(re.escape, tags)), re.M)
    pos = 0
    n = len(out)
    while True:
        m = tagre.search(out, pos)
        if not m:
            break
        i = m.start()
        depth = 0
        instr = False
        j = i
        while j < n:
            c = out[j]
            if instr:
                if c == "\\":
                    j += 1
                elif c == '"':
                    instr = False
            elif c == '"':
                instr = True
            elif c == "<" and out.startswith("<<", j):
                depth += 1
                j += 1
            elif c == ">" and out.startswith(">>", j):
                depth -= 1
                j += 1
                if depth == 0:
                    break
            j += 1
        vals.append(parse_value(out[i:j + 1]))
        pos = j + 1
    return vals


def run_tlc(module, cfg, *, trace_file=None, env=None, workers=1, simulate=None, depth=None,
            seed=None, coverage=False, timeout=3600, tags=(), extra_files=(), dfs=False,
            continue_=False, keep=False, java_opts=()):
    """Run TLC on spec/<module>.tla with spec/<cfg> (or an absolute cfg path).

    simulate: None or dict(num=..., file=<prefix or None>)  ->  -simulate num=N[,file=...]
    Returns TLCResult.  Raises MachineryError if TLC could not run the model at all.
    """
    scratch = tempfile.mkdtemp(prefix="gvf_tlc_")
    res = TLCResult()
    try:
        for f in os.listdir(SPEC):
            if f.endswith(".tla"):
                shutil.copy(os.path.join(SPEC, f), scratch)
        for f in extra_files:
            shutil.copy(f, scratch)
        cfgpath = cfg if os.path.isabs(cfg) else os.path.join(SPEC, cfg)
        shutil.copy(cfgpath, os.path.join(scratch, "run.cfg"))
        gc = ["-XX:+UseParallelGC"] if workers > 2 else ["-XX:+UseSerialGC", "-Xmx3g"]
        jopts = gc + ["-Xss64m", "-XX:TieredStopAtLevel=4"] + list(java_opts)
        if dfs:
            jopts.append("-Dtlc2.tool.queue.IStateQueue=StateDeque")
        cmd = ["java"] + jopts + ["-cp", JAR + ":" + DEPS, "tlc2.TLC",
                                  "-workers", str(workers), "-metadir", os.path.join(scratch, "meta"),
                                  "-noGenerateSpecTE", "-config", "run.cfg"]
        if simulate is not None:
            s = "num=%d" % simulate["num"]
            if simulate.get("file"):
                s = "file=%s,%s" % (simulate["file"], s)
            cmd += ["-simulate", s]
        if depth is not None:
            cmd += ["-depth", str(depth)]
        if seed is not None:
            cmd += ["-seed", str(seed)]
        if coverage:
            cmd += ["-coverage", "1"]
        if continue_:
            cmd += ["-continue"]
        cmd += [module]
        e = dict(os.environ)
        if env:
            e.update({k: str(v) for k, v in env.items()})
        if trace_file:
            e["TRACE_FILE"] = os.path.abspath(trace_file)
        res.cmd = " ".join(cmd)
        t0 = time.time()
        try:
            p = subprocess.run(cmd, cwd=scratch, env=e, stdout=subprocess.PIPE, stderr=subprocess.STDOUT,
                               timeout=timeout, text=True, errors="replace")
        except subprocess.TimeoutExpired as ex:
            raise MachineryError("TLC timed out after %ss: %s" % (timeout, res.cmd))
        res.wall = time.time() - t0
        res.rc = p.returncode
        res.out = p.stdout
        _parse(res, tags)
        # rc: 0 ok, 10 assumption, 11 deadlock, 12 safety, 13 liveness; others = machinery
        if res.rc not in (0, 10, 11, 12, 13):
            raise MachineryError("TLC failed rc=%s\n%s" % (res.rc, res.out[-6000:]))
        if res.rc == 10:
            raise MachineryError("TLC assumption failed (spec self-test)\n%s" % res.out[-6000:])
        if res.generated == 0 and simulate is None:
            raise MachineryError("TLC explored nothing\n%s" % res.out[-6000:])
        return res
    finally:
        if not keep:
            shutil.rmtree(scratch, ignore_errors=True)
        else:
            res.scratch = scratch


def sany(module):
    scratch = tempfile.mkdtemp(prefix="gvf_sany_")
    try:
        for f in os.listdir(SPEC):
            if f.endswith(".tla"):
                shutil.copy(os.path.join(SPEC, f), scratch)
        p = subprocess.run(["java", "-cp", JAR + ":" + DEPS, "tla2sany.SANY", module + ".tla"], cwd=scratch,
                           stdout=subprocess.PIPE, stderr=subprocess.STDOUT, text=True)
        ok = p.returncode == 0 and "Semantic errors" not in p.stdout and "Parse Error" not in p.stdout \
            and "Fatal errors" not in p.stdout and "*** Errors" not in p.stdout
        return ok, p.stdout
    finally:
        shutil.rmtree(scratch, ignore_errors=True)
