"""Projection alpha for numbers: Python float / Fraction / Decimal -> BigFix trace encoding.

A number is encoded as the JSON array [sgn, l1, ..., ln]: sgn 1 = negative, limbs little
endian base 10^4 with FL fractional limbs, no zero top limb (zero is [0]).  The value is
taken from the EXACT binary value of the float (fractions.Fraction) and rounded once,
half away from zero, at 10^(-4*FL).  No arithmetic beyond that rounding happens here.
"""
from fractions import Fraction
import math

FL = 5
BASE = 10000
SCALE = BASE ** FL


def enc(x, fl=FL):
    """float|int|Fraction -> [sgn, limbs...]"""
    if isinstance(x, float):
        if math.isnan(x) or math.isinf(x):
            raise ValueError("cannot encode %r" % (x,))
    fr = Fraction(x)
    neg = fr < 0
    if neg:
        fr = -fr
    n = (fr.numerator * (BASE ** fl) * 2 + fr.denominator) // (2 * fr.denominator)
    out = [1 if (neg and n) else 0]
    while n:
        out.append(n % BASE)
        n //= BASE
    return out


def dec(t, fl=FL):
    """[sgn, limbs...] -> Fraction (exact)"""
    n = 0
    for i, l in enumerate(t[1:]):
        n += l * BASE ** i
    v = Fraction(n, BASE ** fl)
    return -v if t[0] == 1 else v


def hexf(x):
    """bit-exact float identity as a string"""
    return float(x).hex()


def tla(t):
    """encoding -> TLA+ record text (for generated MC constants)"""
    return "[neg |-> %s, mag |-> <<%s>>]" % ("TRUE" if t[0] == 1 and len(t) > 1 else "FALSE",
                                             ", ".join(str(l) for l in t[1:]))
