"""Entry point: ./check <Cxx> quick|thorough | --replay <file>.

Exit codes: 0 property held on everything explored (known findings are printed),
1 violation (a line `VIOLATION property=<id> replay=<path>`), 2 machinery failure.
"""
import importlib
import json
import os
import sys
import traceback

from harness.core import Ctx
from harness.tlc import MachineryError


class LibraryHangs(Exception):
    pass


def watchdog(ctx, seconds):
    """a library call that never returns (a loop whose exit condition was changed) must end in a verdict too: after `seconds`
    (generous: 30 min quick, 6 h thorough) the main thread is interrupted; inside library code -> VIOLATION, elsewhere -> machinery"""
    import signal
    repo = os.path.realpath(os.environ.get("GEODEPY_REPO", "/repo"))
    seconds = int(os.environ.get("VERIF_WATCHDOG_S", seconds))

    def onalarm(signum, frame):
        f, site = frame, None
        while f is not None:
            if os.path.realpath(f.f_code.co_filename).startswith(repo + os.sep):
                site = "%s:%s in %s" % (os.path.relpath(f.f_code.co_filename, repo), f.f_lineno, f.f_code.co_name)
                break
            f = f.f_back
        if site:
            ctx.violation({"clause": "library_call_does_not_return"}, "after %d s the main thread was still inside %s" % (seconds, site),
                          case={"kind": "hang"})
            ctx.rule = ctx.rule or "run interrupted: a library call did not return"
            os._exit(ctx.finish())
        print("MACHINERY-FAILURE property=%s: no result after %d s (not inside the library)" % (ctx.prop, seconds))
        os._exit(2)
    try:
        signal.signal(signal.SIGALRM, onalarm)
        signal.alarm(int(seconds))
    except (ValueError, AttributeError):
        pass


def main(argv):
    if len(argv) < 2:
        print(__doc__)
        return 2
    prop = argv[0].upper()
    seed = int(os.environ.get("VERIF_SEED", "20261001"))
    try:
        mod = importlib.import_module("harness.props.%s" % prop.lower())
    except ImportError as e:
        print("no check for %s: %s" % (prop, e))
        return 2
    try:
        if argv[1] == "--replay":
            with open(argv[2]) as f:
                data = json.load(f)
            ctx = Ctx(prop, data.get("tier", "quick"), data.get("seed", seed))
            ctx.replaying = True
            mod.replay(ctx, data)
            # a replay never rewrites evidence; print the verdict only
            for w, n in ctx.known_hit.items():
                print("KNOWN-FINDING: property=%s %s" % (prop, w))
            for v in ctx.violations:
                print("VIOLATION property=%s replay=%s" % (prop, argv[2]))
                print("  what: %s" % json.dumps(v["desc"], default=str, sort_keys=True)[:800])
                print("  detail: %s" % str(v.get("detail", ""))[:1500])
            return 1 if ctx.violations else 0
        tier = os.environ.get("VERIF_TIER", argv[1])
        if tier not in ("quick", "thorough"):
            print("tier must be quick or thorough")
            return 2
        ctx = Ctx(prop, tier, seed)
        ctx.replaying = False
        watchdog(ctx, 1800 if tier == "quick" else 6 * 3600)
        mod.run(ctx)
        return ctx.finish()
    except MachineryError as e:
        print("MACHINERY-FAILURE property=%s: %s" % (prop, e))
        return 2
    except Exception as ex:
        # An exception that travelled through the code UNDER TEST (a driver calls the library outside its event recording: to
        # prepare inputs, as an instrument, to generate positions) is a verdict, not a machinery failure: the same call returns
        # normally on every tree on which this check passes.
        repo = os.path.realpath(os.environ.get("GEODEPY_REPO", "/repo"))
        frames = traceback.extract_tb(ex.__traceback__)
        inrepo = [f for f in frames if os.path.realpath(f.filename).startswith(repo + os.sep)]
        if inrepo and "ctx" in locals() and not getattr(ctx, "replaying", False):
            f = inrepo[-1]
            site = [g for g in frames if not os.path.realpath(g.filename).startswith(repo + os.sep)]
            ctx.violation({"clause": "library_raised_in_driver_call", "function": f.name, "exception": type(ex).__name__},
                          "%s: %s  (raised at %s:%s in %s; called from %s:%s)" % (
                              type(ex).__name__, str(ex)[:200], os.path.relpath(f.filename, repo), f.lineno, f.name,
                              os.path.basename(site[-1].filename) if site else "?", site[-1].lineno if site else 0),
                          case={"kind": "driver_call"})
            ctx.rule = ctx.rule or "run interrupted by an exception raised inside the library (see violations)"
            return ctx.finish()
        # A driver (harness/props, gridlib, alpha, fix) that cannot interpret what the library returned - a tuple of another length,
        # None where a number is due, an attribute that is gone - fails with one of the exceptions below in ITS OWN code.  The
        # drivers run through on every tree on which the checks pass, so this too is a statement about the tree under test.
        here = os.path.dirname(os.path.abspath(__file__))
        drv = [f for f in frames if os.path.realpath(f.filename).startswith(os.path.join(here, "props") + os.sep)
               or os.path.basename(f.filename) in ("gridlib.py", "alpha.py", "fix.py", "sinexio.py", "ntv2render.py")]
        last = frames[-1] if frames else None
        shape = (TypeError, ValueError, IndexError, KeyError, AttributeError, ZeroDivisionError, OverflowError, ArithmeticError)
        if (isinstance(ex, shape) and drv and last is not None and "ctx" in locals() and not getattr(ctx, "replaying", False)
                and os.path.basename(last.filename) not in ("tlc.py", "tracecheck.py", "core.py", "main.py")):
            traceback.print_exc()
            ctx.violation({"clause": "library_result_not_interpretable", "exception": type(ex).__name__, "driver_site": "%s:%s" % (
                os.path.basename(drv[-1].filename), drv[-1].name)},
                "%s: %s  (at %s:%s)" % (type(ex).__name__, str(ex)[:200], os.path.basename(drv[-1].filename), drv[-1].lineno),
                case={"kind": "driver_exception"})
            ctx.rule = ctx.rule or "run interrupted: the driver could not interpret what the library returned (see violations)"
            return ctx.finish()
        traceback.print_exc()
        print("MACHINERY-FAILURE property=%s (exception in harness)" % prop)
        return 2


if __name__ == "__main__":
    sys.exit(main(sys.argv[1:]))
