"""C18 helper: SINEX 2.02 renderer (abstract document -> text), lexical tokenizer (text -> line
tokens: the projection alpha for files) and the substituted clock for geodepy.gnss.

Nothing here decides anything.  The renderer writes the fixed-column records of the SINEX 2.02
format description; the tokenizer is purely lexical (split into lines, classify a line by its first
character, split on blanks, lower-case the exponent letter of numbers): which block a line belongs
to, what it should contain and whether the file is well formed is decided by spec/Trace_Sinex.tla.
"""
import datetime
import re
import sys
import types

SEP = "*-------------------------------------------------------------------------------"
NUM = re.compile(r"^-?\d\.\d+[eE][+-]\d{2,3}$")
AGENCIES = ["AUS", "IGS", "VIC", "NGA", "GA2", "SV1", "V00"]


# --------------------------------------------------------------------------------------------
# substituted clock
# --------------------------------------------------------------------------------------------
_real = datetime.datetime


class FakeDT(_real):
    """datetime substitute whose now() is whatever the driver set (geodepy.gnss.datetime = FakeDT)."""
    _now = _real(2026, 1, 1, 0, 0, 0)

    @classmethod
    def now(cls, tz=None):
        return cls._now


def gnss():
    """import geodepy.gnss behind the pandas stub and substitute its clock"""
    if "pandas" not in sys.modules:
        sys.modules["pandas"] = types.ModuleType("pandas")
    import warnings
    with warnings.catch_warnings():
        warnings.simplefilter("ignore")
        import geodepy.gnss as g
    g.datetime = FakeDT
    return g


def set_clock(c):
    """c = [year, month, day, hour, minute, second, tenths]"""
    FakeDT._now = _real(c[0], c[1], c[2], c[3], c[4], c[5], c[6] * 100000)


# --------------------------------------------------------------------------------------------
# concrete document = abstract document + the texts of its records
# --------------------------------------------------------------------------------------------
def e21(x):
    return "%21.14e" % x


def e11(x):
    return "%11.5e" % x


def norm(tok):
    """number token -> canonical spelling (exponent letter in lower case); anything else unchanged"""
    return tok.replace("E", "e") if NUM.match(tok) else tok


def dms_field(sign, d, m, s, w):
    """'DDD MM SS.S' (w = 3 for longitudes/latitudes: the field is 11 wide)"""
    deg = ("-%d" % d) if sign == "-" else "%d" % d
    return "%*s %2d %4.1f" % (w, deg, m, s)


def concretise(adoc, rnd, np_):
    """abstract document (ent, vel, tri, bd, comm) -> concrete texts.  ids: parameter k of the start
    document has id k.  Returns the dict that is logged with the trace (T.text in Trace_Sinex)."""
    ent = adoc["ent"]                       # list of [site, soln]
    vel = adoc["vel"]
    sites = []
    for s, _ in ent:
        if s not in sites:
            sites.append(s)
    letters = "ABCDEFGHIJKLMNOPQRSTUVWXYZ0123456789"
    codes = {}
    used = set()
    for s in sites:
        while True:
            c = "".join(rnd.choice(letters) for _ in range(4))
            if c not in used and c not in ("CODE", "SOLU", "SITE"):
                break
        used.add(c)
        codes[s] = c
    ag = rnd.choice(AGENCIES)
    dag = rnd.choice(AGENCIES)
    yy = rnd.choice([20, 21, 99, 0, 9])
    start = "%02d:%03d:%05d" % (yy, rnd.randint(1, 200), rnd.choice([0, 30, 43200]))
    end = "%02d:%03d:%05d" % (yy, rnd.randint(201, 365), rnd.choice([0, 86370, 86399]))
    hdr = {"ver": "2.02", "ag": ag, "ctime": adoc.get("ctime") or "%02d:%03d:%05d" % (rnd.choice([20, 26]), rnd.randint(1, 365), rnd.randint(0, 86399)),
           "dag": dag, "start": start, "end": end, "tech": rnd.choice("PCLR"), "cons": rnd.choice("012"),
           "sol": "S V" if vel else "S"}
    sitef = {}
    siteline = {}
    for s in sites:
        lon = ("+", rnd.choice([0, rnd.randint(0, 359)]), rnd.randint(0, 59), rnd.randint(0, 599) / 10.0)   # I3: 0..359 east
        lat = (rnd.choice("+-"), rnd.choice([0, 0, rnd.randint(0, 89)]), rnd.randint(0, 59), rnd.randint(0, 599) / 10.0)
        h = rnd.choice([rnd.randint(-4000, 88000) / 10.0, rnd.randint(-99, 99) / 10.0, rnd.randint(10000, 88000) / 10.0])
        pt = rnd.choice([" A", " A", " B"])
        domes = "%05d%s%03d" % (rnd.randint(10000, 99999), rnd.choice("MS"), rnd.randint(1, 999))
        tech = hdr["tech"]
        desc = rnd.choice(["Alice Springs, AU", "Mt Stromlo", "X", "Station %d (test) pillar" % s, "a  b"])[:22]
        sitef[s] = [codes[s], pt.strip(), domes, tech, desc,
                    lon[0], str(lon[1]), str(lon[2]), "%.1f" % lon[3],
                    lat[0], str(lat[1]), str(lat[2]), "%.1f" % lat[3], "%.1f" % h]
        siteline[s] = (" %4s %2s %9s %1s %-22s %s %s %7.1f" % (
            codes[s], pt, domes, tech, desc, dms_field(*lon, 3), dms_field(*lat, 3), h)).rstrip()
    entline = []
    entf = []
    epochs = []
    for (s, so) in ent:
        ep = "%02d:%03d:%05d" % (yy, rnd.randint(1, 365), rnd.choice([0, 43200]))
        epochs.append(ep)
        pt = " " + sitef[s][1]
        entline.append(" %4s %2s %4d %1s %12s %12s %12s" % (codes[s], pt, so, hdr["tech"], start, end, ep))
        entf.append([codes[s], str(so), ep])
    types_ = ["STAX", "STAY", "STAZ"] + (["VELX", "VELY", "VELZ"] if vel else [])
    estrest = []     # text of an estimate record after the index field (columns 6..)
    estval = []
    estsd = []
    k = 0
    for ei, (s, so) in enumerate(ent):
        pt = " " + sitef[s][1]
        for t in types_:
            k += 1
            if t.startswith("STA"):
                v = rnd.uniform(-6.4e6, 6.4e6)
                sd = rnd.uniform(1e-4, 9e-3)
                unit = "m"
            else:
                v = rnd.uniform(-0.09, 0.09)
                sd = rnd.uniform(1e-6, 9e-4)
                unit = "m/y"
            if rnd.random() < 0.05:
                v = 0.0
            vt, st = e21(v), e11(sd)
            estrest.append(" %-6s %4s %2s %4d %12s %-4s %1s %s %s" % (t, codes[s], pt, so, epochs[ei], unit, hdr["cons"], vt, st))
            estval.append(vt.strip())
            estsd.append(st.strip())
    n = k
    # random positive-definite covariance (lower Cholesky factor with positive diagonal); block diagonal
    # per station entry when adoc["bd"]
    per = len(types_)
    L = np_.zeros((n, n))
    for i in range(n):
        for j in range(i + 1):
            if adoc["bd"] and i // per != j // per:
                continue
            L[i, j] = rnd.uniform(0.2, 1.0) if i == j else rnd.uniform(-0.5, 0.5)
    C = (L @ L.T) * 1e-6
    cov = []         # cov[i][j], j <= i : token (lower storage, by parameter id)
    for i in range(n):
        row = []
        for j in range(i + 1):
            x = float(C[i, j])
            if adoc["bd"] and i // per != j // per:
                x = 0.0
            row.append(e21(x).strip())
        cov.append(row)
    comm = []
    if adoc["comm"]:
        comm = ["* generated by the C18 harness", " station list edited; see the log", "* %d parameters" % n]
    return {"hdr": hdr, "codes": [codes[s] for s in sites], "sites": sites, "sitef": [sitef[s] for s in sites],
            "siteline": [siteline[s] for s in sites], "entline": entline, "entf": entf,
            "estrest": estrest, "estval": estval, "estsd": estsd, "cov": cov, "comm": comm, "n": n}


def matrix_lines(n, tri, tok, drop_zero=False):
    """dense SINEX layout: three values per line; L: row i, columns 1..i; U: row i, columns i..n"""
    out = []
    for i in range(1, n + 1):
        cols = range(1, i + 1) if tri == "L" else range(i, n + 1)
        cols = list(cols)
        for a in range(0, len(cols), 3):
            ch = cols[a:a + 3]
            vals = [tok(i, j) for j in ch]
            if drop_zero and all(float(v) == 0.0 for v in vals):
                continue
            out.append(" %5d %5d" % (i, ch[0]) + "".join(" %21s" % v for v in vals))
    return out


def render(adoc, txt):
    """the start document as SINEX 2.02 text (every parameter k has id k)"""
    h = txt["hdr"]
    n = txt["n"]
    lines = ["%%=SNX %s %s %s %s %s %s %s %05d %s %s" % (h["ver"], h["ag"], h["ctime"], h["dag"], h["start"], h["end"],
                                                          h["tech"], n, h["cons"], h["sol"])]
    lines.append(SEP)
    if adoc["comm"]:
        lines.append("+FILE/COMMENT")
        lines += txt["comm"]
        lines.append("-FILE/COMMENT")
        lines.append(SEP)
    lines.append("+SITE/ID")
    lines.append("*CODE PT __DOMES__ T _STATION DESCRIPTION__ APPROX_LON_ APPROX_LAT_ _APP_H_")
    lines += txt["siteline"]
    lines.append("-SITE/ID")
    lines.append(SEP)
    lines.append("+SOLUTION/EPOCHS")
    lines.append("*CODE PT SOLN T _DATA_START_ __DATA_END__ _MEAN_EPOCH_")
    lines += txt["entline"]
    lines.append("-SOLUTION/EPOCHS")
    lines.append(SEP)
    lines.append("+SOLUTION/ESTIMATE")
    lines.append("*INDEX TYPE__ CODE PT SOLN _REF_EPOCH__ UNIT S __ESTIMATED VALUE____ _STD_DEV___")
    for k, r in enumerate(txt["estrest"]):
        lines.append(" %5d%s" % (k + 1, r))
    lines.append("-SOLUTION/ESTIMATE")
    lines.append(SEP)
    lines.append("+SOLUTION/MATRIX_ESTIMATE %s COVA" % adoc["tri"])
    lines.append("*PARA1 PARA2 ____PARA2+0__________ ____PARA2+1__________ ____PARA2+2__________")
    cov = txt["cov"]
    lines += matrix_lines(n, adoc["tri"], lambda i, j: cov[max(i, j) - 1][min(i, j) - 1])
    lines.append("-SOLUTION/MATRIX_ESTIMATE")
    lines.append("%ENDSNX")
    return "\n".join(lines) + "\n"


# --------------------------------------------------------------------------------------------
# the projection: file text -> line tokens (purely lexical)
# --------------------------------------------------------------------------------------------
def tokenize(text):
    """Every physical line becomes {"k": kind, "raw": text without trailing blanks, "w": blank-separated
    fields (numbers with a lower-case exponent letter), "n": the same fields as unsigned integers (-1 if a
    field is not all digits), "nm": block name for +/- lines}.
    kind by the first character only: '%=SNX' header, '%ENDSNX' (whole line) trailer, '+' open,
    '-' close, '*' comment, ' ' data, '' blank, anything else 'other'."""
    parts = text.split("\n")
    if parts and parts[-1] == "":
        parts = parts[:-1]
    out = []
    for p in parts:
        raw = p.rstrip()
        w = [norm(x) for x in raw.split()]
        nm = ""
        if raw.startswith("%=SNX"):
            k = "header"
        elif raw == "%ENDSNX":
            k = "trailer"
        elif raw.startswith("+"):
            k = "open"
            nm = w[0][1:] if w else ""
        elif raw.startswith("-"):
            k = "close"
            nm = raw[1:]
        elif raw.startswith("*"):
            k = "comment"
        elif raw == "":
            k = "blank"
        elif p.startswith(" "):
            k = "data"
        else:
            k = "other"
        out.append({"k": k, "raw": raw, "w": w, "n": [int(x) if (x.isdigit() and len(x) < 10) else -1 for x in w], "nm": nm})
    return out


# --------------------------------------------------------------------------------------------
# projections of the readers' return values onto the lattice of the written fields
# --------------------------------------------------------------------------------------------
def est_obs(est):
    out = []
    for t in est:
        row = [str(t[0]), str(t[1]), str(t[2])]
        vals = list(t[3:])
        half = 3
        # (x, y, z, sx, sy, sz[, vx, vy, vz, svx, svy, svz])
        for blk in range(0, len(vals), 6):
            row += ["%.14e" % float(v) for v in vals[blk:blk + half]]
            row += ["%.5e" % float(v) for v in vals[blk + half:blk + 6]]
        out.append(row)
    return out


def mat_obs(mat):
    return [[str(t[0]), str(t[1])] + ["%.14e" % float(v) for v in t[2:]] for t in mat]


def dms_obs(a):
    return ["+" if a.positive else "-", str(int(a.degree)), str(int(a.minute)), "%.1f" % float(a.second)]


def sites_obs(sites):
    out = []
    for t in sites:
        out.append([str(t[0]).strip(), str(t[1]).strip(), str(t[2]).strip(), str(t[3]).strip(), str(t[4]).strip()]
                   + dms_obs(t[5]) + dms_obs(t[6]) + ["%.1f" % float(t[7])])
    return out
