"""C05 - inverse geodesic solution is exact, symmetric and longitude-shift invariant (driver shared with C04)."""
from harness.props import c04


def run(ctx):
    c04.run_family(ctx, "C05")
    ctx.rule = ("exact cases: every ordered pair of 31 Pythagorean latitudes on one meridian (distance = difference of meridian arcs "
                "from MeridianArc, azimuths 0/180) and equatorial pairs up to 178 deg (a * dlambda) on 4 shipped + 2 random ellipsoids; "
                "own laws (swap symmetry, common longitude offset incl. +-360 and pairs straddling +-180, coincident points, azimuth "
                "range) and closure with the direct routine on samples in every case of the TLC-enumerated skeleton latitude band x "
                "latitude band x longitude-difference class x ellipsoid, spherical separation <= 177.5 deg; the EXACT geodesic "
                "(GeodesicOracle: Bessel/Helmert integrals by Romberg quadrature inside the specification) followed from point 1 with the "
                "returned distance and azimuth must arrive within 2 mm of point 2 with the returned reverse azimuth (IGE events, a third of the "
                "skeleton cases in quick, every case in thorough, plus nearly antipodal pairs 177..177.96 deg apart); distinct = distinct events")
    ctx.assumptions += ["closure uses the direct routine as an instrument, guarded: a closure failure is charged to C05 only when the "
                        "direct routine is self-consistent (reversal) on that very line, otherwise it is attributed to C04",
                        "exact-geodesic clauses do not apply (reported not_applicable by the specification) to lines whose cos(alpha0) < 1e-3, "
                        "i.e. running within 0.06 deg of the equator's direction; the equator itself is the IEQ closed form",
                        "the four shipped ellipsoids are judged on their PUBLISHED constants (spec/Ellipsoids.tla)",
                        "azimuth tolerances 'moves the far end by 1 mm' use the lower bound 0.99 * 6.3e6 * sin(sigma) of the reduced length"]


def replay(ctx, data):
    c04.replay(ctx, data, "C05")
