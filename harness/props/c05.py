"""C05 - inverse geodesic solution is exact, symmetric and longitude-shift invariant (driver shared with C04)."""
from harness.props import c04


def run(ctx):
    c04.run_family(ctx, "C05")
    ctx.rule = ("exact cases: every ordered pair of 31 Pythagorean latitudes on one meridian (distance = difference of meridian arcs "
                "from MeridianArc, azimuths 0/180) and equatorial pairs up to 178 deg (a * dlambda) on 4 shipped + 2 random ellipsoids; "
                "own laws (swap symmetry, common longitude offset incl. +-360 and pairs straddling +-180, coincident points, azimuth "
                "range) and closure with the direct routine on samples in every case of the TLC-enumerated skeleton latitude band x "
                "latitude band x longitude-difference class x ellipsoid, spherical separation <= 177.5 deg; distinct = distinct events")
    ctx.assumptions += ["closure uses the direct routine as an instrument, guarded: a closure failure is charged to C05 only when the "
                        "direct routine is self-consistent (reversal) on that very line, otherwise it is attributed to C04",
                        "NOT decided: accuracy of oblique lines beyond what closure with the direct routine shows",
                        "azimuth tolerances 'moves the far end by 1 mm' use the lower bound 0.99 * 6.3e6 * sin(sigma) of the reduced length"]


def replay(ctx, data):
    c04.replay(ctx, data, "C05")
