"""C06 / C07 - 7- and 14-parameter transformation (geodepy.transform).

spec/Helmert.tla holds the similarity formula, its covariance propagation and the second-order
reversal bound in exact fixed-point arithmetic, on top of spec/Catalogue.tla (live catalogue,
ShiftSet).  Audit_Helmert decides the formula-level statements on the live catalogue;
Trace_Helmert validates chains of real calls.  This module serves C06 (conform7) and, through
harness/props/c07.py, C07 (conform14 and the ATRF helpers).
"""
import datetime
import json
import os
import random
import shutil
import tempfile
from fractions import Fraction

from harness import fix, tlc, tracecheck
from harness.props import c11

D = datetime.date


def _mods():
    import numpy as np
    import geodepy.constants as gc
    import geodepy.transform as tf
    return np, gc, tf


def hx(*v):
    return ",".join(float(x).hex() for x in v)


def vec(v):
    return [fix.enc(float(x)) for x in v]


def mat(m):
    return [[fix.enc(float(m[i, j])) for j in range(3)] for i in range(3)]


def sd7(gc, t):
    s = t.tf_sd
    if not isinstance(s, gc.TransformationSD):
        return []
    return [fix.enc(float(getattr(s, k))) for k in ("sd_tx", "sd_ty", "sd_tz", "sd_sc", "sd_rx", "sd_ry", "sd_rz")]


def octant_points(rnd, n, lim):
    pts = []
    for k in range(n):
        mag = rnd.choice([lim, lim / 7.8, 6.4e6, 1.0, 1234.5678]) * rnd.uniform(0.2, 1.0)
        p = [round(rnd.uniform(0.05, 1.0) * mag * (1 if (k >> b) & 1 else -1), 4) for b in range(3)]
        pts.append(p)
    pts.append([-4052052.7379, 4212835.9897, -2545104.5898])
    return pts


def psd_inputs(np, rnd):
    """symmetric positive semi-definite 3x3 inputs incl. rank-deficient, diagonal, badly scaled"""
    out = []
    v = np.array([[rnd.randint(-9, 9)], [rnd.randint(-9, 9)], [rnd.randint(1, 9)]], dtype=float)
    out.append((v @ v.T) * 1e-6)                                # rank 1
    a = np.array([[rnd.randint(-5, 5) for _ in range(3)] for _ in range(3)], dtype=float)
    out.append((a @ a.T + np.eye(3)) * 1e-5)                    # full rank
    out.append(np.diag([4e-4, 9e-6, 1.6e-3]))                   # diagonal
    out.append(np.diag([1.0, 1e-8, 1e-4]))                      # condition 1e8
    out.append(np.zeros((3, 3)))                                # zero
    w = np.array([[1.0], [1.0], [0.0]])
    out.append((w @ w.T) * 2.5e-7 + (v @ v.T) * 1e-9)           # rank 2
    out.append(np.array([[4, 1, 0], [1, 9, 2], [0, 2, 16]]))    # the same kind of matrix held in an INTEGER array
    out.append(np.eye(3, dtype=int))
    out.append(np.array([[4.0e-4, 0, 0], [0, 9.0e-4, 0], [0, 0, 1.6e-3]], dtype=np.float32).astype(np.float32))   # single precision
    return out


class Driver:
    def __init__(self, cat):
        self.np, self.gc, self.tf = _mods()
        self.cat = cat
        self.idx = {c["name"]: i for i, c in enumerate(cat, 1)}
        self.calls = 0

    def event(self, a, name, p, neg=False, e=None, vin=None, closes=False, rset=None, sd_built=None, form="float"):
        """one call on the real code -> event.  `form`: how the three coordinates are handed over - Python floats (default), Python
        ints, numpy int64 / float64 scalars (whole-metre coordinates: the same numbers, so the same oracle; round 9, C06-r9-1)"""
        np, gc, tf = self.np, self.gc, self.tf
        if form != "float":
            if any(float(v) != int(v) for v in p):
                raise tlc.MachineryError("form %s needs whole-metre coordinates" % form)
            p = [{"int": int, "npint": np.int64, "npfloat": np.float64}[form](int(v)) for v in p]
        if rset is None:
            trans = getattr(gc, name)
            if neg:
                trans = -trans
            ev = {"idx": self.idx[name], "p14": [], "ep": 0}
        else:
            trans, p14, ep = rset
            ev = {"idx": 0, "p14": p14, "ep": ep}
        ev.update({"a": a, "neg": bool(neg), "e": e.toordinal() if e else 0, "in": vec(p), "inhex": hx(*p),
                   "out": vec([0, 0, 0]), "outhex": "", "refhex": "", "vin": [] if vin is None else mat(vin), "vout": [],
                   "sd": sd_built if sd_built is not None else sd7(gc, trans), "closes": bool(closes), "exc": "", "name": name or "random", "form": form})
        try:
            self.calls += 1
            if a == "C7":
                x, y, z, v = tf.conform7(p[0], p[1], p[2], trans, vin)
                if v is not None:
                    ev["vout"] = mat(np.asarray(v, dtype=float))
            elif a == "C14":
                x, y, z, v = tf.conform14(p[0], p[1], p[2], e, trans)
                self.calls += 1
                ev["refhex"] = hx(*tf.conform7(p[0], p[1], p[2], trans)[:3])
            elif a == "A2G":
                x, y, z, v = tf.transform_atrf2014_to_gda2020(p[0], p[1], p[2], e)
                self.calls += 1
                ev["refhex"] = hx(*tf.conform14(p[0], p[1], p[2], e, gc.atrf2014_to_gda2020)[:3])
            elif a == "G2A":
                x, y, z, v = tf.transform_gda2020_to_atrf2014(p[0], p[1], p[2], e)
                self.calls += 1
                ev["refhex"] = hx(*tf.conform14(p[0], p[1], p[2], e, -gc.atrf2014_to_gda2020)[:3])
            else:
                raise tlc.MachineryError(a)
            ev["out"] = vec([x, y, z])
            ev["outhex"] = hx(x, y, z)
            return ev, (x, y, z)
        except tlc.MachineryError:
            raise
        except Exception as ex:
            ev["exc"] = "%s: %s" % (type(ex).__name__, str(ex)[:100])
            return ev, None

    def random_set(self, rnd, dated, limits=False):
        gc = self.gc
        vals = [round(rnd.uniform(-1000, 1000), 4), round(rnd.uniform(-1000, 1000), 4), round(rnd.uniform(-1000, 1000), 4),
                round(rnd.uniform(-100, 100), 6), round(rnd.uniform(-59.9, 59.9), 7), round(rnd.uniform(-59.9, 59.9), 7),
                round(rnd.uniform(-59.9, 59.9), 7)]
        if not limits and rnd.random() < 0.3:
            vals = [round(v / 1000.0, 7) for v in vals]
        elif limits or rnd.random() < 0.3:
            # the limits of the quantifier: |t| = 1000 m, |scale| = 100 ppm, rotations a hair below one arc-minute
            # (a dated set is advanced by up to 0.002"/yr x 80 yr before the 7-parameter formula sees it: keep the advanced rotation
            #  below one arc-minute too, or the call leaves the domain of C06 / C07)
            vals = [rnd.choice([-1000.0, 1000.0]), vals[1], rnd.choice([-1000.0, 1000.0]), rnd.choice([-100.0, 100.0]),
                    rnd.choice([-59.5, 59.5] if dated else [-59.99, 59.99, 59.999]), vals[5],
                    rnd.choice([-59.5, 59.5] if dated else [-59.99, 59.9999])]
        rates = [round(rnd.uniform(-0.01, 0.01), 5) for _ in range(3)] + [round(rnd.uniform(-0.001, 0.001), 6)] + \
                [round(rnd.uniform(-0.002, 0.002), 7) for _ in range(3)] if dated else [0.0] * 7
        ep = D(rnd.choice([1994, 2000, 2010, 2020]), 1, 1) if dated else 0
        t = gc.Transformation("A", "B", ep, *vals, *rates)
        return (t, [fix.enc(float(v)) for v in vals + rates], ep.toordinal() if dated else 0)


def audit(ctx, dumpfile):
    r = tlc.run_tlc("Audit_Helmert", "Audit_Helmert.cfg", workers=12, tags=("FAIL",), extra_files=[dumpfile], timeout=3000)
    ctx.add_tlc(r, "Audit_Helmert: formula on every shipped set x 9 points (reversal figures, reference epoch, identity at 2020)")
    for f in r.tagged("FAIL"):
        ctx.violation({"clause": "formula_on_catalogue", "set": f[1]},
                      "set %s point %s: reversal_abs=%s bound=%s ref_epoch=%s identity=%s" % tuple(f[1:7]), case={"kind": "audit"})


def traces_c06(drv, rnd, quick):
    np, gc = drv.np, drv.gc
    traces = []
    names = [c["name"] for c in drv.cat]
    pts = octant_points(rnd, 8 if quick else 40, 5e7)
    # every shipped set, forward then its negation, on points in every octant
    for i, n in enumerate(names):
        for p in (pts[i % len(pts)], pts[(i * 7 + 3) % len(pts)]) if quick else pts:
            e1, o = drv.event("C7", n, p)
            evs = [e1]
            if o is not None:
                e2, _ = drv.event("C7", n, list(o), neg=True, closes=True)
                evs.append(e2)
            traces.append({"kind": "pair", "ev": evs})
    # random sets in the stated ranges
    for k in range(60 if quick else 3000):
        rs = drv.random_set(rnd, False)
        p = rnd.choice(pts)
        e1, o = drv.event("C7", None, p, rset=rs)
        evs = [e1]
        if o is not None:
            t, p14, ep = rs
            e2, _ = drv.event("C7", None, list(o), rset=(-t, [fix.enc(-fix.dec(x)) for x in p14], ep), closes=True)
            evs.append(e2)
        traces.append({"kind": "random_pair", "ev": evs})
    # covariance: sets with and without uncertainties x PSD inputs
    with_sd = [c["name"] for c in drv.cat if c["has_sd"]]
    without = ["agd66_to_gda94", "itrf2014_to_itrf2008", "gda94_to_agd84"]
    for n in (with_sd if not quick else with_sd[:6]) + without:
        for v in psd_inputs(np, rnd):
            for neg in (False, True):
                ev, _ = drv.event("C7", n, rnd.choice(pts[:8] + pts[-1:]), neg=neg, vin=v)
                traces.append({"kind": "vcv", "ev": [ev]})
        ev, _ = drv.event("C7", n, pts[-1], vin=None)
        traces.append({"kind": "vcv_absent", "ev": [ev]})
    # covariance with parameter sets AND uncertainties built by the caller (seven DIFFERENT one-sigma values: the shipped GDA94->GDA2020
    # uncertainties happen to have sd_rx = sd_rz); the specification is given the numbers the objects were built with
    for k in range(12 if quick else 200):
        t, p14, ep = drv.random_set(rnd, False)
        sds = [round(rnd.uniform(1e-4, 9e-3), 5) for _ in range(3)] + [round(rnd.uniform(1e-4, 9e-3), 6)] + \
              [round(rnd.uniform(1e-5, 9e-4) * (i + 1), 7) for i in range(3)]
        t.tf_sd = gc.TransformationSD(*sds)
        for v in psd_inputs(np, rnd)[k % 3::3]:
            ev, _ = drv.event("C7", None, rnd.choice(pts[:8] + pts[-1:]), vin=v, rset=(t, p14, ep), sd_built=[fix.enc(x) for x in sds])
            traces.append({"kind": "vcv_built", "ev": [ev]})
    # the far corner of the quantifier, constructed in every run: a set at the limits (|t| = 1000 m, |scale| = 100 ppm, rotations a
    # hair below one arc-minute) applied to the corner |x| = |y| = |z| = 5e7 m of every octant - where a relative error of the
    # rotation (a shortened unit constant) weighs most: rotation x coordinate = 14.5 km
    for k in range(8 if quick else 64):
        rs = drv.random_set(rnd, False, limits=True)
        c = 5.0e7 if k < 8 else round(rnd.uniform(3.0e7, 5.0e7), 4)
        p = [c * (1 if (k >> b) & 1 else -1) for b in range(3)]
        e1, o = drv.event("C7", None, p, rset=rs)
        evs = [e1]
        if o is not None:
            t, p14, ep = rs
            e2, _ = drv.event("C7", None, list(o), rset=(-t, [fix.enc(-fix.dec(x)) for x in p14], ep), closes=True)
            evs.append(e2)
        traces.append({"kind": "random_pair", "ev": evs})
    traces += traces_forms(drv, rnd, quick, "C7")
    return traces


def traces_forms(drv, rnd, quick, a):
    """the same calls with the coordinates in another legal FORM: whole-metre coordinates as Python ints, numpy int64 and numpy
    float64 scalars, in every octant, shipped sets with the largest rotations and random sets (also at the limits), with and
    without a covariance - the formula is the same, only the type of x, y, z differs (an integer work array truncates the result)"""
    np = drv.np
    traces = []
    forms = ["int", "npint", "npfloat"]
    big = [n for n in ("agd66_to_gda94", "agd84_to_gda94", "gda94_to_gda2020", "itrf2014_to_gda2020", "atrf2014_to_gda2020",
                       "itrf2008_to_gda94") if n in drv.idx]
    for k in range(18 if quick else 240):
        form = forms[k % 3]
        mag = [6.4e6, 5.0e7, 2.0e7, 1234.0][(k // 3) % 4]
        p = [int(rnd.uniform(0.3, 1.0) * mag) * (1 if ((k // 3) >> b) & 1 else -1) for b in range(3)]
        if k % 2 == 0 and big:
            e1, _ = drv.event(a, big[(k // 2) % len(big)], p, form=form)
        else:
            rs = drv.random_set(rnd, False, limits=(k % 4 == 1))
            vin = psd_inputs(np, rnd)[k % 5] if k % 3 == 1 else None
            e1, _ = drv.event(a, None, p, rset=rs, form=form, vin=vin)
        traces.append({"kind": "forms", "ev": [e1]})
    return traces


def run_common(ctx, which):
    rnd = random.Random(ctx.seed)
    quick = ctx.tier == "quick"
    np, gc, tf = _mods()
    cat = c11.dump(gc)
    d = tempfile.mkdtemp(prefix="gvf_helm_")
    try:
        dumpfile, eps = c11.write_catdump(cat, d)
        drv = Driver(cat)
        audit(ctx, dumpfile)
        if which == "C06":
            traces = traces_c06(drv, rnd, quick)
        else:
            from harness.props import c07
            traces = c07.traces_c07(drv, rnd, quick, eps)
        ctx.evaluations = drv.calls
        fails, _ = tracecheck.validate("Trace_Helmert", "Trace_Helmert.cfg", traces, ctx, "Trace_Helmert", min_chunk=40,
                                       timeout=3000, extra_files=[dumpfile])
        report(traces, fails, ctx)
        ctx.selftest(selftest, drv, dumpfile, which)
    finally:
        shutil.rmtree(d, ignore_errors=True)
    for t in traces:
        ctx.nontrivial(json.dumps([(e["a"], e["name"], e["neg"], e["e"], e["inhex"], len(e["vin"])) for e in t["ev"]]))
        for e in t["ev"]:
            ctx.actions[e["a"]] = ctx.actions.get(e["a"], 0) + 1
    for t in traces[:1] + traces[len(traces) // 2:len(traces) // 2 + 1] + traces[-1:]:
        ctx.sample([{"call": e["a"], "set": e["name"], "negated": e["neg"],
                     "epoch": str(D.fromordinal(e["e"])) if e["e"] else None, "in": e["inhex"], "out": e["outhex"],
                     "vcv": bool(e["vin"])} for e in t["ev"]])
    return traces


def run(ctx):
    traces = run_common(ctx, "C06")
    ctx.rule = ("every one of the %d shipped sets forward then negated on points in all octants (|coord| up to 5e7 m), random sets "
                "(|t| <= 1000 m, |scale| <= 100 ppm, |rotation| < 60\"), covariance inputs rank-1 / rank-2 / full / diagonal / "
                "condition 1e8 / zero x sets with and without uncertainties x both directions; the formula-level audit enumerates "
                "all sets x 9 points inside TLC; distinct = distinct call chains; the repository tests transform 3 points with 2 sets"
                % len([t for t in traces if t["kind"] == "pair"]))
    ctx.assumptions += ["pi is bracketed at 1e-20; fixed-point truncation 1e-20 per product",
                        "covariance tolerance relative 1e-9 of the trace (+1e-18 absolute floor)"]


def describe(tr, l, clause):
    d = {"clause": clause.split(".")[-1]}
    if l:
        ev = tr["ev"][l - 1]
        d["call"] = ev["a"]
        if ev["idx"]:
            d["set"] = ev["name"]
        if ev.get("form", "float") != "float":
            d["form"] = ev["form"]
    return d


def report(traces, fails, ctx):
    for (i, l, clause) in fails:
        tr = traces[i]
        ctx.violation(describe(tr, l, clause), "event %s" % json.dumps({k: v for k, v in (tr["ev"][l - 1] if l else {}).items()
                                                                          if k in ("a", "name", "neg", "e", "inhex", "outhex", "refhex", "exc", "closes")}),
                      case={"trace": tr})


def selftest(drv, dumpfile, which):
    import copy
    p = [-4052052.7379, 4212835.9897, -2545104.5898]
    if which == "C06":
        e1, o = drv.event("C7", "gda94_to_gda2020", p, vin=drv.np.diag([4e-4, 9e-4, 1.6e-3]))
        e2, _ = drv.event("C7", "gda94_to_gda2020", list(o), neg=True, closes=True)
    else:
        e1, o = drv.event("C14", "itrf2008_to_gda94", p, e=D(2020, 1, 1))
        e2, _ = drv.event("C14", "itrf2008_to_gda94", list(o), neg=True, e=D(2020, 1, 1), closes=True)
    base = {"kind": "selftest", "ev": [e1, e2]}
    t1 = copy.deepcopy(base)
    t1["ev"][0]["out"][0] = fix.enc(fix.dec(t1["ev"][0]["out"][0]) + Fraction(5, 10 ** 6))       # +5 um on x
    t2 = copy.deepcopy(base)
    t2["ev"][1]["inhex"] = t2["ev"][1]["inhex"].replace("0x1.", "0x1.1", 1)                          # broken chain
    t3 = copy.deepcopy(base)
    if which == "C06":
        t3["ev"][0]["vout"][0][0] = fix.enc(fix.dec(t3["ev"][0]["vout"][0][0]) * (1 + Fraction(1, 10 ** 6)))
    else:
        t3["ev"][0]["e"] += 30                                                                        # a month off
    fails, _ = tracecheck.validate("Trace_Helmert", "Trace_Helmert.cfg", [base, t1, t2, t3], None, None, extra_files=[dumpfile])
    rej = {i: c for (i, l, c) in fails}
    out = {"baseline_accepted": 0 not in rej, "x_plus_5um_rejected": rej.get(1, ""), "broken_chain_rejected": rej.get(2, ""),
           ("vcv_1e-6_rejected" if which == "C06" else "epoch_plus_30d_rejected"): rej.get(3, "")}
    if 0 in rej or not all(k in rej for k in (1, 2, 3)):
        raise tlc.MachineryError("binding self-test failed: %s" % out)
    return out


def replay(ctx, data, which="C06"):
    np, gc, tf = _mods()
    cat = c11.dump(gc)
    c = data["case"]
    if c.get("kind") == "audit":
        run_common(ctx, which)
        return
    drv = Driver(cat)
    old = c["trace"]
    evs = []
    for e in old["ev"]:
        p = [float(fix.dec(x)) for x in e["in"]]
        if e["idx"] == 0:
            print("random-set events are re-validated from the recorded observation (set object not reconstructible bit-exactly)")
            evs.append(e)
            continue
        vin = None
        if e["vin"]:
            vin = np.array([[float(fix.dec(x)) for x in row] for row in e["vin"]])
        ne, _ = drv.event(e["a"], e["name"], p, neg=e["neg"], e=D.fromordinal(e["e"]) if e["e"] else None, vin=vin,
                          closes=e["closes"])
        evs.append(ne)
    d = tempfile.mkdtemp(prefix="gvf_helm_")
    try:
        dumpfile, _ = c11.write_catdump(cat, d)
        tr = {"kind": "replay", "ev": evs}
        fails, _ = tracecheck.validate("Trace_Helmert", "Trace_Helmert.cfg", [tr], ctx, "replay", extra_files=[dumpfile])
    finally:
        shutil.rmtree(d, ignore_errors=True)
    report([tr], fails, ctx)
    print("replayed %d events: %s" % (len(evs), fails if fails else "accepted"))
