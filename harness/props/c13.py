"""C13 - MGA94 <-> MGA2020 transformations are mutual inverses and match their definition.

spec/Mga.tla (the five-step behaviour with height and covariance rules) is model-checked; the driver
calls the public pipeline AND the public step functions itself; spec/Trace_Mga.tla consumes the stage
events with Mga's actions and decides chain continuity, equality with the stepwise composition,
height / covariance / natural-zone rules, the Helmert stage against Helmert.tla, and the round trip.
"""
import json
import random

from harness import fix, tlc, tracecheck

PN = ["tx", "ty", "tz", "sc", "rx", "ry", "rz", "d_tx", "d_ty", "d_tz", "d_sc", "d_rx", "d_ry", "d_rz"]


def _mods():
    import numpy as np
    import geodepy.constants as gc
    import geodepy.convert as cv
    import geodepy.transform as tf
    import geodepy.statistics as st
    return np, gc, cv, tf, st


def hx(*v):
    return ",".join(float(x).hex() if not isinstance(x, (int, str)) else str(x) for x in v)


def E_(x):
    return fix.enc(float(x))


def ahex(m):
    import numpy as np
    return ",".join(float(x).hex() for x in np.asarray(m, dtype=float).ravel())


class Drv:
    def __init__(self):
        self.np, self.gc, self.cv, self.tf, self.st = _mods()
        self.calls = 0

    def vcv_input(self, kind, rnd):
        np = self.np
        if kind == "none":
            return None
        if kind == "m31":
            if rnd.random() < 0.15:
                return np.zeros((3, 1))                             # a known-exactly point: zero variances are a legal PSD input
            return np.array([[rnd.choice([4e-4, 1e-6, 2.5e-3])], [rnd.choice([9e-4, 1e-6])], [rnd.choice([1.6e-3, 4e-6])]])
        c = rnd.randrange(4)
        if c == 3:
            return np.zeros((3, 3))
        if c == 0:
            v = np.array([[rnd.randint(-9, 9)], [rnd.randint(-9, 9)], [rnd.randint(1, 9)]], dtype=float)
            return (v @ v.T) * 1e-6                               # rank 1
        if c == 1:
            a = np.array([[rnd.randint(-5, 5) for _ in range(3)] for _ in range(3)], dtype=float)
            return (a @ a.T + np.eye(3)) * 1e-5
        return np.diag([4e-4, 9e-6, 1.6e-3])

    def one(self, direction, zone, e, n, htcls, h, vcvkind, rnd, roundtrip=True):
        np, gc, cv, tf, st = self.np, self.gc, self.cv, self.tf, self.st
        fwd = tf.transform_mga94_to_mga2020 if direction == "94to2020" else tf.transform_mga2020_to_mga94
        bwd = tf.transform_mga2020_to_mga94 if direction == "94to2020" else tf.transform_mga94_to_mga2020
        trans = gc.gda94_to_gda2020 if direction == "94to2020" else -gc.gda94_to_gda2020
        p14 = [E_(getattr(gc.gda94_to_gda2020, k)) for k in PN]
        vin = self.vcv_input(vcvkind, rnd)
        tr = {"dir": direction, "ht": htcls, "vcv": vcvkind, "in": [zone, e, n, h], "ev": []}
        args = (zone, e, n) + (() if htcls == "absent" else (h,))
        stages = []
        try:
            # --- the driver's own stepwise composition of public functions ---
            self.calls += 5
            lat, lon, psf, gcv = cv.grid2geo(zone, e, n)
            stages.append({"k": "stage", "name": "grid2geo", "exc": "", "inhex": hx(zone, e, n), "outhex": hx(lat, lon)})
            h_in = 0 if htcls == "absent" else h
            vc = None
            if vin is not None:
                vloc = np.diagflat(vin) if vin.shape == (3, 1) else vin
                vc = st.vcv_local2cart(vloc, lat, lon)
            x, y, z = cv.llh2xyz(lat, lon, h_in)
            stages.append({"k": "stage", "name": "llh2xyz", "exc": "", "inhex": hx(lat, lon), "outhex": hx(x, y, z), "h0": htcls == "absent"})
            x2, y2, z2, v2 = tf.conform7(x, y, z, trans, vc)
            stages.append({"k": "stage", "name": "conform7", "exc": "", "inhex": hx(x, y, z), "outhex": hx(x2, y2, z2),
                           "in": [E_(x), E_(y), E_(z)], "out": [E_(x2), E_(y2), E_(z2)], "p14": p14, "neg": direction != "94to2020"})
            lat2, lon2, h2 = cv.xyz2llh(x2, y2, z2)
            stages.append({"k": "stage", "name": "xyz2llh", "exc": "", "inhex": hx(x2, y2, z2), "outhex": hx(lat2, lon2)})
            vl = st.vcv_cart2local(v2, lat2, lon2) if v2 is not None else None
            hemi, zone2, e2, n2, psf2, gcv2 = cv.geo2grid(lat2, lon2)
            stages.append({"k": "stage", "name": "geo2grid", "exc": "", "inhex": hx(lat2, lon2), "outhex": hx(zone2, e2, n2),
                           "zone": int(zone2), "lon": E_(lon2)})
            hstep = 0 if htcls == "absent" else round(h2, 4)
        except Exception as ex:
            stages.append({"k": "stage", "name": "grid2geo", "exc": "%s: %s" % (type(ex).__name__, str(ex)[:80]), "inhex": "", "outhex": ""})
            tr["ev"] = stages
            return tr
        tr["ev"] = stages
        # --- the pipeline itself ---
        pe = {"k": "pipeline", "exc": "", "rethex": "", "stephex": hx(int(zone2), e2, n2, float(hstep)), "htout": [0], "vout": [],
              "step": {"zone": int(zone2), "e": E_(e2), "n": E_(n2), "h": E_(float(hstep))}, "ret": {"zone": 0, "e": [0], "n": [0], "h": [0]},
              "vstep": [] if vl is None else [[E_(float(np.asarray(vl, dtype=float)[i, j])) for j in range(3)] for i in range(3)]
              if np.asarray(vl).shape == (3, 3) else [],
              "vcv33": True, "vrethex": "", "vstephex": ahex(vl) if vl is not None else "",
              "vin": [] if vin is None else [[E_(float(np.diagflat(vin)[i, j] if vin.shape == (3, 1) else vin[i, j])) for j in range(3)] for i in range(3)],
              "pos1": [E_(lat), E_(lon)], "pos2": [E_(lat2), E_(lon2)], "xyz": [E_(x), E_(y), E_(z)], "p14": p14,
              "neg": direction != "94to2020"}
        try:
            self.calls += 1
            vpass = None if vin is None else vin.copy()
            zr, er, nr, hr, vr = fwd(*args, vcv=vpass) if vin is not None else fwd(*args)
            pe["rethex"] = hx(int(zr), er, nr, float(hr))
            pe["ret"] = {"zone": int(zr), "e": E_(er), "n": E_(nr), "h": E_(float(hr))}
            pe["htout"] = E_(hr)
            if vr is not None:
                vr = np.asarray(vr, dtype=float)
                pe["vcv33"] = vr.shape == (3, 3)
                pe["vout"] = [[E_(vr[i, j]) for j in range(3)] for i in range(3)] if vr.shape == (3, 3) else [[E_(vr[i, 0])] for i in range(3)]
                pe["vrethex"] = ahex(vr)
        except Exception as ex:
            pe["exc"] = "%s: %s" % (type(ex).__name__, str(ex)[:80])
            tr["ev"].append(pe)
            return tr
        tr["ev"].append(pe)
        if roundtrip:
            re_ = {"k": "roundtrip", "exc": "", "zone0": int(zone), "zone2": 0, "e0": E_(e), "n0": E_(n), "e2": [0], "n2": [0],
                   "h0": E_(0.0 if htcls == "absent" else h), "h2": [0], "lat0": E_(lat), "lon0": E_(lon), "lat2": [0], "lon2": [0],
                   "cos0": E_(__import__("math").cos(__import__("math").radians(lat)))}
            try:
                self.calls += 2
                back = bwd(zr, er, nr) if htcls == "absent" else bwd(zr, er, nr, hr)
                latb, lonb, _, _ = cv.grid2geo(back[0], back[1], back[2])
                re_.update({"zone2": int(back[0]), "e2": E_(back[1]), "n2": E_(back[2]), "h2": E_(back[3]), "lat2": E_(latb), "lon2": E_(lonb)})
            except Exception as ex:
                re_["exc"] = "%s: %s" % (type(ex).__name__, str(ex)[:80])
            tr["ev"].append(re_)
        return tr


def validate(traces, ctx, label):
    fails, _ = tracecheck.validate("Trace_Mga", "Trace_Mga.cfg", traces, ctx, label, min_chunk=100, timeout=3000)
    return fails


def cases(drv, rnd, quick):
    cv = drv.cv
    out = []
    zones = list(range(46, 60))
    lats = [-60.0, -45.0, -33.0, -20.0, -5.0]
    for zi, zone in enumerate(zones):
        cm = zone * 6 - 183
        for east in [100000.0, 200000.0, 500000.0, 800000.0, 900000.0]:
            for lat in lats:
                if quick and (zi * 7 + int(east / 1e5) + int(-lat)) % 3:
                    continue
                n0 = cv.geo2grid(lat + rnd.uniform(-2, 2), float(cm))[3]
                out.append((zone, round(east + rnd.uniform(-50, 50), 4), round(n0, 4)))
    # points within 2 m of a zone boundary (the natural zone changes legitimately)
    for zone in (50, 55):
        for lat in (-30.0, -12.0):
            for off in (-1.5, 1.5, -0.15, 0.15, -0.6, 0.6, -0.02, 0.02):
                h, z, e, n, _, _ = cv.geo2grid(lat, zone * 6 - 180 + off / 96000.0, zone)
                out.append((zone, e, n))
    return out


def run(ctx):
    rnd = random.Random(ctx.seed)
    quick = ctx.tier == "quick"
    drv = Drv()
    r = tlc.run_tlc("Mga", "MC_Mga.cfg", workers=2, coverage=True, timeout=600)
    ctx.add_tlc(r, "Mga pipeline model: 2 directions x 3 height classes x 3 covariance classes (order, height rule, vcv rule, termination)")
    if r.violated:
        raise tlc.MachineryError("Mga model violated %s" % r.violated)
    traces = []
    pts = cases(drv, rnd, quick)
    combos = [(d, h, v) for d in ("94to2020", "2020to94") for h in ("absent", "given", "zero") for v in ("none", "m33", "m31")]
    for i, (zone, e, n) in enumerate(pts):
        for j, (d, hcls, v) in enumerate(combos):
            if quick and (i + j) % 3:
                continue
            h = {"absent": 0.0, "zero": 0.0, "given": rnd.choice([-100.0, 3000.0, round(rnd.uniform(-100, 3000), 3)])}[hcls]
            traces.append(drv.one(d, zone, e, n, hcls, h, v, rnd))
    ctx.evaluations = drv.calls
    fails = validate(traces, ctx, "Trace_Mga")
    for (i, l, clause) in fails:
        tr = traces[i]
        ev = tr["ev"][l - 1] if l else {}
        ctx.violation({"clause": clause.split(".")[-1], "stage": clause.split(".")[0], "vcv": tr["vcv"], "ht": tr["ht"]},
                      "dir=%s in=%s event=%s" % (tr["dir"], tr["in"], json.dumps({k: v for k, v in ev.items() if k in ("k", "name", "exc", "rethex", "stephex", "inhex", "outhex")})[:500]),
                      case={"dir": tr["dir"], "in": tr["in"], "ht": tr["ht"], "vcv": tr["vcv"]})
    good = [t for i, t in enumerate(traces) if i not in set(f[0] for f in fails)]
    ctx.selftest(selftest, good)
    for t in traces:
        ctx.nontrivial((t["dir"], t["ht"], t["vcv"], json.dumps(t["in"])))
        for e in t["ev"]:
            ctx.actions[e.get("name", e["k"])] = ctx.actions.get(e.get("name", e["k"]), 0) + 1
    for t in traces[:1] + traces[len(traces) // 2:len(traces) // 2 + 1] + traces[-1:]:
        ctx.sample({"dir": t["dir"], "in": t["in"], "ht": t["ht"], "vcv": t["vcv"], "events": [e.get("name", e["k"]) for e in t["ev"]],
                    "return": [e.get("rethex") for e in t["ev"] if e["k"] == "pipeline"]})
    ctx.rule = ("grid points: zones 46..59 x eastings 100/200/500/800/900 km (+-50 m) x latitudes -60..-5 (+-2 deg) plus points within "
                "2 m of a zone boundary, x both directions x height absent / given (-100..3000 m) / zero x covariance none / 3x3 (rank-1, "
                "full, diagonal) / 3x1; each transformed by the pipeline and by the driver's own stepwise calls, then transformed back; "
                "distinct = distinct (direction, height class, covariance class, grid point); the repository tests transform 2 points")
    ctx.assumptions += ["covariance clauses: equals the stepwise composition vcv_local2cart -> conform7 -> vcv_cart2local (1e-9 of the trace); symmetric and "
                        "PSD by principal minors; VALUE equal (1e-9 of the trace) to the rotation / J Q J^T / rotation evaluated in the "
                        "specification with the published GDA94<->GDA2020 parameter uncertainties",
                        "round trip compared in the grid when the zone is unchanged, otherwise in geographic coordinates with lower-bound "
                        "metres per degree (generous side)"]


def selftest(good):
    import copy
    base = next((t for t in good if t["vcv"] == "m33" and len(t["ev"]) == 7), None)
    if base is None:
        return {"ran": False}
    t1 = copy.deepcopy(base); t1["ev"][5]["ret"]["e"] = E_(float(fix.dec(t1["ev"][5]["ret"]["e"])) + 0.0003)
    t2 = copy.deepcopy(base); t2["ev"][2]["inhex"] = t2["ev"][2]["inhex"].replace("0x1.", "0x1.1", 1)
    t3 = copy.deepcopy(base)
    t3["ev"][6]["e2"] = fix.enc(fix.dec(t3["ev"][6]["e2"]) + __import__("fractions").Fraction(2, 10 ** 3))
    t3["ev"][6]["lat2"] = fix.enc(fix.dec(t3["ev"][6]["lat2"]) + __import__("fractions").Fraction(2, 10 ** 8))
    t4 = copy.deepcopy(base); del t4["ev"][1]
    fails = validate([base, t1, t2, t3, t4], None, None)
    rej = {i: c for (i, l, c) in fails}
    out = {"baseline_accepted": 0 not in rej, "return_changed": rej.get(1, ""), "chain_broken": rej.get(2, ""),
           "round_trip_plus_2mm": rej.get(3, ""), "stage_removed": rej.get(4, "")}
    if 0 in rej or not all(k in rej for k in (1, 2, 3, 4)):
        raise tlc.MachineryError("binding self-test failed: %s" % out)
    return out


def replay(ctx, data):
    drv = Drv()
    c = data["case"]
    tr = drv.one(c["dir"], c["in"][0], c["in"][1], c["in"][2], c["ht"], c["in"][3], c["vcv"], random.Random(data.get("seed", 0)))
    fails = validate([tr], ctx, "replay")
    for (i, l, clause) in fails:
        ctx.violation({"clause": clause.split(".")[-1], "stage": clause.split(".")[0], "vcv": tr["vcv"], "ht": tr["ht"]},
                      json.dumps(tr["ev"][l - 1] if l else {})[:600])
    print("replayed %s %s: %s" % (c["dir"], c["in"], fails if fails else "accepted"))
