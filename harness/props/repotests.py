"""REPOTESTS - the executions of the repository's OWN test-suite, judged by the specifications (beyond the listed properties).

The repository's tests exercise the library on ~500 calls but assert little (a round trip, a few decimals).  Here the suite
is run unchanged under a recording pytest plugin (harness/recorder.py; nothing in /repo is touched), and every recorded call
of vincdir / vincinv / xyz2llh / llh2xyz / conform7 / conform14 becomes an event of the trace specifications already used for
C04 / C05 / C03 / C06 / C07:
   vincdir   -> DGE   end point of the EXACT geodesic within 1 mm, reverse azimuth 1e-8 deg          (Trace_Geodesic)
   vincinv   -> IGE   exact geodesic followed with the returned values arrives within 2 mm            (Trace_Geodesic)
   xyz2llh   -> Inv   converts back to the input within 0.02 mm, longitude range                       (Trace_Cart)
   llh2xyz   -> FwdAny  the closed form (sines / cosines from the specification's series) within 1 um    (Trace_Cart)
   geo2grid / grid2geo -> TMA  the EXACT Transverse Mercator at the position involved: easting / northing 0.2 mm,
                      scale factor 2e-8, convergence 1e-9 deg                                           (Trace_Grid)
   dec2hp, hp2dec, ... (20 conversion routines, sampled: the tests call them 3 million times)
             -> one edge of Angles.tla: kind, same angle within 1e-8", same sign, valid HP digits         (Trace_Angles)
   conform7  -> C7    similarity formula within 1 um, covariance = J Q J^T                             (Trace_Helmert)
   conform14 -> C14   parameters advanced linearly to the epoch, 2 um                                  (Trace_Helmert)
    ./check REPOTESTS quick|thorough        (both tiers run the whole suite; it takes ~15 s)
"""
import json
import math
import os
import shutil
import subprocess
import sys
import tempfile
from fractions import Fraction

from harness import fix, tlc, tracecheck
from harness.props import c11


ANGLE_FNS = {"dec2hp": ("dec", "hp"), "dec2hpa": ("dec", "hpa"), "dec2gon": ("dec", "gon"), "dec2gona": ("dec", "gona"),
             "dec2dms": ("dec", "dms"), "dec2ddm": ("dec", "ddm"), "hp2dec": ("hp", "dec"), "hp2deca": ("hp", "deca"),
             "hp2rad": ("hp", "rad"), "hp2gon": ("hp", "gon"), "hp2gona": ("hp", "gona"), "hp2dms": ("hp", "dms"),
             "hp2ddm": ("hp", "ddm"), "gon2dec": ("gon", "dec"), "gon2deca": ("gon", "deca"), "gon2hp": ("gon", "hp"),
             "gon2hpa": ("gon", "hpa"), "gon2rad": ("gon", "rad"), "gon2dms": ("gon", "dms"), "gon2ddm": ("gon", "ddm")}


def rebuild_angle(res, an):
    """recorded result -> float or an angle object with exactly the recorded fields"""
    if isinstance(res, dict) and "f" in res:
        return float.fromhex(res["f"])
    t, f = res["angle"], res["fields"]
    if t == "DECAngle":
        return an.DECAngle(float.fromhex(f[0]))
    if t == "HPAngle":
        return an.HPAngle(float.fromhex(f[0]))
    if t == "GONAngle":
        return an.GONAngle(float.fromhex(f[0]))
    if t == "DMSAngle":
        return an.DMSAngle(f[1], f[2], float.fromhex(f[3]), positive=f[0])
    return an.DDMAngle(f[1], float.fromhex(f[2]), positive=f[0])


def fl(x):
    return float.fromhex(x["f"]) if isinstance(x, dict) and "f" in x else (float.fromhex(x["dec"]) if isinstance(x, dict) and "dec" in x else None)


def E_(x):
    return fix.enc(float(x))


def record(repo):
    d = tempfile.mkdtemp(prefix="gvf_rec_")
    path = os.path.join(d, "calls.jsonl")
    env = dict(os.environ)
    env.pop("GEODEPY_VERIF", None)
    env["VERIF_RECORD_FILE"] = path
    env["PYTHONPATH"] = repo + os.pathsep + os.path.dirname(os.path.dirname(os.path.dirname(os.path.abspath(__file__))))
    p = subprocess.run([sys.executable, "-m", "pytest", "-q", "-p", "no:cacheprovider", "-p", "harness.recorder", "geodepy/tests", "api"],
                       cwd=repo, env=env, stdout=subprocess.PIPE, stderr=subprocess.STDOUT, text=True, timeout=1800)
    tail = p.stdout.strip().split("\n")[-1]
    recs = [json.loads(l) for l in open(path)] if os.path.exists(path) else []
    shutil.rmtree(d, ignore_errors=True)
    return recs, tail, p.returncode


def ell_of(arg, gc):
    """recorded ellipsoid argument (or None = the routine's default) -> (record for the trace, live object)"""
    if arg is None:
        E, name = gc.grs80, "grs80"
    else:
        a, invf = float.fromhex(arg["ell"][0]), float.fromhex(arg["ell"][1])
        E, name = gc.Ellipsoid(a, invf), "other"
        for n in ("grs80", "wgs84", "ans", "intl24"):
            S = getattr(gc, n)
            if float(S.semimaj) == a and float(S.inversef) == invf:
                name = n
    return {"name": name, "a": E_(E.semimaj), "invf": E_(E.inversef), "n0": E_(1.0 / (2.0 * float(E.inversef) - 1.0))}, E


def sph_sep(lat1, lon1, lat2, lon2):
    a = [math.cos(math.radians(lat1)) * math.cos(math.radians(lon1)), math.cos(math.radians(lat1)) * math.sin(math.radians(lon1)), math.sin(math.radians(lat1))]
    b = [math.cos(math.radians(lat2)) * math.cos(math.radians(lon2)), math.cos(math.radians(lat2)) * math.sin(math.radians(lon2)), math.sin(math.radians(lat2))]
    return math.degrees(math.acos(max(-1.0, min(1.0, sum(x * y for x, y in zip(a, b))))))


def oblique(lat, az, invf):
    f = 1.0 / invf
    beta = math.atan((1 - f) * math.tan(math.radians(lat))) if abs(lat) < 90 else math.radians(lat)
    return math.hypot(math.cos(math.radians(az)), math.sin(math.radians(az)) * math.sin(beta)) >= 2e-3


def run(ctx):
    import geodepy.constants as gc
    import geodepy.convert as cv
    repo = os.environ.get("GEODEPY_REPO", "/repo")
    recs, tail, rc = record(repo)
    ctx.extra["repository_tests"] = tail
    if rc != 0 or not recs:
        raise tlc.MachineryError("the repository's test-suite did not run clean under the recorder: %s" % tail)
    import geodepy.angles as an
    geo, cart, helm, grid, angl = [], [], [], [], []
    skipped = {}

    def skip(why):
        skipped[why] = skipped.get(why, 0) + 1
    for r in recs:
        if "exc" in r or "res" not in r:
            skip("call raised (the test expected it)")
            continue
        a = r["args"]
        k = r.get("kwargs", {})
        fn = r["fn"]
        if fn == "vincdir":
            ell = a[4] if len(a) > 4 else k.get("ellipsoid")
            rec, E = ell_of(ell, gc)
            lat, lon, az, s = (fl(x) for x in a[:4])
            la2, lo2, a21 = (fl(x) for x in r["res"])
            if not oblique(lat, az, float(E.inversef)):
                skip("line along the equator (closed form, not the quadrature)")
                continue
            geo.append({"ev": [{"k": "DGE", "tag": r["test"], "exc": "", "o": {
                "ell": rec, "lat1": E_(lat), "lon1": E_(lon), "az": E_(az), "s": E_(s),
                "out": {"lat": E_(la2), "lon": E_(lo2), "az": E_(a21)}}}], "src": r})
        elif fn == "vincinv":
            ell = a[4] if len(a) > 4 else k.get("ellipsoid")
            rec, E = ell_of(ell, gc)
            lat1, lon1, lat2, lon2 = (fl(x) for x in a[:4])
            s, a12, a21 = (fl(x) for x in r["res"])
            if s < 10.0:
                skip("line shorter than 10 m (C05 known finding / coincident points)")
                continue
            if sph_sep(lat1, lon1, lat2, lon2) > 178.0 or not oblique(lat1, a12, float(E.inversef)):
                skip("outside the quantifier / along the equator")
                continue
            geo.append({"ev": [{"k": "IGE", "tag": r["test"], "exc": "", "o": {
                "ell": rec, "lat1": E_(lat1), "lon1": E_(lon1), "lat2": E_(lat2), "lon2": E_(lon2),
                "out": {"s": E_(s), "a12": E_(a12), "a21": E_(a21)}}}], "src": r})
        elif fn == "xyz2llh":
            ell = a[3] if len(a) > 3 else k.get("ellipsoid")
            rec, E = ell_of(ell, gc)
            p = [fl(x) for x in a[:3]]
            la, lo, h = (fl(x) for x in r["res"])
            back = cv.llh2xyz(la, lo, h, E)
            ctx.evaluations += 1
            cart.append({"ev": [{"k": "Inv", "ell": rec["name"], "in": [E_(v) for v in p], "p": p, "lat": E_(la), "lon": E_(lo),
                                 "back": [E_(v) for v in back], "exc": ""}], "src": r})
        elif fn == "llh2xyz":
            from harness.props import c03
            ell = a[3] if len(a) > 3 else k.get("ellipsoid")
            rec, E = ell_of(ell, gc)
            la, lo = fl(a[0]), fl(a[1])
            h = fl(a[2]) if len(a) > 2 and a[2] is not None else (fl(k["ellht"]) if k.get("ellht") is not None else 0.0)
            cart.append({"ev": [c03.fwdany_event(cv, rec["name"], E, la, lo, h, out=[fl(x) for x in r["res"]])], "src": r})
        elif fn in ANGLE_FNS:
            # a conversion routine of geodepy.angles: one edge of Angles.tla (Trace_Angles: kind, same angle 1e-8", same sign, valid HP)
            from harness.props import c08
            src, dst = ANGLE_FNS[fn]
            x = a[0]
            if not (isinstance(x, dict) and "f" in x):
                skip("angle routine called with a non-float argument")
                continue
            v0 = float.fromhex(x["f"])
            out = rebuild_angle(r["res"], an)
            try:
                kind0, asec0, hp0 = c08.decode(v0, src)
                kind, asec, hp = c08.decode(out, dst)
            except Exception:
                skip("angle value not decodable (invalid HP input the test expected to be refused)")
                continue
            if abs(asec0) > 720 * 3600:
                skip("angle beyond 720 degrees")
                continue
            a0, o = c08.to_nano(asec0), c08.to_nano(asec)
            ev = {"a": fn, "exc": "", "kind": kind if kind != "float64" else "float", "neg": o[0], "w": o[1], "f": o[2],
                  "hp": hp if hp is not None else [0, 0, 0, 0], "srcsame": True}
            angl.append({"rep": src, "ang": {"neg": a0[0], "w": a0[1], "f": a0[2]}, "fan": False, "pt": [0, 0, 0], "below": False,
                         "ctor": {"on": False, "neg": 0, "w": 0, "f": 0},
                         "chain": [fn], "ev": [ev], "src": r})
        elif fn in ("geo2grid", "grid2geo"):
            # both directions as the exact Transverse Mercator at the geographic position involved (event TMA of Trace_Grid):
            # geo2grid: position = arguments, grid = result;  grid2geo: grid = arguments, position = result (rounded at 1e-11 deg)
            names = ["lat", "lon", "zone", "ellipsoid", "prj"] if fn == "geo2grid" else ["zone", "east", "north", "hemisphere", "ellipsoid", "prj"]
            arg = {nm: (a[i] if i < len(a) else k.get(nm)) for i, nm in enumerate(names)}
            rec, E = ell_of(arg.get("ellipsoid"), gc)
            pj = arg.get("prj")
            if pj is None:
                P, pname = gc.utm, "utm"
            else:
                v = [float.fromhex(x) for x in pj["prj"]]
                isg = v == [float(getattr(gc.isg, q)) for q in ("falseeast", "falsenorth", "cmscale", "zonewidth", "initialcm")]
                P, pname = (gc.isg, "isg") if isg else (gc.Projection(*v), "recorded")
            if fn == "geo2grid":
                lat, lon = fl(arg["lat"]), fl(arg["lon"])
                hemi, zone, e, n, psf, conv = r["res"]
                zone, e, n, psf, conv = int(fl(zone)), fl(e), fl(n), fl(psf), fl(conv)
            else:
                zone, e, n = int(fl(arg["zone"])), fl(arg["east"]), fl(arg["north"])
                hemi = "North" if str(arg.get("hemisphere") or "south").lower() == "north" else "South"
                lat, lon, psf, conv = (fl(x) for x in r["res"])
            if pname == "isg":
                cm = (zone // 10 - 1) * float(P.zonewidth) * 3 + float(P.initialcm) + (zone % 10 - 2) * float(P.zonewidth)
            else:
                cm = zone * float(P.zonewidth) + float(P.initialcm) - float(P.zonewidth)
            if abs(lat) > 84 or abs(((lon - cm + 180) % 360) - 180) > 30:
                skip("outside the band / more than 30 deg from the central meridian")
                continue
            f = 1.0 / float(E.inversef)
            nu = float(E.semimaj) / math.sqrt(1 - f * (2 - f) * math.sin(math.radians(lat)) ** 2)
            lonround = math.degrees(1.6 * 0.5e-4 / (nu * max(math.cos(math.radians(lat)), 1e-6)))
            o = {"lat": E_(lat), "lon": E_(lon), "latf": lat, "lonf": lon, "zonearg": zone, "args": "float",
                 "ell": {"name": rec["name"], "a": rec["a"], "invf": rec["invf"]},
                 "prj": {"name": pname, "fe": E_(P.falseeast), "fn": E_(P.falsenorth), "k0": E_(P.cmscale), "zw": int(P.zonewidth),
                         "cm1": int(P.initialcm), "isg": pname == "isg", "zwx": E_(P.zonewidth), "cm1x": E_(P.initialcm)},
                 "lonround": E_(lonround), "convround": E_(lonround + 4e-10), "n0": rec["n0"],
                 "fwd": {"hemi": hemi, "zone": zone, "e": E_(e), "n": E_(n), "psf": E_(psf), "conv": E_(conv), "hex": ""},
                 "inv": {"lat": [0], "lon": [0], "psf": [0], "conv": [0], "exc": "not recorded"}}
            grid.append({"ev": [{"k": "TMA", "exc": "", "tag": r["test"], "o": o}], "src": r})
        elif fn in ("conform7", "conform14"):
            c14 = fn == "conform14"
            tr = (a[4] if c14 else a[3])["trans"]
            vin = (a[5] if len(a) > 5 else k.get("vcv")) if c14 else (a[4] if len(a) > 4 else k.get("vcv"))
            p = [fl(x) for x in a[:3]]
            res = r["res"]
            out = [fl(x) for x in res[:3]]
            vout = res[3]
            hx = lambda *v: ",".join(float(x).hex() for x in v)
            ev = {"idx": 0, "p14": [E_(float.fromhex(x)) for x in tr["p14"]], "ep": tr["ep"], "a": "C14" if c14 else "C7", "neg": False,
                  "e": a[3]["date"] if c14 else 0, "in": [E_(v) for v in p], "inhex": hx(*p), "out": [E_(v) for v in out],
                  "outhex": hx(*out), "refhex": hx(*out),
                  "vin": [] if vin is None else [[E_(float.fromhex(x)) for x in row] for row in vin["arr"]],
                  "vout": [] if vout is None else [[E_(float.fromhex(x)) for x in row] for row in vout["arr"]],
                  "sd": [E_(float.fromhex(x)) for x in tr["sd"]], "closes": False, "exc": "", "name": "%s->%s" % (tr["from"], tr["to"])}
            if c14 and tr["ep"] == 0:
                skip("conform14 with an undated set")
                continue
            if ev["vin"] and len(ev["vin"]) != 3:
                skip("covariance not 3x3")
                continue
            helm.append({"kind": "recorded", "ev": [ev], "src": r})
    ctx.extra["recorded_calls"] = len(recs)
    ctx.extra["not_judged"] = skipped
    n = {"geodesic": len(geo), "xyz2llh_llh2xyz": len(cart), "helmert": len(helm), "geo2grid_grid2geo": len(grid), "angle_conversions": len(angl)}
    ctx.extra["judged"] = n
    strip = lambda ts: [{kk: v for kk, v in t.items() if kk != "src"} for t in ts]
    allf = []
    if geo:
        fails, _ = tracecheck.validate("Trace_Geodesic", "Trace_Geodesic.cfg", strip(geo), ctx, "Trace_Geodesic on recorded calls",
                                       min_chunk=20, timeout=3000, all_fails=True)
        allf += [(geo[i], c) for (i, l, c) in fails]
    if cart:
        fails, _ = tracecheck.validate("Trace_Cart", "Trace_Cart.cfg", strip(cart), ctx, "Trace_Cart on recorded calls", min_chunk=50, timeout=3000)
        allf += [(cart[i], c) for (i, l, c) in fails]
    if grid:
        from harness import gridlib
        fails = gridlib.validate(strip(grid), ctx, "Trace_Grid (exact Transverse Mercator) on recorded calls")
        for (i, l, c) in fails:
            # the exact projection judges eastings / northings / scale factor / convergence; a grid2geo result is a position rounded at
            # 1e-11 deg (1 um), inside the 0.2 mm
            allf.append((grid[i], c))
    if angl:
        fails, _ = tracecheck.validate("Trace_Angles", "Trace_Angles.cfg", strip(angl), ctx, "Trace_Angles on recorded calls", min_chunk=500,
                                       timeout=3000)
        allf += [(angl[i], c) for (i, l, c) in fails]
    if helm:
        d = tempfile.mkdtemp(prefix="gvf_helm_")
        try:
            dumpfile, _ = c11.write_catdump(c11.dump(gc), d)
            fails, _ = tracecheck.validate("Trace_Helmert", "Trace_Helmert.cfg", strip(helm), ctx, "Trace_Helmert on recorded calls",
                                           min_chunk=10, timeout=3000, extra_files=[dumpfile])
        finally:
            shutil.rmtree(d, ignore_errors=True)
        allf += [(helm[i], c) for (i, l, c) in fails]
    for t, clause in allf:
        ctx.violation({"clause": clause, "fn": t["src"]["fn"]}, "test=%s call=%s" % (t["src"]["test"], json.dumps(t["src"])[:600]),
                      case={"call": t["src"]})
    for t in geo + cart + helm + grid + angl:
        ctx.nontrivial(json.dumps(t["src"], sort_keys=True)[:300])
        ctx.actions[t["src"]["fn"]] = ctx.actions.get(t["src"]["fn"], 0) + 1
    ctx.selftest(selftest, [t for t in geo if t["ev"][0]["k"] == "DGE" and not any(t is x for x, _ in allf)])
    for t in (geo[:1] + cart[:1] + helm[:1] + grid[:1]):
        ctx.sample({"test": t["src"]["test"], "fn": t["src"]["fn"], "event": t["ev"][0].get("k", t["ev"][0].get("a"))})
    ctx.rule = ("every call of vincdir / vincinv / xyz2llh / conform7 / conform14 made while the repository's %s; distinct = distinct "
                "recorded calls" % tail)
    ctx.assumptions += ["the recorder replaces module attributes before the test modules are imported; calls made through references taken "
                        "earlier would not be seen (none in this repository)"]


def selftest(good):
    import copy
    if not good:
        return {"ran": False}
    base = {"ev": good[0]["ev"]}
    bad = copy.deepcopy(base)
    o = bad["ev"][0]["o"]["out"]
    o["lat"] = E_(float(fix.dec(o["lat"])) + 5e-8)
    fails, _ = tracecheck.validate("Trace_Geodesic", "Trace_Geodesic.cfg", [base, bad], None, None, all_fails=True)
    rej = {}
    for (i, l, c) in fails:
        rej.setdefault(i, []).append(c)
    out = {"baseline_accepted": 0 not in rej, "recorded_result_moved_by_5mm": rej.get(1, [])}
    if 0 in rej or "c04_exact_geodesic_end_point" not in rej.get(1, []):
        raise tlc.MachineryError("binding self-test failed: %s" % out)
    return out


def replay(ctx, data):
    print("re-run ./check REPOTESTS quick: the recorded call is %s" % json.dumps(data.get("case", {}))[:400])
