"""C11 - the shipped transformation catalogue is labelled, reversible and self-consistent.

The live catalogue (vars(geodepy.constants)) is dumped as the TLA+ constant CatData; TLC audits
it (Audit_Catalogue: labels, forward/reverse pairs, all ITRF triangles at every reference epoch),
checks the algebra of Neg/Shift on it (MC_Catalogue) and validates the words it generates after
they were executed on the real Transformation objects, plus iers2trans on IERS tuples
(Trace_Catalogue).
"""
import datetime
import json
import os
import random
import re
import shutil
import tempfile
from fractions import Fraction

from harness import fix, tlc, tracecheck

PN = ["tx", "ty", "tz", "sc", "rx", "ry", "rz", "d_tx", "d_ty", "d_tz", "d_sc", "d_rx", "d_ry", "d_rz"]


def _gc():
    import geodepy.constants as gc
    return gc


def tstr(s):
    return '"%s"' % str(s).replace("\\", "\\\\").replace('"', '\\"')


def tokens(name):
    a, _, rest = name.partition("_to_")
    parts = rest.split("_")
    nb = parts[0]
    nx = "_".join(parts[1:])
    fam = lambda t: re.match(r"[a-z]*", t).group().upper()
    return a.upper(), nb.upper(), nx, fam(a), fam(nb)


def obs_of(t):
    ep = t.ref_epoch.toordinal() if isinstance(t.ref_epoch, datetime.date) else 0
    return {"from": str(t.from_datum), "to": str(t.to_datum), "ep": ep,
            "p": [fix.enc(getattr(t, k)) for k in PN]}


def dump(gc):
    out = []
    for name, v in vars(gc).items():
        if isinstance(v, gc.Transformation):
            na, nb, nx, fa, fb = tokens(name)
            o = obs_of(v)
            o.update({"name": name, "na": na, "nb": nb, "nx": nx, "fa": fa, "fb": fb,
                      "has_sd": isinstance(v.tf_sd, gc.TransformationSD)})
            out.append(o)
    return out


def write_catdump(cat, d):
    eps = sorted(set(c["ep"] for c in cat if c["ep"]))
    recs = []
    for c in cat:
        p = ", ".join("<<%s>>" % ", ".join(map(str, x)) for x in c["p"])
        recs.append('[name |-> %s, na |-> %s, nb |-> %s, nx |-> %s, fa |-> %s, fb |-> %s, from |-> %s, to |-> %s, '
                    'ep |-> %d, p |-> <<%s>>]' % (tstr(c["name"]), tstr(c["na"]), tstr(c["nb"]), tstr(c["nx"]),
                                                  tstr(c["fa"]), tstr(c["fb"]), tstr(c["from"]), tstr(c["to"]),
                                                  c["ep"], p))
    txt = ("------------------------------ MODULE CatDump ------------------------------\n"
           "(* generated from vars(geodepy.constants) by harness/props/c11.py *)\n"
           "CatData == <<\n  %s\n>>\nRefEpochData == {%s}\n"
           "=============================================================================\n"
           % (",\n  ".join(recs), ", ".join(map(str, eps))))
    p = os.path.join(d, "CatDump.tla")
    with open(p, "w") as f:
        f.write(txt)
    return p, eps


def mc_cfg(depth, stride):
    return ("SPECIFICATION Spec\nCONSTANT D = %d\nCONSTANT Stride = %d\n"
            "CONSTRAINT Bound\nINVARIANT NegInvolution\nINVARIANT NegShiftCommute\nINVARIANT PathIndependent\n"
            "INVARIANT LabelsAndRatesKept\nINVARIANT ShiftIsIdentityAtOwnEpoch\nCHECK_DEADLOCK FALSE\n" % (depth, stride))


def words_cfg(depth):
    return "SPECIFICATION Spec\nCONSTANT D = %d\nCONSTRAINT Bound\nCHECK_DEADLOCK FALSE\n" % depth


def run_word(gc, cat, idx, word):
    c = cat[idx - 1]
    obj = getattr(gc, c["name"])
    tr = {"kind": "word", "idx": idx, "name": c["name"], "word": word,
          "ev": [{"a": "Start", "e": 0, "exc": "", "obs": obs_of(obj)}]}
    for (a, e) in word:
        ev = {"a": a, "e": e, "exc": ""}
        try:
            new = -obj if a == "Neg" else obj + datetime.date.fromordinal(e)
            if not isinstance(new, gc.Transformation):
                raise TypeError("returned %r" % (new,))
            ev["obs"] = obs_of(new)
            obj = new
        except Exception as ex:
            ev["exc"] = "%s: %s" % (type(ex).__name__, str(ex)[:100])
            ev["obs"] = {"from": "", "to": "", "ep": 0, "p": [[0]] * 14}
            tr["ev"].append(ev)
            break
        tr["ev"].append(ev)
    return tr


def iers_case(gc, rnd, k):
    """IERS-style tuple: mm / ppb / mas with 1-2 decimals, like the published tables."""
    def val(scale):
        return rnd.choice([0.0, round(rnd.uniform(-scale, scale), 1), round(rnd.uniform(-scale, scale), 2)])
    v = [val(100), val(100), val(100), val(10), val(5), val(5), val(5),
         val(5), val(5), val(5), val(0.5), val(0.5), val(0.5), val(0.5)]
    if k % 7 == 0:
        v = [round(x) * 1.0 for x in v]
    ep = datetime.date(rnd.choice([1988, 1997, 2000, 2005, 2010, 2015, 2020]), 1, 1)
    frm, to = "ITRF%d" % rnd.choice([88, 2000, 2014]), "ITRF%d" % rnd.choice([93, 2008, 2020])
    ev = {"a": "Iers", "e": ep.toordinal(), "from": frm, "to": to, "v": [fix.enc(Fraction(repr(x))) for x in v], "exc": ""}
    try:
        t = gc.iers2trans(frm, to, ep, *v)
        ev["obs"] = obs_of(t)
    except Exception as ex:
        ev["exc"] = "%s: %s" % (type(ex).__name__, ex)
        ev["obs"] = {"from": "", "to": "", "ep": 0, "p": [[0]] * 14}
    return {"kind": "iers", "idx": 0, "name": "iers2trans", "word": [], "values": v, "ev": [ev]}


def run(ctx):
    gc = _gc()
    rnd = random.Random(ctx.seed)
    quick = ctx.tier == "quick"
    cat = dump(gc)
    d = tempfile.mkdtemp(prefix="gvf_cat_")
    try:
        dumpfile, eps = write_catdump(cat, d)
        byname = {c["name"]: c for c in cat}
        # 1. audit of the live catalogue
        r = tlc.run_tlc("Audit_Catalogue", "Audit_Catalogue.cfg", workers=1, tags=("FAIL", "COUNTS"),
                        extra_files=[dumpfile], timeout=3600)
        ctx.add_tlc(r, "Audit_Catalogue (labels, pairs, triangles x epochs)")
        cnt = r.tagged("COUNTS")
        if not cnt:
            raise tlc.MachineryError("audit printed no COUNTS\n" + r.out[-2000:])
        ctx.extra["catalogue"] = {"sets": cnt[0][1], "sets_with_reverse_partner": cnt[0][2],
                                  "itrf_triples": cnt[0][3], "reference_epochs": cnt[0][4]}
        ctx.evaluations += len(cat)
        for f in r.tagged("FAIL"):
            if f[1] == "label":
                ctx.violation({"clause": "label", "set": f[2]}, "name %s but labels %s -> %s" % (f[2], f[3], f[4]),
                              case={"kind": "audit"})
            elif f[1] == "pair":
                ctx.violation({"clause": "pair", "set": f[2]}, "reverse partner of %s is not its exact negation" % f[2],
                              case={"kind": "audit"})
            else:
                bad = sorted(f[6]["__set__"]) if isinstance(f[6], dict) else f[6]
                for i in bad:
                    ctx.violation({"clause": "triangle", "sets": [f[2], f[3], f[4]], "param": PN[i - 1]},
                                  "chain %s + %s differs from %s in %s at epoch %s" % (
                                      f[2], f[3], f[4], PN[i - 1], datetime.date.fromordinal(f[5])),
                                  case={"kind": "audit"})
        for c in cat:
            ctx.nontrivial("set:" + c["name"])
        # 2. algebra of Neg / Shift on the live catalogue, and the words to replay
        cfg = tracecheck.write_tmp(mc_cfg(1 if quick else 2, 9 if quick else 1), ".cfg")
        try:
            rm = tlc.run_tlc("MC_Catalogue", cfg, workers=12, extra_files=[dumpfile], timeout=3600, coverage=False)
        finally:
            os.unlink(cfg)
        ctx.add_tlc(rm, "MC_Catalogue algebra (%s)" % ("every 9th dated set, words <= 1" if quick else "all dated sets, words <= 2"))
        if rm.violated:
            raise tlc.MachineryError("Catalogue algebra violated on the live catalogue: %s\n%s"
                                     % (rm.violated, rm.out[-3000:]))
        words = []
        for depth in ([1, 2] if quick else [1, 2, 3]):
            cfg = tracecheck.write_tmp(words_cfg(depth), ".cfg")
            try:
                rw = tlc.run_tlc("Words_Catalogue", cfg, workers=1, tags=("BEH",), extra_files=[dumpfile], timeout=3600)
            finally:
                os.unlink(cfg)
            ctx.add_tlc(rw, "Words_Catalogue depth %d" % depth)
            words += [(p[1], [tuple(x) for x in p[2]]) for p in rw.prints]
        # undated sets: Neg words only (Shift is undefined without a date epoch)
        for i, c in enumerate(cat, 1):
            if c["ep"] == 0:
                words += [(i, [("Neg", 0)]), (i, [("Neg", 0), ("Neg", 0)])]
        # 3. execute on the real objects, 4. TLC decides
        traces = [run_word(gc, cat, i, w) for (i, w) in words]
        n_iers = 300 if quick else 5000
        traces += [iers_case(gc, rnd, k) for k in range(n_iers)]
        ctx.evaluations += sum(len(t["ev"]) for t in traces)
        acts = {}
        for t in traces:
            for e in t["ev"]:
                acts[e["a"]] = acts.get(e["a"], 0) + 1
            ctx.nontrivial("word:%s:%s" % (t["name"], t["word"]) if t["kind"] == "word" else "iers:%s" % t["values"])
        ctx.actions.update(acts)
        fails = _validate(traces, ctx, "Trace_Catalogue", dumpfile)
        for (i, l, clause) in fails:
            t = traces[i]
            desc = {"clause": clause, "set": t["name"]}
            if t["kind"] == "word":
                desc["word"] = [a for (a, e) in t["word"]][:max(l - 1, 0)]
            ctx.violation(desc, "trace %s, step %d: %s" % (t["name"], l, json.dumps(t["ev"][l - 1] if l else {})[:500]),
                          case={"kind": "word", "name": t["name"], "word": t["word"]} if t["kind"] == "word"
                          else {"kind": "iers", "values": t["values"], "ev": t["ev"]})
        ctx.selftest(selftest, traces, dumpfile)
    finally:
        shutil.rmtree(d, ignore_errors=True)
    ctx.exhaustive = True
    ctx.rule = ("audit enumerates the complete live catalogue: every set (label check), every set with a reverse partner, "
                "every ordered ITRF triple x every reference epoch; words = all words of length <= %d over {Neg, Shift(e in "
                "reference epochs)} from every dated set (TLC-generated), executed on the real objects; plus %d random IERS "
                "tuples; distinct = sets + distinct (set, word) + distinct tuples; the repository tests touch 3 sets"
                % (2 if quick else 3, n_iers))
    for t in traces[:1] + traces[len(words) // 2:len(words) // 2 + 1] + traces[-1:]:
        ctx.sample({"set": t["name"], "word": [(a, str(datetime.date.fromordinal(e)) if e else "") for a, e in t["word"]],
                    "last_obs": {k: t["ev"][-1]["obs"][k] for k in ("from", "to", "ep")}})
    ctx.assumptions += ["alpha tokenises constant names (split at _to_ and _, upper-case); TLC compares tokens with labels",
                        "catalogue values are dumped as the exact binary value of each float rounded at 1e-20",
                        "triangle tolerance = published rounding 0.15 mm / 0.015 ppb / 0.015 mas (and per year), at every "
                        "date reference epoch of the catalogue"]


def _validate(traces, ctx, label, dumpfile):
    fails, _ = tracecheck.validate("Trace_Catalogue", "Trace_Catalogue.cfg", traces, ctx, label, min_chunk=300,
                                   timeout=3600, extra_files=[dumpfile])
    return fails


def selftest(traces, dumpfile):
    import copy
    base = next((t for t in traces if t["kind"] == "word" and len(t["ev"]) >= 3 and not any(e["exc"] for e in t["ev"])), None)
    if base is None:
        return {"ran": False}
    t1 = copy.deepcopy(base)
    o = t1["ev"][-1]["obs"]
    o["from"], o["to"] = o["to"], o["from"]
    t2 = copy.deepcopy(base)
    p = t2["ev"][-1]["obs"]["p"]
    p[0] = fix.enc(fix.dec(p[0]) + Fraction(4, 1000))   # +4 mm on tx
    t3 = copy.deepcopy(base)
    del t3["ev"][0]
    fails = _validate([base, t1, t2, t3], None, None, dumpfile)
    rej = set(i for (i, l, c) in fails)
    out = {"ran": True, "baseline_accepted": 0 not in rej, "swapped_labels_rejected": 1 in rej,
           "tx_plus_4mm_rejected": 2 in rej, "removed_start_event_rejected": 3 in rej}
    if not (out["swapped_labels_rejected"] and out["tx_plus_4mm_rejected"] and out["removed_start_event_rejected"]):
        raise tlc.MachineryError("binding self-test failed: %s" % out)
    return out


def replay(ctx, data):
    gc = _gc()
    cat = dump(gc)
    c = data["case"]
    if c.get("kind") == "audit":
        print("audit findings are re-evaluated by running the check itself: ./check C11 quick")
        run(ctx)
        return
    if c["kind"] == "word":
        idx = [i for i, x in enumerate(cat, 1) if x["name"] == c["name"]][0]
        tr = run_word(gc, cat, idx, [tuple(x) for x in c["word"]])
    else:
        tr = {"kind": "iers", "idx": 0, "name": "iers2trans", "word": [], "values": c["values"], "ev": c["ev"]}
    d = tempfile.mkdtemp(prefix="gvf_cat_")
    try:
        dumpfile, _eps = write_catdump(cat, d)
        fails = _validate([tr], ctx, "replay", dumpfile)
    finally:
        shutil.rmtree(d, ignore_errors=True)
    for (i, l, clause) in fails:
        ctx.violation({"clause": clause, "set": tr["name"]}, json.dumps(tr["ev"][l - 1] if l else {})[:800])
    print("replayed %s %s: %s" % (tr["name"], tr["word"], fails if fails else "accepted"))
