"""C17 - NTv2 grid files are read faithfully and interpolated only from the right nodes.

spec/NTv2.tla (model: geometry, sub-grid choice, record addressing, cursor model, exact expected values)
  -> MC_NTv2: TLC checks the model exhaustively on eleven small file shapes and prints the shapes
  -> this driver instantiates the shapes with real extents / increments / polynomial fields, renders the
     binary files (harness/ntv2render.py), asks TLC (Trace_NTv2!PlanSpec) which records each call may
     depend on, runs the real geodepy code on the clean file and on a copy with every other record NaN
  -> Trace_NTv2 (TLC) decides every clause on the recorded calls.
"""
import copy
import json
import math
import os
import random
import shutil
import tempfile
from concurrent.futures import ThreadPoolExecutor

from harness import fix, tlc, tracecheck
from harness import ntv2render as R

DEG = 3600 * 1000            # 0.001" per degree
BUDGET = 2 ** 20             # bound on SUM |a_ij| U^i V^j (node values exact in float32, spec integers < 2^31)
SYSTEMS = ["AGD66", "AGD84", "GDA94", "GDA2020", "NAD27", "NAD83", "WGS84", "ED50"]
F8 = 10 ** 8


# ----------------------------------------------------------------------------------------
# files: template (from TLC) x refinement x unit scale x origin x fields
# ----------------------------------------------------------------------------------------
def tla_cfg(files, variant, fracs, invariants=True):
    inv = ("INVARIANT TypeOK\nINVARIANT ReadsOwnNodes\nINVARIANT ReadsAroundPosition\nINVARIANT OutsideNoValue\n"
           "INVARIANT ValueOnlyInside\nINVARIANT FinestIsDeepest\nINVARIANT OraclesAgree\n") if invariants else ""
    return ("SPECIFICATION Spec\nCONSTANT Files <- %s\nCONSTANT Variant = \"%s\"\nCONSTANT Fracs <- %s\n%s"
            "CHECK_DEADLOCK FALSE\n" % (files, variant, fracs, inv))


def run_mc(files, variant, fracs, workers, coverage=True, timeout=1800):
    cfg = tracecheck.write_tmp(tla_cfg(files, variant, fracs), ".cfg")
    try:
        return tlc.run_tlc("MC_NTv2", cfg, workers=workers, coverage=coverage, tags=("TPL",), timeout=timeout)
    finally:
        os.unlink(cfg)


def rand_coef(rnd, kind, U, V):
    """integer coefficients a[i][j] (i: column power, j: row power) within the budget"""
    a = [[0, 0, 0], [0, 0, 0], [0, 0, 0]]
    if kind == "zero":
        return a
    powers = {"const": [(0, 0)], "linear": [(0, 0), (1, 0), (0, 1)],
              "bilinear": [(0, 0), (1, 0), (0, 1), (1, 1)],
              "biquadratic": [(i, j) for i in range(3) for j in range(3)]}[kind]
    share = BUDGET // len(powers)
    for (i, j) in powers:
        cap = min(share // (U ** i * V ** j), 5000 if (i, j) == (0, 0) else 400)
        a[i][j] = rnd.randint(-cap, cap) if cap > 0 else 0
    top = {"linear": [(1, 0), (0, 1)], "bilinear": [(1, 1)], "biquadratic": [(2, 0), (0, 2), (2, 1), (1, 2), (2, 2)]}.get(kind, [])
    # make sure the class is genuinely of its degree (a leading coefficient that fits the budget is non-zero)
    for (i, j) in top:
        cap = share // (U ** i * V ** j)
        if a[i][j] == 0 and cap > 0:
            a[i][j] = rnd.choice([-1, 1]) * rnd.randint(1, min(cap, 400))
    return a


KINDS = [("linear", "biquadratic", "bilinear", "const"), ("biquadratic", "linear", "biquadratic", "linear"),
         ("biquadratic", "biquadratic", "zero", "biquadratic"), ("linear", "linear", "linear", "bilinear"),
         ("zero", "bilinear", "biquadratic", "const")]

ORIGINS = ["NE", "NW", "SE", "SW", "equator", "greenwich", "polar", "dateline"]


def instantiate(tpl, rnd, k, origin, serial):
    """template (list of abstract sub-grids printed by TLC) -> abstract file with real numbers"""
    subs = copy.deepcopy(tpl)
    dmin = min(min(s["dlat"], s["dlon"]) for s in subs)
    dmax = max(max(s["dlat"], s["dlon"]) for s in subs)
    for _ in range(1000):
        ulat = rnd.randint(-(-30000 // dmin), 3600000 // dmax)
        ulon = rnd.randint(-(-30000 // dmin), 3600000 // dmax)
        if rnd.random() < 0.6:
            ulat -= ulat % 2
            ulon -= ulon % 2
        ok = all((s["dlat"] * ulat < 200000 or (s["dlat"] * ulat) % 100 == 0) and
                 (s["dlon"] * ulon < 200000 or (s["dlon"] * ulon) % 100 == 0) and
                 30000 <= s["dlat"] * ulat <= 3600000 and 30000 <= s["dlon"] * ulon <= 3600000 for s in subs)
        if ok:
            break
    else:
        raise tlc.MachineryError("no unit scale for template")
    # abstract bounding box after refinement
    lo_lat = min(s["s"] for s in subs) * k * ulat
    hi_lat = max(s["n"] for s in subs) * k * ulat
    lo_lon = min(s["e"] for s in subs) * k * ulon
    hi_lon = max(s["w"] for s in subs) * k * ulon
    if hi_lat - lo_lat > 170 * DEG or hi_lon - lo_lon > 340 * DEG:
        return None
    def place(lo, hi, a, b):
        """offset so that [lo, hi] + off lies inside [a, b]"""
        a2, b2 = a - lo, b - hi
        if a2 > b2:
            return None
        return rnd.randint(a2, b2)
    span_lat, span_lon = hi_lat - lo_lat, hi_lon - lo_lon
    L, G = 90 * DEG, 180 * DEG - 1
    box = {"NE": ((1, L), (-G, -1)), "NW": ((1, L), (1, G)), "SE": ((-L, -1), (-G, -1)), "SW": ((-L, -1), (1, G)),
           "equator": ((-span_lat + 1, span_lat - 1), (-G, G)), "greenwich": ((-L, L), (-span_lon + 1, span_lon - 1)),
           "polar": ((L - span_lat - 40 * DEG, L), (-G, G)) if rnd.random() < .5 else ((-L, -L + span_lat + 40 * DEG), (-G, G)),
           "dateline": ((-L, L), (G - span_lon - 20 * DEG, G)) if rnd.random() < .5 else ((-L, L), (-G, -G + span_lon + 20 * DEG))}[origin]
    (a, b), (c, d) = box
    olat = place(lo_lat, hi_lat, max(a, -L), min(b, L))
    olon = place(lo_lon, hi_lon, max(c, -G), min(d, G))
    if olat is None or olon is None:
        return None
    out = []
    for n_, s in enumerate(subs):
        rows = (s["rows"] - 1) * k + 1
        cols = (s["cols"] - 1) * k + 1
        if rows > 60 or cols > 60:
            return None
        kinds = KINDS[(serial + n_) % len(KINDS)]
        t = {"name": s["name"] + ("%d" % (serial % 10)), "parent": s["parent"] if s["parent"] == "NONE" else s["parent"] + ("%d" % (serial % 10)),
             "s": olat + s["s"] * k * ulat, "e": olon + s["e"] * k * ulon,
             "dlat": s["dlat"] * ulat, "dlon": s["dlon"] * ulon, "dlatu": 0, "dlonu": 0, "rows": rows, "cols": cols,
             "sh": rnd.choice([0, 0, 1, 2, 3, 4]),
             "coef": [rand_coef(rnd, kinds[f], cols - 1, rows - 1) for f in range(4)]}
        t["n"] = t["s"] + (rows - 1) * t["dlat"]
        t["w"] = t["e"] + (cols - 1) * t["dlon"]
        d1, d2 = rnd.randint(1, 28), rnd.randint(1, 28)
        t.update({"cd": "%02d" % d1, "cm": "%02d" % rnd.randint(1, 12), "cy": "%d" % rnd.randint(1990, 2030),
                  "ud": "%02d" % d2, "um": "%02d" % rnd.randint(1, 12), "uy": "%d" % rnd.randint(1990, 2030)})
        out.append(t)
    hdr = {"gs_type": "SECONDS", "version": rnd.choice(["NTv2.0", "NTV2.1", "V2"]),
           "system_f": rnd.choice(SYSTEMS), "system_t": rnd.choice(SYSTEMS),
           "major_f": float(rnd.choice([6378160.0, 6378137.0, 6378388.0, 6378206.4])).hex(),
           "minor_f": float(rnd.choice([6356774.719, 6356752.314140356, 6356911.946, 6356583.8])).hex(),
           "major_t": float(6378137.0).hex(), "minor_t": float(6356752.314140356).hex()}
    return {"hdr": hdr, "subs": out}


def meta_only_file(rnd, serial):
    """increments with a micro-arc-second part (read back to 1e-6"): only the header is exercised"""
    rows, cols = 1 + 8 * rnd.randint(1, 6), 1 + 8 * rnd.randint(1, 6)
    dlat, dlatu = rnd.randint(30000, 3599000), 125 * rnd.randint(1, 7)
    dlon, dlonu = rnd.randint(30000, 3599000), 125 * rnd.randint(1, 7)
    hlat = (rows - 1) * dlat + (rows - 1) * dlatu // 1000
    hlon = (cols - 1) * dlon + (cols - 1) * dlonu // 1000
    s = rnd.randint(-90 * DEG, 90 * DEG - hlat) if hlat < 180 * DEG else None
    e = rnd.randint(-180 * DEG + 1, 180 * DEG - 1 - hlon) if hlon < 359 * DEG else None
    if s is None or e is None:
        return meta_only_file(rnd, serial)
    t = {"name": "M%d" % serial, "parent": "NONE", "s": s, "n": s + hlat, "e": e, "w": e + hlon, "dlat": dlat, "dlon": dlon,
         "dlatu": dlatu, "dlonu": dlonu, "rows": rows, "cols": cols, "sh": 0,
         "coef": [rand_coef(rnd, "const", 1, 1) for _ in range(4)],
         "cd": "%02d" % rnd.randint(1, 28), "cm": "%02d" % rnd.randint(1, 12), "cy": "%d" % rnd.randint(1990, 2030),
         "ud": "%02d" % rnd.randint(1, 28), "um": "%02d" % rnd.randint(1, 12), "uy": "%d" % rnd.randint(1990, 2030)}
    hdr = {"gs_type": rnd.choice(["SECONDS", "MINUTES"]), "version": "NTv2.0", "system_f": rnd.choice(SYSTEMS),
           "system_t": rnd.choice(SYSTEMS), "major_f": float(rnd.uniform(6.3e6, 6.4e6)).hex(),
           "minor_f": float(rnd.uniform(6.3e6, 6.4e6)).hex(), "major_t": float(rnd.uniform(6.3e6, 6.4e6)).hex(),
           "minor_t": float(rnd.uniform(6.3e6, 6.4e6)).hex()}
    return {"hdr": hdr, "subs": [t], "meta_only": True}


# ----------------------------------------------------------------------------------------
# queries: abstract positions q = (g, r, c, xn, yn) relative to sub-grid g (1-based), units 1e-8 cell
# ----------------------------------------------------------------------------------------
def query_lattice(af, rnd, cap, per_subgrid=True):
    """query kinds of the property's quantifier for every sub-grid; sampled down to `cap` per file but
    every kind is kept at least once per sub-grid"""
    H, Q1, Q3, EPS = F8 // 2, F8 // 4, 3 * F8 // 4, 1
    per_kind = {}
    def add(kind, g, r, c, xn, yn):
        per_kind.setdefault((g, kind), []).append({"g": g, "r": r, "c": c, "xn": xn, "yn": yn, "kind": kind})
    for g, s in enumerate(af["subs"], 1):
        R_, C_ = s["rows"], s["cols"]
        cells = [(r, c) for r in range(R_ - 1) for c in range(C_ - 1)]
        ring = [(r, c) for (r, c) in cells if r in (0, R_ - 2) or c in (0, C_ - 2)]
        inner = [(r, c) for (r, c) in cells if (r, c) not in set(ring)]
        for (r, c) in [(r, c) for r in range(R_) for c in range(C_)]:
            add("node", g, r, c, 0, 0)
        for (r, c) in cells:
            add("edge", g, r, c, H, 0)
            add("edge", g, r, c, 0, H)
            add("edge", g, r, c, rnd.randrange(1, F8), 0)
        for (r, c) in inner:
            add("inner_centre", g, r, c, H, H)
            add("inner_quarter", g, r, c, rnd.choice([Q1, Q3]), rnd.choice([Q1, Q3]))
            add("inner_random", g, r, c, rnd.randrange(1, F8), rnd.randrange(1, F8))
        for (r, c) in ring:
            add("ring_centre", g, r, c, H, H)
            add("ring_random", g, r, c, rnd.randrange(1, F8), rnd.randrange(1, F8))
        # just inside / outside each extent line, and the corners
        for c in range(C_ - 1):
            x = rnd.randrange(0, F8)
            add("inside_south", g, 0, c, x, EPS)
            add("outside_south", g, -1, c, x, F8 - EPS)
            add("inside_north", g, R_ - 2, c, x, F8 - EPS)
            add("outside_north", g, R_ - 1, c, x, EPS)
        for r in range(R_ - 1):
            y = rnd.randrange(0, F8)
            add("inside_east", g, r, 0, EPS, y)
            add("outside_east", g, r, -1, F8 - EPS, y)
            add("inside_west", g, r, C_ - 2, F8 - EPS, y)
            add("outside_west", g, r, C_ - 1, EPS, y)
        # exactly on the north / west extent line (nodes and edge points): in or out, never an error
        for c in range(C_ - 1):
            add("on_north_line", g, R_ - 1, c, rnd.choice([0, H, rnd.randrange(1, F8)]), 0)
        for r in range(R_ - 1):
            add("on_west_line", g, r, C_ - 1, 0, rnd.choice([0, H, rnd.randrange(1, F8)]))
        add("outside_corner", g, -1, -1, F8 - EPS, F8 - EPS)
        add("outside_corner", g, R_ - 1, C_ - 1, EPS, EPS)
        add("inside_corner", g, 0, 0, EPS, EPS)
        add("inside_corner", g, R_ - 2, C_ - 2, F8 - EPS, F8 - EPS)
    out = []
    keys = sorted(per_kind)
    if per_subgrid:                     # one of every kind per sub-grid
        first = keys
    else:                               # one of every kind per file, the sub-grid rotating with the kind
        names = sorted(set(k[1] for k in keys))
        n = len(af["subs"])
        first = [(1 + (i + rnd.randrange(n)) % n, kd) for i, kd in enumerate(names)]
        first = [k for k in first if k in per_kind]
    for k in first:
        lst = per_kind[k]
        out.append(lst.pop(rnd.randrange(len(lst))))
    rest = [q for k in keys for q in per_kind[k]]
    rnd.shuffle(rest)
    out += rest[:max(0, cap - len(out))]
    return out


def q_degrees(af, q):
    """abstract position -> the doubles handed to the code (decimal degrees, longitude positive EAST):
    a constant unit change of the exact rational, rounded once"""
    from fractions import Fraction
    s = af["subs"][q["g"] - 1]
    lat = Fraction(s["s"] + q["r"] * s["dlat"], 1000) + Fraction(q["yn"], F8) * Fraction(s["dlat"], 1000)
    lon = Fraction(s["e"] + q["c"] * s["dlon"], 1000) + Fraction(q["xn"], F8) * Fraction(s["dlon"], 1000)
    return float(lat / 3600), float(-lon / 3600)


# ----------------------------------------------------------------------------------------
# running the real code
# ----------------------------------------------------------------------------------------
class RecFile:
    """file object that remembers which 16-byte records were read (alpha: byte offsets -> record numbers)"""
    def __init__(self, path, mode, log):
        self.f = open(path, mode)
        self.log = log

    def __enter__(self):
        return self

    def __exit__(self, *a):
        self.f.close()
        return False

    def seek(self, *a):
        return self.f.seek(*a)

    def tell(self):
        return self.f.tell()

    def read(self, n=-1):
        pos = self.f.tell()
        rec = pos // R.REC
        if not self.log or self.log[-1] != rec:
            self.log.append(rec)
        return self.f.read(n)

    def close(self):
        self.f.close()


ZERO4 = [[0], [0], [0], [0]]


def hexes(vals):
    return ",".join(float(v).hex() for v in vals)


class Runner:
    def __init__(self, workdir):
        import geodepy.ntv2reader as nr
        import geodepy.transform as tr
        self.nr, self.tr = nr, tr
        self.dir = workdir
        self.calls = 0

    def write(self, af, fid):
        img = R.render(af)
        p = os.path.join(self.dir, "f%05d.gsb" % fid)
        with open(p, "wb") as f:
            f.write(img)
        return p, img

    def read(self, path):
        ev = {"a": "Read", "exc": "", "obs": {}}
        self.calls += 1
        try:
            g = self.nr.read_ntv2_file(path)
        except Exception as ex:
            ev["exc"] = type(ex).__name__
            ev["detail"] = str(ex)[:200]
            return None, ev
        o = {"num_orec": int(g.num_orec), "num_srec": int(g.num_srec), "num_file": int(g.num_file),
             "gs_type": str(g.gs_type), "version": str(g.version), "system_f": str(g.system_f), "system_t": str(g.system_t),
             "major_f": float(g.major_f).hex(), "minor_f": float(g.minor_f).hex(),
             "major_t": float(g.major_t).hex(), "minor_t": float(g.minor_t).hex(), "subs": []}
        for sg in g.subgrids.values():
            o["subs"].append({"name": str(sg.sub_name), "parent": str(sg.parent), "created": str(sg.created),
                              "updated": str(sg.updated), "s": fix.enc(float(sg.s_lat)), "n": fix.enc(float(sg.n_lat)),
                              "e": fix.enc(float(sg.e_long)), "w": fix.enc(float(sg.w_long)),
                              "dlat": fix.enc(float(sg.lat_inc)), "dlon": fix.enc(float(sg.long_inc)),
                              "gs_count": int(sg.gs_count)})
        ev["obs"] = o
        return g, ev

    def _interp(self, grid, lat, lon, m, record):
        """-> (exc, none, values, reads)"""
        log = []
        self.calls += 1
        if record:
            self.nr.open = lambda p, mode="r": RecFile(p, mode, log)
        try:
            res = self.nr.interpolate_ntv2(grid, lat, lon, method=m)
        except Exception as ex:
            return type(ex).__name__, 0, None, log
        finally:
            if record:
                try:
                    del self.nr.open
                except AttributeError:
                    pass
        if res is None or len(res) != 4:
            return "BadReturn", 0, None, log
        if all(v is None for v in res):
            return "", 1, None, log
        if any(v is None for v in res):
            return "BadReturn", 0, None, log
        vals = [float(v) for v in res]
        return "", 0, vals, log

    def interp(self, grid, img, path2, af, q, m, plan):
        lat, lon = q_degrees(af, q)
        ev = {"a": "Interp", "q": {k: q[k] for k in ("g", "r", "c", "xn", "yn")}, "m": m, "exc": "", "none": 0,
              "v": ZERO4, "pay": "", "pp": "skip", "reads": [], "lat": fix.enc(lat), "lon": fix.enc(lon), "kind": q["kind"]}
        exc, none, vals, log = self._interp(grid, lat, lon, m, True)
        ev["reads"] = [int(x) for x in log]
        ev["exc"], ev["none"] = exc, none
        if vals is not None:
            if any(math.isnan(v) or math.isinf(v) for v in vals):
                ev["exc"] = "NonFinite"
            else:
                ev["v"] = [fix.enc(v) for v in vals]
            ev["pay"] = hexes(vals)
        elif none:
            ev["pay"] = "none"
        # the same call on a copy of the file in which every record outside Allowed(q) is NaN
        if plan is not None and plan["unique"] and not ev["exc"]:
            with open(path2, "wb") as f:
                f.write(R.poisoned(img, plan["allowed"]))
            g2 = copy.copy(grid)
            g2.file_path = path2
            exc2, none2, vals2, _ = self._interp(g2, lat, lon, m, False)
            ev["pp"] = ("exc:" + exc2) if exc2 else ("none" if none2 else hexes(vals2))
        return ev

    def t2d(self, grid, af, q, m, fwd):
        lat, lon = q_degrees(af, q)
        ev = {"a": "T2D", "q": {k: q[k] for k in ("g", "r", "c", "xn", "yn")}, "m": m, "fwd": 1 if fwd else 0, "exc": "",
              "none": 0, "v": ZERO4, "pay": "", "pp": "skip", "reads": [], "lat": fix.enc(lat), "lon": fix.enc(lon),
              "out": [[0], [0]], "kind": q["kind"], "intsame": True}
        # a whole-degree position inside this sub-grid (if there is one), as floats and as Python ints: same numbers, same answer
        sg = af["subs"][q["g"] - 1]
        ilat = -(-sg["s"] // 3600000)            # smallest whole degree >= the southern limit (limits in 0.001")
        ilon_w = -(-sg["e"] // 3600000)          # longitude positive WEST in the file
        if ilat * 3600000 < sg["n"] and ilon_w * 3600000 < sg["w"] and getattr(self, "nint", 0) < 400:      # at most 400 pairs per run
            def call(a, b):
                try:
                    o = self.tr.ntv2_2d(grid, a, b, forward_tf=fwd, method=m)
                    return hexes([float(o[0]), float(o[1])])
                except Exception as ex:
                    return "exc:" + type(ex).__name__
            self.nint = getattr(self, "nint", 0) + 1
            ev["intsame"] = call(float(ilat), float(-ilon_w)) == call(int(ilat), int(-ilon_w))
            self.calls += 2
        exc, none, vals, _ = self._interp(grid, lat, lon, m, False)
        ev["none"] = none
        if vals is not None and not exc and all(math.isfinite(v) for v in vals):
            ev["v"] = [fix.enc(v) for v in vals]
        self.calls += 1
        try:
            out = self.tr.ntv2_2d(grid, lat, lon, forward_tf=fwd, method=m)
            a, b = float(out[0]), float(out[1])
            if not (math.isfinite(a) and math.isfinite(b)):
                ev["exc"] = "NonFinite"
            else:
                ev["out"] = [fix.enc(a), fix.enc(b)]
            if exc and not ev["exc"]:
                ev["exc"] = "InterpRaised:" + exc
        except Exception as ex:
            ev["exc"] = type(ex).__name__
        return ev


# ----------------------------------------------------------------------------------------
# TLC: plan and verdicts
# ----------------------------------------------------------------------------------------
def _chunks(traces, par, weight):
    """split into <= par chunks of similar weight, keeping order"""
    total = sum(weight(t) for t in traces) or 1
    target = total / float(par)
    out, cur, acc = [], [], 0
    for t in traces:
        cur.append(t)
        acc += weight(t)
        if acc >= target and len(out) < par - 1:
            out.append(cur)
            cur, acc = [], 0
    if cur:
        out.append(cur)
    return out


def tlc_batch(cfg, traces, tags, par, ctx, label, timeout=3000):
    """run Trace_NTv2 with `cfg` over the traces in parallel single-worker processes; -> list of tagged prints"""
    def one(chunk):
        p = tracecheck.write_tmp(json.dumps({"traces": chunk}), ".json")
        try:
            return tlc.run_tlc("Trace_NTv2", cfg, trace_file=p, workers=1, tags=tags, timeout=timeout)
        finally:
            os.unlink(p)
    chunks = _chunks(traces, par, lambda t: 1 + len(t["ev"]))
    with ThreadPoolExecutor(max_workers=par) as ex:
        results = list(ex.map(one, chunks))
    prints = []
    for r in results:
        if r.violated or r.deadlock:
            raise tlc.MachineryError("Trace_NTv2: unexpected TLC verdict %s\n%s" % (r.violated, r.out[-3000:]))
        prints += r.prints
        if ctx is not None:
            ctx.add_tlc(r, None)
    if ctx is not None and label:
        ctx.extra.setdefault("tlc_runs", []).append(
            {"run": label, "processes": len(chunks), "generated": sum(r.generated for r in results),
             "distinct": sum(r.distinct for r in results), "wall_s": round(max(r.wall for r in results), 2)})
    return prints


def strip(traces):
    """what TLC needs (drop driver-side annotations)"""
    out = []
    for t in traces:
        out.append({"id": t["id"], "file": {"hdr": t["file"]["hdr"], "subs": t["file"]["subs"]},
                    "ev": [{k: v for k, v in e.items() if k not in ("kind", "detail")} for e in t["ev"]]})
    return out


def plan(traces, par, ctx, label):
    prints = tlc_batch("Plan_NTv2.cfg", strip(traces), ("PLAN",), par, ctx, label)
    out = {}
    for p in prints:
        allowed = p[6]["__set__"] if isinstance(p[6], dict) else list(p[6])
        out[(p[1], p[2])] = {"unique": bool(p[3]), "tgt": p[4], "ring": p[5], "allowed": sorted(allowed)}
    return out


def validate(traces, par, ctx, label):
    """-> (fails [(id, l, clause)], ended ids, iostrat [(id, l)])"""
    prints = tlc_batch("Trace_NTv2.cfg", strip(traces), ("FAIL", "END", "IOSTRAT"), par, ctx, label)
    fails = [(p[1], p[2], p[3]) for p in prints if p[0] == "FAIL"]
    ended = set(p[1] for p in prints if p[0] == "END")
    io = [(p[1], p[2]) for p in prints if p[0] == "IOSTRAT"]
    return fails, ended, io


def describe(tr, l, clause, plans):
    ev = tr["ev"][l - 1]
    parts = clause.split("|")
    d = {"clause": parts[0], "call": ev["a"]}
    if ev["a"] != "Read":
        d["method"] = ev["m"]
        d["kind"] = ev.get("kind", "")
        pl = plans.get((tr["id"], l))
        d["cell_ring"] = parts[1] if len(parts) > 1 else (pl["ring"] if pl else "")
        if len(parts) > 3:
            d["field_degree"] = 1 if parts[2] == "linear" else 2
            d["field"] = int(parts[3])
        if ev.get("exc"):
            d["exception"] = ev["exc"]
        d["subgrids"] = len(tr["file"]["subs"])
    return d


def report(traces, fails, ended, plans, ctx):
    """-> ids of traces with a violation that is not a known finding"""
    bad = set()
    byid = {t["id"]: t for t in traces}
    for (tid, l, clause) in fails:
        tr = byid[tid]
        ev = tr["ev"][l - 1]
        d = describe(tr, l, clause, plans)
        det = {k: ev.get(k) for k in ("q", "m", "exc", "none", "pay", "pp", "reads", "fwd") if k in ev}
        if ev["a"] != "Read":
            det["lat_lon_deg"] = q_degrees(tr["file"], dict(ev["q"]))
            det["subgrid"] = {k: tr["file"]["subs"][ev["q"]["g"] - 1][k] for k in ("name", "s", "n", "e", "w", "dlat", "dlon", "rows", "cols")}
        else:
            det["obs"] = ev.get("obs")
        if ctx.violation(d, detail=json.dumps(det, default=str)[:1400],
                         case={"file": tr["file"], "event": {k: ev[k] for k in ("a", "q", "m", "fwd", "kind") if k in ev}}):
            bad.add(tid)
    for t in traces:
        if t["id"] not in ended:
            bad.add(t["id"])
            ctx.violation({"clause": "stuck", "call": "trace"}, detail="Trace_NTv2 could not consume trace %d" % t["id"],
                          case={"file": t["file"], "event": None})
    return bad


# ----------------------------------------------------------------------------------------
# the check
# ----------------------------------------------------------------------------------------
ACTIONS = ["Init", "ReadFile", "Choose", "Interpolate", "Transform2D", "ReadNode", "Return", "Forget"]
PAR = max(1, min(8, (os.cpu_count() or 2) - 2))


def model_orig(ctx):
    """the cursor model of the code as shipped ("orig") must be refuted by the own-nodes invariants (teeth of
    the model); the run also prints the file shapes"""
    cfg = tracecheck.write_tmp(tla_cfg("MCTiny", "orig", "FracsHalf"), ".cfg")
    try:
        ro = tlc.run_tlc("MC_NTv2", cfg, workers=2, tags=("TPL",), timeout=600)
    finally:
        os.unlink(cfg)
    ctx.add_tlc(ro, "MC_NTv2 cursor model of the code as shipped (orig): expected to be refuted")
    ctx.extra["asbuilt_original_cursor_model"] = {
        "refuted_by": ro.violated, "last_state": (ro.error_states[-1][1][:600] if ro.error_states else "")}
    if "ReadsOwnNodes" not in ro.violated and "ReadsAroundPosition" not in ro.violated:
        raise tlc.MachineryError("the shipped 16-node cursor model was not refuted: the own-nodes invariants have no teeth")
    tpls = {}
    for p in ro.prints:
        tpls[p[1]] = p[2]
    if not tpls:
        raise tlc.MachineryError("MC_NTv2 printed no file shapes")
    return [tpls[k] for k in sorted(tpls)]


def model_exhaustive(quick):
    files, fracs = ("MCFilesSmall", "FracsHalf") if quick else ("MCFiles", "FracsFull")
    return run_mc(files, "ring4", fracs, workers=4 if quick else PAR), files, fracs


def model_done(ctx, fut):
    r, files, fracs = fut.result()
    ctx.add_tlc(r, "MC_NTv2 exhaustive (%s, %s, cursor model ring4)" % (files, fracs))
    if r.violated:
        raise tlc.MachineryError("NTv2 model violates its own invariant %s\n%s" % (r.violated, r.out[-2500:]))
    missing = [a for a in ACTIONS if r.coverage.get(a, (0, 0))[1] == 0]
    if missing:
        raise tlc.MachineryError("MC_NTv2: actions never taken: %s" % missing)


def build_files(tpls, rnd, per_tpl, n_meta):
    files = []
    serial = 0
    for ti, tpl in enumerate(tpls):
        kmax = max(1, 59 // max(max(s["rows"], s["cols"]) - 1 for s in tpl))
        made = 0
        tries = 0
        while made < per_tpl and tries < 200:
            tries += 1
            k = 1 if made % 3 == 0 else (kmax if made % 3 == 1 and rnd.random() < 0.5 else rnd.randint(1, kmax))
            origin = ORIGINS[(serial + tries - made - 1) % len(ORIGINS)]
            af = instantiate(tpl, rnd, k, origin, serial)
            if af is None:
                continue
            af["tpl"], af["k"], af["origin"] = ti + 1, k, origin
            files.append(af)
            made += 1
            serial += 1
    for i in range(n_meta):
        files.append(meta_only_file(rnd, i))
    return files


def skeleton(files, rnd, cap, per_subgrid):
    """traces with the calls to make (no observations yet)"""
    traces = []
    for i, af in enumerate(files, 1):
        ev = [{"a": "Read"}]
        if not af.get("meta_only"):
            qs = query_lattice(af, rnd, cap, per_subgrid)
            for j, q in enumerate(qs):
                for m in ("bilinear", "bicubic"):
                    ev.append({"a": "Interp", "q": q, "m": m})
                if j % 4 == 0:
                    ev.append({"a": "T2D", "q": q, "m": ("bilinear", "bicubic")[(j // 4) % 2], "fwd": (j // 8) % 2 == 0})
        traces.append({"id": i, "file": af, "ev": ev})
    return traces


def plan_view(traces):
    return [{"id": t["id"], "file": t["file"],
             "ev": [{"a": e["a"], "q": {k: e["q"][k] for k in ("g", "r", "c", "xn", "yn")}, "m": e["m"]} if e["a"] != "Read"
                    else {"a": "Read"} for e in t["ev"]]} for t in traces]


def execute(traces, plans, Rn):
    path2 = os.path.join(Rn.dir, "poisoned.gsb")
    for t in traces:
        af = t["file"]
        path, img = Rn.write(af, t["id"])
        ov, subs = R.tokens(img)         # renderer round trip (alpha self-test): shapes and a node survive
        if not (ov["num_file"] == len(af["subs"]) and
                [s["gs_count"] for s in subs] == [s["rows"] * s["cols"] for s in af["subs"]] and
                all(list(tk["nodes"][0]) == [R.node_value(s, f, 0, 0) for f in range(4)] and
                    list(tk["nodes"][-1]) == [R.node_value(s, f, s["rows"] - 1, s["cols"] - 1) for f in range(4)]
                    for tk, s in zip(subs, af["subs"]))):
            raise tlc.MachineryError("renderer round trip failed for file %d" % t["id"])
        grid, ev0 = Rn.read(path)
        out = [ev0]
        for l, e in enumerate(t["ev"][1:], 2):
            if grid is None:
                break
            if e["a"] == "Interp":
                out.append(Rn.interp(grid, img, path2, af, e["q"], e["m"], plans.get((t["id"], l))))
            else:
                out.append(Rn.t2d(grid, af, e["q"], e["m"], e["fwd"]))
        t["ev"] = out
        os.unlink(path)
    if os.path.exists(path2):
        os.unlink(path2)


def run(ctx):
    rnd = random.Random(ctx.seed)
    quick = ctx.tier == "quick"
    tpls = model_orig(ctx)
    pool = ThreadPoolExecutor(max_workers=1)
    fut = pool.submit(model_exhaustive, quick)       # runs while the driver works; joined before the verdict
    files = build_files(tpls, rnd, 4 if quick else NTHOR, 6 if quick else 60)
    traces = skeleton(files, rnd, 24 if quick else 60, not quick)
    workdir = tempfile.mkdtemp(prefix="gvf_ntv2_")
    try:
        plans = plan(plan_view(traces), PAR, ctx, "Trace_NTv2!PlanSpec (candidates, allowed records)")
        Rn = Runner(workdir)
        execute(traces, plans, Rn)
        ctx.evaluations += Rn.calls
        ctx.extra["ntv2_2d_pairs_float_vs_int_arguments"] = getattr(Rn, "nint", 0)
        st_traces, st_check = selftest_cases(traces)
        fails, ended, io = validate(traces + st_traces, PAR, ctx, "Trace_NTv2")
        ctx.extra["binding_selftest"] = st_check([f for f in fails if f[0] >= ST_BASE], ended)
        fails = [f for f in fails if f[0] < ST_BASE]
        io = [x for x in io if x[0] < ST_BASE]
        bad = report(traces, fails, ended, plans, ctx)
        model_done(ctx, fut)
        ctx.traces += len([t for t in traces if t["id"] in ended and t["id"] not in bad])
        # accounting
        kinds = {}
        for t in traces:
            for l, e in enumerate(t["ev"], 1):
                if e["a"] == "Read":
                    ctx.actions["Read"] = ctx.actions.get("Read", 0) + 1
                    continue
                ctx.actions[e["a"]] = ctx.actions.get(e["a"], 0) + 1
                pl = plans.get((t["id"], l), {})
                key = "%s/%s/%s" % (e["kind"], e["m"], pl.get("ring", "?"))
                kinds[key] = kinds.get(key, 0) + 1
                ctx.nontrivial((t["id"], e["q"]["g"], e["q"]["r"], e["q"]["c"], e["q"]["xn"], e["q"]["yn"], e["m"], e["a"]))
        ctx.extra["query_strata"] = kinds
        ctx.extra["files"] = {"total": len(files), "meta_only": len([f for f in files if f.get("meta_only")]),
                              "subgrids": sorted(set(len(f["subs"]) for f in files)),
                              "max_rows_cols": max(max(s["rows"], s["cols"]) for f in files for s in f["subs"]),
                              "origins": sorted(set(f.get("origin", "meta") for f in files))}
        npo = len([1 for t in traces for e in t["ev"] if e.get("pp", "skip") != "skip"])
        ctx.extra["nan_copy_runs"] = npo
        ctx.extra["cursor_model_conformance"] = {
            "calls_compared": sum(1 for t in traces for e in t["ev"] if e["a"] == "Interp"),
            "reads_differ_from_ring4_model": len(io), "examples": io[:5]}
        for t in traces[:2] + traces[-1:]:
            e = t["ev"][min(3, len(t["ev"]) - 1)]
            ctx.sample({"file": {"subs": [{k: s[k] for k in ("name", "parent", "s", "n", "e", "w", "dlat", "dlon", "rows", "cols")}
                                          for s in t["file"]["subs"]]},
                        "call": {k: e.get(k) for k in ("a", "q", "m", "none", "pay", "pp", "reads")}})
    finally:
        shutil.rmtree(workdir, ignore_errors=True)
    ctx.rule = ("files = the 11 file shapes checked exhaustively in MC_NTv2 (1..4 sub-grids: single, nested, chained, disjoint, "
                "flush with the parent's edge, partially overlapping, all file orders), each instantiated %d times with seeded "
                "refinement (3..60 rows/cols), increments 30\"..3600\", origin stratum (4 hemisphere pairs, equator, Greenwich, "
                "polar, date line), four polynomial fields per sub-grid; calls = per sub-grid (quick: per file) every query kind of the quantifier "
                "(node, edge, inner centre/quarter/random, ring centre/random, 1e-8 cell inside/outside each extent line and "
                "corner, exactly on the north/west line) x both methods + ntv2_2d forward/reverse; distinct = distinct (file, position, "
                "method, call); the repository has no NTv2 test at all, so every case is outside its tests" % (4 if quick else NTHOR))
    ctx.exhaustive = False
    ctx.assumptions += [
        "node values are integer polynomials / 2^sh with |numerator| < 2^20: exact in float32 and in TLC integers",
        "increments of query-bearing files are multiples of 0.001\" (< 200\" or multiples of 0.1\"); micro-arc-second increments only in header-only files",
        "a position exactly on an extent line is accepted with any in/out choice for that sub-grid (a double cannot resolve it); 1e-8 cell inside/outside is decided strictly",
        "field change across one cell = bound SUM (i+j)|L_ij| on |df/dx|+|df/dy| over the cell (generous side)",
        "own-nodes clause is decided on observable behaviour: identical result bits on a copy of the file whose records outside the allowed window (incl. all headers, other sub-grids, END) are NaN; the recorded seek/read trace is compared with the cursor model for information only",
        "equal lat_inc among overlapping sub-grids is not generated (the rule 'finest' is then ambiguous)"]


ST_BASE = 900000
NTHOR = 72          # instances per file shape in the thorough tier


def selftest_cases(traces):
    """binding self-test: copies of one real trace with one logged field corrupted / one event dropped ride along
    in the validation batch; TLC must reject each at exactly that event"""
    base = idx = None
    for t in traces:
        if t["file"].get("meta_only"):
            continue
        for i, e in enumerate(t["ev"]):
            if e["a"] == "Interp" and e["m"] == "bilinear" and not e["none"] and not e["exc"] and e["pp"] not in ("skip", "none"):
                base, idx = t, i
                break
        if base:
            break
    if base is None:
        return [], lambda fails, ended: {"ran": False, "why": "no bilinear call with a value available"}
    def cp(k):
        t = copy.deepcopy(base)
        t["id"] = ST_BASE + k
        t["ev"] = [t["ev"][0], t["ev"][idx]]
        return t
    t0 = cp(0)
    t1 = cp(1)
    t1["ev"][1]["v"] = list(t1["ev"][1]["v"])
    t1["ev"][1]["v"][2] = fix.enc(fix.dec(t1["ev"][1]["v"][2]) + fix.Fraction(1, 100))
    t2 = cp(2)
    t2["ev"][1]["pp"] += "0"
    t3 = cp(3)
    w = t3["ev"][0]["obs"]["subs"][0]["w"]
    t3["ev"][0]["obs"]["subs"][0]["w"] = fix.enc(fix.dec(w) + fix.Fraction(2, 1000))
    t4 = cp(4)
    del t4["ev"][0]
    t5 = cp(5)
    t5["ev"][1]["none"] = 1

    def check(fails, ended):
        cl = {}
        for (i, l, c) in fails:
            cl.setdefault(i - ST_BASE, (l, c.split("|")[0]))
        out = {"ran": True, "base_trace": base["id"], "unmodified_copy_accepted": 0 not in cl and ST_BASE in ended,
               "value_plus_0.01_rejected": cl.get(1, ""), "nan_copy_bits_changed_rejected": cl.get(2, ""),
               "w_long_plus_0.002_rejected": cl.get(3, ""), "removed_read_event_not_consumed": ST_BASE + 4 not in ended,
               "value_replaced_by_none_rejected": cl.get(5, "")}
        if not out["unmodified_copy_accepted"]:
            # the real call chosen as base is itself rejected (it is reported as a violation by the main pass):
            # nothing can be concluded about the binding from its corrupted copies
            return {"ran": False, "why": "base call of trace %d is itself rejected: %s" % (base["id"], cl.get(0))}
        ok = (cl.get(1, (0, ""))[0] == 2 and cl.get(2) == (2, "own_nodes")
              and cl.get(3) == (1, "Read.w_long") and out["removed_read_event_not_consumed"]
              and cl.get(5, (0, ""))[1] == "no_value_inside_subgrid")
        if not ok:
            raise tlc.MachineryError("binding self-test failed: %s" % out)
        return out
    return [t0, t1, t2, t3, t4, t5], check


def replay(ctx, data):
    c = data["case"]
    af = c["file"]
    e = c.get("event") or {"a": "Read"}
    if e["a"] != "Read":
        e = dict(e)
        e["q"] = dict(e["q"], kind=e.get("kind", "replay"))
    tr = {"id": 1, "file": af, "ev": [{"a": "Read"}] + ([e] if e["a"] != "Read" else [])}
    workdir = tempfile.mkdtemp(prefix="gvf_ntv2_")
    try:
        plans = plan(plan_view([tr]), 1, ctx, None)
        Rn = Runner(workdir)
        execute([tr], plans, Rn)
        fails, ended, io = validate([tr], 1, ctx, "replay")
        report([tr], fails, ended, plans, ctx)
        print("replayed %d call(s); events: %s" % (len(tr["ev"]), json.dumps(tr["ev"][-1], default=str)[:600]))
        print("verdict by Trace_NTv2: %s" % (fails if fails else "accepted"))
    finally:
        shutil.rmtree(workdir, ignore_errors=True)
