"""SESSION - cross-module composition (spec/Session.tla), beyond the twenty listed properties.

TLC simulates user sessions (a workspace of values; coordinate objects, functional conversions,
geodesics, datum transformation); the driver replays each on the real library; Trace_Session (TLC)
decides: the call is one the specification allows, kind / notation of the new value, every earlier
value bit-identical afterwards (immutability), and values denoting the same point in the same form
agree numerically whatever route produced them.     ./check SESSION quick|thorough
"""
import json
import math
import os
import random

from harness import alpha, fix, tlc, tracecheck
from harness.props.c09 import sig


def _mods():
    import geodepy.constants as gc
    import geodepy.convert as cv
    import geodepy.coord as co
    import geodepy.geodesy as gd
    import geodepy.transform as tf
    import geodepy.angles as an
    return gc, cv, co, gd, tf, an


def E_(x):
    return fix.enc(float(x))


NCLS = {"float": float}


def observe(v):
    t = type(v).__name__
    z = [0]
    o = {"k": "?", "n": "na", "lat": z, "lon": z, "cos": z, "h": z, "hasht": False, "x": z, "y": z, "z": z, "zone": 0, "e": z, "nn": z,
         "s": z}
    if t == "CoordGeo":
        lat, lon = alpha.angle_deg(v.lat), alpha.angle_deg(v.lon)
        o.update({"k": "geo", "n": alpha.notn_of(v.lat), "lat": fix.enc(lat), "lon": fix.enc(lon), "cos": E_(math.cos(math.radians(float(lat)))),
                  "hasht": v.ell_ht is not None, "h": E_(v.ell_ht or 0.0)})
    elif t == "CoordCart":
        o.update({"k": "cart", "x": E_(v.xaxis), "y": E_(v.yaxis), "z": E_(v.zaxis)})
    elif t == "CoordTM":
        o.update({"k": "tm", "zone": int(v.zone), "e": E_(v.east), "nn": E_(v.north), "hasht": v.ell_ht is not None, "h": E_(v.ell_ht or 0.0)})
    elif isinstance(v, tuple) and v and v[0] == "llh":
        o.update({"k": "llh", "lat": E_(v[1]), "lon": E_(v[2]), "cos": E_(math.cos(math.radians(v[1]))), "hasht": v[3] is not None,
                  "h": E_(v[3] or 0.0)})
    elif isinstance(v, tuple) and v and v[0] == "xyz":
        o.update({"k": "xyz", "x": E_(v[1]), "y": E_(v[2]), "z": E_(v[3])})
    elif isinstance(v, tuple) and v and v[0] == "grid":
        o.update({"k": "grid", "zone": int(v[1]), "e": E_(v[2]), "nn": E_(v[3])})
    elif isinstance(v, tuple) and v and v[0] in ("line", "gline"):
        o.update({"k": v[0], "s": E_(v[1])})
    o["n_"] = o.pop("nn")
    return o


class Replayer:
    def __init__(self, rnd):
        self.gc, self.cv, self.co, self.gd, self.tf, self.an = _mods()
        an = self.an
        self.ncls = {"float": float, "dec": an.DECAngle, "hp": an.HPAngle, "dms": an.DMSAngle}
        self.rnd = rnd
        self.calls = 0

    def points(self):
        """three points away from zone boundaries and the band limits: 1 in the southern hemisphere, 2 anywhere (not antipodal to 1),
        3 within 5..80 km of 1 in the same zone and hemisphere (Session!South, Session!Near); and the epoch of the session's ATRF frame"""
        import datetime
        r = self.rnd

        def off_boundary(lon):
            m = (lon + 180.0) % 6.0
            return lon + 1.0 if m < 1.0 else (lon - 1.0 if m > 5.0 else lon)
        pts = {}
        pts[1] = (r.uniform(-75, -2), off_boundary(r.uniform(-178, 178)), round(r.uniform(-50, 2500), 3))
        while True:
            lat, lon = r.uniform(-75, 80), off_boundary(r.uniform(-178, 178))
            c = (math.sin(math.radians(lat)) * math.sin(math.radians(pts[1][0])) +
                 math.cos(math.radians(lat)) * math.cos(math.radians(pts[1][0])) * math.cos(math.radians(lon - pts[1][1])))
            if c > -0.99:
                break
        pts[2] = (lat, lon, round(r.uniform(-50, 2500), 3))
        d, b = r.uniform(5e3, 8e4), r.uniform(0, 360)
        lat3 = pts[1][0] + math.degrees(d * math.cos(math.radians(b)) / 6.37e6)
        lon3 = pts[1][1] + math.degrees(d * math.sin(math.radians(b)) / (6.37e6 * math.cos(math.radians(pts[1][0]))))
        lat3 = min(lat3, -0.5)
        z1 = math.floor((pts[1][1] + 180.0) / 6.0)
        lon3 = min(max(lon3, z1 * 6.0 - 180.0 + 0.2), z1 * 6.0 - 180.0 + 5.8)       # same zone as point 1
        pts[3] = (lat3, lon3, round(r.uniform(-50, 2500), 3))
        self.epoch = datetime.date(r.randint(1995, 2045), r.randint(1, 12), r.randint(1, 28))
        return pts

    def mk_angle(self, x, n):
        an = self.an
        return {"float": lambda: float(x), "dec": lambda: an.DECAngle(x), "hp": lambda: an.dec2hpa(x), "dms": lambda: an.dec2dms(x)}[n]()

    def step(self, wsr, lab, pts):
        """execute one call on the real library; wsr = list of real values"""
        cv, co, gd, tf, gc = self.cv, self.co, self.gd, self.tf, self.gc
        a, i, j = lab
        self.calls += 1
        if a == "NewGeo":
            lat, lon, h = pts[i]
            return co.CoordGeo(self.mk_angle(lat, j), self.mk_angle(lon, j), h)
        v = wsr[i - 1]
        if a == "GeoCart":
            return v.cart()
        if a == "CartGeo":
            return v.geo(notation=self.ncls[j])
        if a == "GeoTM":
            return v.tm()
        if a == "TMGeo":
            return v.geo(notation=self.ncls[j])
        if a == "GeoNotation":
            return v.notation(self.ncls[j])
        if a == "Tuple":
            t = type(v).__name__
            if t == "CoordGeo":
                return ("llh", float(alpha.angle_deg(v.lat)) if False else self.deg(v.lat), self.deg(v.lon), v.ell_ht)
            if t == "CoordCart":
                return ("xyz", v.xaxis, v.yaxis, v.zaxis)
            return ("grid", v.zone, v.east, v.north, v.hemi_north)
        if a == "F_llh2xyz":
            return ("xyz",) + tuple(cv.llh2xyz(v[1], v[2], v[3] if v[3] is not None else 0))
        if a == "F_xyz2llh":
            la, lo, h = cv.xyz2llh(v[1], v[2], v[3])
            return ("llh", la, lo, h)
        if a == "F_geo2grid":
            hemi, zone, e, n, psf, conv = cv.geo2grid(v[1], v[2])
            return ("grid", zone, e, n, hemi == "North")
        if a == "F_grid2geo":
            la, lo, psf, conv = cv.grid2geo(v[1], v[2], v[3], "north" if v[4] else "south")
            return ("llh", la, lo, None)
        if a == "Inverse":
            w = wsr[j - 1]
            s, a12, a21 = gd.vincinv(v[1], v[2], w[1], w[2])
            return ("line", s, a12, a21)
        if a == "Direct":
            ln = wsr[j - 1]
            la, lo, az = gd.vincdir(v[1], v[2], ln[2], ln[1])
            # vincdir returns lon1 + dlon, which may leave [-180, 180] across the antimeridian (C04 compares modulo 360);
            # a session folds it back before handing it to the grid conversions, which insist on [-180, 180]
            lo = (lo + 180.0) % 360.0 - 180.0
            return ("llh", la, lo, None)
        if a == "To94":
            x, y, z, _ = tf.conform7(v[1], v[2], v[3], gc.gda2020_to_gda94)
            return ("xyz", x, y, z)
        if a == "To2020":
            x, y, z, _ = tf.conform7(v[1], v[2], v[3], gc.gda94_to_gda2020)
            return ("xyz", x, y, z)
        if a == "ToAtrf":
            x, y, z, _ = tf.transform_gda2020_to_atrf2014(v[1], v[2], v[3], self.epoch)
            return ("xyz", x, y, z)
        if a == "FromAtrf":
            x, y, z, _ = tf.transform_atrf2014_to_gda2020(v[1], v[2], v[3], self.epoch)
            return ("xyz", x, y, z)
        if a in ("MgaTo94", "MgaTo2020"):
            f = tf.transform_mga2020_to_mga94 if a == "MgaTo94" else tf.transform_mga94_to_mga2020
            zone, e, n, _h, _v = f(v[1], v[2], v[3])
            return ("grid", zone, e, n, False)
        if a == "GridInverse":
            w = wsr[j - 1]
            gdist, b12, b21, lsf = gd.vincinv_utm(v[1], v[2], v[3], w[1], w[2], w[3], "north" if v[4] else "south")
            return ("gline", gdist, b12, b21)
        if a == "GridDirect":
            ln = wsr[j - 1]
            zone, e, n, b21, lsf = gd.vincdir_utm(v[1], v[2], v[3], ln[2], ln[1], "north" if v[4] else "south")
            return ("grid", zone, e, n, v[4])
        raise tlc.MachineryError("unknown action %r" % (a,))

    def deg(self, ang):
        """decimal degrees of an angle held in any notation, through the object's own public .dec() (user code)"""
        return float(ang) if isinstance(ang, float) else float(ang.dec())

    def replay(self, hist):
        pts = self.points()
        wsr, evs = [], []
        for lab in hist:
            lab = tuple(lab)
            before = [sig(x) for x in wsr]
            ev = {"a": lab[0], "i": lab[1], "j": lab[2] if isinstance(lab[2], int) else 0, "n": lab[2] if isinstance(lab[2], str) else "",
                  "exc": "", "unchanged": True, "obs": observe(None)}
            try:
                new = self.step(wsr, lab, pts)
                ev["obs"] = observe(new)
                ev["unchanged"] = before == [sig(x) for x in wsr]
                wsr.append(new)
            except tlc.MachineryError:
                raise
            except Exception as ex:
                ev["exc"] = "%s: %s" % (type(ex).__name__, str(ex)[:100])
                evs.append(ev)
                break
            evs.append(ev)
        return {"pts": {str(k): v for k, v in pts.items()}, "hist": [list(x) for x in hist], "ev": evs}


def validate(traces, ctx, label):
    fails, _ = tracecheck.validate("Trace_Session", "Trace_Session.cfg", traces, ctx, label, min_chunk=100, timeout=3000)
    return fails


def behaviours(ctx, n, size):
    seen = {}
    for emit, share in (("Emit", 0.4), ("EmitGrid", 0.2), ("EmitCart", 0.2), ("EmitGeod", 0.2)):
        cfg = tracecheck.write_tmp("SPECIFICATION Spec\nCONSTANT Points <- MCPoints\nCONSTANT South <- MCSouth\nCONSTANT Near <- MCNear\n"
                                   "CONSTANT MaxVals = %d\nCONSTRAINT %s\nCHECK_DEADLOCK FALSE\n" % (size, emit), ".cfg")
        try:
            r = tlc.run_tlc("MC_Session", cfg, workers=1, tags=("BEH",), simulate={"num": max(20, int(n * share))}, depth=size + 2,
                            seed=ctx.seed, timeout=1800)
        finally:
            os.unlink(cfg)
        for p in r.prints:
            seen[json.dumps(p[1])] = p[1]
    return list(seen.values())


def run(ctx):
    rnd = random.Random(ctx.seed)
    quick = ctx.tier == "quick"
    cfg = tracecheck.write_tmp("SPECIFICATION Spec\nCONSTANT Points <- MCPoints\nCONSTANT South <- MCSouth\nCONSTANT Near <- MCNear\n"
                               "CONSTANT MaxVals = %d\nINVARIANT TypeOK\nINVARIANT Shape\n"
                               "PROPERTY Immutable\nCHECK_DEADLOCK FALSE\n" % (3 if quick else 4), ".cfg")
    try:
        r = tlc.run_tlc("MC_Session", cfg, workers=8, timeout=1800)
    finally:
        os.unlink(cfg)
    ctx.add_tlc(r, "MC_Session exhaustive to %d values (TypeOK, Shape, Immutable)" % (3 if quick else 4))
    if r.violated:
        raise tlc.MachineryError("Session model violated %s" % r.violated)
    behs = behaviours(ctx, 150 if quick else 3000, 12 if quick else 14)
    rnd.shuffle(behs)
    behs = behs[:400 if quick else 6000]
    R = Replayer(rnd)
    traces = [R.replay(h) for h in behs]
    ctx.evaluations = R.calls
    fails = validate(traces, ctx, "Trace_Session")
    for (i, l, clause) in fails:
        tr = traces[i]
        ctx.violation({"clause": clause.split(".")[-1], "action": clause.split(".")[0]},
                      "hist=%s pts=%s event=%s" % (tr["hist"][:l], tr["pts"], json.dumps(tr["ev"][l - 1] if l else {})[:400]),
                      case={"hist": tr["hist"], "pts": tr["pts"]})
    for t in traces:
        ctx.nontrivial(json.dumps(t["hist"]))
        for e in t["ev"]:
            ctx.actions[e["a"]] = ctx.actions.get(e["a"], 0) + 1
    ctx.selftest(selftest, [t for i, t in enumerate(traces) if i not in set(f[0] for f in fails)])
    for t in traces[:2]:
        ctx.sample({"calls": t["hist"], "points": t["pts"]})
    ctx.rule = ("sessions = TLC-simulated behaviours of Session.tla filling a workspace of %d values (coordinate objects, tuples, "
                "functional conversions, inverse/direct geodesics, GDA94<->GDA2020 by conform7 and by the MGA pipeline, GDA2020<->ATRF2014 at "
                "an epoch, grid inverse/direct geodesics) on three random points (one southern, one anywhere, one near the first); distinct = distinct call "
                "sequences; no repository test chains modules" % (12 if quick else 14))
    ctx.assumptions += ["composition-level tolerance 4 mm (chains through the inverse/direct geodesic pair and datum transformation); the "
                        "tight tolerances are the business of the per-property checks"]


def selftest(good):
    import copy
    from fractions import Fraction
    base = next((t for t in good if len(t["ev"]) >= 5), None)
    if base is None:
        return {"ran": False}
    t1 = copy.deepcopy(base); t1["ev"][-1]["unchanged"] = False
    t2 = copy.deepcopy(base); t2["ev"][-1]["obs"]["k"] = "line" if t2["ev"][-1]["obs"]["k"] != "line" else "xyz"
    t3 = copy.deepcopy(base); t3["ev"][2]["a"] = "Direct"; t3["ev"][2]["j"] = 1
    fails = validate([base, t1, t2, t3], None, None)
    rej = {i: c for (i, l, c) in fails}
    out = {"baseline_accepted": 0 not in rej, "mutation_of_earlier_value": rej.get(1, ""), "wrong_kind": rej.get(2, ""),
           "call_not_allowed": rej.get(3, "")}
    if 0 in rej or not all(k in rej for k in (1, 2, 3)):
        raise tlc.MachineryError("binding self-test failed: %s" % out)
    return out


def replay(ctx, data):
    R = Replayer(random.Random(0))
    c = data["case"]
    pts = {int(k): tuple(v) for k, v in c["pts"].items()}
    R.points = lambda: pts
    tr = R.replay([tuple(x) for x in c["hist"]])
    fails = validate([tr], ctx, "replay")
    for (i, l, clause) in fails:
        ctx.violation({"clause": clause.split(".")[-1], "action": clause.split(".")[0]}, json.dumps(tr["ev"][l - 1] if l else {})[:500])
    print("replayed %d calls: %s" % (len(tr["ev"]), fails if fails else "accepted"))
