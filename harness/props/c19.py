"""C19 - survey reductions are geometrically and physically self-consistent.

spec/Survey.tla (traverse state machine on the rational-trig lattice, validity tables, laws,
fixed-point sine/cosine) -> TLC checks the model (MC_Survey), enumerates the validity tables and
the strata (Cells_Survey) and generates traverses (MC_Survey GenSpec) -> this driver executes
them on geodepy.survey / geodepy.convert and logs arguments and results exactly ->
spec/Trace_Survey.tla (TLC) decides every clause.

The driver builds a JSON-able `spec` (recipe) for every trace first (all random draws happen
there), then `execute(spec)` calls the real code; replay() re-executes one recipe.
"""
import copy
import json
import math
import os
import random

from harness import fix, tlc, tracecheck

NONE = -9999
K_DISP = 10000
PAR_FREQ = 14985400.0
PAR_UNIT = 10.0
PAR_NREF = 1.000281783
NREFS = [1.000281783, 1.00028, 1.0002945, 1.000274]
PARALLEL = 8


def _mods():
    import geodepy.survey as sv
    import geodepy.convert as cv
    return sv, cv


def enc(x):
    return fix.enc(x)


def exc_name(ex):
    return type(ex).__name__


# ------------------------------------------------------------------------------------------
# TLC side: model check, tables and strata, behaviours
# ------------------------------------------------------------------------------------------
def gen_cfg(tier_prefix, maxlegs):
    return ("SPECIFICATION GenSpec\nCONSTANT Triples <- %sTriples\nCONSTANT Mults <- %sMults\n"
            "CONSTANT Origins <- %sOrigins\nCONSTANT Rots <- %sRots\nCONSTANT Psfs <- GPsfs\n"
            "CONSTANT MaxLegs = %d\nCONSTRAINT Bound\nCHECK_DEADLOCK FALSE\n"
            % (tier_prefix, tier_prefix, tier_prefix, tier_prefix, maxlegs))


def parse_beh(p):
    start, legs, itin = p[1], p[2], p[3]
    return {"kind": "trav", "start": list(start),
            "legs": [{"d": list(g["d"]), "rot": list(g["rot"]), "m": g["m"], "psf": list(g["psf"])} for g in legs],
            "itin": [{"dist": it["dist"], "to": list(it["to"])} for it in itin]}


def behaviours(ctx, quick):
    pre = "GQ" if quick else "GT"
    out = []
    cfg = tracecheck.write_tmp(gen_cfg(pre, 1), ".cfg")
    try:
        r = tlc.run_tlc("MC_Survey", cfg, workers=1, tags=("BEH",), timeout=1800)
    finally:
        os.unlink(cfg)
    ctx.add_tlc(r, "traverses of 1 leg: every (origin, leg) of the generation lattice")
    one = [parse_beh(p) for p in r.prints]
    # quick: every 2nd single leg (the set is ordered by TLC deterministically); thorough: all
    out += one if not quick else one[::2]
    n1 = len(out)
    cfg = tracecheck.write_tmp(gen_cfg(pre, 3), ".cfg")
    try:
        rs = tlc.run_tlc("MC_Survey", cfg, workers=1, tags=("BEH",), simulate={"num": 150 if quick else 3000},
                         depth=5, seed=ctx.seed, timeout=1800)
    finally:
        os.unlink(cfg)
    sim = [parse_beh(p) for p in rs.prints]
    ctx.extra["simulated_traverses_3_legs"] = len(sim)
    out += sim
    return out, n1, len(one)


def tables(ctx):
    r = tlc.run_tlc("Cells_Survey", "Cells_Survey.cfg", workers=1, tags=("CELL", "PAR", "STRAT", "COUNT"), timeout=1800)
    ctx.add_tlc(r, "Cells_Survey: validity tables (3456 + 8 cells), strata, table laws")
    if r.violated:
        raise tlc.MachineryError("validity table violates its own law %s\n%s" % (r.violated, r.out[-2000:]))
    cnt = r.tagged("COUNT")
    if not cnt:
        raise tlc.MachineryError("Cells_Survey printed no COUNT\n" + r.out[-2000:])
    c = cnt[0]
    ctx.extra["validity_table"] = {"cells": c[1], "must_return": c[2], "must_raise": c[3], "free": c[4],
                                   "intended_return_but_as_built_raise": c[5], "intended_raise_but_as_built_return": c[6]}
    cells = [(list(p[1]), p[2], p[3]) for p in r.tagged("CELL")]
    pars = [(list(p[1]), p[2]) for p in r.tagged("PAR")]
    strata = [tuple(p[1:]) for p in r.tagged("STRAT")]
    return cells, pars, strata


# ------------------------------------------------------------------------------------------
# recipes (all random draws happen here)
# ------------------------------------------------------------------------------------------
def ang_of(d):
    a = math.degrees(math.atan2(d[0], d[1]))
    if a < 0:
        a += 360.0
    return a


def nextafter(x, up):
    return math.nextafter(x, math.inf if up else -math.inf)


def spec_rand(rnd, mag, dcl, dirc):
    lim = 1.0e7
    M = [100.0, 1.0e5, 1.0e7][mag - 1]
    lo = [0.0, 100.0, 1.0e6][mag - 1]
    for _ in range(200):
        e1 = rnd.choice([-1, 1]) * rnd.uniform(lo, M)
        n1 = rnd.choice([-1, 1]) * rnd.uniform(lo, M)
        d = 10 ** rnd.uniform(*[(-3, 0), (0, 2), (2, 4), (4, 6), (6, 7.3)][dcl - 1])
        if dirc <= 8:
            b = math.radians(rnd.uniform(45.0 * (dirc - 1) + 0.01, 45.0 * dirc - 0.01))
            e2, n2 = e1 + d * math.sin(b), n1 + d * math.cos(b)
        else:
            axis = (dirc - 9) % 4                      # N E S W
            side = 0 if dirc <= 12 else (1 if dirc <= 16 else 2)   # on the axis / one ulp either side
            ux, uy = [(0, 1), (1, 0), (0, -1), (-1, 0)][axis]
            e2, n2 = e1 + d * ux, n1 + d * uy
            # beside the axis: one ulp of the coordinate (a third of the strata), otherwise an ANGLE of m x 10^-12 .. 10^-5 rad with
            # the exponent fixed by the stratum (so that every decade is there in every run, whatever the seed)
            kk = mag * 5 + dcl
            off = 0.0 if kk % 3 == 0 else d * rnd.uniform(1.0, 9.99) * 10.0 ** (-12 + kk % 8)
            sgn = 1.0 if side == 1 else -1.0
            if ux == 0:
                e2 = e1 if side == 0 else (nextafter(e1, side == 1) if off == 0.0 or e1 + sgn * off == e1 else e1 + sgn * off)
            else:
                n2 = n1 if side == 0 else (nextafter(n1, side == 1) if off == 0.0 or n1 + sgn * off == n1 else n1 + sgn * off)
        if abs(e2) <= lim and abs(n2) <= lim and (e2 != e1 or n2 != n1):
            break
    else:
        raise tlc.MachineryError("no admissible sample for rand stratum %s" % ((mag, dcl, dirc),))
    rot = rnd.choice([rnd.uniform(-180.0, 360.0), rnd.uniform(-2.5, 2.5), 90.0, -90.0, 180.0])
    psf = rnd.choice([rnd.uniform(0.5, 2.0), 0.9996, 1.0004, rnd.uniform(0.9994, 1.0006), 2.0])
    return {"kind": "rand", "stratum": [mag, dcl, dirc], "p1": [e1, n1], "p2": [e2, n2], "rot": rot, "psf": psf}


def spec_va(rnd, zc, sc, hc):
    small = 10 ** rnd.uniform(-6, -1)
    z = [rnd.uniform(0.5, 89.5), 90.0, rnd.uniform(90.5, 179.5), rnd.uniform(180.5, 269.5), 270.0,
         rnd.uniform(270.5, 359.5), small, 180.0 - small, 180.0 + small, 360.0 - small][zc - 1]
    s = 10 ** rnd.uniform(*[(-1, 0), (0, 2), (2, 3.7), (3.7, 4.69897)][sc - 1])
    h1, h2 = round(rnd.uniform(0.0, 5.0), 3), round(rnd.uniform(0.0, 5.0), 3)
    hts = [(h1, None), (None, h2), (h1, h2), (-h1, -h2), (rnd.choice([0, 0.0]), rnd.choice([0, 0.0]))][hc - 1]
    return {"kind": "va", "stratum": [zc, sc, hc], "zdir": [], "k": 0, "z": z, "s": s, "hts": list(hts)}


def temp_of(rnd, tc):
    if tc == 1:
        return rnd.choice([rnd.uniform(-20.0, -0.001), rnd.uniform(-20.0, -0.001), -20.0])
    if tc == 2:
        return rnd.choice([0, 0.0])
    if tc == 3:
        return rnd.uniform(0.001, 25.0)
    return rnd.choice([rnd.uniform(25.0, 45.0), rnd.uniform(25.0, 45.0), 45.0])


def wl_of(rnd, wc):
    return [rnd.choice([rnd.uniform(0.4, 0.4999), 0.4]), rnd.choice([rnd.uniform(0.5, 1.0), rnd.uniform(0.5, 1.0), 0.5, 1.0, 0.85]),
            rnd.choice([rnd.uniform(1.0001, 1.6), 1.6, 1.55])][wc - 1]


def co2_of(rnd, cc):
    return [300, 420, 600, rnd.uniform(300.0, 600.0)][cc - 1]


def spec_fv(rnd, tc, pc, mc, cc, wc):
    t = temp_of(rnd, tc)
    p = [rnd.choice([rnd.uniform(650.0, 800.0), 650.0]), rnd.uniform(800.0, 1000.0),
         rnd.choice([rnd.uniform(1000.0, 1100.0), 1013.25, 1100.0])][pc - 1]
    moist, h, w = "hum", None, None
    if mc == 1:
        h = rnd.choice([0, 0.0])
    elif mc == 2:
        h = rnd.uniform(0.01, 50.0)
    elif mc == 3:
        h = rnd.uniform(50.0, 99.99)
    elif mc == 4:
        h = rnd.choice([100, 100.0])
    else:
        moist = "wet"
        w = t - rnd.uniform(0.0, 8.0)
        if t > 0 and rnd.random() < 0.34:
            w = rnd.choice([0, 0.0])            # a wet-bulb reading of exactly 0 degrees
    d1 = 10 ** rnd.uniform(0, 4.69897)
    d2 = rnd.choice([d1 * rnd.choice([2, 3, 7, 10]), 10 ** rnd.uniform(0, 4.69897)])
    if d2 > 50000.0:
        d2 = d1 / 2
    return {"kind": "fv", "stratum": [tc, pc, mc, cc, wc], "t": t, "p": p, "moist": moist, "h": h, "w": w,
            "co2": co2_of(rnd, cc), "wl": wl_of(rnd, wc), "nref": rnd.choice(NREFS), "d1": d1, "d2": d2,
            "style": rnd.randrange(2), "k": K_DISP}


def spec_disp(rnd, tc, ec, cc, wc):
    t = temp_of(rnd, tc)
    e = [rnd.choice([0, 0.0]), rnd.uniform(0.01, 10.0), rnd.choice([rnd.uniform(10.0, 40.0), 40.0])][ec - 1]
    co2 = None if cc == 1 else co2_of(rnd, cc - 1)
    return {"kind": "disp", "stratum": [tc, ec, cc, wc], "t": t, "p": rnd.uniform(650.0, 1100.0), "e": e,
            "co2": co2, "wl": wl_of(rnd, wc), "k": K_DISP}


def build_recipes(ctx, rnd, quick, cells, pars, strata, behs):
    rec = list(behs)
    # polar2rect / rect2polar directly on the lattice directions used by the traverses
    dirs = sorted(set(tuple(g["d"]) for b in behs for g in b["legs"]))
    for i, d in enumerate(dirs):
        for m in ([1, 250] if quick else [1, 7, 250, 20000]):
            rec.append({"kind": "polar", "d": list(d), "m": m, "turn": [0, 1, -1][(i + m) % 3]})
    # zenith reduction on the lattice: every direction is a zenith angle (p = 0: not admissible)
    hts = [(162, 5), (None, 150), (-250, None), (0, 0)]
    for i, d in enumerate(dirs):
        for j, k in enumerate([1, 37, 10000]):
            rec.append({"kind": "va", "stratum": [0, 0, 0], "zdir": list(d), "k": k, "z": None, "s": None,
                        "hts": [None if v is None else v / 100.0 for v in hts[(i + j) % 4]]})
    for z in [0.0, 180.0, 360.0, -5.0, 400.0, 0, 180, 360, 720.0, -180.0]:
        rec.append({"kind": "va", "stratum": [0, 0, 0], "zdir": [], "k": 0, "z": z, "s": 12.5, "hts": [1.5, 1.2]})
    # validity tables: every cell
    for i, (c, intended, asbuilt) in enumerate(cells):
        rec.append({"kind": "cell", "cell": c, "as_float": i % 2})
    for (c, intended) in pars:
        rec.append({"kind": "par", "cell": c})
    rec.append({"kind": "consts"})
    # the corner where the dispersion terms of the water vapour weigh most: shortest carrier, hottest saturated air
    for pc in (1, 2, 3):
        for cc in (1, 2, 3, 4):
            sp = spec_fv(rnd, 4, pc, 4, cc, 1)
            sp["t"], sp["wl"] = 45.0, 0.4
            rec.append(sp)
    # strata x samples
    per = {"rand": 1 if quick else 6, "va": 1 if quick else 6, "fv": 1 if quick else 5, "disp": 1 if quick else 6}
    for st in sorted(strata):
        kind = st[0]
        for _ in range(per[kind]):
            if kind == "rand":
                rec.append(spec_rand(rnd, *st[1:]))
            elif kind == "va":
                rec.append(spec_va(rnd, *st[1:]))
            elif kind == "fv":
                rec.append(spec_fv(rnd, *st[1:]))
            elif kind == "disp":
                rec.append(spec_disp(rnd, *st[1:]))
    return rec


# ------------------------------------------------------------------------------------------
# execution on the real code
# ------------------------------------------------------------------------------------------
class Runner:
    def __init__(self):
        self.sv, self.cv = _mods()
        self.calls = 0
        self.angles = []          # table handed to TLC: [{"d": [p,q,r], "a": enc(degrees)}]
        self.aidx = {}
        self.par0 = None

    def ang(self, d):
        """index (1-based) and value of the lattice angle of direction d"""
        key = tuple(d)
        if key not in self.aidx:
            a = ang_of(d)
            self.angles.append({"d": list(d), "a": enc(a), "_f": a})
            self.aidx[key] = len(self.angles)
        i = self.aidx[key]
        return i, self.angles[i - 1]["_f"]

    def table(self):
        return [{"d": x["d"], "a": x["a"]} for x in self.angles]

    def call(self, f, *a, **k):
        self.calls += 1
        try:
            return f(*a, **k), ""
        except Exception as ex:   # the exception type is an observation
            return None, exc_name(ex)

    # ---- kinds ----
    def trav(self, sp):
        sv = self.sv
        ev = []
        pt = [float(sp["start"][0]), float(sp["start"][1])]
        start = list(pt)
        for leg, it in zip(sp["legs"], sp["itin"]):
            ia, brg = self.ang(leg["d"])
            ir, rot = (0, None) if not leg["rot"] else self.ang(leg["rot"])
            psf = None if not leg["psf"] else leg["psf"][0] / leg["psf"][1]
            dist = float(it["dist"])
            args = [pt[0], pt[1], brg, dist]
            kw = {}
            if rot is not None:
                args.append(rot)
            if psf is not None:
                if rot is not None:
                    args.append(psf)
                else:
                    kw["psf"] = psf
            out, exc = self.call(sv.radiations, *args, **kw)
            ev.append({"a": "Radiate", "leg": leg, "ia": ia, "ir": ir,
                       "in": {"e1": enc(pt[0]), "n1": enc(pt[1]), "brg": enc(brg), "dist": enc(dist),
                              "rot": enc(rot) if rot is not None else [0], "psf": enc(psf) if psf is not None else [0]},
                       "exc": exc, "out": [enc(out[0]), enc(out[1])] if out else [[0], [0]]})
            if exc:
                return ev
            new = [float(it["to"][0]), float(it["to"][1])]
            ev.append(self.join_event(pt, new, False))
            if ev[-1]["exc"]:
                return ev
            pt = new
        if pt != start:
            je = self.join_event(pt, start, True)
            ev.append(je)
            if not je["exc"]:
                d, b = je["_raw"]
                out, exc = self.call(sv.radiations, pt[0], pt[1], b, d)
                ev.append({"a": "Close", "in": {"e1": enc(pt[0]), "n1": enc(pt[1]), "brg": enc(b), "dist": enc(d)},
                           "exc": exc, "out": [enc(out[0]), enc(out[1])] if out else [[0], [0]]})
        return ev

    def join_event(self, a, b, back):
        out, exc = self.call(self.sv.joins, a[0], a[1], b[0], b[1])
        return {"a": "Join", "back": back, "in": {"e1": enc(a[0]), "n1": enc(a[1]), "e2": enc(b[0]), "n2": enc(b[1])},
                "exc": exc, "out": [enc(out[0]), enc(out[1])] if out else [[0], [0]], "_raw": out}

    def polar(self, sp):
        cv = self.cv
        d, m, turn = sp["d"], sp["m"], sp["turn"]
        ia, a = self.ang(d)
        theta = a + 360.0 * turn
        r = float(m * d[2])
        out, exc = self.call(cv.polar2rect, r, theta)
        ev = [{"a": "P2R", "d": d, "m": m, "turn": turn, "ia": ia, "in": {"r": enc(r), "theta": enc(theta)},
               "exc": exc, "out": [enc(out[0]), enc(out[1])] if out else [[0], [0]]}]
        x, y = float(m * d[0]), float(m * d[1])
        out, exc = self.call(cv.rect2polar, x, y)
        ev.append({"a": "R2P", "d": d, "m": m, "in": {"x": enc(x), "y": enc(y)},
                   "exc": exc, "out": [enc(out[0]), enc(out[1])] if out else [[0], [0]]})
        return ev

    def rand(self, sp):
        sv = self.sv
        (e1, n1), (e2, n2) = sp["p1"], sp["p2"]
        je = self.join_event([e1, n1], [e2, n2], False)
        del je["back"]
        ev = [je]
        if je["exc"]:
            return ev
        d, b = je["_raw"]
        out, exc = self.call(sv.radiations, e1, n1, b, d)
        ev.append({"a": "Close", "in": {"e1": enc(e1), "n1": enc(n1), "brg": enc(b), "dist": enc(d)},
                   "exc": exc, "out": [enc(out[0]), enc(out[1])] if out else [[0], [0]]})
        rot, psf = sp["rot"], sp["psf"]
        for (rg, pg) in [(True, False), (False, True), (True, True)]:
            args, kw = [e1, n1, b, d], {}
            if rg:
                args.append(rot)
            if pg:
                if rg:
                    args.append(psf)
                else:
                    kw["psf"] = psf
            out, exc = self.call(sv.radiations, *args, **kw)
            ev.append({"a": "Radiate", "rot_given": rg, "psf_given": pg,
                       "in": {"e1": enc(e1), "n1": enc(n1), "brg": enc(b), "dist": enc(d),
                              "rot": enc(rot) if rg else [0], "psf": enc(psf) if pg else [0]},
                       "exc": exc, "out": [enc(out[0]), enc(out[1])] if out else [[0], [0]]})
        return ev

    def va(self, sp):
        sv = self.sv
        if sp["zdir"]:
            ia, z = self.ang(sp["zdir"])
            s = sp["k"] * sp["zdir"][2] / 10.0
        else:
            ia, z, s = 0, sp["z"], sp["s"]
        ev = []
        hi, ht = sp["hts"]
        for (h1, h2) in [(None, None), (hi, ht)]:
            args, kw = [z, s], {}
            if h1 is not None:
                args.append(h1)
            if h2 is not None:
                if h1 is not None:
                    args.append(h2)
                else:
                    kw["height_tgt"] = h2
            out, exc = self.call(sv.va_conv, *args, **kw)
            ev.append({"a": "Va", "z": sp["zdir"], "k": sp["k"], "ia": ia, "hi_given": h1 is not None, "ht_given": h2 is not None,
                       "in": {"z": enc(z), "s": enc(s), "hi": enc(h1) if h1 is not None else [0],
                              "ht": enc(h2) if h2 is not None else [0]},
                       "exc": exc, "out": [enc(v) for v in out] if out else [[0]] * 4})
            if exc:
                break
        return ev

    def cell(self, sp):
        sv = self.sv
        if self.par0 is None:
            self.par0 = sv.first_vel_params(0.85, None, PAR_NREF)
        c = sp["cell"]
        scale = [1, 100, 1, 1, 1, 100]
        vals = []
        for v, sc in zip(c, scale):
            if v == NONE:
                vals.append(None)
            elif sc == 100:
                vals.append(v / 100.0)
            else:
                vals.append(float(v) if sp["as_float"] else int(v))
        t, p, h, w, co2, wl = vals
        out, exc = self.call(sv.first_vel_corrn, 1000.0, self.par0, t, p, h, w, co2, wl)
        if out is not None and not (isinstance(out, float) and math.isfinite(out)):
            out, exc = None, "NotAFiniteFloat"
        return [{"a": "Correct", "cell": c, "in": [enc(v) if v is not None else [0] for v in vals],
                 "ret": "ret" if not exc else "raise", "exct": exc}]

    def consts(self, sp):
        out, exc = self.call(self.sv.refractivity_constants)
        try:
            tab = [[repr(float(x)) for x in g] for g in out] if not exc else []
        except Exception as ex:      # not a table of numbers: an observation, Trace_Survey says "shape"
            tab = []
        return [{"a": "Consts", "out": tab, "exc": exc}]

    def par(self, sp):
        sv = self.sv
        c = sp["cell"]
        nref = PAR_NREF if c[0] else None
        freq = PAR_FREQ if c[1] else None
        unit = PAR_UNIT if c[2] else None
        out, exc = self.call(sv.first_vel_params, 0.85, freq, nref, unit)
        return [{"a": "Params", "cell": c, "in": {"nref": enc(PAR_NREF), "freq": enc(PAR_FREQ), "unit": enc(PAR_UNIT)},
                 "ret": "ret" if not exc else "raise", "exct": exc,
                 "out": [enc(out[0]), enc(out[1])] if out else [[0], [0]]}]

    def fv(self, sp):
        sv = self.sv
        t, p, h, w, co2, wl = sp["t"], sp["p"], sp["h"], sp["w"], sp["co2"], sp["wl"]
        ev = []
        par, exc = self.call(sv.first_vel_params, wl, None, sp["nref"])
        ev.append({"a": "Par", "in": {"wl": enc(wl), "nref": enc(sp["nref"])}, "exc": exc,
                   "out": [enc(par[0]), enc(par[1])] if par else [[0], [0]]})
        if exc:
            return ev
        penc = [enc(par[0]), enc(par[1])]

        def corr(d, form):
            if form == "closed":
                if sp["moist"] == "hum":
                    a, kw = [d, par, t, p, h], {}
                elif sp["style"]:
                    a, kw = [d, par, t, p, None, w], {}
                else:
                    a, kw = [d, par, t, p], {"wet_temp": w}
            elif sp["style"]:
                a, kw = [d, par, t, p, h, None, co2, wl], {}
            else:
                a, kw = [d, par, t, p, h], {"CO2_ppm": co2, "wavelength": wl}
            out, exc = self.call(sv.first_vel_corrn, *a, **kw)
            return {"a": "Corr", "form": form,
                    "in": {"d": enc(d), "par": penc, "t": enc(t), "p": enc(p), "h": enc(h) if h is not None else [0],
                           "w": enc(w) if w is not None else [0], "co2": enc(co2), "wl": enc(wl)},
                    "exc": exc, "out": enc(out) if out is not None else [0]}
        forms = ["closed", "closed"] + (["co2", "co2"] if sp["moist"] == "hum" else [])
        for form, d in zip(forms, [sp["d1"], sp["d2"], sp["d1"], sp["d2"]]):
            e = corr(d, form)
            ev.append(e)
            if e["exc"]:
                return ev
        if sp["moist"] != "hum":
            return ev
        pv, exc = self.call(sv.humidity2part_water_vapour_press, h, t)
        ev.append({"a": "Pv", "in": {"h": enc(h), "t": enc(t)}, "exc": exc, "out": enc(pv) if pv is not None else [0]})
        if exc:
            return ev
        return ev + self.refr(wl, t, p, pv, co2, sp["k"])

    def refr(self, wl, t, p, e, co2, k):
        sv = self.sv
        ev = []
        extra = [] if co2 is None else [co2]
        base = {"t": enc(t), "p": enc(p), "e": enc(e), "co2": enc(co2) if co2 is not None else [0]}
        out, exc = self.call(sv.group_refractivity, wl, t, p, e, *extra)
        ev.append({"a": "Ng", "co2_given": co2 is not None, "in": dict(base, wl=enc(wl)), "exc": exc,
                   "out": enc(out) if out is not None else [0]})
        if exc:
            return ev
        for pos, lam in [(0, wl), (1, wl * (2 * k) / (2 * k + 1)), (-1, wl * (2 * k) / (2 * k - 1))]:
            out, exc = self.call(sv.phase_refractivity, lam, t, p, e, *extra)
            ev.append({"a": "Np", "pos": pos, "co2_given": co2 is not None, "in": dict(base, wl=enc(lam)), "exc": exc,
                       "out": enc(out) if out is not None else [0]})
            if exc:
                break
        return ev

    def disp(self, sp):
        return self.refr(sp["wl"], sp["t"], sp["p"], sp["e"], sp["co2"], sp["k"])

    def execute(self, sp):
        kind = sp["kind"]
        tr = {"kind": kind, "ev": getattr(self, kind)(sp)}
        for e in tr["ev"]:
            e.pop("_raw", None)
        if kind == "trav":
            tr["start"] = sp["start"]
        if kind == "fv":
            tr["atm"] = {"t": enc(sp["t"]), "p": enc(sp["p"]), "h": enc(sp["h"]) if sp["h"] is not None else [0],
                         "w": enc(sp["w"]) if sp["w"] is not None else [0], "co2": enc(sp["co2"]), "wl": enc(sp["wl"])}
            tr["moist"] = sp["moist"]
            tr["k"] = sp["k"]
        if kind == "disp":
            tr["atm"] = {"t": enc(sp["t"]), "p": enc(sp["p"]), "e": enc(sp["e"]),
                         "co2": enc(sp["co2"]) if sp["co2"] is not None else [0], "wl": enc(sp["wl"])}
            tr["k"] = sp["k"]
        return tr


# ------------------------------------------------------------------------------------------
# verdicts
# ------------------------------------------------------------------------------------------
def validate(traces, angles, ctx, label):
    # round-robin permutation: every TLC process gets the same mix of (cheap and expensive) trace kinds
    n = len(traces)
    perm = [i for r in range(PARALLEL) for i in range(r, n, PARALLEL)]
    mixed = [traces[i] for i in perm]
    for attempt in (1, 2):
        try:
            fails, _ = tracecheck.validate("Trace_Survey", "Trace_Survey.cfg", mixed, ctx, label,
                                           extra={"angles": angles}, min_chunk=150, par=PARALLEL, timeout=3000)
            return sorted((perm[i], l, c) for (i, l, c) in fails)
        except tlc.MachineryError as ex:
            # a TLC process killed from outside (SIGTERM / SIGKILL by another job on a shared machine): run it again once
            if attempt == 2 or not ("rc=143" in str(ex) or "rc=137" in str(ex)):
                raise


def describe(sp, tr, l, clause):
    """canonical description of a failing step (matched against known_findings.json)"""
    d = {"clause": clause, "kind": sp["kind"]}
    ev = tr["ev"][l - 1] if l and l <= len(tr["ev"]) else {}
    if ev.get("exc") or ev.get("exct"):
        d["exception"] = ev.get("exc") or ev.get("exct")
    if sp["kind"] == "cell":
        c = sp["cell"]
        d["zero_arguments"] = [n for n, v in zip(["temp", "pressure", "rel_humidity", "wet_temp", "CO2_ppm", "wavelength"], c) if v == 0]
        d["co2_form"] = c[4] != NONE
    elif sp["kind"] in ("rand", "va", "fv", "disp"):
        d["stratum"] = sp["stratum"]
    elif sp["kind"] == "trav" and ev.get("leg"):
        d["leg"] = ev["leg"]
    elif sp["kind"] == "polar":
        d["direction"] = sp["d"]
    elif sp["kind"] == "par":
        d["cell"] = sp["cell"]
    return d


def report(recipes, traces, fails, ctx):
    for (i, l, clause) in fails:
        sp, tr = recipes[i], traces[i]
        ev = tr["ev"][l - 1] if l and l <= len(tr["ev"]) else {}
        ctx.violation(describe(sp, tr, l, clause),
                      detail="recipe=%s event=%s" % (json.dumps(sp)[:500], json.dumps(ev)[:500]),
                      case={"recipe": sp})


def run(ctx):
    rnd = random.Random(ctx.seed)
    quick = ctx.tier == "quick"
    # 1. the model itself: exhaustive on small constants, every invariant, every action taken
    r = tlc.run_tlc("MC_Survey", "MC_Survey.cfg", workers=4, coverage=True, timeout=1800)
    ctx.add_tlc(r, "MC_Survey exhaustive (traverses <= 2 legs, single calls, 8 invariants)")
    if r.violated:
        raise tlc.MachineryError("Survey model violates its own invariant %s\n%s" % (r.violated, r.out[-2000:]))
    idle = [a for a in ("DoRadiate", "DoJoinBack", "DoPolar", "DoRect", "DoReduce", "DoParams", "DoCorrect")
            if r.coverage.get(a, (0, 0))[1] == 0]
    if idle:
        raise tlc.MachineryError("vacuous model run: actions never taken: %s" % idle)
    # 2. validity tables and strata, 3. traverses
    cells, pars, strata = tables(ctx)
    behs, n1, n_one = behaviours(ctx, quick)
    recipes = build_recipes(ctx, rnd, quick, cells, pars, strata, behs)
    # 4. execute on the real code
    R = Runner()
    traces = [R.execute(sp) for sp in recipes]
    ctx.evaluations = R.calls
    acts = {}
    for sp, tr in zip(recipes, traces):
        for e in tr["ev"]:
            k = "%s.%s" % (sp["kind"], e["a"])
            acts[k] = acts.get(k, 0) + 1
        key = dict(sp)
        key.pop("itin", None)
        ctx.nontrivial(json.dumps(key, sort_keys=True))
    ctx.actions.update(acts)
    # 5. TLC decides
    fails = validate(traces, R.table(), ctx, "Trace_Survey")
    report(recipes, traces, fails, ctx)
    # 6. binding self-test
    failed = set(i for (i, l, c) in fails)
    ctx.selftest(selftest, recipes, traces, failed, R.table())
    kinds = {}
    for sp in recipes:
        kinds[sp["kind"]] = kinds.get(sp["kind"], 0) + 1
    ctx.extra["traces_by_kind"] = kinds
    ctx.extra["lattice_angles"] = len(R.angles)
    ctx.exhaustive = True
    ctx.rule = ("exhaustive: all 3456 cells of the first_vel_corrn validity lattice and all 8 of first_vel_params, each "
                "called once; %s single-leg traverses (origin x direction x rotation x multiplier x scale factor, %d "
                "generated by TLC) and %d simulated 3-leg traverses on the Pythagorean lattice; polar2rect/rect2polar and "
                "va_conv on every lattice direction; %d sample(s) in every stratum enumerated by TLC (rand 300, va 200, fv 720, "
                "disp 180 strata); distinct = distinct recipes; the repository tests use 4 joins, 3 radiations, 4 va_conv and "
                "one atmosphere (6.8 C, 960.8 hPa, 58.6 %%, 0.85 um)"
                % ("every 2nd of the" if quick else "all", n_one, len(behs) - n1, 1 if quick else 6))
    for k in ("trav", "rand", "va", "cell", "fv", "disp"):
        for sp, tr in zip(recipes, traces):
            if sp["kind"] == k:
                s = dict(sp)
                s.pop("itin", None)
                ctx.sample({"recipe": s, "events": [e["a"] for e in tr["ev"]]})
                break
    ctx.assumptions += [
        "lattice bearings are handed to the code as degrees(atan2(p, q)); TLC verifies every such angle against (p, q, r) "
        "with its own fixed-point sine/cosine (1e-14) before using it",
        "sine/cosine inside TLC: Taylor/Horner series in BigFix, truncation and rounding below 1e-18",
        "logged floats are exact binary values rounded once at 1e-20",
        "proportionality 1e-10 relative, CO2 form 1e-12 x distance, dispersion identity 1e-4 (units of 1e-8 of index) with a "
        "central difference sigma/(2h) = 10000: bounds on float noise / truncation, the property states equality",
        "the sign of the height difference is checked for face-left zenith angles only; for (180,360) only magnitudes",
        "wet-bulb above dry-bulb and CO2 form with wet-bulb only are `free` cells (property silent)"]


def selftest(recipes, traces, failed, angles):
    """corrupt one logged field / drop one event of accepted traces: TLC must reject each."""
    def pick(kind, pred=lambda t: True, rpred=lambda sp: True):
        for i, (sp, t) in enumerate(zip(recipes, traces)):
            if sp["kind"] == kind and i not in failed and rpred(sp) and pred(t) and not any(e.get("exc") for e in t["ev"]):
                return copy.deepcopy(t)
        return None
    cases = []
    t = pick("rand", lambda t: len(t["ev"]) == 5)
    if t:
        a = copy.deepcopy(t)
        d = fix.dec(a["ev"][0]["out"][0])
        a["ev"][1]["out"][0] = enc(fix.dec(a["ev"][1]["out"][0]) + d * 3 / 10 ** 9)     # closure off by 3e-9 d
        cases.append(("closure_off_by_3e-9_d_rejected", a))
        b = copy.deepcopy(t)
        del b["ev"][0]
        cases.append(("removed_join_event_rejected", b))
        c = copy.deepcopy(t)
        c["ev"][0]["out"][1] = enc(fix.dec(c["ev"][0]["out"][1]) + 360)
        cases.append(("bearing_plus_360_rejected", c))
    t = pick("cell", lambda t: t["ev"][0]["ret"] == "ret", lambda sp: sp["cell"][2] != NONE and sp["cell"][4] == NONE)
    if t:
        t["ev"][0]["ret"], t["ev"][0]["exct"] = "raise", "ValueError"
        cases.append(("cell_flipped_to_raise_rejected", t))
    t = pick("fv", lambda t: len(t["ev"]) == 10)
    if t:
        a = copy.deepcopy(t)
        a["ev"][2]["out"] = enc(fix.dec(a["ev"][2]["out"]) * (1 + fix.dec(enc(1e-8))))
        cases.append(("correction_scaled_by_1e-8_rejected", a))
        b = copy.deepcopy(t)
        b["ev"][6]["out"] = enc(fix.dec(b["ev"][6]["out"]) + fix.dec(enc(0.01)))       # group refractivity + 0.01e-8
        cases.append(("group_refractivity_plus_1e-10_rejected", b))
    t = pick("va", lambda t: len(t["ev"]) == 2)
    if t:
        t["ev"][1]["out"][2] = enc(fix.dec(t["ev"][1]["out"][2]) * (1 + fix.dec(enc(1e-8))))
        cases.append(("hz_scaled_by_1e-8_rejected", t))
    if not cases:
        return {"ran": False}
    fails = validate([c[1] for c in cases], angles, None, None)
    rej = set(i for (i, l, c) in fails)
    out = {"ran": True}
    for i, (name, _) in enumerate(cases):
        out[name] = i in rej
    if not all(out.values()):
        raise tlc.MachineryError("binding self-test failed: %s" % out)
    return out


def replay(ctx, data):
    sp = data["case"]["recipe"]
    R = Runner()
    tr = R.execute(sp)
    fails = validate([tr], R.table(), ctx, "replay")
    report([sp], [tr], fails, ctx)
    print("replayed %s (%d calls); verdict by Trace_Survey: %s" % (sp["kind"], R.calls, fails if fails else "accepted"))
