"""C07 - 14-parameter transformation advances parameters linearly in time (conform14, ATRF helpers).

Shares spec/Helmert.tla, Trace_Helmert.tla and the driver of harness/props/c06.py.
"""
import datetime

from harness.props import c06

D = datetime.date


def epochs(rnd, set_epoch_ord, quick):
    base = D.fromordinal(set_epoch_ord)
    out = [base, base + datetime.timedelta(1), base - datetime.timedelta(1), D(1980, 1, 1), D(2060, 12, 31),
           D(2020, 2, 29), D(2000, 2, 29), D(1988, 2, 29), D(2060, 2, 29), D(base.year - 3, 7, 1)]
    years = [1980, 1995, 2010, 2025, 2040, 2055] if quick else range(1980, 2061)
    out += [D(y, 1, 1) for y in years]
    out += [D.fromordinal(rnd.randint(D(1980, 1, 1).toordinal(), D(2060, 12, 31).toordinal())) for _ in range(2 if quick else 12)]
    return out


def traces_c07(drv, rnd, quick, eps):
    traces = []
    dated = [c["name"] for c in drv.cat if c["ep"]]
    pts = c06.octant_points(rnd, 8 if quick else 24, 1e7)
    for i, n in enumerate(dated):
        ep0 = drv.cat[drv.idx[n] - 1]["ep"]
        es = epochs(rnd, ep0, quick)
        if quick:
            es = es[:3] + [es[3 + (i % 7)]] + es[-3:]
        for j, e in enumerate(es):
            p = pts[(i + j) % len(pts)]
            e1, o = drv.event("C14", n, p, e=e)
            evs = [e1]
            if o is not None:
                e2, _ = drv.event("C14", n, list(o), neg=True, e=e, closes=True)
                evs.append(e2)
            traces.append({"kind": "pair14", "ev": evs})
    # random dated sets
    for k in range(40 if quick else 1500):
        rs = drv.random_set(rnd, True)
        e = rnd.choice(epochs(rnd, rs[2], True))
        e1, _ = drv.event("C14", None, rnd.choice(pts), e=e, rset=rs)
        traces.append({"kind": "random14", "ev": [e1]})
    # the same call with whole-metre coordinates handed over as Python ints / numpy int64 / numpy float64 (round 9)
    for k in range(12 if quick else 120):
        n = dated[(k * 5 + 1) % len(dated)]
        ep0 = drv.cat[drv.idx[n] - 1]["ep"]
        e = rnd.choice(epochs(rnd, ep0, True))
        p = [int(rnd.uniform(0.3, 1.0) * [6.4e6, 1.0e7][k % 2]) * (1 if (k >> b) & 1 else -1) for b in range(3)]
        e1, _ = drv.event("C14", n, p, e=e, form=["int", "npint", "npfloat"][k % 3])
        traces.append({"kind": "forms14", "ev": [e1]})
    # the ATRF2014 <-> GDA2020 convenience functions
    es = epochs(rnd, D(2020, 1, 1).toordinal(), quick)
    for j, e in enumerate(es):
        for p in (pts[j % len(pts)], pts[-1]):
            a1, o = drv.event("A2G", "atrf2014_to_gda2020", p, e=e)
            evs = [a1]
            if o is not None:
                a2, _ = drv.event("G2A", "atrf2014_to_gda2020", list(o), neg=True, e=e, closes=True)
                evs.append(a2)
            traces.append({"kind": "atrf", "ev": evs})
            b1, o = drv.event("G2A", "atrf2014_to_gda2020", p, neg=True, e=e)
            evs = [b1]
            if o is not None:
                b2, _ = drv.event("A2G", "atrf2014_to_gda2020", list(o), e=e, closes=True)
                evs.append(b2)
            traces.append({"kind": "atrf_rev", "ev": evs})
    return traces


def run(ctx):
    traces = c06.run_common(ctx, "C07")
    ctx.rule = ("every dated shipped set x epochs (its reference epoch, +-1 day, 1980-01-01, 2060-12-31, leap days, 1 Jan of "
                "years 1980..2060, epochs before the reference epoch, random days) forward then negated at the same epoch, points "
                "in all octants up to 1e7 m; random dated sets; both ATRF helpers in both orders at the same epochs; distinct = "
                "distinct call chains; the repository tests use 2 epochs and 1 point")
    ctx.assumptions += ["elapsed Julian years = 4 days / 1461 exactly; the code's 8-decimal rounding of re-referenced parameters "
                        "contributes < 0.3 um at 1e7 m, inside the 2 um tolerance"]


def replay(ctx, data):
    c06.replay(ctx, data, which="C07")
