"""C14 - grid-based geodesic computations agree with ellipsoid and projection.

spec/GridGeodesic.tla (InvUTM behaviour, DirUTM iteration with termination) is model-checked; the
driver calls vincinv_utm / vincdir_utm / line_sf and the public step functions;
spec/Trace_GridGeodesic.tla decides stepwise equality (bit for bit), the direct/inverse pair (1 mm),
the line-scale-factor bounds and, on central meridians, the exact grid distance (MeridianArc).
"""
import json
import math
import random

from harness import alpha, fix, tlc, tracecheck


def _mods():
    import geodepy.constants as gc
    import geodepy.convert as cv
    import geodepy.geodesy as gd
    return gc, cv, gd


def E_(x):
    return fix.enc(float(x))


def hx(x):
    return float(x).hex()


class Drv:
    def __init__(self):
        self.gc, self.cv, self.gd = _mods()
        import geodepy.angles as an
        self.an = an
        self.calls = 0
        self.max_passes = 0

    def pick(self):
        """own counter for the choice of the ellipsoid (the loop counters are sub-sampled with strides in quick: k % 6 of every second /
        third k would never reach some ellipsoids)"""
        self.npick = getattr(self, "npick", -1) + 1
        return self.npick

    def fresh(self, ell):
        """caller-built ellipsoids are re-built for every use and dropped afterwards: short-lived objects, recycled ids"""
        en, E = ell
        if not hasattr(E, "_verif_defn"):
            return ell
        return (en, alpha.build(type(E), *E._verif_defn))     # not kept alive: the next one built may get this one's id

    def inv_event(self, z1, e1, n1, z2, e2, n2, hemi, ell, tag):
        gc, cv, gd = self.gc, self.cv, self.gd
        en, E = ell
        ev = {"k": "INV", "tag": tag, "exc": "", "args": [z1, e1, n1, z2, e2, n2, hemi, en], "o": {}}
        try:
            self.calls += 12
            dist, g12, g21, lsf = gd.vincinv_utm(z1, e1, n1, z2, e2, n2, hemi, E)
            p1 = cv.grid2geo(z1, e1, n1, hemi, E)
            p2 = cv.grid2geo(z2, e2, n2, hemi, E)
            s, a12, a21 = gd.vincinv(p1[0], p1[1], p2[0], p2[1], E)
            lsf_s = gd.line_sf(z1, e1, n1, z2, e2, n2, hemi, E)
            # point scale factors along the straight grid line, in zone 1
            if z2 != z1:
                q = cv.geo2grid(p2[0], p2[1], z1, E)
                e2z, n2z = q[2], q[3]
            else:
                e2z, n2z = e2, n2
            psf = []
            for t in (0.0, 0.25, 0.5, 0.75, 1.0):
                psf.append(cv.grid2geo(z1, e1 + t * (e2z - e1), n1 + t * (n2z - n1), hemi, E)[2])
            glen = math.hypot(e2z - e1, n2z - n1)
            ev["o"] = {"dist_hex": hx(dist), "step_dist_hex": hx(s * lsf_s), "g12_hex": hx(g12), "step_g12_hex": hx(a12 + p1[3]),
                       "g21_hex": hx(g21), "step_g21_hex": hx(a21 + p2[3]), "lsf_hex": hx(lsf), "step_lsf_hex": hx(lsf_s),
                       "lsf": E_(lsf), "psf": [E_(v) for v in psf], "short": glen <= 100000.0, "passes": 0,
                       "num": {"dist": E_(dist), "sdist": E_(s * lsf_s), "g12": E_(g12), "sg12": E_(a12 + p1[3]), "g21": E_(g21),
                               "sg21": E_(a21 + p2[3]), "slsf": E_(lsf_s)}}
            ev["ret"] = (dist, g12, g21, lsf)
            ev["pt2_zone1"] = (e2z, n2z)
        except Exception as ex:
            ev["exc"] = "%s: %s" % (type(ex).__name__, str(ex)[:100])
        return ev

    def dir_event(self, z1, e1, n1, hemi, ell, inv, tag):
        gd = self.gd
        en, E = ell
        dist, g12, g21, lsf = inv["ret"]
        e2ref, n2ref = inv["pt2_zone1"]
        ev = {"k": "DIR", "tag": tag, "exc": "", "args": [z1, e1, n1, g12, dist, hemi, en], "o": {}}
        # count the passes of the loop through a wrapper on the name the module uses (evidence only)
        passes = [0]
        orig = gd.vincdir

        def counting(*a, **k):
            passes[0] += 1
            return orig(*a, **k)
        gd.vincdir = counting
        try:
            self.calls += 1
            # the bearing as a float or as an object of one of the five angle classes in turn (the tests hand over a DMSAngle)
            self.forms = getattr(self, "forms", 0) + 1
            an = self.an
            brg = [lambda x: x, an.DECAngle, an.dec2hpa, an.dec2gona, an.dec2dms, an.dec2ddm, lambda x: x][self.forms % 7](g12)
            ev["bearing_form"] = type(brg).__name__
            z2d, e2d, n2d, g21d, lsfd = gd.vincdir_utm(z1, e1, n1, brg, dist, hemi, E)
            ev["o"] = {"zone1": int(z1), "zone2d": int(z2d), "e2d": E_(e2d), "n2d": E_(n2d), "e2ref": E_(e2ref), "n2ref": E_(n2ref),
                       "passes": passes[0]}
            self.max_passes = max(self.max_passes, passes[0])
        except Exception as ex:
            ev["exc"] = "%s: %s" % (type(ex).__name__, str(ex)[:100])
        finally:
            gd.vincdir = orig
        return ev

    def cm_event(self, zone, tri1, tri2, ell, tag):
        gc, cv, gd = self.gc, self.cv, self.gd
        en, E = ell
        cm = zone * 6 - 183
        ev = {"k": "CM", "tag": tag, "exc": "", "args": [zone, list(tri1), list(tri2), en], "o": {}}
        try:
            self.calls += 3
            la1, la2 = math.degrees(math.atan2(tri1[0], tri1[1])), math.degrees(math.atan2(tri2[0], tri2[1]))
            hemi = "south" if la1 < 0 else "north"
            g1 = cv.geo2grid(la1, float(cm), zone, E)
            g2 = cv.geo2grid(la2, float(cm), zone, E)
            dist, g12, g21, lsf = gd.vincinv_utm(zone, g1[2], g1[3], zone, g2[2], g2[3], hemi, E)
            a_, invf_ = alpha.defn(E, "semimaj", "inversef")
            ev["o"] = {"ell": {"a": E_(a_), "invf": E_(invf_), "n0": E_(1.0 / (2.0 * invf_ - 1.0))},
                       "tri1": list(tri1), "tri2": list(tri2), "k0": E_(0.9996), "dist": E_(dist), "lsf": E_(lsf), "g12": E_(g12),
                       "g21": E_(g21), "passes": 0}
        except Exception as ex:
            ev["exc"] = "%s: %s" % (type(ex).__name__, str(ex)[:100])
        return ev


def validate(traces, ctx, label):
    fails, _ = tracecheck.validate("Trace_GridGeodesic", "Trace_GridGeodesic.cfg", traces, ctx, label, min_chunk=100, timeout=3000)
    return fails


def strip(ev):
    return {k: v for k, v in ev.items() if k not in ("ret", "pt2_zone1")}


def run(ctx):
    rnd = random.Random(ctx.seed)
    quick = ctx.tier == "quick"
    d = Drv()
    gc, cv = d.gc, d.cv
    r = tlc.run_tlc("GridGeodesic", "MC_GridGeodesic.cfg", workers=2, coverage=True, timeout=600)
    ctx.add_tlc(r, "GridGeodesic model: InvUTM behaviour, DirUTM iteration terminates (contraction abstraction), passes <= 4")
    if r.violated:
        raise tlc.MachineryError("GridGeodesic model violated %s" % r.violated)
    # shipped ellipsoids + ellipsoids built by the caller: NWL-9D shares 1/f with ANS (a cache keyed on 1/f alone would confuse them),
    # one random Earth-like one; d.fresh() hands over newly built objects (recycled ids) for the caller-built ones
    ells = [("grs80", gc.grs80), ("wgs84", gc.wgs84), ("ans", gc.ans), ("intl24", gc.intl24),
            ("nwl9d", alpha.build(gc.Ellipsoid, 6378145.0, 298.25)),
            ("rand", alpha.build(gc.Ellipsoid, round(rnd.uniform(6.3e6, 6.4e6), 3), round(rnd.uniform(280, 320), 6)))]
    evs = []
    zones = [1, 30, 31, 55, 60]
    lats = [-79.0, -60.0, -33.0, -5.0, 0.5, 20.0, 45.0, 70.0, 83.0]
    lengths = [1.0, 10.0, 100.0, 1000.0, 10000.0, 100000.0]
    # thorough: the sampled families are drawn forty times over (other offsets, lengths and bearings each time)
    for rep in range(1 if quick else 40):
      n = rep * 7
      for zone in zones:
          cm = zone * 6 - 183
          for lat in lats:
              for east in (100000.0, 300000.0, 500000.0, 700000.0, 900000.0):
                  n += 1
                  if quick and n % 3:
                      continue
                  ell = d.fresh(ells[d.pick() % 6])
                  E = ell[1]
                  hemi = "south" if lat < 0 else "north"
                  n1 = cv.geo2grid(lat + rnd.uniform(-0.4, 0.4), float(cm), zone, E)[3]
                  e1 = round(east + rnd.uniform(-500, 500), 4)
                  la1, lo1 = cv.grid2geo(zone, e1, n1, hemi, E)[:2]
                  if not (-180 <= lo1 <= 180):
                      continue
                  L = lengths[n % 6] * rnd.uniform(0.3, 1.0) if lengths[n % 6] > 1 else 1.0
                  brg = (n * 30.0 + rnd.uniform(0, 29)) % 360.0
                  e2 = round(e1 + L * math.sin(math.radians(brg)), 4)
                  n2 = round(n1 + L * math.cos(math.radians(brg)), 4)
                  if not (0 <= n2 <= 10000000):
                      continue
                  la2, lo2 = cv.grid2geo(zone, e2, n2, hemi, E)[:2]
                  if not (-80 <= la2 <= 84 and -180 <= lo2 <= 180) or (la2 < 0) != (la1 < 0):
                      continue
                  tag = "zone%d lat%g L%g" % (zone, lat, lengths[n % 6])
                  # second point in the same zone, and (where it exists) given in the adjacent zone
                  for z2 in (zone, zone + 1 if east > 500000 else zone - 1):
                      if z2 < 1 or z2 > 60:
                          continue
                      if z2 == zone:
                          q2 = (zone, e2, n2)
                      else:
                          g = cv.geo2grid(la2, lo2, z2, E)
                          q2 = (z2, g[2], g[3])
                      inv = d.inv_event(zone, e1, n1, q2[0], q2[1], q2[2], hemi, ell, tag + (" adjacent" if z2 != zone else ""))
                      evs.append(inv)
                      if not inv["exc"]:
                          evs.append(d.dir_event(zone, e1, n1, hemi, ell, inv, tag + (" adjacent" if z2 != zone else "")))
      # lines that straddle the central meridian (one easting below, one above the false easting)
      k = rep * 5
      for zone in zones:
          cm = zone * 6 - 183
          for lat in (-60.0, -20.0, 35.0, 75.0):
              for (d1, d2) in ((30000.0, 45000.0), (5000.0, 2000.0), (300.0, 80000.0), (49000.0, 49000.0)):
                  k += 1
                  if quick and k % 2:
                      continue
                  ell = d.fresh(ells[d.pick() % 6])
                  E = ell[1]
                  hemi = "south" if lat < 0 else "north"
                  n1 = cv.geo2grid(lat, float(cm), zone, E)[3]
                  e1, e2 = 500000.0 - d1, 500000.0 + d2
                  n2 = round(n1 + rnd.uniform(-20000, 20000), 4)
                  if not (0 <= n2 <= 10000000):
                      continue
                  inv = d.inv_event(zone, e1, round(n1, 4), zone, e2, n2, hemi, ell, "straddles CM zone%d lat%g" % (zone, lat))
                  evs.append(inv)
                  if not inv["exc"]:
                      evs.append(d.dir_event(zone, e1, round(n1, 4), hemi, ell, inv, "straddles CM"))
      # lines running within the grid convergence of grid north / south: there azimuth + convergence leaves 0..360 at one end
      # (plane bearing = +-half the convergence, and the same turned by 180 degrees), on both sides of the central meridian
      k = rep * 5
      for zone in (1, 31, 60):
          cm = zone * 6 - 183
          for lat in (-70.0, -25.0, 10.0, 60.0):
              for east in (200000.0, 820000.0):
                  hemi = "south" if lat < 0 else "north"
                  for turn in (0.0, 180.0):
                      for half in (0.5, -0.5):
                          ell = d.fresh(ells[d.pick() % 6])
                          E = ell[1]
                          n1 = round(cv.geo2grid(lat + rnd.uniform(-0.4, 0.4), float(cm), zone, E)[3], 4)
                          e1 = round(east + rnd.uniform(-500, 500), 4)
                          la1, lo1, _psf, conv = [float(x) for x in cv.grid2geo(zone, e1, n1, hemi, E)[:4]]
                          if not (-179.9 <= lo1 <= 179.9):
                              continue               # zone 1 / 60 reach beyond the +-180 meridian at this easting: not a position
                          brg = (turn + half * conv) % 360.0
                          L = rnd.uniform(800.0, 20000.0)
                          e2 = round(e1 + L * math.sin(math.radians(brg)), 4)
                          n2 = round(n1 + L * math.cos(math.radians(brg)), 4)
                          if not (0 <= n2 <= 10000000):
                              continue
                          la2, lo2 = [float(x) for x in cv.grid2geo(zone, e2, n2, hemi, E)[:2]]
                          if not (-80 <= la2 <= 84 and -179.9 <= lo2 <= 179.9) or (la2 < 0) != (la1 < 0):
                              continue
                          tag = "within the convergence of grid %s zone%d lat%g" % ("north" if turn == 0 else "south", zone, lat)
                          inv = d.inv_event(zone, e1, n1, zone, e2, n2, hemi, ell, tag)
                          evs.append(inv)
                          if not inv["exc"]:
                              evs.append(d.dir_event(zone, e1, n1, hemi, ell, inv, tag))
    tris = [(3, 4, 5), (5, 12, 13), (12, 5, 13), (8, 15, 17), (7, 24, 25), (20, 21, 29), (9, 40, 41), (40, 9, 41), (4, 3, 5), (15, 8, 17)]
    tris = [t for t in tris if math.degrees(math.atan2(t[0], t[1])) <= 83]
    for i, t1 in enumerate(tris):
        for j, t2 in enumerate(tris):
            if t1 == t2 or (quick and (i + j) % 4):
                continue
            ell = d.fresh(ells[d.pick() % 6])
            evs.append(d.cm_event([1, 30, 55, 60][(i + j) % 4], t1, t2, ell, "cm north"))
            if math.degrees(math.atan2(t1[0], t1[1])) <= 79 and math.degrees(math.atan2(t2[0], t2[1])) <= 79:
                evs.append(d.cm_event([1, 30, 55, 60][(i + j + 1) % 4], (-t1[0], t1[1], t1[2]), (-t2[0], t2[1], t2[2]), ell, "cm south"))
    ctx.evaluations = d.calls
    traces = [{"ev": [strip(e)]} for e in evs]
    fails = validate(traces, ctx, "Trace_GridGeodesic")
    for (i, l, clause) in fails:
        ev = evs[i]
        if clause.endswith("oracle_start_value"):
            raise tlc.MachineryError("Newton start value did not verify")
        ctx.violation({"clause": clause.split(".")[-1], "kind": ev["k"], "adjacent": "adjacent" in ev["tag"]},
                      "args=%s exc=%s o=%s" % (ev["args"], ev["exc"], json.dumps({k: v for k, v in ev["o"].items() if k.endswith("hex") or k in ("passes", "short")})[:400]),
                      case={"kind": ev["k"], "args": ev["args"], "tag": ev["tag"]})
    ctx.extra["max_passes_of_vincdir_utm_loop_observed"] = d.max_passes
    ctx.selftest(selftest, evs)
    for e in evs:
        ctx.nontrivial((e["k"], json.dumps(e["args"])))
        ctx.actions[e["k"]] = ctx.actions.get(e["k"], 0) + 1
    for e in evs[:2] + evs[-1:]:
        ctx.sample({"kind": e["k"], "tag": e["tag"], "args": e["args"]})
    ctx.rule = ("lines within half the grid convergence of grid north / south on both sides of the CM (zones 1, 31, 60 x 4 latitudes); "
                "lines: zones {1,30,31,55,60} x 9 latitudes -79..83 x eastings 100..900 km x lengths 1 m..100 km x bearings round the "
                "circle x 4 ellipsoids, second point in the same and in the adjacent zone, both hemispheres; every inverse result is fed "
                "to the direct routine; lines along central meridians between Pythagorean latitudes (exact); distinct = distinct calls; "
                "the repository tests compute 2 lines")
    ctx.assumptions += ["the number of passes of the vincdir_utm loop is counted through a wrapper on geodepy.geodesy.vincdir (evidence "
                        "only, never a verdict)",
                        "stepwise equality is bit for bit with ell_dist * lsf and azimuth + convergence formed by the driver from the "
                        "public functions' outputs"]


def selftest(evs):
    import copy
    from fractions import Fraction
    bi = next((e for e in evs if e["k"] == "INV" and not e["exc"]), None)
    bd = next((e for e in evs if e["k"] == "DIR" and not e["exc"]), None)
    if bi is None or bd is None:
        return {"ran": False}
    t1 = copy.deepcopy(strip(bi)); t1["o"]["num"]["dist"] = E_(float(fix.dec(t1["o"]["num"]["dist"])) + 0.002)
    t2 = copy.deepcopy(strip(bd)); t2["o"]["e2d"] = fix.enc(fix.dec(t2["o"]["e2d"]) + Fraction(2, 1000))
    t3 = copy.deepcopy(strip(bi)); t3["o"]["lsf"] = fix.enc(fix.dec(t3["o"]["lsf"]) + Fraction(1, 10 ** 5))
    fails = validate([{"ev": [strip(bi)]}, {"ev": [strip(bd)]}, {"ev": [t1]}, {"ev": [t2]}, {"ev": [t3]}], None, None)
    rej = {i: c for (i, l, c) in fails}
    out = {"baselines_accepted": 0 not in rej and 1 not in rej, "distance_changed": rej.get(2, ""), "east_plus_2mm": rej.get(3, ""),
           "lsf_plus_1e-5": rej.get(4, "")}
    if 0 in rej or 1 in rej or not all(k in rej for k in (2, 3, 4)):
        raise tlc.MachineryError("binding self-test failed: %s" % out)
    return out


def replay(ctx, data):
    d = Drv()
    gc = d.gc
    c = data["case"]
    ells = {"grs80": gc.grs80, "wgs84": gc.wgs84, "ans": gc.ans, "intl24": gc.intl24, "nwl9d": alpha.build(gc.Ellipsoid, 6378145.0, 298.25)}
    a = c["args"]
    if a[7 if c["kind"] == "INV" else 3] not in ells:
        print("case on a random ellipsoid: re-run the check with the recorded seed")
        return
    if c["kind"] == "INV":
        evs = [d.inv_event(a[0], a[1], a[2], a[3], a[4], a[5], a[6], (a[7], ells[a[7]]), c["tag"])]
    elif c["kind"] == "CM":
        evs = [d.cm_event(a[0], tuple(a[1]), tuple(a[2]), (a[3], ells[a[3]]), c["tag"])]
    else:
        print("DIR cases are reproduced by re-running the check with the recorded seed")
        return
    fails = validate([{"ev": [strip(e)]} for e in evs], ctx, "replay")
    for (i, l, clause) in fails:
        ctx.violation({"clause": clause.split(".")[-1], "kind": c["kind"]}, json.dumps(evs[0]["o"])[:600])
    print("replayed %s: %s" % (c["kind"], fails if fails else "accepted"))
