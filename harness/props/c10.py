"""C10 - point scale factor and grid convergence belong to the projection actually used (driver shared with C01)."""
from harness.props import c01


def run(ctx):
    c01.run_family(ctx, "C10")
    ctx.rule = ("positions as C01 (every stratum of Grid!Strata, all four quadrants about equator and central meridian, points on "
                "both axes, |dlon| to 30 deg, utm / isg / random projections, shipped and random ellipsoids) and the grid lattice of "
                "C02: psf = k0 of the REQUESTED projection on the central meridian (8 decimals), convergence 0 on both axes, sign table, "
                "forward and inverse report the same two values, mirror parity, psf/k0 and convergence independent of fe/fn/k0, psf "
                "independent of the size of the ellipsoid; distinct = distinct inputs")
    ctx.assumptions += ["off the axes the scale factor (2e-8) and the convergence (1e-9 deg) are decided against the exact projection of the "
                        "specification (KruegerTM: psf from the Krueger series' derivatives, convergence atan(tau' tan dl / sqrt(1 + tau'^2))) "
                        "at Pythagorean latitude x longitude-difference points (TM events); elsewhere the forward/inverse, parity and "
                        "scaling laws tie the sampled positions to them (finite differences were not built: the 0.1 mm output rounding "
                        "limits them to 3e-7 deg)"]


def replay(ctx, data):
    c01.replay(ctx, data, "C10")
