"""One library call in a fresh interpreter: the reference for history independence (C09).

    python -m harness.props.c09_iso <concrete call key>

prints `<key>\t<result signature>`: what the call returns when it is the ONLY library call the process ever makes.
"""
import sys
import warnings


def main():
    from harness.props import c09
    key = sys.argv[1]
    lib = c09.Lib()
    for cls, lst in lib.calls.items():
        for (k, fn, factory) in lst:
            if k == key:
                args = factory()
                try:
                    with warnings.catch_warnings():
                        warnings.simplefilter("ignore")
                        res = "ok:" + c09.h(c09.sig(fn(*args)))
                except Exception as ex:
                    res = "exc:" + type(ex).__name__
                print("%s\t%s" % (key, res))
                return 0
    print("%s\tunknown" % key)
    return 1


if __name__ == "__main__":
    sys.exit(main())
