"""One library call in a fresh interpreter: the reference for history independence (C09).

    python -m harness.props.c09_iso <concrete call key>

prints `<key>\t<result signature>`: what the call returns when it is the ONLY library call the process ever makes.
"""
import sys
import warnings


def one_call(c09, fn, factory):
    args = factory()
    try:
        with warnings.catch_warnings():
            warnings.simplefilter("ignore")
            return "ok:" + c09.h(c09.sig(fn(*args)))
    except Exception as ex:
        return "exc:" + type(ex).__name__


def all_keys():
    """--all: the modules are imported once (importing makes no library call), then every call is made in its OWN forked child
    of that pristine process: each child has made exactly one library call when it reports"""
    import os
    from harness.props import c09
    lib = c09.Lib()
    for cls, lst in lib.calls.items():
        for (k, fn, factory) in lst:
            r, w = os.pipe()
            pid = os.fork()
            if pid == 0:
                os.close(r)
                try:
                    res = one_call(c09, fn, factory)
                except BaseException as ex:          # never let a child fall back into the parent's loop
                    res = "exc:" + type(ex).__name__
                os.write(w, res.encode())
                os._exit(0)
            os.close(w)
            buf = b""
            while True:
                chunk = os.read(r, 65536)
                if not chunk:
                    break
                buf += chunk
            os.close(r)
            os.waitpid(pid, 0)
            print("%s\t%s" % (k, buf.decode()))
    return 0


def main():
    from harness.props import c09
    key = sys.argv[1]
    if key == "--all":
        return all_keys()
    lib = c09.Lib()
    for cls, lst in lib.calls.items():
        for (k, fn, factory) in lst:
            if k == key:
                args = factory()
                try:
                    with warnings.catch_warnings():
                        warnings.simplefilter("ignore")
                        res = "ok:" + c09.h(c09.sig(fn(*args)))
                except Exception as ex:
                    res = "exc:" + type(ex).__name__
                print("%s\t%s" % (key, res))
                return 0
    print("%s\tunknown" % key)
    return 1


if __name__ == "__main__":
    sys.exit(main())
