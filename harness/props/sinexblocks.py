"""SINEXBLOCKS - beyond the listed properties: the block-level SINEX interface of geodepy.gnss.

    read_sinex_<name>_block (13 readers), read_sinex_comments, read_sinex_header_line, read_sinex_header_block, read_sinex_custom,
    list_sinex_blocks, read_solution_epochs, read_disconts, writeSINEX            (the repository has no test of any of them)

spec/SinexBlocks.tla is the state machine `read blocks of the open file -> writeSINEX -> the written file is the open one`: the
meaning of every reader is stated declaratively, the line loops as built are stated as folds, TLC checks them equal over every
document of the model (duplicate and unterminated blocks included) and checks RoundTrip / CanonicalOrder / WellFormedKept /
NothingInvented of the written files.  TLC then simulates behaviours (start document + calls); the driver renders each start
document as a real text file, makes the calls on the real functions (writeSINEX gets exactly what the real readers returned),
tokenises what comes back (kind of line, block name, identity token, leading / trailing blanks - no judgement) and
Trace_SinexBlocks (TLC) decides every call.
    ./check SINEXBLOCKS quick|thorough
"""
import contextlib
import hashlib
import io
import json
import os
import random
import re
import tempfile

from harness import sinexio as sx
from harness import tlc, tracecheck

MATRIX = ("SOLUTION/MATRIX_ESTIMATE", "SOLUTION/MATRIX_APRIORI")
HEADER = "%=SNX 2.02 GAA 26:001:00000 GAA 24:001:00000 24:002:00000 P 00003 2 S"
SEP = "*" + "-" * 79
COLS = {"SOLUTION/EPOCHS": "*Code PT SOLN T _DATA_START_ __DATA_END__ _MEAN_EPOCH_",
        "SITE/ID": "*CODE PT __DOMES__ T _STATION DESCRIPTION__ APPROX_LON_ APPROX_LAT_ _APP_H_",
        "SOLUTION/ESTIMATE": "*INDEX TYPE__ CODE PT SOLN _REF_EPOCH__ UNIT S __ESTIMATED VALUE____ _STD_DEV___",
        "SOLUTION/DISCONTINUITY": "*SITE PT SOLN T _DATA_START_ __DATA_END__ M"}
COLS_DEFAULT = "*INFO_TYPE_________ INFO________________________________________________________"
COLS_TEXTS = set(COLS.values()) | {COLS_DEFAULT}
KW = {"FILE/COMMENT": "comment", "FILE/REFERENCE": "fileReference", "INPUT/ACKNOWLEDGMENTS": "inputAcknowledgments",
      "SOLUTION/STATISTICS": "solutionStatistics", "SITE/ID": "siteID", "SITE/RECEIVER": "siteReceiver", "SITE/ANTENNA": "siteAntenna",
      "SITE/GPS_PHASE_CENTER": "siteGpsPhaseCenter", "SITE/ECCENTRICITY": "siteEccentricity", "SOLUTION/EPOCHS": "solutionEpochs",
      "SOLUTION/ESTIMATE": "solutionEstimate", "SOLUTION/APRIORI": "solutionApriori",
      "SOLUTION/MATRIX_ESTIMATE": "solutionMatrixEstimate", "SOLUTION/MATRIX_APRIORI": "solutionMatrixApriori"}
READER = {"FILE/REFERENCE": "read_sinex_file_reference_block", "INPUT/ACKNOWLEDGMENTS": "read_sinex_input_acknowledgments_block",
          "SOLUTION/STATISTICS": "read_sinex_solution_statistics_block", "SITE/ID": "read_sinex_site_id_block",
          "SITE/RECEIVER": "read_sinex_site_receiver_block", "SITE/ANTENNA": "read_sinex_site_antenna_block",
          "SITE/GPS_PHASE_CENTER": "read_sinex_site_gps_phase_center_block", "SITE/ECCENTRICITY": "read_sinex_site_eccentricity_block",
          "SOLUTION/EPOCHS": "read_sinex_solution_epochs_block", "SOLUTION/ESTIMATE": "read_sinex_solution_estimate_block",
          "SOLUTION/APRIORI": "read_sinex_solution_apriori_block", "SOLUTION/MATRIX_ESTIMATE": "read_sinex_solution_matrix_estimate_block",
          "SOLUTION/MATRIX_APRIORI": "read_sinex_solution_matrix_apriori_block"}
STAMP = re.compile(r"^\* File created by Geodepy\.gnss\.py at \d\d-\d\d-\d\d\d\d, \d\d:\d\d$")
TOKEN = re.compile(r"#([EDX])(\d{5})$")
B36 = "0123456789ABCDEFGHIJKLMNOPQRSTUVWXYZ"


def b36(n, w):
    s = ""
    while n:
        s = B36[n % 36] + s
        n //= 36
    return s.rjust(w, "0")


def fields(letter, i):
    """the fixed-column fields of record `i` of an epochs (E) / discontinuity (D) block: a pure function of the token"""
    if letter == "E":
        return [b36(i + 40000, 4), "A" if i % 2 else "", str(i % 9 + 1), "P", "24:%03d:00000" % (i % 365 + 1),
                "24:%03d:86399" % (i % 365 + 1), "24:%03d:43200" % (i % 365 + 1)]
    if letter == "D":
        return [b36(i + 50000, 4), "A", str(i % 9 + 1), "P", "%02d:%03d:00000" % (i % 30, i % 365 + 1), "00:000:00000", "PV"[i % 2]]
    return []


def record_text(letter, i):
    f = fields(letter, i)
    if letter == "E":
        return "%4s %2s %4s %1s %12s %12s %12s" % tuple(f)
    return "%4s %2s %4s %1s %12s %12s %1s" % tuple(f)


def ln(k, nm="", i=0, lead=0, tw=0, f=()):
    return {"k": k, "nm": nm, "id": i, "lead": lead, "tw": tw, "f": list(f)}


def render(doc):
    """line records of a start document (as printed by TLC) -> (text of the file, line records as written)"""
    out, recs, cur = [], [], ""
    for r in doc:
        k = r["k"]
        if k == "header":
            t, q = HEADER, ln("header")
        elif k == "trailer":
            t, q = "%ENDSNX", ln("trailer")
        elif k == "open":
            cur = r["nm"]
            t, q = "+" + cur + (" L COVA" if cur in MATRIX else ""), ln("open", cur)
        elif k == "close":
            t, q = "-" + r["nm"], ln("close", r["nm"])
            cur = ""
        elif k == "note" and r["nm"] == "sep":
            t, q = SEP, ln("note", "sep")
        elif k == "note" and r["nm"] == "cols":
            t, q = COLS.get(cur, COLS_DEFAULT), ln("note", "cols")
        elif k == "note":
            t = "* note #X%05d" % r["id"] + " " * r["tw"]
            q = ln("note", "text", r["id"], 0, r["tw"])
        elif k == "data":
            letter = "E" if cur == "SOLUTION/EPOCHS" else "D" if cur == "SOLUTION/DISCONTINUITY" else "X"
            body = record_text(letter, r["id"]) if letter != "X" else "%s %5d  0.123456789E+%02d" % (cur[:4], r["id"], r["id"] % 9)
            t = " " * r["lead"] + body + " #%s%05d" % (letter, r["id"]) + " " * r["tw"]
            q = ln("data", "", r["id"], r["lead"], r["tw"], fields(letter, r["id"]))
        else:
            raise tlc.MachineryError("unknown line kind %r" % (r,))
        out.append(t)
        recs.append(q)
    return "\n".join(out), recs


TABLE = {}      # real-format documents: text of a line (without outer blanks) -> its record in the start document


def tokenise(s):
    """a line of text as returned / written by the library -> line record (what it is, not whether it is right)"""
    if not isinstance(s, str):
        return ln("other", type(s).__name__)
    if s.endswith("\n"):
        s = s[:-1]
    lead = len(s) - len(s.lstrip(" "))
    core = s.rstrip()
    tw = len(s) - len(core)
    core = core.lstrip(" ")
    if core in TABLE:       # "the same line" = the same text as a line of the start document
        r = TABLE[core]
        return ln(r["k"], r["nm"], r["id"], lead, tw, r["f"])
    if core.startswith("%=SNX"):
        return ln("header", "", 0, lead, tw)
    if core == "%ENDSNX":
        return ln("trailer", "", 0, lead, tw)
    if core.startswith("+") or core.startswith("-"):
        return ln("open" if core[0] == "+" else "close", core[1:].split(" ")[0], 0, lead, tw)
    if core == SEP:
        return ln("note", "sep", 0, lead, tw)
    if core in COLS_TEXTS:
        return ln("note", "cols", 0, lead, tw)
    if STAMP.match(core):
        return ln("stamp", "", 0, lead, tw)
    m = TOKEN.search(core)
    if core.startswith("* note ") and m:
        return ln("note", "text", int(m.group(2)), lead, tw)
    if m and not core.startswith("*"):
        return ln("data", "", int(m.group(2)), lead, tw, fields(m.group(1), int(m.group(2))))
    return ln("other", core[:30], 0, lead, tw)


def lines_of(v):
    if not isinstance(v, (list, tuple)):
        return [ln("other", type(v).__name__)]
    return [tokenise(x) for x in v]


def run_behaviour(g, doc, labels, tmpdir, tag, fnl=False, prepared=None):
    """replays one TLC behaviour on the real functions -> trace (events) + the texts, for the replay file"""
    text, recs = prepared if prepared else render(doc)
    if fnl:
        text += "\n"
    path = os.path.join(tmpdir, "%s_0.snx" % tag)
    with open(path, "w") as f:
        f.write(text)
    evs = [{"k": "doc", "lines": recs, "fnl": bool(fnl)}]
    held = {}
    gen = 0

    def call(ev, fn, *a, post=lines_of):
        try:
            r = fn(*a)
            ev["out"] = post(r)
            ev["exc"] = ""
            return r
        except Exception as ex:                     # the event says so; Trace_SinexBlocks gives the verdict
            ev["out"] = []
            ev["exc"] = "%s: %s" % (type(ex).__name__, str(ex)[:80])
            return None

    for lab in labels[1:]:
        k = lab[0]
        ev = {"k": k}
        if k == "block":
            ev["nm"] = lab[1]
            held[lab[1]] = call(ev, getattr(g, READER[lab[1]]), path)
        elif k == "comments":
            held["FILE/COMMENT"] = call(ev, g.read_sinex_comments, path)
        elif k == "hline":
            r = call(ev, g.read_sinex_header_line, path, post=lambda s: [tokenise(s)])
            ev["nl"] = bool(isinstance(r, str) and r.endswith("\n"))
            held["header"] = r
        elif k == "hblock":
            call(ev, g.read_sinex_header_block, path)
        elif k == "custom":
            ev["i"], ev["j"] = lab[1], lab[2]
            call(ev, g.read_sinex_custom, path, lab[1], lab[2])
        elif k == "list":
            buf = io.StringIO()

            def listed(p):
                with contextlib.redirect_stdout(buf):
                    g.list_sinex_blocks(p)
                return buf.getvalue().split("\n")[:-1]
            call(ev, listed, path, post=lambda names: list(names))
        elif k in ("epochs", "disconts"):
            call(ev, g.read_solution_epochs if k == "epochs" else g.read_disconts, path,
                 post=lambda rs: [[str(x) for x in r] for r in rs])
        elif k == "write":
            names = sorted(lab[1]["__set__"]) if isinstance(lab[1], dict) else sorted(lab[1])
            ev["S"], ev["wh"] = names, bool(lab[2])
            kw = {KW[n]: held[n] for n in names}
            if lab[2]:
                kw["header"] = held["header"]
            gen += 1
            newpath = os.path.join(tmpdir, "%s_%d.snx" % (tag, gen))
            ev["lines"] = []
            try:
                g.writeSINEX(newpath, **kw)
                with open(newpath) as f:
                    ev["lines"] = [tokenise(x) for x in f.read().split("\n")]
                ev["exc"] = ""
            except Exception as ex:
                ev["exc"] = "%s: %s" % (type(ex).__name__, str(ex)[:80])
            path, held = newpath, {}
        else:
            raise tlc.MachineryError("unknown label %r" % (lab,))
        evs.append(ev)
    return {"ev": evs, "text": text, "doc": doc, "labels": labels, "fnl": bool(fnl)}


SIM_CFG = """SPECIFICATION SimSpec
CONSTANT Names = {%s}
CONSTANT ReadNames = {}
CONSTANT MaxBlocks = %d
CONSTANT MaxData = %d
CONSTANT MaxGen = 3
CONSTANT HLen = %d
CONSTRAINT Emit
CHECK_DEADLOCK FALSE
"""
SIM_NAMES = ["FILE/COMMENT", "FILE/REFERENCE", "SITE/ID", "SITE/ANTENNA", "SOLUTION/EPOCHS", "SOLUTION/ESTIMATE",
             "SOLUTION/MATRIX_ESTIMATE", "SOLUTION/DISCONTINUITY"]


def behaviours(ctx, n, maxblocks, hlen):
    cfg = tracecheck.write_tmp(SIM_CFG % (", ".join('"%s"' % x for x in SIM_NAMES), maxblocks, 3, hlen), ".cfg")
    try:
        r = tlc.run_tlc("MC_SinexBlocks", cfg, workers=1, tags=("BEH",), simulate={"num": n}, depth=maxblocks + hlen + 2,
                        seed=ctx.seed + maxblocks, timeout=1800)
    finally:
        os.unlink(cfg)
    seen = {}
    for p in r.prints:
        seen[json.dumps(p[1:], sort_keys=True)] = (p[1], p[2])
    return list(seen.values())


def lex_real(text, adoc, txt):
    """a SINEX 2.02 text from the C18 renderer (harness/sinexio.py) -> line records; identity of a data / comment line = its text
    (interned), the record fields of the epoch lines = the values the renderer was given (not cut out of the text)"""
    recs, table, cur, nid = [], {}, "", 0
    h = txt["hdr"]
    ent = adoc["ent"]
    sitept = {}
    epi = 0
    for raw in text.split("\n"):
        lead = len(raw) - len(raw.lstrip(" "))
        core = raw.strip()
        if core.startswith("%=SNX"):
            q = ln("header")
        elif core == "%ENDSNX":
            q = ln("trailer")
        elif core.startswith("+") or core.startswith("-"):
            q = ln("open" if core[0] == "+" else "close", core[1:].split(" ")[0])
            cur = q["nm"] if core[0] == "+" else ""
        elif core == SEP:
            q = ln("note", "sep")
        elif core.startswith("*Code PT"):
            q = ln("note", "cols")
        else:
            if core not in table:
                nid += 1
                f = []
                if cur == "SOLUTION/EPOCHS" and not core.startswith("*"):
                    s_, so = ent[epi]
                    code, so_, ep = txt["entf"][epi]
                    f = [code, txt["sitef"][s_ - 1][1], str(so), h["tech"], h["start"], h["end"], ep]
                    epi += 1
                table[core] = ln("note", "text", nid) if core.startswith("*") else ln("data", "", nid, lead, 0, f)
            r = table[core]
            q = ln(r["k"], r["nm"], r["id"], lead, 0, r["f"])
        recs.append(q)
    return recs, table


def real_documents(seed, n):
    """start documents in the real format: the abstract documents of C18 (entries, velocities, triangle, comment block) rendered
    by the C18 renderer"""
    import numpy as np_
    rnd = random.Random("real:%s" % seed)
    out = []
    for k in range(n):
        nent = 1 + k % 4
        sites, ent = [], []
        for _ in range(nent):
            s_ = rnd.randint(1, len(sites) + 1) if sites else 1
            if s_ > len(sites):
                sites.append(s_)
            ent.append([s_, 1 + sum(1 for e in ent if e[0] == s_)])
        adoc = {"ent": ent, "vel": bool(k % 2), "tri": "LU"[(k // 2) % 2], "bd": bool((k // 4) % 2), "comm": bool((k // 3) % 2)}
        txt = sx.concretise(adoc, rnd, np_)
        text = sx.render(adoc, txt)
        if k % 5 == 0:
            text = text[:-1]                          # no final newline
        out.append((adoc, txt, text))
    return out


def run_real(g, adoc, txt, text, tmpdir, tag):
    """every reader, writeSINEX of everything, every reader again, on a real-format document; plus the numeric readers of C18
    before and after the rewriting (event `numeric`)"""
    fnl = text.endswith("\n")
    body = text[:-1] if fnl else text
    recs, table = lex_real(body, adoc, txt)
    TABLE.clear()
    TABLE.update(table)
    try:
        everything = [["block", n] for n in READER] + [["comments"], ["hline"], ["hblock"], ["list"], ["epochs"]]
        labels = [["doc"]] + everything + [["write", list(KW), True]] + everything + [["custom", 1, 3], ["custom", 2, len(recs) + 1]]
        path0 = os.path.join(tmpdir, "%s_0.snx" % tag)
        with open(path0, "w") as f:
            f.write(text)

        def numeric(p):
            with contextlib.redirect_stdout(io.StringIO()):
                return json.dumps([sx.est_obs(g.read_sinex_estimate(p)), sx.mat_obs(g.read_sinex_matrix(p)),
                                   sx.sites_obs(g.read_sinex_sites(p))], sort_keys=True, default=str)
        t = run_behaviour(g, None, labels, tmpdir, tag, fnl=fnl, prepared=(body, recs))
        ev = {"k": "numeric", "exc": "", "before": "", "after": ""}
        try:
            ev["before"] = numeric(path0)
            ev["after"] = numeric(os.path.join(tmpdir, "%s_1.snx" % tag))
        except Exception as ex:
            ev["exc"] = "%s: %s" % (type(ex).__name__, str(ex)[:80])
        ev["before"], ev["after"] = (hashlib.sha1(ev[x].encode()).hexdigest() for x in ("before", "after"))
        t["ev"].append(ev)
        t["labels"] = labels + [["numeric"]]
        t["real"] = {"adoc": adoc, "text": text}
        return t
    finally:
        TABLE.clear()


def corner_behaviours():
    """hand-made start documents at the corners the model names (same labels as TLC prints)"""
    def d(*lines):
        out = []
        for i, (k, nm) in enumerate(lines, 1):
            idd = i if k == "data" or (k, nm) == ("note", "text") else 0
            out.append({"k": k, "nm": "" if k == "data" else nm, "id": idd, "lead": 1 if k == "data" else 0,
                        "tw": 2 if idd and i % 3 == 0 else 0, "f": []})
        return out
    H, T, S = ("header", ""), ("trailer", ""), ("note", "sep")
    sid = [("open", "SITE/ID"), ("note", "cols"), ("data", ""), ("data", ""), ("close", "SITE/ID")]
    ep = [("open", "SOLUTION/EPOCHS"), ("note", "cols"), ("data", ""), ("data", ""), ("close", "SOLUTION/EPOCHS")]
    everything = [("block", n) for n in READER] + [("comments",), ("hline",), ("hblock",), ("list",), ("epochs",), ("disconts",)]
    docs = [d(H, T), d(H, S, *sid, S, *ep, S, T), d(H, *ep, *sid, T), d(H, S, *ep, T),
            d(H, S, ("open", "FILE/COMMENT"), ("data", ""), ("close", "FILE/COMMENT"), *sid, T),
            d(H, S, ("open", "SOLUTION/DISCONTINUITY"), ("data", ""), ("data", ""), ("data", ""), ("close", "SOLUTION/DISCONTINUITY"), T)]
    out = []
    for doc in docs:
        labs = [("doc",)] + everything + [("write", [n for n in KW], True)]
        labs += everything + [("custom", 1, 1), ("custom", 2, len(doc) + 1)]
        out.append((doc, [list(x) for x in labs]))
    return out


def judge(traces, ctx, label):
    return tracecheck.validate("Trace_SinexBlocks", "Trace_SinexBlocks.cfg", [{"ev": t["ev"], "gid": i} for i, t in enumerate(traces)],
                               ctx, label, min_chunk=60, timeout=3600, tags=("FAIL", "END", "DEV"))


def deviations(results):
    """calls that differ from the meaning in a situation the specification names as an as-built deviation (trace not stopped)"""
    return [(x[1], x[2], x[3]) for r in results for x in r.tagged("DEV")]


def describe(t, l, clause):
    ev = t["ev"][l - 1] if l else {}
    return ({"clause": clause}, "call %d: %s" % (l, json.dumps({k: v for k, v in ev.items() if k != "lines"})[:400]))


def run(ctx):
    g = sx.gnss()
    quick = ctx.tier == "quick"
    r = tlc.run_tlc("MC_SinexBlocks", "MC_SinexBlocks.cfg", workers=8, timeout=3600, coverage=True)
    ctx.add_tlc(r, "MC_SinexBlocks exhaustive: 2 blocks of 3 names, 0..1 data lines, closed or not, column heading / comment inside, "
                   "one write (ScanIsMeaning, HeaderBlockIsMeaning, RecordsAreMeaning, Stripped, RoundTrip, CommentRoundTrip, "
                   "CanonicalOrder, WellFormedKept, NothingInvented, ReadersArePure)")
    if r.violated:
        raise tlc.MachineryError("SinexBlocks model violated %s" % r.violated)
    r2 = tlc.run_tlc("MC_SinexBlocks", "MC_SinexBlocks_intended.cfg", workers=1, timeout=600, continue_=True)
    refuted = sorted(set(re.findall(r"Invariant (\w+) is violated", r2.out)))
    if refuted != ["HeaderBlockIntended", "RecordsIntended"]:
        raise tlc.MachineryError("the as-built deviations are no longer what TLC refutes: %s" % refuted)
    ctx.extra["as_built_deviations_refuted_by_TLC"] = refuted
    behs = corner_behaviours()
    behs += behaviours(ctx, 150 if quick else 3000, 1, 8)
    behs += behaviours(ctx, 350 if quick else 7000, 4, 12)
    traces = []
    with tempfile.TemporaryDirectory(prefix="gvf_snxb_") as td:
        for k, (doc, labels) in enumerate(behs):
            traces.append(run_behaviour(g, doc, labels, td, "b%d" % k, fnl=(k % 2 == 1)))
            ctx.evaluations += len(labels) - 1
            for f in os.listdir(td):
                os.unlink(os.path.join(td, f))
        reals = real_documents(ctx.seed, 40 if quick else 800)
        for k, (adoc, txt, text) in enumerate(reals):
            traces.append(run_real(g, adoc, txt, text, td, "r%d" % k))
            ctx.evaluations += len(traces[-1]["labels"]) - 1
            for f in os.listdir(td):
                os.unlink(os.path.join(td, f))
    ctx.extra["real_format_documents"] = len(reals)
    fails, results = judge(traces, ctx, "Trace_SinexBlocks")
    for (i, l, clause) in fails + deviations(results):
        t = traces[i]
        desc, msg = describe(t, l, clause)
        ctx.violation(desc, msg, case={"doc": t["doc"], "labels": t["labels"], "fnl": t["fnl"], "real": t.get("real")})
    for t in traces:
        ctx.nontrivial(json.dumps([t["doc"] or t["text"], t["labels"]], sort_keys=True))
        for e in t["ev"]:
            ctx.actions[e["k"]] = ctx.actions.get(e["k"], 0) + 1
    bad = set(i for (i, l, c) in fails)
    ctx.selftest(selftest, [t for i, t in enumerate(traces) if i not in bad])
    for t in traces[6:8]:
        ctx.sample({"labels": t["labels"], "first_lines": t["text"].split("\n")[:6]})
    ctx.rule = ("behaviours = TLC-simulated behaviours of SinexBlocks.tla (start documents of 0..4 blocks out of 8 names, 0..3 data lines, "
                "closed or unterminated, duplicate names, column headings and comments inside blocks, rule lines between blocks; then 8-12 "
                "calls out of 21 readers and writeSINEX, up to three generations of written files) plus six hand-made corner documents with "
                "every reader called before and after a write of everything, plus real-format documents (the abstract documents of C18 rendered by "
                "the C18 renderer: 1..4 entries, velocities, L / U matrix, comment block) with every reader, a rewrite of everything, every "
                "reader again and the numeric readers of C18 before / after; distinct = distinct (document, calls)")
    ctx.assumptions += ["the stamp line of read_sinex_comments is recognised by its form (text + dd-mm-yyyy, hh:mm), its clock value is not checked",
                        "block names that are prefixes of one another do not occur (none of the format's names is)"]


def selftest(good):
    import copy
    base = next((t for t in good if any(e["k"] == "write" and e["S"] and e["lines"] for e in t["ev"])
                 and any(e["k"] == "block" and e["out"] for e in t["ev"])), None)
    if base is None:
        return {"ran": False}
    t1 = copy.deepcopy(base)                      # a reader that lost its last line
    next(e for e in t1["ev"] if e["k"] == "block" and e["out"])["out"].pop()
    t2 = copy.deepcopy(base)                      # a reader that kept the trailing blanks
    next(e for e in t2["ev"] if e["k"] == "block" and e["out"])["out"][0]["tw"] = 2
    t3 = copy.deepcopy(base)                      # a writer that swapped two lines
    w = next(e for e in t3["ev"] if e["k"] == "write" and e["S"] and e["lines"])
    w["lines"][0], w["lines"][-1] = w["lines"][-1], w["lines"][0]
    fails, _ = judge([base, t1, t2, t3], None, None)
    rej = {i: c for (i, l, c) in fails}
    out = {"baseline_accepted": 0 not in rej, "lost_line": rej.get(1, ""), "kept_blanks": rej.get(2, ""), "swapped_lines": rej.get(3, "")}
    if 0 in rej or not all(k in rej for k in (1, 2, 3)):
        raise tlc.MachineryError("binding self-test failed: %s" % out)
    return out


def replay(ctx, data):
    g = sx.gnss()
    c = data["case"]
    with tempfile.TemporaryDirectory(prefix="gvf_snxb_") as td:
        if c.get("real"):
            adoc, txt, text = next(x for x in real_documents(data.get("seed", 20261001), 800) if x[2] == c["real"]["text"])
            t = run_real(g, adoc, txt, text, td, "r")
        else:
            t = run_behaviour(g, c["doc"], c["labels"], td, "r", fnl=c.get("fnl", False))
    fails, results = judge([t], ctx, "replay")
    fails = fails + deviations(results)
    for (i, l, clause) in fails:
        desc, msg = describe(t, l, clause)
        ctx.violation(desc, msg)
    print("replayed: %s" % (fails if fails else "accepted"))
