"""C01 / C02 / C10 share this driver (see harness/gridlib.py, spec/Grid.tla, spec/Trace_Grid.tla).

C01 - forward grid conversion is the exact Transverse Mercator of the ellipsoid (decided parts: zone /
hemisphere / false-origin rules, exactness on the central meridian and the equator axes, mirror,
projection-scaling and ellipsoid-homothety laws, argument types; see level_note for what is not decided).
"""
import json
import math
import random

from harness import alpha, gridlib, tlc

FAMILY = {
    "C01": ("c01_", ("P", "PAIR", "ZONE", "CM", "TM", "TMA")),
    "C02": ("c02_", ("P", "IRT", "STA", "CM", "TM", "TMA")),
    "C10": ("c10_", ("P", "PAIR", "IRT", "CM", "TM", "TMA")),
}


def build(world, strata, prop, quick, rnd):
    kinds = FAMILY[prop][1]
    gc = world.gc
    evs = []
    k = 1 if quick else 12
    sub = strata if not quick else [s for i, s in enumerate(strata) if i % 2 == (0 if prop != "C02" else 1)]
    for s in sub:
        for j in range(k):
            lat, lon, zone, ell, prj = world.position(s)
            P = prj[1]
            cm = lon  # placeholder
            # strictly inside the zone: on a boundary either neighbour is a legitimate automatic zone
            natural = abs(lon - (zone * P.zonewidth + P.initialcm - P.zonewidth)) < P.zonewidth / 2.0 - 1e-9 if s["prj"] != "isg" else True
            zonearg = 0 if (natural and rnd.random() < 0.6) else zone
            tag = json.dumps(s, sort_keys=True)
            if "P" in kinds:
                evs.append(world.p_event(lat, lon, zonearg, ell, prj, tag))
            if "PAIR" in kinds and (not quick or rnd.random() < 0.5):
                if s["prj"] != "isg":
                    cmz = zone * P.zonewidth + P.initialcm - P.zonewidth
                else:
                    cmz = (zone // 10 - 1) * P.zonewidth * 3 + P.initialcm + (zone % 10 - 2) * P.zonewidth
                dl = lon - cmz
                lon_m = cmz - dl
                if -180 <= lon_m < 180 and dl != 0:
                    evs.append(world.pair_event("mirror_cm", (lat, lon, zone, ell, prj), (lat, lon_m, zone, ell, prj), tag))
                if lat != 0 and -80 <= -lat <= 84 and abs(lat) <= 80:
                    evs.append(world.pair_event("mirror_eq", (lat, lon, zone, ell, prj), (-lat, lon, zone, ell, prj), tag))
                if s["prj"] != "isg":
                    p2 = world.rand_prj()
                    evs.append(world.pair_event("projection", (lat, lon, zone, ell, prj), (lat, lon, zone, ell, p2), tag))
                    E = ell[1]
                    lam = rnd.choice([0.99, 1.004, 0.9875])
                    a_, invf_ = alpha.defn(E, "semimaj", "inversef")
                    e2 = ("rand", alpha.build(gc.Ellipsoid, round(a_ * lam, 3), invf_))
                    evs.append(world.pair_event("homothety", (lat, lon, zone, ell, prj), (lat, lon, zone, e2, prj), tag))
                if prop == "C01":
                    evs.append(world.pair_event("same_call", (lat, lon, zonearg, ell, prj), (lat, lon, zonearg, ell, prj, "dec"), tag))
                    if natural and s["prj"] != "isg":
                        evs.append(world.pair_event("same_call", (lat, lon, 0, ell, prj), (lat, lon, zone, ell, prj), tag))
                    if s["prj"] == "utm":
                        clone = ("utmclone", gc.Projection(500000, 10000000, 0.9996, 6, -177))
                        evs.append(world.pair_event("same_call", (lat, lon, zonearg, ell, prj), (lat, lon, zonearg, ell, clone), tag))
    if "CM" in kinds:
        # central meridian at Pythagorean latitudes inside the band: exact meridian-arc oracle
        tris = [(3, 4, 5), (4, 3, 5), (5, 12, 13), (12, 5, 13), (8, 15, 17), (15, 8, 17), (7, 24, 25), (24, 7, 25), (20, 21, 29),
                (21, 20, 29), (9, 40, 41), (40, 9, 41), (12, 35, 37), (35, 12, 37), (11, 60, 61), (0, 1, 1)]
        tris = [t for t in tris if -80 <= math.degrees(math.atan2(t[0], t[1])) <= 84]
        tris += [(-p, q, r) for (p, q, r) in tris if p and math.degrees(math.atan2(p, q)) <= 80]
        ells = ["grs80", "wgs84", "ans", "intl24", "rand", "rand"] if not quick else ["grs80", "ans", "intl24", "rand"]
        for i, t in enumerate(tris):
            for j, en in enumerate(ells):
                ell = world.get_ell(en)
                if (i + j) % 4 == 3:
                    code = [541, 552, 563, 572][(i + j) % 4]
                    if abs(math.degrees(math.atan2(t[0], t[1]))) <= 44:
                        evs.append(world.cm_event(t, code, ell, ("isg", gc.isg), "cm"))
                        continue
                prj = ("utm", gc.utm) if (i + j) % 3 else world.rand_prj()
                evs.append(world.cm_event(t, [1, 17, 30, 31, 55, 60][(i + j) % 6], ell, prj, "cm"))
    if "TM" in kinds:
        # off the central meridian: Pythagorean latitude x Pythagorean longitude difference, exact TM oracle (KruegerTM)
        lat_tris = [(0, 1, 1), (3, 4, 5), (4, 3, 5), (5, 12, 13), (12, 5, 13), (8, 15, 17), (15, 8, 17), (7, 24, 25), (24, 7, 25),
                    (20, 21, 29), (9, 40, 41), (40, 9, 41), (11, 60, 61)]
        lat_tris = [t for t in lat_tris if math.degrees(math.atan2(t[0], t[1])) <= 83.9]
        lat_tris += [(-p, q, r) for (p, q, r) in lat_tris if p and math.degrees(math.atan2(p, q)) <= 79.9]
        dl_tris = [(5, 12, 13), (8, 15, 17), (7, 24, 25), (9, 40, 41), (11, 60, 61), (12, 35, 37), (13, 84, 85), (33, 544, 545),
                   (65, 2112, 2113), (1, 1000, 0)]
        dl_tris = [(1, 0, 1) if t == (1, 1000, 0) else t for t in dl_tris][:-1]
        dl_tris += [(-p, q, r) for (p, q, r) in dl_tris]
        ellc = ["grs80", "wgs84", "ans", "intl24", "rand", "rand"]
        m = 0
        for i, t in enumerate(lat_tris):
            for j, d in enumerate(dl_tris):
                m += 1
                if quick and m % {"C01": 4, "C02": 9, "C10": 3}[prop]:
                    continue
                ell = world.get_ell(ellc[(i + j) % 6])
                prj = ("utm", gc.utm) if (i + j) % 3 else world.rand_prj()
                zone = [2, 17, 30, 31, 44, 59][(i * 3 + j) % 6]
                cmz = zone * 6 - 183
                lonv = cmz + math.degrees(math.atan2(d[0], d[1]))
                if not (-180 <= lonv < 180):
                    zone = 30
                evs.append(world.tm_event(t, d, zone, ell, prj, "tm"))
    if "TM" in kinds:
        # ... and ANYWHERE within 30 degrees of a central meridian: random latitudes in the band, random longitude differences,
        # values a hair off the equator / the central meridian / the band limits (event TMA)
        ellc = ["grs80", "wgs84", "ans", "intl24", "rand", "rand"]
        for k in range({"C01": 90, "C02": 40, "C10": 90}[prop] if quick else 2500):
            ell = world.get_ell(ellc[k % 6])
            prj = ("utm", gc.utm) if k % 3 else (world.rand_prj() if k % 2 else world.rand_prj2())
            P = prj[1]
            _fe, _fn, _k0, zw_, cm1_ = alpha.defn(P, "falseeast", "falsenorth", "cmscale", "zonewidth", "initialcm")
            zone = rnd.randint(1, max(1, min(60, int((180 - cm1_) // zw_) + 1)))
            cmz = zone * zw_ + cm1_ - zw_
            if not (-180 <= cmz <= 180):
                continue
            lat = rnd.choice([rnd.uniform(-79.9, 83.9), rnd.uniform(-79.9, 83.9), rnd.uniform(-1e-6, 1e-6), 83.9999, -79.9999, rnd.uniform(-10, 10),
                              84.0, -80.0])          # the limits of the band themselves are inside the band
            dl = rnd.choice([rnd.uniform(-30, 30), rnd.uniform(-30, 30), rnd.uniform(-3, 3), rnd.uniform(-1e-7, 1e-7), 29.9999, -29.9999])
            if k % 9 == 4:
                # every ninth event: the first or the last zone of the system with the position beyond the +-180 meridian
                zlast = max(1, min(60, int((180 - cm1_) // zw_) + 1))
                zone = 1 if (k // 9) % 2 == 0 else zlast
                cmz = zone * zw_ + cm1_ - zw_
                room = (cmz + 180.0) if zone == 1 else (180.0 - cmz)
                if 0 <= room < 29 and -180 <= cmz <= 180:
                    dl = (-1 if zone == 1 else 1) * (room + rnd.uniform(0.01, 29.5 - room))
            lonv = cmz + dl
            if not (-180 <= lonv < 180):
                lonv = (lonv + 180.0) % 360.0 - 180.0      # an explicit zone on the far side of the +-180 meridian
            # the position is handed over as floats or as objects of each of the five angle classes in turn
            form = ["float", "dec", "hp", "gon", "dms", "ddm", "float"][k % 7]
            if lat in (84.0, -80.0) and form not in ("float", "dec"):
                form = "float"       # the other notations move the value by ~1e-14 deg, possibly out of the band: not the limit any more
            evs.append(world.tma_event(lat, lonv, zone, ell, prj, "tma", args=form))
    if "ZONE" in kinds:
        step = 7 if quick else 1
        for pr in (("utm", gc.utm), ("zw8", gc.Projection(500000, 10000000, 0.9996, 8, -176))):
            for lon100 in range(-18000 + (rnd.randrange(step) if quick else 0), 18000, step):
                evs.append(world.zone_event(lon100, rnd.choice([-79.5, -33.0, 0.0, 45.0, 83.5]), pr, "zone"))
    if "IRT" in kinds:
        zones = [1, 2, 30, 31, 59, 60]
        offs = [0.0, 1.0, -1.0, 5e4, -5e4, 2e5, -2e5, 5e5, -5e5, 1.5e6, -1.5e6, 2.5e6, -2.5e6, 3.3e6, -3.3e6]
        norths = [0.0, 1.0, 250000.0, 1e6, 2.5e6, 4e6, 5e6, 6.5e6, 8e6, 9e6, 9.3e6, 1e7 - 1.0, 1e7]
        n = 0
        for z in zones:
            for hemi in ("North", "South"):
                for off in offs:
                    for no in norths:
                        n += 1
                        if quick and n % 3:
                            continue
                        ell = world.get_ell(rnd.choice(["grs80", "wgs84", "ans", "intl24", "rand"]))
                        prj = ("utm", gc.utm) if rnd.random() < 0.7 else world.rand_prj()
                        P = prj[1]
                        e = float(P.falseeast) + off + (0.0 if off in (0.0,) else round(rnd.uniform(-3, 3), 4))
                        nn = no if no in (0.0, 1e7) else min(1e7, max(0.0, round(no + rnd.uniform(-2, 2), 4)))
                        if hemi == "South":
                            nn = min(nn, float(P.falsenorth))      # valid southern northings do not exceed the false northing
                        if not (-2830000 <= e <= 3830000):
                            continue                               # outside the inverse's accepted easting range
                        evs.append(world.irt_event(z, round(e, 4), nn, hemi, ell, prj, "irt"))
        for code in (541, 542, 543, 551, 552, 553, 561, 562, 563, 572):
            for off in (0.0, 30000.0, -30000.0, 90000.0, -90000.0):
                for no in (4.9e6, 4e6, 2.5e6, 1.2e6, 5e5):
                    evs.append(world.irt_event(code, 300000.0 + off, no, "South", ("ans", gc.ans), ("isg", gc.isg), "irt_isg"))
    if "STA" in kinds:
        for i in range(150 if quick else 6000):
            z = rnd.randint(46, 59) if i % 3 else rnd.randint(1, 60)
            e = round(rnd.uniform(100000, 900000), 4)
            n = round(rnd.uniform(1.2e6, 9.9e6), 4)
            if i % 5 >= 3:
                # far from the central meridian (up to ~30 deg) but inside the accepted easting range, low and mid latitudes
                e = round(500000.0 + rnd.choice([-1, 1]) * rnd.uniform(9.0e5, 3.2e6), 4)
                n = round(rnd.uniform(4.5e6, 9.9e6), 4)
                if not (-2830000 <= e <= 3830000):
                    e = 500000.0 + (e - 500000.0) * 0.8
            evs.append(world.sta_event(z, e, n, "sta"))
    return evs


def run_family(ctx, prop):
    rnd = random.Random(ctx.seed)
    quick = ctx.tier == "quick"
    world = gridlib.World(rnd)
    strata = gridlib.strata(ctx)
    ctx.extra["strata"] = len(strata)
    evs = build(world, strata, prop, quick, rnd)
    traces = [{"ev": [e]} for e in evs]
    ctx.evaluations = world.calls
    fails = gridlib.validate(traces, ctx, "Trace_Grid")
    prefix = FAMILY[prop][0]
    other = {}
    for (i, l, clause) in fails:
        ev = traces[i]["ev"][0]
        mine = clause.startswith(prefix) or clause.startswith("stuck") or \
            (clause.endswith("_raised") and ((prop == "C01" and ev["k"] in ("P", "PAIR", "ZONE", "CM", "TM", "TMA")) or (prop == "C02" and ev["k"] in ("IRT", "STA"))
                                                or (prop == "C10" and ev["k"] in ("P", "PAIR", "IRT", "CM", "TM", "TMA"))))
        if not mine:
            other[clause] = other.get(clause, 0) + 1
            continue
        desc = {"clause": clause, "kind": ev["k"]}
        if ev["k"] == "PAIR":
            desc["rel"] = ev["rel"]
        if clause in ("oracle_start_value", "oracle_residuals"):
            raise tlc.MachineryError("in-spec oracle did not verify its own Newton results (%s)" % clause)
        if ev["k"] in ("P", "IRT", "CM", "TM", "TMA"):
            desc["prj"] = ev["o"].get("prj", {}).get("name")
        if clause == "c02_closure_geo_lon_literal":
            # literal 2e-9 deg clause: inside the documented output-rounding envelope iff the envelope clause holds
            desc["within_rounding_envelope"] = not any(c == "c02_closure_geo_lon" and j == i for (j, _, c) in fails)
            desc["abs_lat_ge_70"] = abs(ev["o"]["latf"]) >= 70
        ctx.violation(desc, json.dumps(gridlib.describe_event(ev))[:700] + (" exc=%s" % ev["exc"] if ev["exc"] else ""),
                      case={"event": {k: v for k, v in ev.items() if k != "o" and k not in ("a", "b")},
                            "args": gridlib.describe_event(ev)})
    ctx.extra["clauses_of_other_properties_failing_here"] = other
    for e in evs:
        ctx.nontrivial((e["k"], e.get("rel", ""), e["tag"], json.dumps(gridlib.describe_event(e), sort_keys=True)))
        ctx.actions[e["k"] + (":" + e["rel"] if e["k"] == "PAIR" else "")] = ctx.actions.get(e["k"] + (":" + e["rel"] if e["k"] == "PAIR" else ""), 0) + 1
    for e in evs[:1] + evs[len(evs) // 2:len(evs) // 2 + 1] + evs[-1:]:
        ctx.sample({"kind": e["k"], "rel": e.get("rel"), "case": gridlib.describe_event(e)})
    ctx.selftest(selftest, world, prop)
    return evs


def selftest(world, prop):
    import copy
    from fractions import Fraction
    from harness import fix
    gc = world.gc
    base = world.p_event(-37.123456789, 144.3456789, 0, ("grs80", gc.grs80), ("utm", gc.utm), "selftest")
    irt = world.irt_event(55, 258328.9417, 5838121.2036, "South", ("grs80", gc.grs80), ("utm", gc.utm), "selftest")
    t1 = copy.deepcopy(base); t1["o"]["fwd"]["hemi"] = "North"
    t2 = copy.deepcopy(base); t2["o"]["inv"]["lat"] = fix.enc(fix.dec(t2["o"]["inv"]["lat"]) + Fraction(5, 10 ** 9))
    t3 = copy.deepcopy(base); t3["o"]["inv"]["psf"] = fix.enc(fix.dec(t3["o"]["inv"]["psf"]) + Fraction(5, 10 ** 8))
    t4 = copy.deepcopy(irt); t4["o"]["back"]["e"] = fix.enc(fix.dec(t4["o"]["back"]["e"]) + Fraction(3, 10 ** 4))
    tma = world.tma_event(-33.123456789, 163.3456789, 55, ("intl24", gc.intl24), ("utm", gc.utm), "selftest")     # 16 deg off the CM
    t5 = copy.deepcopy(tma); t5["o"]["fwd"]["e"] = fix.enc(fix.dec(t5["o"]["fwd"]["e"]) + Fraction(5, 10 ** 4))
    t6 = copy.deepcopy(tma); t6["o"]["fwd"]["conv"] = fix.enc(fix.dec(t6["o"]["fwd"]["conv"]) + Fraction(5, 10 ** 9))
    fails = gridlib.validate([{"ev": [x]} for x in (base, irt, t1, t2, t3, t4, tma, t5, t6)], None, None)
    got = {}
    for (i, l, c) in fails:
        got.setdefault(i, []).append(c)
    base_bad = [c for c in got.get(0, []) + got.get(1, []) + got.get(6, []) if not c.startswith("c02_closure_geo_lon_literal")]
    out = {"baselines_clean": not base_bad, "hemisphere_flip": got.get(2, []), "lat_plus_5e-9": got.get(3, []),
           "psf_plus_5e-8": got.get(4, []), "east_plus_0.3mm": got.get(5, []), "exact_tm_anywhere_east_plus_0.5mm": got.get(7, []),
           "exact_tm_anywhere_conv_plus_5e-9": got.get(8, [])}
    ok = ("c01_hemisphere" in got.get(2, []) and "c02_closure_geo_lat" in got.get(3, []) and "c10_psf_fwd_inv" in got.get(4, [])
          and "c02_closure_grid_east" in got.get(5, []) and not base_bad and "c01_tm_easting" in got.get(7, [])
          and "c10_tm_convergence" in got.get(8, []))
    if not ok:
        raise tlc.MachineryError("binding self-test failed: %s" % out)
    return out


def run(ctx):
    run_family(ctx, "C01")
    ctx.rule = ("positions = k samples inside every stratum of Grid!Strata (hemisphere x side of CM x |dlon| band to 30 deg x "
                "latitude band to the -80/84 limits x zone class 1/mid/60/ISG x ellipsoid grs80/wgs84/ans/intl24/random x projection "
                "utm/isg/random; 1965 strata enumerated by TLC), automatic and explicit zones; pairs: mirror in CM, mirror in equator, "
                "second projection, homothetic ellipsoid, angle-object arguments, explicit natural zone, Projection clone of utm; the "
                "0.01-degree longitude lattice for the zone rule (every 7th value in quick); distinct = distinct (kind, stratum, "
                "inputs); the repository tests convert ~130 Australian points on GRS80/UTM")
    ctx.assumptions += ["exactness (0.2 mm) is decided on the rational-trigonometry lattice: central meridian against MeridianArc, off the "
                        "central meridian (1.8 .. 28 deg both sides) against the exact projection evaluated in the specification "
                        "(KruegerTM: neglected terms < 4e-6 m within 30 deg); elsewhere by the relational laws (mirror, homothety, "
                        "projection scaling), which tie every sampled position to the lattice",
                        "the shipped ellipsoids are judged on their PUBLISHED constants (spec/Ellipsoids.tla) in the TM events"]


def replay(ctx, data, prop="C01"):
    import random as _r
    world = gridlib.World(_r.Random(0))
    gc = world.gc
    a = data["case"]["args"]
    print("replay re-runs the recorded inputs where the ellipsoid/projection are shipped constants")
    ells = {"grs80": gc.grs80, "wgs84": gc.wgs84, "ans": gc.ans, "intl24": gc.intl24}
    prjs = {"utm": gc.utm, "isg": gc.isg}
    ev = None
    k = data["case"]["event"]["k"]
    if k == "P" and a["ell"] in ells and a["prj"] in prjs:
        ev = world.p_event(a["lat"], a["lon"], a["zonearg"], (a["ell"], ells[a["ell"]]), (a["prj"], prjs[a["prj"]]), "replay")
    elif k == "IRT" and a["ell"] in ells and a["prj"] in prjs:
        ev = world.irt_event(a["zone"], a["e"], a["n"], a["hemi"], (a["ell"], ells[a["ell"]]), (a["prj"], prjs[a["prj"]]), "replay")
    if ev is None:
        print("case uses a random ellipsoid/projection or a pair: re-run the check with the same seed to reproduce")
        return
    fails = gridlib.validate([{"ev": [ev]}], ctx, "replay")
    prefix = FAMILY[prop][0]
    for (i, l, c) in fails:
        if c.startswith(prefix):
            ctx.violation({"clause": c, "kind": k}, json.dumps(gridlib.describe_event(ev))[:600])
    print("replayed: %s" % ([c for (_, _, c) in fails] or "accepted"))
