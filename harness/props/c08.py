"""C08 - all angle notations convert to one another without changing the angle.

spec/Angles.tla: notations, the conversion routines as edges, abstract angle <<neg, w, f>>.
TLC enumerates every chain of routines up to length 3; the driver runs each chain on the real
geodepy.angles from lattice angles and spec/Trace_Angles.tla decides every step (same angle
within 1e-8", same sign, valid HP produced, valid HP accepted, invalid HP rejected).  The
whole-second lattice (1 296 000 values, both signs) is run through the float-sensitive routines
(sampled in quick, complete in thorough).
"""
import json
import math
import os
import random
from fractions import Fraction

from harness import alpha, tlc, tracecheck

PI30 = Fraction(314159265358979323846264338327950288, 10 ** 35)
NANO = 10 ** 9
FLOAT_SRC = ("rad", "dec", "hp", "gon")
CTOR = {"deca": ("dec", "DECAngle()"), "hpa": ("hp", "HPAngle()"), "gona": ("gon", "GONAngle()")}


def _an():
    import geodepy.angles as an
    return an


# ---------------------------------------------------------------- alpha for angles
def to_nano(arcsec):
    """Fraction of arc-seconds -> [neg, w, f] rounded once to nano-arc-seconds"""
    neg = arcsec < 0
    a = -arcsec if neg else arcsec
    tot = (a.numerator * NANO * 2 + a.denominator) // (2 * a.denominator)
    w, f = divmod(tot, NANO)
    if w > 2000000000:
        w = 2000000000
    return [1 if (neg and tot) else 0, int(w), int(f)]


def decode(v, rep_hint):
    """value in a notation -> (kind, arcsec Fraction, hp digits or None)"""
    t = type(v).__name__
    if t in ("float", "float64", "int"):
        x = float(v)
        if rep_hint == "rad":
            return "float", Fraction(x) * 648000 / PI30, None
        if rep_hint == "hp":
            neg, D, MM, SS, F9 = alpha.hp_digits(x)
            return "float", alpha.hp_to_deg(x) * 3600, [D, MM, SS, F9]
        if rep_hint == "gon":
            return "float", Fraction(x) * 9 / 10 * 3600, None
        return "float", Fraction(x) * 3600, None
    deg = alpha.angle_deg(v)
    hp = None
    if t == "HPAngle":
        neg, D, MM, SS, F9 = alpha.hp_digits(v.hp_angle)
        hp = [D, MM, SS, F9]
    return t, deg * 3600, hp


class Lib:
    def __init__(self):
        import numpy as np
        an = _an()
        self.an, self.np = an, np
        f = {}
        for n in ["dec2hp", "dec2hpa", "dec2gon", "dec2gona", "dec2dms", "dec2ddm", "hp2dec", "hp2deca", "hp2rad", "hp2gon",
                  "hp2gona", "hp2dms", "hp2ddm", "gon2dec", "gon2deca", "gon2hp", "gon2hpa", "gon2rad", "gon2dms", "gon2ddm"]:
            f[n] = getattr(an, n)
        f["radians"] = math.radians
        f["degrees"] = math.degrees
        f["DECAngle()"] = an.DECAngle
        f["HPAngle()"] = an.HPAngle
        f["GONAngle()"] = an.GONAngle
        f["dec2hp_v"] = lambda x: float(an.dec2hp_v(np.array([x]))[0])
        f["hp2dec_v"] = lambda x: float(an.hp2dec_v(np.array([x]))[0])
        self.fn = f
        self.calls = 0
        self.forms = 0

    def apply(self, name, v):
        self.calls += 1
        if name in self.fn:
            return self.fn[name](v)
        cls, meth = name.split(".")
        if type(v).__name__ != cls:
            raise tlc.MachineryError("driver: %s applied to %s" % (name, type(v).__name__))
        m = {"rad": "rad", "dec": "dec", "deca": "deca", "hp": "hp", "hpa": "hpa", "gon": "gon", "gona": "gona",
             "dms": "dms", "ddm": "ddm"}[meth]
        return getattr(v, m)()

    def start_value(self, rep, neg, w, f, below=False):
        """build the start value in a float notation or DMS/DDM from the lattice angle"""
        an = self.an
        A = Fraction(w) + Fraction(f, NANO)
        deg = A / 3600
        sgn = -1 if neg else 1
        if rep == "dec":
            x = float(deg)
        elif rep == "rad":
            x = math.radians(float(deg))
        elif rep == "gon":
            x = float(deg * 10 / 9)
        elif rep == "hp":
            D, r = divmod(w, 3600)
            MM, SS = divmod(r, 60)
            x = float("%d.%02d%02d%09d" % (D, MM, SS, f))
        elif rep == "dms":
            D, r = divmod(w, 3600)
            MM, SS = divmod(r, 60)
            self.forms += 1
            if self.forms % 3 == 0:         # the sign flag as the documented fourth POSITIONAL argument
                return an.DMSAngle(D, MM, float(Fraction(SS) + Fraction(f, NANO)), not neg)
            return an.DMSAngle(D, MM, float(Fraction(SS) + Fraction(f, NANO)), positive=not neg)
        elif rep == "ddm":
            D, r = divmod(w, 3600)
            self.forms += 1
            if self.forms % 3 == 0:         # ... third positional argument
                return an.DDMAngle(D, float((Fraction(r) + Fraction(f, NANO)) / 60), not neg)
            return an.DDMAngle(D, float((Fraction(r) + Fraction(f, NANO)) / 60), positive=not neg)
        else:
            raise ValueError(rep)
        if below and x != 0.0:
            x = math.nextafter(x, 0.0)
        self.forms += 1
        if self.forms % 4 == 0:             # "as numbers": a numpy scalar is a number too (same value)
            return self.np.float64(sgn * x)
        return sgn * x


def run_chain(lib, chain, pt, fan=False, below=False):
    """chain: list of edges (src, dst, name).  Returns a trace."""
    src = chain[0][0]
    steps = list(chain)
    if src in CTOR:                      # object start = float start + constructor edge
        fsrc, cname = CTOR[src]
        steps = [(fsrc, src, cname)] + steps
        src = fsrc
    neg, w, f = pt
    v0 = lib.start_value(src, neg, w, f, below)
    kind, asec, hp = decode(v0, src)
    a0 = to_nano(asec)
    tr = {"rep": src, "ang": {"neg": a0[0], "w": a0[1], "f": a0[2]}, "fan": fan, "pt": [int(neg), w, f],
          "ctor": {"on": src in ("dms", "ddm"), "neg": int(bool(neg) and (w > 0 or f > 0)), "w": int(w), "f": int(f)},
          "below": below, "chain": [e[2] for e in steps], "ev": []}
    v = v0
    for (s, d, name) in steps:
        ev = {"a": name, "exc": "", "kind": "", "neg": 0, "w": 0, "f": 0, "hp": [0, 0, 0, 0], "srcsame": True}
        try:
            arg = v0 if fan else v
            before = alpha.angle_payload(arg)
            out = lib.apply(name, arg)
            ev["srcsame"] = alpha.angle_payload(arg) == before
            kind, asec, hp = decode(out, d)
            o = to_nano(asec)
            ev.update({"kind": kind if kind != "float64" else "float", "neg": o[0], "w": o[1], "f": o[2]})
            if hp is not None:
                ev["hp"] = hp
            v = out
        except tlc.MachineryError:
            raise
        except Exception as ex:
            ev["exc"] = "%s: %s" % (type(ex).__name__, str(ex)[:80])
            tr["ev"].append(ev)
            break
        tr["ev"].append(ev)
    return tr


def reject_trace(lib, D, MM, SS, F9, neg):
    x = float("%d.%02d%02d%09d" % (D, MM, SS, F9)) * (-1 if neg else 1)
    evs = []
    for fn in ("hp2dec", "HPAngle()"):
        try:
            lib.apply(fn, x)
            raised = False
        except ValueError:
            raised = True
        except Exception:
            raised = True
        evs.append({"a": "Reject", "fn": fn, "hp": [D, MM, SS, F9], "raised": raised})
    return {"rep": "hp", "ang": {"neg": 0, "w": 0, "f": 0}, "fan": True, "pt": [int(neg), D, MM, SS, F9], "below": False,
            "ctor": {"on": False, "neg": 0, "w": 0, "f": 0},
            "chain": ["Reject"], "ev": evs}


def chains_from_tlc(ctx, n):
    cfg = tracecheck.write_tmp("SPECIFICATION Spec\nCONSTANT MaxChain = %d\nCONSTRAINT Bound\nCHECK_DEADLOCK FALSE\n" % n, ".cfg")
    try:
        r = tlc.run_tlc("MC_Angles", cfg, workers=1, tags=("BEH",), timeout=1800)
    finally:
        os.unlink(cfg)
    ctx.add_tlc(r, "MC_Angles chains of length %d" % n)
    return [[tuple(e) for e in p[1]] for p in r.prints]


def validate(traces, ctx, label):
    fails, _ = tracecheck.validate("Trace_Angles", "Trace_Angles.cfg", traces, ctx, label, min_chunk=2000, timeout=3000)
    return fails


def describe(tr, l, clause):
    d = {"clause": clause.split(".")[-1] if clause else clause}
    if l:
        ev = tr["ev"][l - 1]
        d["routine"] = ev.get("fn", ev["a"])
    return d


LAT_D = [0, 1, 59, 60, 89, 90, 179, 180, 359, 360, 540, 650, 719]
LAT_M = [0, 1, 29, 30, 59]
LAT_S = [0, 1, 30, 59]
LAT_F = [0, 1, 500000000, 999999999]


def run(ctx):
    rnd = random.Random(ctx.seed)
    quick = ctx.tier == "quick"
    lib = Lib()
    r = tlc.run_tlc("MC_Angles", "MC_Angles.cfg", workers=4, coverage=True, timeout=1800)
    ctx.add_tlc(r, "MC_Angles exhaustive (chains <= 3, AngleKept, ValidHP)")
    if r.violated:
        raise tlc.MachineryError("Angles model violated %s" % r.violated)
    c1, c2, c3 = chains_from_tlc(ctx, 1), chains_from_tlc(ctx, 2), chains_from_tlc(ctx, 3)
    ctx.extra["chains"] = {"len1": len(c1), "len2": len(c2), "len3": len(c3)}
    lattice = [(s, d * 3600 + m * 60 + x, f) for s in (False, True) for d in LAT_D for m in LAT_M for x in LAT_S for f in LAT_F]
    small = [(s, d * 3600 + m * 60 + x, f) for s in (False, True) for d in LAT_D for m in (0, 6, 59) for x in (0, 59) for f in LAT_F]
    # from 512 degrees on a double cannot tell 1e-9" steps of an HP value apart (540.0059999999999 and the invalid 540.006
    # are the same double): there the lattice keeps the fraction classes 0 and 0.5" only (Angles!Lattice)
    lattice = [pt for pt in lattice if pt[1] < 512 * 3600 or pt[2] in (0, 500000000)]
    small = [pt for pt in small if pt[1] < 512 * 3600 or pt[2] in (0, 500000000)]
    traces = []
    # every routine (chains of length 1) on the lattice
    for ch in c1:
        for pt in (small if quick else lattice):
            traces.append(run_chain(lib, ch, pt))
    # values a hair below degree / minute boundaries (float predecessor), float sources only
    for ch in c1:
        if ch[0][0] in ("dec", "gon", "rad"):
            for s in (False, True):
                for w in [60, 3600, 3660, 7200, 108000, 215940, 216000, 648000, 1296000, 2592000 - 60]:
                    traces.append(run_chain(lib, ch, (s, w, 0), below=True))
    # chains of length 2 and 3 with rotating lattice points and random reals in [-720, 720]
    k2, k3 = (2, 1) if quick else (24, 6)
    for chs, k in ((c2, k2), (c3, k3)):
        for ch in chs:
            for _ in range(k):
                traces.append(run_chain(lib, ch, rnd.choice(lattice)))
            A = Fraction(rnd.uniform(0, 720 * 3600)).limit_denominator(10 ** 9)
            w, f = divmod(int(A * NANO), NANO)
            traces.append(run_chain(lib, ch, (rnd.random() < 0.5, int(w), int(f))))
    n_chain = len(traces)
    # rejection probes
    for D in (0, 12, 359):
        for (MM, SS) in [(60, 0), (61, 30), (99, 59), (0, 60), (59, 60), (12, 75), (30, 99), (60, 60), (0, 0), (59, 59), (30, 30)]:
            for F9 in (0, 999999999):
                for neg in (False, True):
                    traces.append(reject_trace(lib, D, MM, SS, F9, neg))
    # the whole-second lattice through the float-sensitive routines (fan from hp and from dec)
    hp_fan = [("hp", "hpa", "HPAngle()"), ("hp", "dec", "hp2dec"), ("hp", "dms", "hp2dms"), ("hp", "ddm", "hp2ddm"),
              ("hp", "dec", "hp2dec_v")]
    dec_fan = [("dec", "hp", "dec2hp"), ("dec", "hpa", "dec2hpa"), ("dec", "hp", "dec2hp_v")]
    if quick:
        ws = sorted(rnd.sample(range(1296000), 6000))
        signs = (False, True)
    else:
        ws = range(1296000)
        signs = (False, True)
    n_before = len(traces)
    if quick:
        for w in ws:
            for s in signs:
                traces.append(run_chain(lib, hp_fan, (s, w, 0), fan=True))
                traces.append(run_chain(lib, dec_fan, (s, w, 0), fan=True))
        ctx.extra["whole_second_lattice"] = {"values": len(ws), "signs": 2, "complete": False}
        fails = validate(traces, ctx, "Trace_Angles")
        report(traces, fails, ctx)
    else:
        fails = validate(traces, ctx, "Trace_Angles chains")
        report(traces, fails, ctx)
        total = 0
        CH = 108000
        for c0 in range(0, 1296000, CH):
            part = []
            for w in range(c0, min(c0 + CH, 1296000)):
                for s in signs:
                    part.append(run_chain(lib, hp_fan, (s, w, 0), fan=True))
                    part.append(run_chain(lib, dec_fan, (s, w, 0), fan=True))
            total += len(part)
            fl = validate(part, ctx, "Trace_Angles whole seconds %d.." % c0)
            report(part, fl, ctx)
            if c0 == 0:
                traces += part[:50]
        ctx.extra["whole_second_lattice"] = {"values": 1296000, "signs": 2, "complete": True, "traces": total}
        ctx.exhaustive = True
    ctx.evaluations = lib.calls
    for tr in traces:
        ctx.nontrivial((tuple(tr["chain"]), tuple(tr["pt"]), tr["below"]))
        for e in tr["ev"]:
            ctx.actions[e.get("fn", e["a"])] = ctx.actions.get(e.get("fn", e["a"]), 0) + 1
    ctx.selftest(selftest, lib)
    ctx.rule = ("chains = every path of length 1, 2, 3 through the 67 conversion routines (TLC-enumerated); length-1 chains on "
                "the %s lattice (13 degree values to 719 x minute x second x 4 fraction classes x 2 signs) plus float predecessors of "
                "degree/minute boundaries; longer chains on rotating lattice points and random reals in [-720, 720]; HP rejection "
                "probes; whole-second lattice %s through HPAngle(), hp2dec, hp2dms, hp2ddm, dec2hp, dec2hpa; distinct = distinct "
                "(routine chain, start angle); the repository tests convert ~20 fixed values"
                % ("reduced" if quick else "full", "sampled (6000 values x 2 signs)" if quick else "complete (1 296 000 x 2 signs)"))
    for tr in traces[:1] + traces[n_chain - 1:n_chain] + traces[n_before:n_before + 1]:
        ctx.sample({"start_notation": tr["rep"], "start_angle_[neg,w,f]": tr["ang"], "routines": tr["chain"],
                    "observed": [(e.get("kind"), e.get("neg"), e.get("w"), e.get("f")) for e in tr["ev"]][:4]})
    ctx.assumptions += ["alpha decodes HP floats from their exact value rounded at 13 decimals, radians with a 35-digit pi, and "
                        "rounds every decoded angle once to nano-arc-seconds (0.5e-9\" slack on the 1e-8\" tolerance, generous side)",
                        "the start angle is the angle denoted by the start value actually handed to the library"]


def report(traces, fails, ctx):
    for (i, l, clause) in fails:
        tr = traces[i]
        ctx.violation(describe(tr, l, clause),
                      "start %s %s chain %s event %s" % (tr["rep"], tr["pt"], tr["chain"], json.dumps(tr["ev"][l - 1] if l else {})[:300]),
                      case={"rep": tr["rep"], "pt": tr["pt"], "below": tr["below"], "fan": tr["fan"], "chain": tr["chain"]})


def selftest(lib):
    import copy
    base = run_chain(lib, [("dec", "dms", "dec2dms"), ("dms", "hpa", "DMSAngle.hpa")], (True, 12 * 3600 + 34 * 60 + 56, 5))
    t1 = copy.deepcopy(base); t1["ev"][-1]["f"] += 20            # 2e-8" off
    t2 = copy.deepcopy(base); t2["ev"][-1]["neg"] = 0            # sign flipped
    t3 = copy.deepcopy(base); t3["ev"][-1]["hp"] = [12, 34, 60, 0]  # invalid HP produced
    t4 = copy.deepcopy(base); del t4["ev"][0]                    # dropped event
    fails = validate([base, t1, t2, t3, t4], None, None)
    rej = {i: c for (i, l, c) in fails}
    out = {"baseline_accepted": 0 not in rej, "angle_off_2e-8_rejected": rej.get(1, ""), "sign_flip_rejected": rej.get(2, ""),
           "invalid_hp_rejected": rej.get(3, ""), "dropped_event_rejected": rej.get(4, "")}
    if 0 in rej or not all(k in rej for k in (1, 2, 3, 4)):
        raise tlc.MachineryError("binding self-test failed: %s" % out)
    return out


def replay(ctx, data):
    lib = Lib()
    c = data["case"]
    if c["chain"] == ["Reject"]:
        neg, D, MM, SS, F9 = c["pt"]
        tr = reject_trace(lib, D, MM, SS, F9, bool(neg))
    else:
        tr = run_chain_names(lib, rep, names, tuple([bool(c["pt"][0])] + c["pt"][1:]), c["fan"], c["below"])
    fails = validate([tr], ctx, "replay")
    report([tr], fails, ctx)
    print("replayed %s from %s %s: %s" % (c["chain"], c["rep"], c["pt"], fails if fails else "accepted"))


DST = {"dec2hp": "hp", "dec2hpa": "hpa", "dec2gon": "gon", "dec2gona": "gona", "dec2dms": "dms", "dec2ddm": "ddm",
       "hp2dec": "dec", "hp2deca": "deca", "hp2rad": "rad", "hp2gon": "gon", "hp2gona": "gona", "hp2dms": "dms", "hp2ddm": "ddm",
       "gon2dec": "dec", "gon2deca": "deca", "gon2hp": "hp", "gon2hpa": "hpa", "gon2rad": "rad", "gon2dms": "dms", "gon2ddm": "ddm",
       "radians": "rad", "degrees": "dec", "DECAngle()": "deca", "HPAngle()": "hpa", "GONAngle()": "gona",
       "dec2hp_v": "hp", "hp2dec_v": "dec"}


def run_chain_names(lib, rep, names, pt, fan, below):
    edges = []
    cur = rep
    for n in names:
        dst = DST.get(n) or n.split(".")[1]
        edges.append((cur, dst, n))
        if not fan:
            cur = dst
    return run_chain(lib, edges, pt, fan=fan, below=below)
