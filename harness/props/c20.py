"""C20 - the HTTP API (api/app.py) returns exactly what the library computes.

spec/Api.tla (pipeline Receive -> Parse -> ConvIn -> LibCall -> ConvOut -> Respond, S-tables)
  -> TLC checks the tables exhaustively and enumerates the requests (endpoint x from/to angle type
     in {dd, dms, absent} x class of numbers x query-string syntax) together with the plan the
     specification prescribes for each (field -> conversion -> argument, result -> conversion -> key)
  -> this driver picks real numbers inside each class, sends the request through the Flask test
     client (recording the call the endpoint really makes to vincinv / vincdir), and calls the
     LIBRARY directly to obtain the observed tables hp2dec / vincinv / vincdir / dec2hp
  -> spec/Trace_Api.tla (TLC) composes those tables with Api!Post_X and decides, bit for bit.

Python here never compares anything: it sends, records, and encodes (float.hex, HP digits, limbs).
"""
import ast
import copy
import json
import logging
import math
import random
from concurrent.futures import ThreadPoolExecutor
from fractions import Fraction
from urllib.parse import urlencode

from harness import alpha, fix, tlc, tracecheck

TYPE_FIELDS = ("from_angle_type", "to_angle_type")
MODEL_ACTIONS = ("Receive", "ParseA", "ConvInA", "LibCallA", "ConvOutA", "RespondA", "IndexA", "DoneA")
PAR = 8


def hexnum(v):
    """alpha: a JSON / Python number -> bit-exact identity string"""
    if isinstance(v, bool) or not isinstance(v, (int, float)):
        return "nonnumeric:" + repr(v)[:40]
    try:
        return float(v).hex()
    except OverflowError:
        return "nonnumeric:" + repr(v)[:40]


def hp_rec(x):
    """alpha: HP float -> [neg, D, MM, SS, seconds-with-fraction as limbs] (digits read off the value)"""
    if not isinstance(x, (int, float)) or isinstance(x, bool) or math.isnan(x) or math.isinf(x) or abs(x) >= 1e7:
        return [0, 0, 99, 99, [0]]
    neg, D, MM, SS, f9 = alpha.hp_digits(x)
    return [1 if neg else 0, D, MM, SS, fix.enc(Fraction(SS * 10 ** 9 + f9, 10 ** 9))]


def enc_or_zero(x):
    try:
        return fix.enc(x) if abs(x) < 1e9 else [0]
    except (ValueError, TypeError, OverflowError):
        return [0]


# ------------------------------------------------------------------------------------------
# picking real numbers inside a class (no verdict depends on this; it only chooses inputs)
# ------------------------------------------------------------------------------------------
def sph_sep(lat1, lon1, lat2, lon2):
    p1, p2, dl = math.radians(lat1), math.radians(lat2), math.radians(lon2 - lon1)
    c = math.sin(p1) * math.sin(p2) + math.cos(p1) * math.cos(p2) * math.cos(dl)
    return math.degrees(math.acos(max(-1.0, min(1.0, c))))


def pick_inverse(c, rnd):
    s1 = -1.0 if c["h1"] == "S" else 1.0
    sw = -1.0 if c["w1"] == "W" else 1.0
    g = c["geom"]
    lat1 = s1 * rnd.uniform(0.5, 80.0)
    lon1 = sw * rnd.uniform(0.5, 175.0)
    if rnd.random() < 0.15:                       # angles between -1 and +1 degree (sign carried by "-0.")
        lat1 = s1 * rnd.uniform(0.01, 0.99)
    if rnd.random() < 0.15:
        lon1 = sw * rnd.uniform(0.01, 0.99)
    if g == "near":
        lat2 = lat1 + rnd.choice((-1, 1)) * rnd.uniform(1e-4, 0.4)
        lon2 = lon1 + rnd.choice((-1, 1)) * rnd.uniform(1e-4, 0.4)
    elif g == "far":
        while True:
            lat2, lon2 = rnd.uniform(-85.0, 85.0), rnd.uniform(-179.0, 179.0)
            if 5.0 < sph_sep(lat1, lon1, lat2, lon2) < 170.0:
                break
    elif g == "meridian":
        lon2 = lon1
        lat2 = rnd.uniform(-85.0, 85.0)
        if abs(lat2 - lat1) < 0.01:
            lat2 = lat1 - s1 * 0.3
    elif g == "parallel":
        lat2 = lat1
        lon2 = lon1 - sw * rnd.uniform(0.01, 120.0)
    elif g == "equator":
        lat1 = s1 * 0.0
        lat2 = lat1
        lon2 = lon1 - sw * rnd.uniform(0.01, 160.0)
    elif g == "straddle":
        lon1 = sw * rnd.uniform(170.0, 179.99)
        lon2 = -sw * rnd.uniform(170.0, 179.99)
        lat2 = lat1 + rnd.uniform(-5.0, 5.0)
    elif g == "coincident":
        lat2, lon2 = lat1, lon1
    elif g == "hemis":
        lon1 = sw * rnd.uniform(0.5, 60.0)
        while True:
            lat2, lon2 = -s1 * rnd.uniform(0.5, 60.0), -sw * rnd.uniform(0.5, 60.0)
            if sph_sep(lat1, lon1, lat2, lon2) < 170.0:
                break
    elif g == "polar":
        lat2 = s1 * 90.0
        lon2 = rnd.uniform(-179.0, 179.0)
    else:
        raise ValueError(g)
    return {"lat1": lat1, "lon1": lon1, "lat2": lat2, "lon2": lon2}


def pick_direct(c, rnd):
    s1 = -1.0 if c["h1"] == "S" else 1.0
    sw = -1.0 if c["w1"] == "W" else 1.0
    lat1 = s1 * rnd.choice((rnd.uniform(0.5, 30.0), rnd.uniform(30.0, 60.0), rnd.uniform(60.0, 85.0)))
    lon1 = sw * rnd.uniform(0.5, 179.0)
    if rnd.random() < 0.15:
        lat1 = s1 * rnd.uniform(0.01, 0.99)
    if rnd.random() < 0.15:
        lon1 = sw * rnd.uniform(0.01, 0.99)
    az = {"c0": 0.0, "c90": 90.0, "c180": 180.0, "c270": 270.0, "c360": 360.0}.get(c["az"])
    if az is None:
        q = int(c["az"][1]) - 1
        az = 90.0 * q + rnd.uniform(0.01, 89.99)
    d = c["dist"]
    dist = {"zero": 0.0, "short": 10 ** rnd.uniform(-3, 3), "mid": 10 ** rnd.uniform(3, 6),
            "long": rnd.uniform(1e6, 2e7)}[d]
    return {"lat1": lat1, "lon1": lon1, "azimuth1to2": az, "ell_dist": dist}


def snap_hp(dd, nd):
    """a valid HP number (minutes, seconds < 60) built from integer degrees / minutes / seconds and nd
    decimals of a second, nearest to the angle dd"""
    q = round(abs(Fraction(dd)) * 3600 * 10 ** nd)
    st, frac = divmod(q, 10 ** nd)
    D, rem = divmod(st, 3600)
    M, S = divmod(rem, 60)
    v = float("%d.%02d%02d%s" % (D, M, S, ("%0*d" % (nd, frac)) if nd else ""))
    return -v if math.copysign(1.0, dd) < 0 else v


def short_decimal(x, rnd):
    return round(x, rnd.choice((1, 2, 3, 5, 8)))


def render(x, fmt):
    if fmt == "repr":
        return repr(float(x))
    if fmt == "exp17":
        return "%.17e" % x
    if fmt == "fix20":
        return "%.20f" % x
    raise ValueError(fmt)


def build_request(req, rnd, k):
    """req = (rq, cls, plan_in, plan_out) as printed by TLC -> concrete request"""
    rq, c, plan_in, plan_out = req
    ep = rq["ep"]
    vals = pick_inverse(c, rnd) if ep == "vincinv" else pick_direct(c, rnd)
    hp_in = any(op == "hp2dec" for (_, op) in plan_in)
    nd = rnd.choice((0, 1, 2, 3, 5, 6, 9))
    shorten = (not hp_in) and (k % 2 == 1 or rnd.random() < 0.25)
    toks = {}
    for (f, op) in plan_in:
        x = vals[f]
        if op == "hp2dec":
            x = snap_hp(x, nd)                       # HP-valid input
        elif shorten and f != "ell_dist":
            x = short_decimal(x, rnd)                # plain decimal input (often not valid HP)
        toks[f] = render(x, c["fmt"])
    num = [(f, toks[f]) for (f, _) in plan_in]
    typ = [(n, rq[key]) for (n, key) in zip(TYPE_FIELDS, ("from", "to")) if rq[key] != "absent"]
    if c["ord"] == "canon":
        pairs = num + typ
    elif c["ord"] == "rev":
        pairs = list(reversed(num + typ))
    else:
        pairs = list(reversed(typ)) + num[2:] + num[:2]
    return {"ep": ep, "pairs": pairs, "cls": c, "plan_in": [list(p) for p in plan_in],
            "plan_out": [list(p) for p in plan_out]}


# ------------------------------------------------------------------------------------------
# the real code
# ------------------------------------------------------------------------------------------
class Runner:
    def __init__(self):
        import api.app as appmod
        import geodepy.geodesy as gd
        import geodepy.angles as an
        self.appmod = appmod
        self.app = appmod.app
        self.client = self.app.test_client()
        self.lib = {"vincinv": gd.vincinv, "vincdir": gd.vincdir}
        self.ops = {"hp2dec": an.hp2dec, "dec2hp": an.dec2hp}
        self.calls = 0
        self.recorded = []
        self._orig = {}
        self.app.logger.disabled = True
        logging.getLogger("werkzeug").disabled = True

    # -- recording wrappers around the function objects the endpoint refers to
    def install(self):
        for name in ("vincinv", "vincdir"):
            f = getattr(self.appmod, name)
            self._orig[name] = f
            setattr(self.appmod, name, self._wrap(name, f))

    def restore(self):
        for name, f in self._orig.items():
            setattr(self.appmod, name, f)
        self._orig = {}

    def _wrap(self, name, f):
        rec = self.recorded

        def wrapper(*a, **kw):
            entry = {"fn": name, "args": [hexnum(x) for x in a], "nkw": len(kw), "res": ["raised"] * 3}
            rec.append(entry)
            r = f(*a, **kw)
            try:
                entry["res"] = [hexnum(x) for x in r]
            except TypeError:
                entry["res"] = ["nonnumeric:" + repr(r)[:40]]
            return r
        wrapper.__name__ = name
        return wrapper

    def run_request(self, rq):
        ep, pairs = rq["ep"], [tuple(p) for p in rq["pairs"]]
        query = dict(pairs)
        ev = [{"a": "Receive", "url": "/" + ep + "?" + urlencode(pairs)}]
        # Parse (alpha: token -> number)
        num = {"_": "_"}
        floats = {}
        for f, t in pairs:
            if f not in TYPE_FIELDS:
                try:
                    floats[f] = float(t)
                    num[t] = hexnum(floats[f])
                except ValueError:
                    pass
        ev.append({"a": "Parse", "num": num})
        # ConvIn: the library's own hp2dec on the numbers the plan converts
        tab = {"_": {"h": "_", "e": [0], "hp": [0, 0, 0, 0, [0]]}}
        argv = []
        ok = True
        for f, op in rq["plan_in"]:
            x = floats.get(f)
            y = x
            if op == "hp2dec" and x is not None:
                self.calls += 1
                try:
                    y = self.ops["hp2dec"](x)
                    tab[hexnum(x)] = {"h": hexnum(y), "e": enc_or_zero(y), "hp": hp_rec(x)}
                except Exception:
                    ok = False
                    tab[hexnum(x)] = {"h": "raised", "e": [0], "hp": hp_rec(x)}
            argv.append(y)
        ev.append({"a": "ConvIn", "tab": tab})
        # LibCall: the library called directly on those arguments
        lib = {"fn": ep, "k": ",".join(hexnum(a) for a in argv), "r": ["raised"] * 3, "exc": ""}
        res = None
        if ok and all(a is not None for a in argv):
            self.calls += 1
            try:
                res = self.lib[ep](*argv)
                lib["r"] = [hexnum(x) for x in res]
            except Exception as ex:
                lib["exc"] = "%s: %s" % (type(ex).__name__, str(ex)[:80])
        else:
            lib["exc"] = "not called: an input conversion raised"
        # ConvOut: the library's own dec2hp on the results the plan converts
        tab2 = {"_": {"h": "_", "e": [0], "hp": [0, 0, 0, 0, [0]]}}
        if res is not None:
            for i, (key, op) in enumerate(rq["plan_out"]):
                if op == "dec2hp":
                    self.calls += 1
                    try:
                        z = self.ops["dec2hp"](res[i])
                        tab2[hexnum(res[i])] = {"h": hexnum(z), "e": enc_or_zero(res[i]), "hp": hp_rec(z)}
                    except Exception:
                        tab2[hexnum(res[i])] = {"h": "raised", "e": [0], "hp": [0, 0, 0, 0, [0]]}
        # the request itself, through the real application
        del self.recorded[:]
        self.calls += 1
        r = self.client.get(ev[0]["url"])
        recd = [e for e in self.recorded if e["fn"] in self.lib]
        first = recd[0] if recd else {"fn": "", "args": [], "nkw": 0, "res": []}
        ev.append({"a": "LibCall", "rec": len(recd), "fn": first["fn"], "args": first["args"], "nkw": first["nkw"],
                   "res": first["res"], "lib": lib})
        ev.append({"a": "ConvOut", "tab": tab2})
        body = None
        if r.mimetype == "application/json":
            try:
                body = json.loads(r.data)
            except ValueError:
                body = None
        isobj = isinstance(body, dict)
        vals = {"_": "_"}
        if isobj:
            for k_, v in body.items():
                vals[k_] = hexnum(v)
        ev.append({"a": "Respond", "status": int(r.status_code), "json": isobj,
                   "keys": sorted(body.keys()) if isobj else [], "vals": vals})
        return {"kind": "req", "ep": ep, "query": query, "cls": rq["cls"], "ev": ev}

    def run_index(self):
        self.calls += 1
        r = self.client.get("/")
        text = r.data.decode("utf-8", "replace")
        listed, parsable = [], False
        try:
            v = ast.literal_eval(text)
            if isinstance(v, (tuple, list)) and all(isinstance(x, str) for x in v):
                listed, parsable = list(v), True
        except (ValueError, SyntaxError):
            pass
        rules = sorted(rule.rule for rule in self.app.url_map.iter_rules() if rule.endpoint != "static")
        adapter = self.app.url_map.bind("localhost")
        resolves = []
        for route in listed:
            try:
                adapter.match(route, method="GET")
                resolves.append(True)
            except Exception:
                resolves.append(False)
        return {"kind": "index", "ep": "index", "query": {"_": "_"}, "cls": {"_": "_"},
                "ev": [{"a": "Index", "status": int(r.status_code), "parsable": parsable, "listed": listed,
                        "rules": rules, "resolves": resolves, "text": text[:200]}]}


# ------------------------------------------------------------------------------------------
def requests_from_tlc(ctx, quick):
    cfg = tracecheck.write_tmp("SPECIFICATION Spec\nCONSTRAINT %s\nCHECK_DEADLOCK FALSE\n"
                               % ("GenQuick" if quick else "GenAll"), ".cfg")
    try:
        r = tlc.run_tlc("MC_Api", cfg, workers=1, tags=("REQ", "IDX"), timeout=900)
    finally:
        import os
        os.unlink(cfg)
    ctx.add_tlc(r, "MC_Api request generation (%s)" % ("one syntax per class" if quick else "all classes"))
    reqs = [(p[1], p[2], [tuple(x) for x in p[3]], [tuple(x) for x in p[4]]) for p in r.tagged("REQ")]
    reqs.sort(key=lambda q: json.dumps(q, sort_keys=True))
    return reqs, len(r.tagged("IDX"))


def describe(tr, clause):
    d = {"clause": clause, "endpoint": tr["ep"]}
    if tr["kind"] == "req":
        q, c = tr["query"], tr["cls"]
        d.update({"from_angle_type": q.get("from_angle_type", "absent"), "to_angle_type": q.get("to_angle_type", "absent"),
                  "geom": c["geom"], "az": c["az"], "dist": c["dist"], "h1": c["h1"], "w1": c["w1"],
                  "fmt": c["fmt"], "ord": c["ord"]})
    return d


def validate(traces, ctx, label):
    fails, _ = tracecheck.validate("Trace_Api", "Trace_Api.cfg", traces, ctx, label, par=PAR, timeout=1800)
    return fails


def report(traces, rqs, fails, ctx):
    for (i, l, clause) in fails:
        tr = traces[i]
        ev = tr["ev"][l - 1] if l else {}
        ctx.violation(describe(tr, clause),
                      detail="url=%s stage=%s" % (tr["ev"][0].get("url", "/"), json.dumps(
                          {k: v for k, v in ev.items() if k != "tab"}, default=str)[:900]),
                      case=rqs[i])


def run(ctx):
    rnd = random.Random(ctx.seed)
    quick = ctx.tier == "quick"
    # 1. the model: tables and pipeline, exhaustively, every invariant, every action taken
    #    (runs beside steps 2-3; joined before anything is decided)
    pool = ThreadPoolExecutor(max_workers=1)
    mc = pool.submit(tlc.run_tlc, "MC_Api", "MC_Api.cfg", workers=4, coverage=True, timeout=900)
    # 2. requests out of TLC
    reqs, nidx = requests_from_tlc(ctx, quick)
    if not reqs or nidx != 1:
        raise tlc.MachineryError("request generation produced %d requests, %d index" % (len(reqs), nidx))
    K = 1 if quick else 3
    # 3. the real application
    R = Runner()
    rqs, traces = [], []
    R.install()
    try:
        # plans by (endpoint, from, to): used to re-send the SAME numbers under the other input notation
        plans = {(r_[0]["ep"], r_[0]["from"], r_[0]["to"]): r_ for r_ in reqs}
        for k in range(K):
            for j, req in enumerate(reqs):
                rq = build_request(req, rnd, j + k)
                rqs.append(rq)
                traces.append(R.run_request(rq))
                # twin: identical numeric tokens (HP-valid, hence also valid decimal degrees), other from_angle_type,
                # sent straight afterwards in the same process (an answer must not depend on earlier requests)
                if req[0]["from"] == "dms" and (j + k) % 3 == 0:
                    other = plans.get((req[0]["ep"], "dd" if j % 2 else "absent", req[0]["to"]))
                    if other is not None:
                        toks = dict((f, t) for (f, t) in rq["pairs"] if f not in TYPE_FIELDS)
                        num = [(f, toks[f]) for (f, _) in other[2]]
                        typ = [(n_, other[0][key]) for (n_, key) in zip(TYPE_FIELDS, ("from", "to")) if other[0][key] != "absent"]
                        twin = {"ep": rq["ep"], "pairs": num + typ, "cls": rq["cls"], "plan_in": [list(p_) for p_ in other[2]],
                                "plan_out": [list(p_) for p_ in other[3]]}
                        rqs.append(twin)
                        traces.append(R.run_request(twin))
        rqs.append({"ep": "index"})
        traces.append(R.run_index())
    finally:
        R.restore()
    ctx.evaluations = R.calls
    ood = 0
    for rq, tr in zip(rqs, traces):
        if tr["kind"] != "req":
            continue
        ctx.actions["request:" + tr["ep"]] = ctx.actions.get("request:" + tr["ep"], 0) + 1
        if tr["ev"][3]["lib"]["exc"]:
            ood += 1
            continue
        d = describe(tr, "")
        default = (d["from_angle_type"] == "dms" and d["to_angle_type"] == "dms" and d["h1"] == "S" and d["w1"] == "E"
                   and d["fmt"] == "repr" and d["ord"] == "canon" and (d["geom"] == "near" or (d["az"] == "q4" and d["dist"] == "mid")))
        if not default:
            ctx.nontrivial(tr["ev"][0]["url"])
    ctx.actions["request:index"] = 1
    ctx.extra["library_raised_when_called_directly"] = ood
    ctx.extra["calls_recorded_by_wrapper"] = sum(1 for t in traces if t["kind"] == "req" and t["ev"][3]["rec"] == 1)
    # (requests on which the library itself raises when called directly: on the unchanged tree there are none - every generated request
    #  is inside the domain of vincinv / vincdir; on a tree where the library refuses them, what the API then answers is still judged
    #  by Trace_Api against what the library did)
    ctx.extra["library_raised_share"] = round(ood / float(max(1, len(traces))), 4)
    r = mc.result()
    pool.shutdown()
    ctx.add_tlc(r, "MC_Api exhaustive")
    if r.violated:
        raise tlc.MachineryError("Api model violates its own invariant %s\n%s" % (r.violated, r.out[-2000:]))
    idle = [a for a in MODEL_ACTIONS if r.coverage.get(a, (0, 0))[1] == 0]
    if idle:
        raise tlc.MachineryError("Api model: action(s) never taken: %s" % idle)
    # 4. TLC decides
    fails = validate(traces, ctx, "Trace_Api")
    report(traces, rqs, fails, ctx)
    # 5. binding self-test
    ctx.selftest(selftest, traces, [f[0] for f in fails])
    ctx.rule = ("requests = every (endpoint in {vincinv, vincdir}) x (from_angle_type, to_angle_type in {dd, dms, absent}^2) "
                "x class of numbers (vincinv: hemisphere x side x 9 geometries incl. meridian/parallel/equator/+-180/"
                "coincident/polar; vincdir: hemisphere x side x 9 azimuth classes incl. cardinals and 360 x 4 distance "
                "bands up to 2e7 m) x query syntax (%s) enumerated by TLC from Api.tla, %d seeded sample(s) each, HP inputs "
                "built from integer deg/min/sec + 0..9 decimals of a second, four distinct coordinates; plus GET /; distinct = distinct "
                "URLs outside the repository tests' case (dms/dms, southern-eastern short line)"
                % ("one of 4 format x order combinations per class, all met by every geometry" if quick else "3 number formats x 3 field orders", K))
    ctx.exhaustive = False
    for tr in traces[:1] + traces[len(traces) // 3:len(traces) // 3 + 1] + traces[-2:]:
        ctx.sample({"url": tr["ev"][0].get("url", "/"), "respond": {k: v for k, v in tr["ev"][-1].items() if k != "tab"}})
    ctx.assumptions += [
        "Parse is alpha: float(token) by the driver; tokens are rendered so that they round-trip exactly",
        "reference tables = geodepy.angles.hp2dec / dec2hp and geodepy.geodesy.vincinv / vincdir called directly by the driver "
        "following the plan printed by TLC; TLC composes them and checks the driver used the planned arguments",
        "HP conversions judged against exact HP arithmetic with 1e-8 arc-second (C08's tolerance); everything else bit for bit",
        "LibCall clauses use a recording wrapper around api.app.vincinv / vincdir and are skipped when no call was recorded",
        "requests on which the library itself raises when called directly are accepted as outside the property's domain (counted)"]


def selftest(traces, failed_idx):
    """corrupt a logged field / remove an event: TLC must reject."""
    bad = set(failed_idx)
    base = None
    for i, t in enumerate(traces):
        if (i not in bad and t["kind"] == "req" and t["query"].get("from_angle_type") == "dms"
                and t["query"].get("to_angle_type") == "dms" and t["ev"][3]["rec"] == 1 and not t["ev"][3]["lib"]["exc"]
                and t["cls"]["geom"] in ("far", "na") and t["cls"]["dist"] in ("long", "na")):
            base = t
            break
    if base is None:
        return {"ran": False, "why": "no accepted dms/dms request trace"}
    if validate([base], None, None):
        return {"ran": False, "why": "base trace not accepted"}
    muts = {}
    t = copy.deepcopy(base)
    key = [k for k in t["ev"][5]["vals"] if k != "_"][0]
    t["ev"][5]["vals"][key] = math.nextafter(float.fromhex(t["ev"][5]["vals"][key]), math.inf).hex()
    muts["response_value_off_by_one_ulp_rejected"] = t
    t = copy.deepcopy(base)
    a = t["ev"][3]["args"]
    a[0], a[1] = a[1], a[0]
    muts["swapped_library_arguments_rejected"] = t
    t = copy.deepcopy(base)
    del t["ev"][2]
    muts["removed_convin_event_rejected"] = t
    t = copy.deepcopy(base)
    t["ev"][5]["status"] = 500
    muts["status_500_rejected"] = t
    t = copy.deepcopy(base)
    for k, v in t["ev"][2]["tab"].items():
        if k != "_":
            v["hp"][2] = (v["hp"][2] + 1) % 60
            break
    muts["hp_minute_digit_changed_rejected"] = t
    t = copy.deepcopy(base)
    t["ev"][5]["keys"] = t["ev"][5]["keys"][:-1]
    muts["missing_json_key_rejected"] = t
    names = sorted(muts)
    res = validate([muts[n] for n in names], None, None)
    rej = set(i for (i, l, c) in res)
    out = {"ran": True, "clauses": {names[i]: c for (i, l, c) in res}}
    for i, n in enumerate(names):
        out[n] = i in rej
    if not all(out[n] for n in names):
        raise tlc.MachineryError("binding self-test failed: %s" % out)
    return out


def replay(ctx, data):
    R = Runner()
    rq = data["case"]
    R.install()
    try:
        tr = R.run_index() if rq.get("ep") == "index" else R.run_request(rq)
    finally:
        R.restore()
    fails = validate([tr], ctx, "replay")
    report([tr], [rq], fails, ctx)
    print("replayed %s; verdict by Trace_Api: %s" % (tr["ev"][0].get("url", "/"), fails if fails else "accepted"))
