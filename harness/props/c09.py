"""C09 - library calls are pure: no hidden state, no mutation of constants or arguments.

spec/Purity.tla: threads x programs of abstract calls x shared constants; TLC proves the
non-interference theorem on the intended model, refutes it on the as-built write sets
(anti-vacuity) and generates schedules.  The driver runs the schedules on the real library with
the write barrier on (GEODEPY_VERIF=1) and real threads, and spec/Trace_Purity.tla validates
every history: no write to a shipped constant, arguments and the deep constants snapshot
unchanged, results bit-identical to the first evaluation of the same call.
"""
import datetime
import hashlib
import json
import os
import random
import sys
import threading
import types
import warnings

from harness import tlc, tracecheck

CLASSES = ["conv_grid", "conv_cart", "conv_misc", "geod_dir", "geod_inv", "geod_utm", "stat_rot", "stat_vcv",
           "stat_err", "surv", "tr7", "tr14", "tr14vcv", "tr_atrf", "tr_mga", "tr_alg"]


# ------------------------------------------------------------------------------------------
# signatures (projection alpha): bit-exact, structural, no interpretation
# ------------------------------------------------------------------------------------------
def sig(v, depth=0):
    import numpy as np
    if isinstance(v, bool) or v is None or isinstance(v, (int, str)):
        return repr(v)
    if isinstance(v, float):
        return float(v).hex()
    if isinstance(v, np.ndarray):
        return "nd%s%s:%s" % (v.dtype, v.shape, hashlib.sha1(np.ascontiguousarray(v).tobytes()).hexdigest()[:16])
    if isinstance(v, np.generic):
        return "np:" + repr(v.item()) if not isinstance(v.item(), float) else "npf:" + float(v).hex()
    if isinstance(v, (tuple, list)):
        return "%s[%s]" % (type(v).__name__, ",".join(sig(x, depth + 1) for x in v))
    if isinstance(v, dict):
        return "{%s}" % ",".join("%s:%s" % (k, sig(x, depth + 1)) for k, x in sorted(v.items(), key=lambda kv: str(kv[0])))
    if isinstance(v, (datetime.date, datetime.datetime)):
        return "date:" + v.isoformat()
    if hasattr(v, "__dict__") and depth < 4:
        base = ("|float:" + float(v).hex()) if isinstance(v, float) else ""
        return "%s(%s)%s" % (type(v).__name__, ",".join("%s=%s" % (k, sig(x, depth + 1)) for k, x in sorted(vars(v).items())), base)
    return type(v).__name__ + ":" + repr(v)


def h(s):
    return hashlib.sha1(s.encode()).hexdigest()[:20]


class Lib:
    """the real library + the table of concrete calls per abstract class"""

    def __init__(self):
        sys.modules.setdefault("pandas", types.ModuleType("pandas"))
        import numpy as np
        import geodepy.constants as gc
        import geodepy.convert as cv
        import geodepy.geodesy as gd
        import geodepy.statistics as st
        import geodepy.survey as sv
        import geodepy.transform as tf
        import geodepy.angles as an
        self.np, self.gc, self.cv, self.gd, self.st, self.sv, self.tf, self.an = np, gc, cv, gd, st, sv, tf, an
        if not hasattr(gc, "_verif_writes"):
            raise tlc.MachineryError("write barrier not active: geodepy.constants imported without GEODEPY_VERIF=1 "
                                     "or the hook commit is missing")
        self.modules = [gc, cv, gd, st, sv, tf, an]
        self.calls = self._table()

    # every entry: (key, function, argument factory)  - the factory builds FRESH arguments each time
    def _table(self):
        np, gc, cv, gd, st, sv, tf, an = self.np, self.gc, self.cv, self.gd, self.st, self.sv, self.tf, self.an
        D = datetime.date
        psd = lambda: np.array([[4.0e-4, 1.0e-5, -2.0e-5], [1.0e-5, 9.0e-4, 3.0e-5], [-2.0e-5, 3.0e-5, 1.6e-3]])
        col = lambda: np.array([[4.0e-4], [9.0e-4], [1.6e-3]])
        rank1 = lambda: np.outer([1e-2, 2e-2, -1e-2], [1e-2, 2e-2, -1e-2])
        X = (-4052052.7379, 4212835.9897, -2545104.5898)
        X2 = (3980581.21, -102.3, 4966824.52)
        t = {c: [] for c in CLASSES}
        t["conv_grid"] += [
            ("geo2grid#a", cv.geo2grid, lambda: (-37.57037203, 144.25295244)),
            ("geo2grid#b", cv.geo2grid, lambda: (62.1, -171.2, 0, gc.wgs84)),
            ("geo2grid#isg", cv.geo2grid, lambda: (-33.5, 151.2, 0, gc.ans, gc.isg)),
            ("geo2grid#dms", cv.geo2grid, lambda: (an.DMSAngle(-23, 40, 12.39650), an.DMSAngle(133, 53, 7.87779))),
            ("geo2grid#zone", cv.geo2grid, lambda: (-12.0, 131.9, 53, gc.intl24)),
            ("grid2geo#a", cv.grid2geo, lambda: (55, 258328.9417, 5838121.2036)),
            ("grid2geo#n", cv.grid2geo, lambda: (31, 412345.678, 6912345.678, "north", gc.wgs84)),
            ("grid2geo#isg", cv.grid2geo, lambda: (561, 312345.6, 1234567.8, "south", gc.ans, gc.isg)),
            # ellipsoids / projections built by the caller for one call and dropped afterwards (their ids are recycled)
            ("geo2grid#tmpE1", cv.geo2grid, lambda: (-37.5, 144.2, 0, gc.Ellipsoid(6377563.396, 299.3249646))),
            ("geo2grid#tmpE2", cv.geo2grid, lambda: (-37.5, 144.2, 0, gc.Ellipsoid(6378206.4, 294.9786982))),
            ("grid2geo#tmpE3", cv.grid2geo, lambda: (55, 258328.9417, 5838121.2036, "south", gc.Ellipsoid(6377397.155, 299.1528128))),
            ("geo2grid#tmpP", cv.geo2grid, lambda: (-33.5, 151.2, 0, gc.grs80, gc.Projection(300000, 5000000, 0.99994, 2, 141))),
        ]
        t["conv_cart"] += [
            ("llh2xyz#a", cv.llh2xyz, lambda: (-37.5, 144.2, 351.2)),
            ("llh2xyz#ans", cv.llh2xyz, lambda: (12.25, -77.5, 1200.0, gc.ans)),
            ("llh2xyz#hp", cv.llh2xyz, lambda: (an.HPAngle(-23.40123965), an.HPAngle(133.53078778), 603.2)),
            ("llh2xyz#eq", cv.llh2xyz, lambda: (0.0, 10.0, 0.0, gc.intl24)),
            ("xyz2llh#a", cv.xyz2llh, lambda: X),
            ("xyz2llh#intl", cv.xyz2llh, lambda: X2 + (gc.intl24,)),
        ]
        t["conv_misc"] += [
            ("polar2rect", cv.polar2rect, lambda: (1500.5, 212.25)),
            ("rect2polar", cv.rect2polar, lambda: (-300.0, 400.0)),
            ("rect_radius#ans", cv.rect_radius, lambda: (gc.ans,)),
            ("rect_radius#tmpE1", cv.rect_radius, lambda: (gc.Ellipsoid(6377563.396, 299.3249646),)),
            ("rect_radius#tmpE2", cv.rect_radius, lambda: (gc.Ellipsoid(6378206.4, 294.9786982),)),
            ("alpha_coeff#tmpE3", cv.alpha_coeff, lambda: (gc.Ellipsoid(6377397.155, 299.1528128),)),
            ("alpha_coeff#grs", cv.alpha_coeff, lambda: (gc.grs80,)),
            ("beta_coeff#intl", cv.beta_coeff, lambda: (gc.intl24,)),
            ("date_to_yyyydoy", cv.date_to_yyyydoy, lambda: (D(2020, 2, 29),)),
            ("yyyydoy_to_date", cv.yyyydoy_to_date, lambda: ("2017.365",)),
            ("dec2hp", an.dec2hp, lambda: (-0.999999,)),
            ("hp2dec", an.hp2dec, lambda: (123.59599,)),
            ("dms_add", lambda a, b: a + b, lambda: (an.DMSAngle(12, 30, 15.5), an.DDMAngle(-1, 45.25))),
            ("hpa_mul", lambda a, k: a * k, lambda: (an.HPAngle(10.3030), 3)),
        ]
        t["geod_dir"] += [
            ("vincdir#a", gd.vincdir, lambda: (-37.57037203, 144.25295244, 306.520537, 54972.271)),
            ("vincdir#long", gd.vincdir, lambda: (10.0, 20.0, 75.0, 1.2e7, gc.wgs84)),
            ("vincdir#tmpE1", gd.vincdir, lambda: (10.0, 20.0, 75.0, 1.2e6, gc.Ellipsoid(6377563.396, 299.3249646))),
            ("vincdir#tmpE2", gd.vincdir, lambda: (10.0, 20.0, 75.0, 1.2e6, gc.Ellipsoid(6378206.4, 294.9786982))),
            ("vincdir#dms", gd.vincdir, lambda: (an.DMSAngle(-37, 57, 3.7203), an.DMSAngle(144, 25, 29.5244),
                                                 an.DMSAngle(306, 52, 5.37), 54972.271)),
        ]
        t["geod_inv"] += [
            ("vincinv#a", gd.vincinv, lambda: (-37.57037203, 144.25295244, -37.39101561, 143.55353839)),
            ("vincinv#ans", gd.vincinv, lambda: (5.0, 100.0, -40.0, -60.0, gc.ans)),
            ("vincinv#same", gd.vincinv, lambda: (12.0, 13.0, 12.0, 13.0)),
            ("vincinv#tmpE1", gd.vincinv, lambda: (5.0, 100.0, -40.0, 60.0, gc.Ellipsoid(6377563.396, 299.3249646))),
            ("vincinv#tmpE2", gd.vincinv, lambda: (5.0, 100.0, -40.0, 60.0, gc.Ellipsoid(6378206.4, 294.9786982))),
        ]
        t["geod_utm"] += [
            ("vincinv_utm#a", gd.vincinv_utm, lambda: (55, 258328.9417, 5838121.2036, 54, 758173.7973, 5828674.3402)),
            ("vincdir_utm#a", gd.vincdir_utm, lambda: (55, 258328.9417, 5838121.2036, 305.17017259, 54972.271)),
            ("line_sf#a", gd.line_sf, lambda: (55, 258328.9, 5838121.2, 55, 298173.7, 5828674.3)),
            ("enu2xyz", gd.enu2xyz, lambda: (-35.0, 149.0, 10.0, -20.0, 5.0)),
            ("xyz2enu", gd.xyz2enu, lambda: (-35.0, 149.0, 100.0, -200.0, 50.0)),
            ("rho", gd.rho, lambda: (-33.3, gc.ans)),
            ("nu", gd.nu, lambda: (61.0,)),
        ]
        t["stat_rot"] += [
            ("rotation_matrix#a", st.rotation_matrix, lambda: (-35.3, 149.1)),
            ("rotation_matrix#b", st.rotation_matrix, lambda: (72.0, -140.0)),
        ]
        t["stat_vcv"] += [
            ("vcv_cart2local#33", st.vcv_cart2local, lambda: (psd(), -35.3, 149.1)),
            ("vcv_cart2local#31", st.vcv_cart2local, lambda: (col(), 12.0, -60.0)),
            ("vcv_local2cart#33", st.vcv_local2cart, lambda: (psd(), -35.3, 149.1)),
            ("vcv_local2cart#31", st.vcv_local2cart, lambda: (col(), -80.0, 10.0)),
        ]
        t["stat_err"] += [
            ("error_ellipse", st.error_ellipse, lambda: (psd(),)),
            ("relative_error", st.relative_error, lambda: (-35.3, 149.1, psd(), 2.0 * psd(), 0.25 * psd())),
            ("circ_hz_pu", st.circ_hz_pu, lambda: (0.012, 0.007)),
            ("k_val95#5", st.k_val95, lambda: (5,)),
            ("k_val95#500", st.k_val95, lambda: (500,)),
        ]
        t["surv"] += [
            ("first_vel_params", sv.first_vel_params, lambda: (0.85, 14985000.0, 1.000281783, 10.0)),
            ("first_vel_corrn", sv.first_vel_corrn, lambda: (1117.8517, (281.781, 79.393), 6.8, 960.8, 58.6)),
            ("first_vel_corrn#co2", sv.first_vel_corrn, lambda: (1117.8517, (281.781, 79.393), 6.8, 960.8, 58.6, None, 420, 0.85)),
            ("part_h2o", sv.part_h2o_vap_press, lambda: (25.0, 1013.25, 55.0)),
            ("mets_pd", sv.mets_partial_differentials, lambda: (1.00028, 25.0, 1000.0, 40.0)),
            ("precise_inst_ht", sv.precise_inst_ht, lambda: ([91.2345, 90.1005, 92.3681, 93.4980], 0.1, 1.2)),
            ("precise_inst_ht#ndarray", sv.precise_inst_ht, lambda: (np.array([91.2345, 90.1005, 92.3681, 93.4980]), 0.1, 1.2)),
            ("precise_inst_ht#tuple", sv.precise_inst_ht, lambda: ((91.2345, 90.1005, 92.3681, 93.4980), 0.1, 1.2)),
            ("joins", sv.joins, lambda: (500000.0, 6000000.0, 500300.0, 6000400.0)),
            ("radiations", sv.radiations, lambda: (500000.0, 6000000.0, 36.86989764584402, 500.0, 1.5, 0.9996)),
            ("va_conv", sv.va_conv, lambda: (84.13369, 89.844, 1.563, 1.3)),
        ]
        sets7 = ["gda94_to_gda2020", "gda2020_to_gda94", "agd66_to_gda94", "gda94_to_agd84", "itrf2014_to_itrf2008",
                 "itrf2008_to_gda94", "atrf2014_to_gda2020"]
        for n in sets7:
            t["tr7"].append(("conform7#%s" % n, tf.conform7, (lambda n=n: X + (getattr(gc, n),))))
        t["tr7"].append(("conform7#vcv", tf.conform7, lambda: X + (gc.gda94_to_gda2020, psd())))
        sets14 = ["itrf2008_to_gda94", "gda94_to_itrf2008", "itrf2014_to_gda2020", "itrf2020_to_itrf2014",
                  "itrf2005_to_gda94", "itrf88_to_itrf2020", "atrf2014_to_gda2020"]
        eps = [D(2020, 1, 1), D(2017, 7, 1), D(1994, 1, 1), D(2032, 2, 29)]
        for i, n in enumerate(sets14):
            for j, e in enumerate(eps):
                if (i + j) % 2 == 0:
                    t["tr14"].append(("conform14#%s#%s" % (n, e), tf.conform14, (lambda n=n, e=e: X + (e, getattr(gc, n)))))
        for n in ["itrf2008_to_gda94", "gda94_to_itrf2008", "itrf2014_to_gda2020", "itrf2005_to_gda94", "itrf2000_to_gda94"]:
            for e in eps[:3]:
                t["tr14vcv"].append(("conform14vcv#%s#%s" % (n, e), tf.conform14,
                                     (lambda n=n, e=e: X + (e, getattr(gc, n), psd()))))
        t["tr14vcv"].append(("conform14vcv#rank1", tf.conform14, lambda: X + (D(2010, 6, 1), gc.itrf2008_to_gda94, rank1())))
        for e in eps:
            t["tr_atrf"].append(("atrf2gda#%s" % e, tf.transform_atrf2014_to_gda2020, (lambda e=e: X + (e,))))
            t["tr_atrf"].append(("gda2atrf#%s" % e, tf.transform_gda2020_to_atrf2014, (lambda e=e: X + (e,))))
        t["tr_atrf"].append(("atrf2gda#vcv", tf.transform_atrf2014_to_gda2020, lambda: X + (D(2018, 3, 1), psd())))
        t["tr_mga"] += [
            ("mga94to2020", tf.transform_mga94_to_mga2020, lambda: (55, 258328.9417, 5838121.2036, 345.2)),
            ("mga94to2020#noht", tf.transform_mga94_to_mga2020, lambda: (50, 400000.0, 6500000.0)),
            ("mga2020to94", tf.transform_mga2020_to_mga94, lambda: (55, 258328.9417, 5838121.2036, 345.2)),
            ("mga94to2020#vcv", tf.transform_mga94_to_mga2020, lambda: (55, 258328.9417, 5838121.2036, 345.2, psd())),
            ("mga2020to94#col", tf.transform_mga2020_to_mga94, lambda: (53, 600000.0, 8000000.0, 10.0, col())),
        ]
        # the whole catalogue (sweep histories): every shipped set through conform7, every dated set through conform14 at one epoch -
        # a memo keyed on less than the whole parameter set collides between shipped sets that share labels / epochs
        self.sweep = []
        for n in sorted(k for k, v in vars(gc).items() if isinstance(v, gc.Transformation)):
            if ("conform7#%s" % n) not in [k for (k, _, _) in t["tr7"]]:
                t["tr7"].append(("conform7#%s" % n, tf.conform7, (lambda n=n: X + (getattr(gc, n),))))
            self.sweep.append(("tr7", "conform7#%s" % n))
            if isinstance(getattr(gc, n).ref_epoch, D):
                k14 = "conform14#%s#2024-02-29" % n
                t["tr14"].append((k14, tf.conform14, (lambda n=n: X + (D(2024, 2, 29), getattr(gc, n)))))
                self.sweep.append(("tr14", k14))
        # the reverse direction is a TEMPORARY (-T) built for the call: several of them at the same epoch, one after the other
        for n in ["itrf2014_to_gda2020", "itrf2008_to_gda94", "itrf2005_to_gda94", "itrf2020_to_itrf2014", "atrf2014_to_gda2020", "itrf97_to_gda94"]:
            t["tr14"].append(("conform14#tmpneg#%s" % n, tf.conform14, (lambda n=n: X + (D(2024, 2, 29), -getattr(gc, n)))))
            t["tr7"].append(("conform7#tmpneg#%s" % n, tf.conform7, (lambda n=n: X + (-getattr(gc, n),))))
        # ... and every call made with a caller-built temporary ellipsoid / projection, one after the other (recycled ids)
        for cls, lst in t.items():
            for (k, _, _) in lst:
                if "#tmp" in k:
                    self.sweep.append((cls, k))
        for n in ["itrf2008_to_gda94", "gda94_to_itrf2005", "itrf2014_to_gda2020", "itrf2020_to_itrf93", "gda94_to_gda2020"]:
            t["tr_alg"].append(("neg#%s" % n, lambda s: -s, (lambda n=n: (getattr(gc, n),))))
        for n in ["itrf2008_to_gda94", "gda94_to_itrf2005", "itrf2014_to_gda2020", "itrf2020_to_itrf93", "itrf97_to_gda94"]:
            for e in eps[:3]:
                t["tr_alg"].append(("add#%s#%s" % (n, e), lambda s, e: s + e, (lambda n=n, e=e: (getattr(gc, n), e))))
        return t

    # ---- snapshots of every module-level constant of the library ----
    def const_objects(self):
        gc = self.gc
        out = []
        for m in self.modules:
            for name, v in vars(m).items():
                if name.startswith("_"):
                    continue
                if isinstance(v, (gc.Ellipsoid, gc.Projection, gc.Transformation, gc.TransformationSD)):
                    out.append((m.__name__ + "." + name, v))
                elif isinstance(v, (list, dict, tuple, set, int, float, str)) and not isinstance(v, bool):
                    out.append((m.__name__ + "." + name, v))
        return out

    def quick_snapshot(self, objs):
        acc = 0
        for name, v in objs:
            if hasattr(v, "__dict__"):
                acc = hash((acc, name, tuple(map(repr, vars(v).values()))))
            elif isinstance(v, (list, tuple)):
                acc = hash((acc, name, len(v), repr(v[:3]), repr(v[-1:])))
            else:
                acc = hash((acc, name, repr(v)))
        return acc

    def deep_snapshot(self, objs):
        return h("|".join("%s=%s" % (n, sig(v)) for n, v in objs))


ISO = {}


def run_history(lib, progs, schedule, rnd):
    """progs: list (per thread) of lists of (cls, key, fn, factory); schedule: list of ("S"|"F", thread index)
    or None (free-running threads).  Returns the trace."""
    gc = lib.gc
    nthreads = len(progs)
    events = []
    elock = threading.Lock()
    objs = lib.const_objects()
    snap0 = lib.quick_snapshot(objs)
    deep0 = lib.deep_snapshot(objs)
    del gc._verif_writes[:]
    start_sem = [threading.Semaphore(0) for _ in progs]
    done_ev = [[threading.Event() for _ in p] for p in progs]
    calls = [0]

    def worker(ti):
        tid = threading.get_ident()
        for ci, (cls, key, fn, factory) in enumerate(progs[ti]):
            if schedule is not None:
                start_sem[ti].acquire()
            args = factory()
            asig = sig(args)
            with elock:
                events.append({"k": "S", "t": ti + 1, "cls": cls, "key": key})
            exc = ""
            try:
                with warnings.catch_warnings():
                    warnings.simplefilter("ignore")
                    res = "ok:" + h(sig(fn(*args)))
            except Exception as ex:          # an exception is a result too; purity is about effects
                res = "exc:" + type(ex).__name__
            args_same = sig(args) == asig
            with elock:
                calls[0] += 1
                mine = [w for w in gc._verif_writes if w[4] == tid]
                if mine:
                    gc._verif_writes[:] = [w for w in gc._verif_writes if w[4] != tid]
                for w in mine:
                    events.append({"k": "W", "t": ti + 1, "obj": w[0], "attr": w[1], "old": w[2], "new": w[3]})
                consts_same = True
                if nthreads == 1:
                    consts_same = lib.quick_snapshot(objs) == snap0
                events.append({"k": "E", "t": ti + 1, "cls": cls, "key": key, "res": res, "exc": exc,
                               "args_same": args_same, "consts_same": consts_same, "iso": ISO.get(key, "")})
            done_ev[ti][ci].set()

    threads = [threading.Thread(target=worker, args=(i,)) for i in range(nthreads)]
    old = sys.getswitchinterval()
    if nthreads > 1:
        sys.setswitchinterval(1e-6)
    try:
        for th in threads:
            th.start()
        if schedule is not None:
            pos = [0] * nthreads
            fin = [0] * nthreads
            for (k, ti) in schedule:
                if k == "S":
                    start_sem[ti].release()
                    pos[ti] += 1
                else:
                    done_ev[ti][fin[ti]].wait(60)
                    fin[ti] += 1
        for th in threads:
            th.join(120)
    finally:
        sys.setswitchinterval(old)
    # end of history: deep snapshot of every constant (attributed to the last End event)
    if lib.deep_snapshot(objs) != deep0 and events:
        for e in reversed(events):
            if e["k"] == "E":
                e["consts_same"] = False
                break
    return {"progs": [[c[0] for c in p] for p in progs], "ev": events, "keys": [[c[1] for c in p] for p in progs],
            "scheduled": schedule is not None}, calls[0]


def run_preempted(lib, A, B, k):
    """The schedule S1 S2 E2 E1 of Purity.tla realised DETERMINISTICALLY: call A (thread 1) is suspended at the k-th line it
    executes inside the library, call B runs from start to end on a second thread while A's thread does nothing but wait for
    it, A resumes.  For module-level state this is exactly what a thread switch at that line does, without leaving the choice
    of the line to the interpreter's scheduler.  Should B not finish within two seconds (it waits for a lock that A holds at
    that line: the switch is not possible there), A simply goes on and B ends when it can - still a history of the model.
    Returns (trace, number of library lines A executed)."""
    gc = lib.gc
    prefix = os.path.dirname(os.path.abspath(gc.__file__))
    events = []
    elock = threading.Lock()
    objs = lib.const_objects()
    snap0 = lib.quick_snapshot(objs)
    deep0 = lib.deep_snapshot(objs)
    del gc._verif_writes[:]
    state = {"n": 0, "fired": k <= 0, "inflight": 0, "tb": None, "nested": True}

    def do_call(ti, call, traced):
        cls, key, fn, factory = call
        tid = threading.get_ident()
        args = factory()
        asig = sig(args)
        with elock:
            events.append({"k": "S", "t": ti, "cls": cls, "key": key})
            state["inflight"] += 1
        try:
            with warnings.catch_warnings():
                warnings.simplefilter("ignore")
                if traced:
                    sys.settrace(glob)
                try:
                    res = "ok:" + h(sig(fn(*args)))
                finally:
                    if traced:
                        sys.settrace(None)
        except Exception as ex:
            res = "exc:" + type(ex).__name__
        args_same = sig(args) == asig
        with elock:
            mine = [w for w in gc._verif_writes if w[4] == tid]
            if mine:
                gc._verif_writes[:] = [w for w in gc._verif_writes if w[4] != tid]
            for w in mine:
                events.append({"k": "W", "t": ti, "obj": w[0], "attr": w[1], "old": w[2], "new": w[3]})
            state["inflight"] -= 1
            alone = state["inflight"] == 0 or (ti == 2 and state["nested"])
            events.append({"k": "E", "t": ti, "cls": cls, "key": key, "res": res, "exc": "", "args_same": args_same,
                           "consts_same": (lib.quick_snapshot(objs) == snap0) if alone else True, "iso": ISO.get(key, "")})

    def local(frame, event, arg):
        if event == "line":
            state["n"] += 1
            if not state["fired"] and state["n"] == k:
                state["fired"] = True
                sys.settrace(None)
                tb = threading.Thread(target=do_call, args=(2, B, False))
                state["tb"] = tb
                tb.start()
                tb.join(2.0)
                if tb.is_alive():
                    state["nested"] = False        # B waits for something A holds: A goes on
                sys.settrace(glob)
        return local

    def glob(frame, event, arg):
        return local if frame.f_code.co_filename.startswith(prefix) else None

    do_call(1, A, True)
    if state["tb"] is not None:
        state["tb"].join(120)
    if not state["fired"]:
        do_call(2, B, False)
    if lib.deep_snapshot(objs) != deep0:
        for e in reversed(events):
            if e["k"] == "E":
                e["consts_same"] = False
                break
    return {"progs": [[A[0]], [B[0]]], "ev": events, "keys": [[A[1]], [B[1]]], "scheduled": True, "preempt_at": k,
            "nested": state["nested"]}, state["n"]


def tlaps_proof():
    """tlapm on spec/proofs/PurityProof.tla (inductive invariant => Determinism and NoSharedWrite, Spec => [] of them)"""
    import re
    import shutil
    import subprocess
    import tempfile
    here = os.path.dirname(os.path.dirname(os.path.dirname(os.path.abspath(__file__))))
    exe = shutil.which("tlapm")
    if exe is None:
        return {"ran": False, "why": "tlapm not on PATH"}
    d = tempfile.mkdtemp(prefix="gvf_tlaps_")
    try:
        shutil.copy(os.path.join(here, "spec", "proofs", "PurityProof.tla"), d)
        # the back-end provers work against wall-clock timeouts: on a loaded machine an obligation can time out, so the proof is
        # attempted again with the timeouts stretched (obligations already proved are kept in the directory's fingerprint cache)
        last = ""
        for attempt, stretch in enumerate(("1", "5", "20"), 1):
            try:
                p = subprocess.run([exe, "--stretch", stretch, "-I", os.path.join(here, "spec"), "PurityProof.tla"], cwd=d,
                                   stdout=subprocess.PIPE, stderr=subprocess.STDOUT, text=True, timeout=1500)
                last = p.stdout[-600:]
            except subprocess.TimeoutExpired:
                last = "tlapm did not finish within 1500 s"
                continue
            m = re.search(r"All (\d+) obligations proved", p.stdout)
            if m:
                return {"ran": True, "obligations_proved": int(m.group(1)), "attempts": attempt,
                        "theorem": "Spec => [](Determinism /\\ NoSharedWrite) for arbitrary Threads, CallIds, Cells, MaxLen (AsBuilt = FALSE)"}
        # the proof is about the specification, not about the code under test: if the provers cannot be made to finish here, the
        # check goes on with TLC's bounded proof of the same theorem and says so (it is not a verdict on the library either way)
        return {"ran": True, "completed": False, "why": last}
    finally:
        shutil.rmtree(d, ignore_errors=True)


def isolated_references(lib):
    """result of every concrete call when it is the only library call its process ever makes (c09_iso --all: one pristine
    process that has only imported the library, one forked child per call)"""
    import subprocess
    keys = [k for lst in lib.calls.values() for (k, fn, fac) in lst]
    p = subprocess.run([sys.executable, "-m", "harness.props.c09_iso", "--all"], stdout=subprocess.PIPE, stderr=subprocess.PIPE,
                       text=True, env=dict(os.environ), timeout=900)
    out = dict(l.split("\t", 1) for l in p.stdout.strip().split("\n") if "\t" in l)
    if p.returncode != 0 or set(out) != set(keys):
        raise tlc.MachineryError("isolated references failed: rc=%s got %d of %d keys %s" % (p.returncode, len(out), len(keys), p.stderr[-300:]))
    return out


def pick(lib, cls, rnd, counter):
    lst = lib.calls[cls]
    i = counter.get(cls, rnd.randrange(len(lst)))
    counter[cls] = i + 1
    key, fn, factory = lst[i % len(lst)]
    return (cls, key, fn, factory)


def gen_cfg(threads, calls, maxlen):
    return ("SPECIFICATION Spec\nCONSTANT Threads <- %s\nCONSTANT CallIds <- %s\nCONSTANT Cells <- MCCells\n"
            "CONSTANT Adders <- MCAdders\nCONSTANT MaxLen = %d\nCONSTANT AsBuilt = FALSE\nCONSTRAINT Emit\n"
            "INVARIANT NoSharedWrite\nINVARIANT Determinism\nCHECK_DEADLOCK FALSE\n" % (threads, calls, maxlen))


def schedules(threads, calls, maxlen, ctx, label, simulate=None, depth=None):
    cfg = tracecheck.write_tmp(gen_cfg(threads, calls, maxlen), ".cfg")
    try:
        r = tlc.run_tlc("MC_Purity", cfg, workers=1, tags=("BEH",), timeout=1800, simulate=simulate, depth=depth,
                        seed=ctx.seed if simulate else None)
    finally:
        os.unlink(cfg)
    if not simulate:
        ctx.add_tlc(r, label)
    if r.violated:
        raise tlc.MachineryError("intended Purity model violated %s" % r.violated)
    return [[tuple(x) for x in p[1]] for p in r.prints]


def to_history(lib, sched, rnd, counter):
    """TLC schedule <<kind, thread, class>> -> per-thread programs of concrete calls + (kind, thread index) order.
    Identical abstract calls inside one history are mapped to the SAME concrete call (repeated identical calls
    are what Determinism is about); different histories rotate through the class's concrete members."""
    nthreads = max([t for (_, t, _) in sched] + [1])
    progs = [[] for _ in range(nthreads)]
    chosen = {}
    order = []
    for (k, t, cls) in sched:
        if k == "S":
            if cls not in chosen:
                chosen[cls] = pick(lib, cls, rnd, counter)
            progs[t - 1].append(chosen[cls])
        order.append((k, t - 1))
    return progs, order


def validate(traces, ctx, label):
    fails, _ = tracecheck.validate("Trace_Purity", "Trace_Purity.cfg", traces, ctx, label, min_chunk=150, timeout=3000)
    return fails


def describe(tr, l, clause):
    if not l:
        return {"clause": clause}
    ev = tr["ev"][l - 1]
    d = {"clause": clause, "call": ev.get("key", ev.get("obj", "")).split("#")[0]}
    return d


def run(ctx):
    rnd = random.Random(ctx.seed)
    quick = ctx.tier == "quick"
    lib = Lib()
    # 1. the theorem on the model, and its refutation on the as-built write sets
    r = tlc.run_tlc("MC_Purity", "MC_Purity.cfg", workers=8, coverage=True, timeout=1800)
    ctx.add_tlc(r, "MC_Purity intended: 2 threads x programs <= 2 over 3 calls (NoSharedWrite, Determinism, Returns)")
    if r.violated:
        raise tlc.MachineryError("intended Purity model violated %s" % r.violated)
    ra = tlc.run_tlc("MC_Purity", "MC_Purity_asbuilt.cfg", workers=8, timeout=1800)
    ctx.add_tlc(ra, "MC_Purity as-built write sets (must refute Determinism)")
    if "Determinism" not in ra.violated:
        raise tlc.MachineryError("as-built Purity model does not refute Determinism: the model cannot express the defect")
    ctx.extra["asbuilt_counterexample_steps"] = len(ra.error_states)
    # 1a. the same theorem WITHOUT the bounds: TLAPS proof for any number of threads / call classes / cells (spec/proofs/PurityProof.tla)
    ctx.extra["tlaps_unbounded_proof"] = tlaps_proof()
    if ctx.extra["tlaps_unbounded_proof"].get("completed") is False:
        ctx.assumptions.append("the TLAPS proof of the unbounded theorem could not be completed in this run (prover timeouts); the bounded "
                               "TLC proof of the same theorem stands")
    # 1b. history-independence references: every concrete call alone in a fresh interpreter
    ISO.clear()
    ISO.update(isolated_references(lib))
    ctx.extra["isolated_process_references"] = len(ISO)
    # 2. schedules from TLC
    scheds = schedules("MCThreads1", "Calls14", 2 if quick else 3, ctx, "single thread: all programs <= %d over 16 call classes" % (2 if quick else 3))
    n_single = len(scheds)
    scheds2 = schedules("MCThreads2", "Calls5", 2, ctx, "2 threads: all interleavings of programs <= 2 over 5 call classes")
    if quick:
        rnd.shuffle(scheds2)
        scheds2 = scheds2[:700]
    sims = schedules("MCThreads1", "Calls14", 50, ctx, None, simulate={"num": 60 if quick else 2000}, depth=110)
    # 3. run them
    counter = {}
    traces = []
    ncalls = 0
    for s in scheds + scheds2 + sims:
        progs, order = to_history(lib, s, rnd, counter)
        tr, n = run_history(lib, progs, order, rnd)
        ncalls += n
        traces.append(tr)
    # catalogue sweep: every shipped set once, in name order, as single-thread histories of <= 40 calls (Trace_Purity!MaxLen = 50)
    byk = {k: (cls, k, fn, fac) for cls, lst in lib.calls.items() for (k, fn, fac) in lst}
    for c0 in range(0, len(lib.sweep), 40):
        prog = [byk[k] for (cls, k) in lib.sweep[c0:c0 + 40]]
        tr, n = run_history(lib, [prog], [(x, 0) for _ in prog for x in ("S", "F")], rnd)
        ncalls += n
        traces.append(tr)
    ctx.extra["catalogue_sweep_calls"] = len(lib.sweep)
    # free-running threads, 2..8, random programs over the full alphabet
    nfree = 40 if quick else 1500
    for k in range(nfree):
        nt = 2 + k % 7
        progs = []
        base = [pick(lib, rnd.choice(CLASSES), rnd, counter) for _ in range(rnd.randint(3, 10))]
        for ti in range(nt):
            p = list(base) if ti % 2 == 0 else [pick(lib, rnd.choice(CLASSES), rnd, counter) for _ in range(rnd.randint(3, 10))]
            rnd.shuffle(p)
            progs.append(p)
        tr, n = run_history(lib, progs, None, rnd)
        ncalls += n
        traces.append(tr)
    # the nested schedule S1 S2 E2 E1 with the switch placed, in turn, at lines spread over the whole of call A (two members of the
    # same class: they use the same code and therefore the same module-level state, if there is any; then the next class)
    npre = 0
    for ci, cls in enumerate(CLASSES):
        for other in (cls, CLASSES[(ci + 1) % len(CLASSES)]):
            A = pick(lib, cls, rnd, counter)
            # B: a member far from A in the class's list (neighbours are often the same parameter set at another epoch)
            lst = lib.calls[other]
            ib = (counter.get(other, 0) + len(lst) // 2 + ci) % len(lst)
            B = (other,) + tuple(lst[ib])
            if B[1] == A[1]:
                B = (other,) + tuple(lst[(ib + 1) % len(lst)])
            tr0, nlines = run_preempted(lib, A, B, 0)
            ncalls += 2
            traces.append(tr0)
            npre += 1
            want = 30 if quick else 400
            ks = sorted(set(max(1, (nlines * j) // want) for j in range(1, want + 1))) if nlines else []
            for k in ks:
                tr, _n = run_preempted(lib, A, B, k)
                ncalls += 2
                traces.append(tr)
                npre += 1
    ctx.extra["preempted_histories"] = npre
    ctx.evaluations = ncalls
    for tr in traces:
        ctx.nontrivial(json.dumps([tr["keys"], [(e["k"], e["t"]) for e in tr["ev"]] if len(tr["progs"]) > 1 else 0]))
        for e in tr["ev"]:
            if e["k"] == "S":
                ctx.actions[e["cls"]] = ctx.actions.get(e["cls"], 0) + 1
    # 4. TLC decides
    fails = validate(traces, ctx, "Trace_Purity")
    for (i, l, clause) in fails:
        tr = traces[i]
        ctx.violation(describe(tr, l, clause),
                      "history threads=%d keys=%s event=%s" % (len(tr["progs"]), json.dumps(tr["keys"])[:300],
                                                              json.dumps(tr["ev"][l - 1] if l else {})[:400]),
                      case={"keys": tr["keys"], "progs": tr["progs"], "scheduled": tr["scheduled"], "preempt_at": tr.get("preempt_at"),
                            "order": [(e["k"], e["t"]) for e in tr["ev"] if e["k"] in "SE"]})
    bad = set(i for (i, l, c) in fails)
    ctx.selftest(selftest, [t for i, t in enumerate(traces) if i not in bad])
    ctx.extra["histories"] = {"single_thread_exhaustive": n_single, "two_thread_schedules": len(scheds2),
                              "simulated_len_le_50": len(sims), "free_running_2_to_8_threads": nfree,
                              "nested_S1_S2_E2_E1_switch_at_a_chosen_line": npre}
    ctx.extra["concrete_calls"] = sum(len(v) for v in lib.calls.values())
    ctx.rule = ("histories = TLC-generated schedules: every single-thread program of length <= %d over 16 abstract call "
                "classes, every interleaving of 2 threads x programs <= 2 over 5 classes%s, simulated programs of length <= 50, "
                "free-running 2..8 real threads, and the nested schedule S1 S2 E2 E1 with the switch placed deterministically at lines "
                "spread over call A (same class twice, then the next class); each abstract class is bound to one of %d concrete calls (rotating); "
                "distinct = distinct (concrete call sequence per thread, event order); the repository tests never repeat a "
                "call nor inspect constants" % (2 if quick else 3, " (700 sampled)" if quick else "", ctx.extra["concrete_calls"]))
    for tr in traces[:1] + traces[n_single + 3:n_single + 4] + traces[-1:]:
        ctx.sample({"threads": len(tr["progs"]), "keys": tr["keys"], "events": [(e["k"], e["t"], e.get("res", e.get("key", ""))) for e in tr["ev"]][:12]})
    ctx.assumptions += ["writes that bypass __setattr__ (direct __dict__ mutation) are seen only as net changes by the snapshot",
                        "an exception raised by a call is treated as its result (purity is about effects), it must repeat",
                        "thread interleaving inside a call: free-running histories leave it to the interpreter (switch interval 1 "
                        "microsecond); the nested histories place the switch at a chosen library line (30 per pair in quick, up to 400 = every line in thorough); "
                        "call start/finish order of scheduled histories is forced to TLC's schedule"]


def selftest(traces):
    import copy
    base = next((t for t in traces if len(t["progs"]) == 1 and len(t["ev"]) >= 4), None)
    if base is None:
        return {"ran": False}
    t1 = copy.deepcopy(base)
    t1["ev"].insert(1, {"k": "W", "t": 1, "obj": "grs80", "attr": "semimaj", "old": "1", "new": "2"})
    t2 = copy.deepcopy(base)
    t2["ev"][-1]["args_same"] = False
    t3 = copy.deepcopy(base)
    del t3["ev"][0]
    t4 = copy.deepcopy(base)
    # same key twice with different result
    e = copy.deepcopy(t4["ev"][:2])
    e[1]["res"] = "ok:corrupted"
    e[1]["iso"] = ""
    t4["ev"] = t4["ev"][:2] + e + t4["ev"][2:]
    t4["progs"][0] = [t4["progs"][0][0]] + t4["progs"][0]
    t5 = copy.deepcopy(base)
    t5["ev"][1]["iso"] = "ok:other-history"
    fails = validate([base, t1, t2, t3, t4, t5], None, None)
    rej = {i: c for (i, l, c) in fails}
    out = {"ran": True, "baseline_accepted": 0 not in rej, "injected_write_rejected": rej.get(1, ""),
           "argument_mutation_rejected": rej.get(2, ""), "removed_start_rejected": rej.get(3, ""),
           "differing_repeat_rejected": rej.get(4, ""), "history_dependence_rejected": rej.get(5, "")}
    if 0 in rej or not all(k in rej for k in (1, 2, 3, 4, 5)):
        raise tlc.MachineryError("binding self-test failed: %s" % out)
    return out


def replay(ctx, data):
    lib = Lib()
    c = data["case"]
    bykey = {k: (cls, k, fn, fac) for cls, lst in lib.calls.items() for (k, fn, fac) in lst}
    progs = [[bykey[k] for k in p] for p in c["keys"]]
    order = None
    if c.get("scheduled"):
        order = [("S" if k == "S" else "F", t - 1) for (k, t) in c["order"]]
    ISO.clear()
    ISO.update(isolated_references(lib))
    if c.get("preempt_at") is not None:
        tr, n = run_preempted(lib, progs[0][0], progs[1][0], c["preempt_at"])
    else:
        tr, n = run_history(lib, progs, order, random.Random(0))
    fails = validate([tr], ctx, "replay")
    for (i, l, clause) in fails:
        ctx.violation(describe(tr, l, clause), json.dumps(tr["ev"][l - 1] if l else {})[:600])
    print("replayed history with %d calls on %d thread(s): %s" % (n, len(progs), fails if fails else "accepted"))
