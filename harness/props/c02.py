"""C02 - grid-to-geographic conversion inverts the forward conversion everywhere (driver shared with C01)."""
from harness.props import c01


def run(ctx):
    c01.run_family(ctx, "C02")
    ctx.rule = ("geographic route: k samples inside every stratum of Grid!Strata (1965 strata, see C01) forward then inverse; grid "
                "route: lattice zones {1,2,30,31,59,60} x both hemispheres x 15 easting offsets to +-3.3e6 m x 13 northings 0..1e7 "
                "(+ the ten ISG zones), inverse then forward with the explicit zone, mirrored-hemisphere inverse; points whose latitude "
                "leaves [-80, 84] must be rejected by the forward conversion; stand-alone mga2gda on random southern UTM grid "
                "coordinates; distinct = distinct inputs")
    ctx.assumptions += ["the literal 2e-9 deg longitude closure is reported separately from the same clause with the envelope of the "
                        "documented 0.1 mm output rounding of E/N (known finding: literal clause fails above ~77 deg latitude purely "
                        "from that rounding; beyond the envelope it is a VIOLATION)"]


def replay(ctx, data):
    c01.replay(ctx, data, "C02")
