"""C15 - coordinate objects convert consistently and carry heights unchanged.

spec/Coord.tla (model) -> TLC enumerates behaviours -> this driver executes them on the real
geodepy.coord objects and records what it observes -> spec/Trace_Coord.tla (TLC) decides.
"""
import json
import os
import random
import tempfile
import warnings

from harness import alpha, fix, tlc, tracecheck

NONE = -9999
CFGS = [("grs80", "utm"), ("ans", "utm"), ("ans", "isg"), ("grs80", "isg")]
ISG_BANDS = [(138.0, 156.0), (158.0, 160.0)]


def _mods():
    import geodepy.constants as gc
    import geodepy.convert as cv
    import geodepy.coord as co
    import geodepy.angles as an
    return gc, cv, co, an


def gen_cfg(depth, reduced):
    return ("SPECIFICATION Spec\nCONSTANT HVals <- MCHVals\nCONSTANT D = %d\nCONSTRAINT %s\n"
            "CHECK_DEADLOCK FALSE\n" % (depth, "BoundReduced" if reduced else "Bound"))


def write_tmp(text, suffix):
    fd, p = tempfile.mkstemp(prefix="gvf_", suffix=suffix)
    with os.fdopen(fd, "w") as f:
        f.write(text)
    return p


def behaviours(depth, reduced, ctx, label):
    cfg = write_tmp(gen_cfg(depth, reduced), ".cfg")
    try:
        r = tlc.run_tlc("MC_Coord", cfg, workers=1, tags=("BEH",), timeout=1800)
    finally:
        os.unlink(cfg)
    ctx.add_tlc(r, label)
    return [(p[1], [tuple(x) for x in p[2]]) for p in r.prints]


def pick_position(rnd, prjname, k):
    """strata: hemisphere x distance from CM x latitude band (k cycles through them)."""
    hemi = 1 if (k % 2) else -1
    band = (k // 2) % 4
    if k % 23 == 11:
        # exactly on the equator (+0.0 and -0.0): the hemisphere label / false northing edge
        lon = rnd.uniform(138.5, 155.5) if prjname == "isg" else rnd.uniform(-179.0, 179.0)
        if prjname != "isg" and (abs((lon + 180.0) % 6.0) < 1e-3 or abs((lon + 180.0) % 6.0 - 6.0) < 1e-3):
            lon += 0.01
        return (0.0 if k % 2 else -0.0), lon
    if prjname == "isg":
        lo, hi = ISG_BANDS[0] if (k // 8) % 5 else ISG_BANDS[1]
        lon = rnd.uniform(lo + 1e-3, hi - 1e-3)
        lat = hemi * [rnd.uniform(0.01, 5), rnd.uniform(5, 25), rnd.uniform(25, 38), rnd.uniform(38, 44)][band]
    else:
        lon = rnd.uniform(-179.9, 179.9)
        # keep clear of zone boundaries by 1e-4 deg so that the natural zone is stable under round-off
        if abs((lon + 180.0) % 6.0) < 1e-4 or abs((lon + 180.0) % 6.0 - 6.0) < 1e-4:
            lon += 0.01
        lat = hemi * [rnd.uniform(0.01, 10), rnd.uniform(10, 45), rnd.uniform(45, 75), rnd.uniform(75, 83.5)][band]
        if lat < -79.5:
            lat = -79.5 + rnd.uniform(0, 0.4)
    return lat, lon


def mk_angle(an, x, n):
    if n == "float":
        return float(x)
    if n == "dec":
        return an.DECAngle(x)
    if n == "hp":
        return an.dec2hpa(x)
    if n == "gon":
        return an.dec2gona(x)
    if n == "dms":
        return an.dec2dms(x)
    if n == "ddm":
        return an.dec2ddm(x)
    raise ValueError(n)


def hv(v):
    return None if v == NONE else float(v)


class Runner:
    def __init__(self):
        self.gc, self.cv, self.co, self.an = _mods()
        self.ell = {"grs80": self.gc.grs80, "ans": self.gc.ans}
        self.prj = {"utm": self.gc.utm, "isg": self.gc.isg}
        self.prjnames = {id(self.gc.utm): "utm", id(self.gc.isg): "isg"}
        self.ncls = {"float": float, "dec": self.an.DECAngle, "hp": self.an.HPAngle, "gon": self.an.GONAngle,
                     "dms": self.an.DMSAngle, "ddm": self.an.DDMAngle}
        self.calls = 0

    def obs(self, o):
        return alpha.coord_obs(o, self.prjnames)

    # ---- functional references (what the functional API returns for the same inputs) ----
    def f_cart(self, lat, lon, h, E):
        self.calls += 1
        return alpha.hexes(*self.cv.llh2xyz(lat, lon, h, E))

    def f_geo_pay(self, lat, lon, n):
        """lat/lon floats -> payload in notation n through the functional conversions"""
        self.calls += 2
        return alpha.angle_payload(mk_angle(self.an, lat, n)) + "|" + alpha.angle_payload(mk_angle(self.an, lon, n))

    def f_tm(self, lat, lon, E, P):
        self.calls += 1
        hemi, zone, east, north, psf, gc_ = self.cv.geo2grid(lat, lon, 0, E, P)
        return "%d,%s,%s" % (zone, alpha.hexes(east, north), "N" if hemi == "North" else "S")

    def start_object(self, st, lat, lon, E, P):
        co, cv, an = self.co, self.cv, self.an
        if st["form"] == "geo":
            return co.CoordGeo(mk_angle(an, lat, st["notn"]), mk_angle(an, lon, st["notn"]), hv(st["ell"]), hv(st["orth"]))
        if st["form"] == "tm":
            hemi, zone, east, north, psf, g = cv.geo2grid(lat, lon, 0, E, P)
            return co.CoordTM(zone, east, north, hv(st["ell"]), hv(st["orth"]), hemi == "North", P)
        x, y, z = cv.llh2xyz(lat, lon, float(st["hpos"]), E)
        return co.CoordCart(x, y, z, hv(st["nval"]))

    def run_trace(self, st, labels, cfgname, lat, lon):
        E, P = self.ell[cfgname[0]], self.prj[cfgname[1]]
        tr = {"cfg": {"e": cfgname[0], "p": cfgname[1], "north": lat >= 0}, "start": st,
              "lat": lat, "lon": lon, "ev": []}
        with warnings.catch_warnings():
            warnings.simplefilter("ignore")
            try:
                obj = self.start_object(st, lat, lon, E, P)
                self.calls += 1
                tr["ev"].append({"a": "Init", "n": "na", "exc": "", "obs": self.obs(obj)})
            except Exception as ex:  # constructing the start object is part of the API too
                tr["ev"].append({"a": "Init", "n": "na", "exc": "%s: %s" % (type(ex).__name__, ex), "obs": self.obs(None)})
                return tr
            for (a, n) in labels:
                ev = {"a": a, "n": n, "exc": "", "ref": {"pay": "skip", "pay_ell": "skip", "pay_0": "skip"},
                      "prepos": [[0], [0]], "srcsame": True, "again": True}
                try:
                    before = json.dumps(self.obs(obj), sort_keys=True)
                    new = self.step(obj, a, n, E, P, ev)
                    ev["obs"] = self.obs(new)
                    # a conversion builds a NEW object: the source still denotes what it did, and converting it once more gives the same
                    ev["srcsame"] = json.dumps(self.obs(obj), sort_keys=True) == before
                    again = self.step(obj, a, n, E, P, {"ref": {}, "prepos": None})
                    ev["again"] = json.dumps(self.obs(again), sort_keys=True) == json.dumps(ev["obs"], sort_keys=True)
                    obj = new
                except Exception as ex:
                    ev["exc"] = "%s: %s" % (type(ex).__name__, str(ex)[:120])
                    ev["obs"] = self.obs(None)
                    tr["ev"].append(ev)
                    break
                tr["ev"].append(ev)
        return tr

    def step(self, obj, a, n, E, P, ev):
        cv, an = self.cv, self.an
        self.calls += 1
        if a == "GeoCart":
            ev["ref"]["pay_0"] = self.f_cart(obj.lat, obj.lon, 0, E)
            if obj.ell_ht is not None:
                ev["ref"]["pay_ell"] = self.f_cart(obj.lat, obj.lon, obj.ell_ht, E)
            return obj.cart(E)
        if a == "CartGeo":
            lat, lon, hh = cv.xyz2llh(obj.xaxis, obj.yaxis, obj.zaxis, E)
            ev["ref"]["pay"] = self.f_geo_pay(lat, lon, n)
            return obj.geo(E, self.ncls[n])
        if a == "GeoTM":
            ev["ref"]["pay"] = self.f_tm(obj.lat, obj.lon, E, P)
            return obj.tm(E, P)
        if a == "TMGeo":
            lat, lon, psf, g = cv.grid2geo(obj.zone, obj.east, obj.north, "north" if obj.hemi_north else "south",
                                           E, obj.projection)
            ev["ref"]["pay"] = self.f_geo_pay(lat, lon, n)
            return obj.geo(E, self.ncls[n])
        if a == "GeoNotation":
            src = alpha.notn_of(obj.lat)
            ev["prepos"] = [fix.enc(alpha.angle_deg(obj.lat)), fix.enc(alpha.angle_deg(obj.lon))]
            ev["ref"]["pay"] = self.f_notation(obj.lat, obj.lon, src, n)
            return obj.notation(self.ncls[n])
        if a == "CartTM":
            lat, lon, hh = cv.xyz2llh(obj.xaxis, obj.yaxis, obj.zaxis, E)
            ev["ref"]["pay"] = self.f_tm(lat, lon, E, P)
            return obj.tm(E, P)
        if a == "TMCart":
            lat, lon, psf, g = cv.grid2geo(obj.zone, obj.east, obj.north, "north" if obj.hemi_north else "south",
                                           E, obj.projection)
            ev["ref"]["pay_0"] = self.f_cart(lat, lon, 0, E)
            if obj.ell_ht is not None:
                ev["ref"]["pay_ell"] = self.f_cart(lat, lon, obj.ell_ht, E)
            return obj.cart(E)
        raise ValueError(a)

    def f_notation(self, lat, lon, src, n):
        """direct functional conversion src -> n where the library has one, else 'skip'"""
        an = self.an
        table = {
            ("float", "float"): lambda v: v, ("dec", "float"): lambda v: float(v.dec_angle),
            ("float", "dec"): an.DECAngle, ("float", "hp"): an.dec2hpa, ("float", "gon"): an.dec2gona,
            ("float", "dms"): an.dec2dms, ("float", "ddm"): an.dec2ddm,
            ("hp", "float"): lambda v: an.hp2dec(v.hp_angle), ("hp", "dec"): lambda v: an.hp2deca(v.hp_angle),
            ("hp", "gon"): lambda v: an.hp2gona(v.hp_angle), ("hp", "dms"): lambda v: an.hp2dms(v.hp_angle),
            ("hp", "ddm"): lambda v: an.hp2ddm(v.hp_angle),
            ("gon", "float"): lambda v: an.gon2dec(v.gon_angle), ("gon", "dec"): lambda v: an.gon2deca(v.gon_angle),
            ("gon", "hp"): lambda v: an.gon2hpa(v.gon_angle), ("gon", "dms"): lambda v: an.gon2dms(v.gon_angle),
            ("gon", "ddm"): lambda v: an.gon2ddm(v.gon_angle),
            ("dec", "hp"): lambda v: an.dec2hpa(v.dec_angle), ("dec", "gon"): lambda v: an.dec2gona(v.dec_angle),
            ("dec", "dms"): lambda v: an.dec2dms(v.dec_angle), ("dec", "ddm"): lambda v: an.dec2ddm(v.dec_angle),
        }
        f = table.get((src, n))
        if f is None:
            return "skip"
        try:
            self.calls += 2
            return alpha.angle_payload(f(lat)) + "|" + alpha.angle_payload(f(lon))
        except Exception:
            return "skip"   # the functional conversion itself fails: C08's business, not this clause


def describe(tr, l, clause):
    """canonical description of a failing step (matched against known_findings.json)"""
    ev = tr["ev"][l - 1]
    pre = tr["start"] if l <= 2 else None
    d = {"clause": clause, "action": ev["a"], "arg": ev["n"], "ellipsoid": tr["cfg"]["e"], "projection": tr["cfg"]["p"],
         "start_form": tr["start"]["form"], "step": l - 1}
    if ev.get("exc"):
        d["exception"] = ev["exc"].split(":")[0]
    return d


def validate(traces, ctx, label):
    """TLC decides: returns list of (trace index, l, clause)"""
    fails, _ = tracecheck.validate("Trace_Coord", "Trace_Coord.cfg", traces, ctx, label)
    return fails


def report(traces, fails, ctx):
    for (i, l, clause) in fails:
        tr = traces[i]
        d = describe(tr, l, clause) if l else {"clause": clause}
        ctx.violation(d, detail="start=%s labels=%s lat=%r lon=%r event=%s" % (
            tr["start"], [(e["a"], e["n"]) for e in tr["ev"][1:]], tr["lat"], tr["lon"],
            json.dumps(tr["ev"][l - 1] if l else {}, default=str)[:700]),
            case={"start": tr["start"], "labels": [(e["a"], e["n"]) for e in tr["ev"][1:]], "cfg": tr["cfg"],
                  "lat": tr["lat"], "lon": tr["lon"]})


def run(ctx):
    rnd = random.Random(ctx.seed)
    quick = ctx.tier == "quick"
    # 1. the model itself: exhaustive, all invariants and action properties
    r = tlc.run_tlc("MC_Coord", "MC_Coord.cfg", workers=4, coverage=True, timeout=1800)
    ctx.add_tlc(r, "MC_Coord exhaustive")
    if r.violated:
        raise tlc.MachineryError("Coord model violates its own invariant %s" % r.violated)
    # 2. behaviours out of TLC
    behs = behaviours(1, False, ctx, "gen depth 1 (every transition)")
    n1 = len(behs)
    behs += behaviours(2, quick, ctx, "gen depth 2%s" % (" reduced starts" if quick else ""))
    if not quick:
        behs += behaviours(3, True, ctx, "gen depth 3 reduced starts")
    # simulated long chains (length 8)
    nsim = 300 if quick else 6000
    cfg = write_tmp(gen_cfg(8, False), ".cfg")
    try:
        rs = tlc.run_tlc("MC_Coord", cfg, workers=1, tags=("BEH",), simulate={"num": nsim}, depth=10,
                         seed=ctx.seed, timeout=1800)
    finally:
        os.unlink(cfg)
    sim = [(p[1], [tuple(x) for x in p[2]]) for p in rs.prints]
    ctx.extra["simulated_chains_len8"] = len(sim)
    behs += sim
    # 3. execute on the real objects
    R = Runner()
    traces = []
    acts = {}
    for k, (st, labels) in enumerate(behs):
        cfgname = CFGS[k % 4]
        lat, lon = pick_position(rnd, cfgname[1], k // 4)
        traces.append(R.run_trace(st, labels, cfgname, lat, lon))
        for (a, n) in labels:
            acts[a] = acts.get(a, 0) + 1
        ctx.nontrivial((json.dumps(st, sort_keys=True), tuple(labels)))
    ctx.evaluations = R.calls
    ctx.actions.update(acts)
    # 4. TLC decides
    fails = validate(traces, ctx, "Trace_Coord")
    report(traces, fails, ctx)
    # 5. binding self-test: corrupt one observation / drop one event -> must be rejected
    ctx.selftest(selftest, traces, ctx)
    st = ctx.extra.get("binding_selftest", {})
    ctx.rule = ("behaviours = every (start state, action) transition of Coord.tla (136 start states incl. heights "
                "absent/0/value in every combination, 6 notations), every depth-2 path%s, %d simulated chains of "
                "length 8; each executed once on real objects at a seeded position in a (hemisphere x latitude band x "
                "ellipsoid/projection) stratum; distinct = distinct (start state, action sequence); all are outside the "
                "repository tests (which convert one Australian point with both heights present)"
                % ("" if not quick else " from reduced start set", len(sim)))
    ctx.exhaustive = False
    for tr in traces[:2] + traces[n1:n1 + 1] + traces[-1:]:
        ctx.sample({"start": tr["start"], "cfg": tr["cfg"], "lat": tr["lat"], "lon": tr["lon"],
                    "calls": [(e["a"], e["n"]) for e in tr["ev"]], "last_obs_pay": tr["ev"][-1]["obs"]["pay"]})
    ctx.assumptions += ["alpha decodes angle objects from their public attributes without calling geodepy conversions",
                        "functional reference = the functional API called by the driver with the real object's own inputs",
                        "0.3 mm closure compared per axis (generous side): 2.72e-9 deg lat, 2.72e-9 deg x cos(lat) lon"]


def selftest(traces, ctx):
    """corrupt a logged field / remove an event: TLC must reject."""
    import copy
    good = [t for t in traces if len(t["ev"]) >= 3 and all(not e["exc"] for e in t["ev"])
            and t["ev"][-1].get("ref", {}).get("pay", "skip") != "skip"]
    if not good:
        return {"ran": False}
    out = {"ran": True}
    base = None
    # need a trace the spec accepts: try a few
    for t in good[:40]:
        if not validate([t], None, None):
            base = t
            break
    if base is None:
        return {"ran": False, "why": "no accepted trace with >=2 calls among the first 40"}
    t1 = copy.deepcopy(base)
    e = t1["ev"][-1]["obs"]
    e["ell"] = [1, fix.enc(1234.5)] if e["ell"][0] == 0 else [0, [0]]
    t2 = copy.deepcopy(base)
    t2["ev"][-1]["obs"]["pay"] += "x"
    t3 = copy.deepcopy(base)
    del t3["ev"][1]
    res = validate([t1, t2, t3], None, None)
    rej = set(i for (i, l, c) in res)
    out["flipped_height_presence_rejected"] = 0 in rej
    out["corrupted_payload_rejected"] = 1 in rej
    out["removed_event_rejected_or_stuck"] = 2 in rej or base["ev"][1]["a"] == "GeoNotation"
    if not (out["flipped_height_presence_rejected"] and out["corrupted_payload_rejected"]):
        raise tlc.MachineryError("binding self-test failed: %s" % out)
    return out


def replay(ctx, data):
    R = Runner()
    c = data["case"]
    tr = R.run_trace(c["start"], [tuple(x) for x in c["labels"]], (c["cfg"]["e"], c["cfg"]["p"]), c["lat"], c["lon"])
    fails = validate([tr], ctx, "replay")
    report([tr], fails, ctx)
    print("replayed %d calls; verdict by Trace_Coord: %s" % (len(tr["ev"]), fails if fails else "accepted"))
