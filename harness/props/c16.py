"""C16 - local-frame rotations, covariance rotation and error measures.

spec/LocalFrame.tla (mathematics in BigFix) + spec/Local.tla (state machine) -> TLC checks the model
exhaustively on an exact lattice (MC_Local) and enumerates behaviours -> this driver executes them, and
many more stations / vectors / covariances, on the real functions (geodepy.statistics.rotation_matrix,
vcv_cart2local, vcv_local2cart, error_ellipse, relative_error, k_val95; geodepy.geodesy.enu2xyz, xyz2enu)
and records what they return -> spec/Trace_Local.tla (TLC) decides every clause.

Python only chooses inputs, calls the code and encodes the floats exactly (harness/fix.py).  The one
auxiliary computed here is sin/cos of a RETURNED orientation angle (DESIGN 3.7), bound in the trace
specification by sin^2 + cos^2 = 1.
"""
import copy
import json
import math
import os
import random
from concurrent.futures import ThreadPoolExecutor
from fractions import Fraction

from harness import fix, tlc, tracecheck

PAR = int(os.environ.get("C16_PAR", "10"))
NLAT, NLON = 5, 8            # Len(LatSeq), Len(LonSeq) of MC_Local
QUICK_STATIONS = [(1, 1), (2, 6), (3, 7), (3, 2), (4, 5), (5, 4)]   # (GI, GJ) behaviour-generation stations of the quick tier


def _mods():
    import numpy as np
    import geodepy.statistics as st
    import geodepy.geodesy as gd
    import geodepy.convert as cv
    return np, st, gd, cv


# ----------------------------------------------------------------------------------------------
# encoding (alpha): exact, no arithmetic
# ----------------------------------------------------------------------------------------------
class NonFinite(Exception):
    pass


def enc(x):
    x = float(x)
    if math.isnan(x) or math.isinf(x):
        raise NonFinite("non-finite output %r" % x)
    return fix.enc(x)


def enc_v(v):
    return [enc(x) for x in v]


def enc_m(m):
    return [[enc(x) for x in row] for row in m]


def exc_name(ex):
    return "%s" % type(ex).__name__


def pyth_deg(a):
    """angle with sin = p/r, cos = q/r as the float the code receives"""
    return math.degrees(math.atan2(a[0], a[1]))


def triple(m, n):
    """t = tan(a/2) = m/n  ->  (sin, cos) = (2mn, n^2 - m^2) / (n^2 + m^2), reduced"""
    p, q, r = 2 * m * n, n * n - m * m, n * n + m * m
    g = math.gcd(math.gcd(abs(p), abs(q)), r)
    return (p // g, q // g, r // g)


# ----------------------------------------------------------------------------------------------
# running the real code
# ----------------------------------------------------------------------------------------------
class Runner:
    def arr(self, m):
        """the matrix / column as a numpy array: float64, or - every other time its entries are whole numbers - the INTEGER array
        a caller would get from np.array([[4, 1, 0], ...]) (same values, another legal form of the input)"""
        np = self.np
        flat = [x for row in m for x in (row if isinstance(row, (list, tuple)) else [row])]
        self.nint = getattr(self, "nint", 0) + 1
        if flat and all(float(x).is_integer() and abs(x) < 2 ** 50 for x in flat) and self.nint % 2 == 0:
            return np.array([[int(x) for x in row] if isinstance(row, (list, tuple)) else int(row) for row in m])
        return np.array(m, dtype=float)

    def __init__(self):
        self.np, self.st, self.gd, self.cv = _mods()
        import geodepy.angles as an
        self.an = an
        self.calls = 0

    def _call(self, ev, fn, post):
        """run fn(); on success post(result) fills the event; exceptions / non-finite outputs are logged"""
        self.calls += 1
        try:
            res = fn()
            post(res)
        except NonFinite as ex:
            ev["exc"] = "NonFinite"
            ev["msg"] = str(ex)
        except Exception as ex:            # every exception of a public call is an observation
            ev["exc"] = exc_name(ex)
            ev["msg"] = str(ex)[:120]
        return ev

    def station_trace(self, pyth, lat, lon, plan):
        """plan: list of steps; conversions feed the previous output back in (bit for bit)."""
        np, st, gd, cv = self.np, self.st, self.gd, self.cv
        tr = {"kind": "frame", "pyth": list(pyth[0]) + list(pyth[1]) if pyth else [], "lat": lat, "lon": lon,
              "plan": plan, "ev": []}
        ev = {"a": "RotM", "exc": "", "y": []}
        self._call(ev, lambda: st.rotation_matrix(lat, lon), lambda r: ev.update(y=enc_m(r.tolist())))
        tr["ev"].append(ev)
        cur = None           # (kind, frame, python value)
        for step in plan:
            op = step[0]
            if op == "normal":
                ev = {"a": "Normal", "exc": "", "p0": [[0]] * 3, "p1": [[0]] * 3}
                self._call(ev, lambda: (cv.llh2xyz(lat, lon, 0.0), cv.llh2xyz(lat, lon, 1.0)),
                           lambda r, ev=ev: ev.update(p0=enc_v(r[0]), p1=enc_v(r[1])))
                self.calls += 1
            elif op == "set":
                cur = (step[1], step[2], step[3])
                continue
            elif op == "conv":
                kind, frame, v = cur
                if kind == "vec":
                    a = "Enu2Xyz" if frame == "local" else "Xyz2Enu"
                    f = gd.enu2xyz if frame == "local" else gd.xyz2enu
                    ev = {"a": a, "exc": "", "x": enc_v(v), "y": [[0]] * 3}
                    res = {}

                    def post(r, ev=ev, res=res):
                        res["v"] = [float(x) for x in r]
                        ev["y"] = enc_v(res["v"])
                    # latitude / longitude as floats or as objects of one of the five angle classes in turn
                    self.forms = getattr(self, "forms", 0) + 1
                    an = self.an
                    mk = [lambda x: x, an.DECAngle, an.dec2hpa, an.dec2gona, an.dec2dms, an.dec2ddm, lambda x: x][self.forms % 7]
                    ev["latlon_form"] = ["float", "dec", "hp", "gon", "dms", "ddm", "float"][self.forms % 7]
                    self._call(ev, lambda: f(mk(lat), mk(lon), v[0], v[1], v[2]), post)
                else:
                    a = "VcvC2L" if frame == "cart" else "VcvL2C"
                    f = st.vcv_cart2local if frame == "cart" else st.vcv_local2cart
                    arr = self.arr(v)
                    if kind == "col":
                        arr = arr.reshape(3, 1)
                    ev = {"a": a, "exc": "", "shape": "3x3" if kind == "vcv" else "3x1", "oshape": "",
                          "x": enc_m(v) if kind == "vcv" else enc_v(v), "y": []}
                    res = {}

                    def post(r, ev=ev, res=res, kind=kind):
                        ev["oshape"] = "x".join(str(d) for d in getattr(r, "shape", ("?",)))
                        if ev["oshape"] == "3x3":
                            res["v"] = [[float(x) for x in row] for row in r.tolist()]
                            ev["y"] = enc_m(res["v"])
                        elif ev["oshape"] == "3x1":
                            res["v"] = [float(x) for x in r[:, 0].tolist()]
                            ev["y"] = enc_v(res["v"])
                    self._call(ev, lambda: f(arr, lat, lon), post)
                if ev["exc"] or "v" not in res:
                    tr["ev"].append(ev)
                    break
                cur = (kind, "cart" if frame == "local" else "local", res["v"])
            elif op == "ellipse":
                if op == "ellipse" and len(step) > 1:
                    V, design = step[1], list(step[2])
                else:
                    V, design = cur[2], []
                ev = self.ellipse_event(V, design)
            elif op == "relerr":
                v1, v2, c12 = cur[2], step[1], step[2]
                ev = {"a": "RelErr", "exc": "", "v1": enc_m(v1), "v2": enc_m(v2), "c12": enc_m(c12),
                      "y": [[0]] * 3, "aux": [[0]] * 2}

                def post(r, ev=ev):
                    a, b, ori, rue = [float(x) for x in r]
                    ev["y"] = [enc(a), enc(b), enc(rue)]
                    ev["aux"] = [enc(math.sin(math.radians(ori))), enc(math.cos(math.radians(ori)))]
                    ev["ori"] = ori
                self._call(ev, lambda: st.relative_error(lat, lon, self.arr(v1), self.arr(v2), self.arr(c12)), post)
            else:
                raise ValueError(op)
            tr["ev"].append(ev)
        return tr

    def ellipse_event(self, V, design):
        np, st = self.np, self.st
        ev = {"a": "Ellipse", "exc": "", "x": enc_m(V), "y": [[0]] * 2, "aux": [[0]] * 2, "design": design}

        def post(r, ev=ev):
            a, b, ori = [float(x) for x in r]
            ev["y"] = [enc(a), enc(b)]
            ev["aux"] = [enc(math.sin(math.radians(ori))), enc(math.cos(math.radians(ori)))]
            ev["ori"] = ori
        return self._call(ev, lambda: st.error_ellipse(self.arr(V)), post)

    def ellipse_trace(self, V, design):
        return {"kind": "ellipse", "pyth": [], "V": V, "design": list(design), "ev": [self.ellipse_event(V, list(design))]}

    def k_trace(self):
        st = self.st
        evs = []
        args = [(True, d, d) for d in range(-5, 201)] + [(False, 0, 2.5), (False, 0, 3.0), (False, 0, "3"), (False, 0, None)]
        for (isint, dof, arg) in args:
            ev = {"a": "KVal", "int": isint, "dof": dof, "arg": repr(arg), "exc": "", "y": [0]}
            self._call(ev, lambda: st.k_val95(arg), lambda r, ev=ev: ev.update(y=enc(r)))
            evs.append(ev)
        return {"kind": "k", "pyth": [], "qmod": [1, 0], "ev": evs}


# ----------------------------------------------------------------------------------------------
# inputs
# ----------------------------------------------------------------------------------------------
def rand_rotation(np, rnd):
    a = np.array([[rnd.gauss(0, 1) for _ in range(3)] for _ in range(3)])
    q, _r = np.linalg.qr(a)
    return q


def psd_random(np, rnd, k):
    """symmetric positive (semi-)definite 3x3 floats; k cycles through the classes of the quantifier"""
    cls = k % 6
    s = 10.0 ** rnd.uniform(-2, 4)
    if cls == 0:      # well conditioned
        lam = [s * rnd.uniform(0.2, 1.0) for _ in range(3)]
    elif cls == 1:    # condition number up to 1e8
        lam = [s, s * 10.0 ** (-rnd.uniform(0, 8)), s * 1e-8]
    elif cls == 2:    # diagonal
        d = [s * 10.0 ** (-rnd.uniform(0, 8)) for _ in range(3)]
        rnd.shuffle(d)
        return [[d[0], 0.0, 0.0], [0.0, d[1], 0.0], [0.0, 0.0, d[2]]], "diagonal"
    elif cls == 3:    # exactly singular, rank 1 or 2: sum of integer dyads (exact in floats)
        return int_psd(rnd, rnd.choice([1, 2]), 300), "singular"
    elif cls == 4:    # two equal eigenvalues
        lam = [s, s, s * 10.0 ** (-rnd.uniform(0, 6))]
    else:             # realistic survey magnitudes (mm^2 .. cm^2), up direction worst
        lam = [rnd.uniform(1, 9) * 1e-2, rnd.uniform(1, 9) * 1e-2, rnd.uniform(1, 9) * 1e-1]
    q = rand_rotation(np, rnd)
    v = q @ np.diag(lam) @ q.T
    v = (v + v.T) / 2.0
    return v.tolist(), ("wellcond", "cond1e8", "", "", "double_eigenvalue", "survey")[cls]


def int_psd(rnd, rank, mag):
    ws = [[rnd.randint(-mag, mag) for _ in range(3)] for _ in range(rank)]
    return [[float(sum(w[i] * w[j] for w in ws)) for j in range(3)] for i in range(3)]


def joint_blocks(np, rnd, k, pyth=None):
    """var1, var2, cov12 of one joint 6x6 covariance A A^T (cov12 is not symmetric)"""
    cls = k % 4
    if cls == 3 and pyth and k % 8 == 3:
        # exactly singular, integer: the two stations differ by an exactly HORIZONTAL vector of the lattice station
        # (integer multiples of the east and north axes), so the relative up variance is exactly zero
        (ps, pc, pr), (ls, lc, lr) = pyth
        east, north = (-ls, lc, 0), (-ps * lc, -ps * ls, pc * lr)
        al, be = rnd.randint(-3, 3), rnd.randint(-3, 3)
        a2 = [rnd.randint(-20, 20) for _ in range(3)]
        a1 = [a2[i] + al * east[i] + be * north[i] for i in range(3)]
        a = np.array([[float(x)] for x in a1 + a2])
    elif cls == 3:    # exactly singular joint covariance (integer, rank 1 or 2)
        rank = rnd.choice([1, 2])
        a = np.array([[float(rnd.randint(-40, 40)) for _ in range(rank)] for _ in range(6)])
    else:
        a = np.array([[rnd.gauss(0, 1) for _ in range(6)] for _ in range(6)])
        a = a * np.array([[10.0 ** rnd.uniform(-1, 1)] for _ in range(6)])
        if cls == 2:  # strongly correlated stations
            a[3:, :] = a[:3, :] + 1e-3 * a[3:, :]
        # precisely determined stations: variances of 1e-6 .. 1e-10 m^2 (sigma 1 mm .. 10 um) as well as the metre-level ones - a
        # cross-covariance block whose asymmetry is below an ABSOLUTE threshold (numpy's allclose: 1e-8) must not be treated as
        # symmetric; one decade per station, fixed by k (round 9, C16-r9-1)
        a = a * [1.0, 1e-3, 1e-4, 1e-5][(k // 4) % 4]
    s = a @ a.T
    s = (s + s.T) / 2.0
    return s[:3, :3].tolist(), s[3:, 3:].tolist(), s[:3, 3:].tolist()


def rand_vec(rnd, k):
    cls = k % 5
    if cls == 0:
        return [rnd.uniform(-1e7, 1e7) for _ in range(3)]
    if cls == 1:
        m = 10.0 ** rnd.uniform(-3, 7)
        return [rnd.uniform(-m, m) for _ in range(3)]
    if cls == 2:      # along one axis
        v = [0.0, 0.0, 0.0]
        v[rnd.randrange(3)] = rnd.choice([-1, 1]) * 10.0 ** rnd.uniform(0, 7)
        return v
    if cls == 3:
        return [float(rnd.randint(-10 ** 7, 10 ** 7)) for _ in range(3)]
    return [rnd.uniform(-1, 1) * 1e7, rnd.uniform(-1, 1) * 1e-3, rnd.uniform(-1, 1)]


def lattice_angles(nmax):
    """all reduced (sin, cos, r) with tan(a/2) = m/n, 0 <= m <= n <= nmax, in all four quadrants"""
    out = set()
    for n in range(1, nmax + 1):
        for m in range(0, n + 1):
            if math.gcd(m, n) != 1 and m != 0:
                continue
            p, q, r = triple(m, n)
            for (a, b) in ((p, q), (q, p)):
                for sa in (1, -1):
                    for sb in (1, -1):
                        out.add((sa * a, sb * b, r))
    return sorted(out)


def lon_variants(lonp):
    """the float longitudes in [-360, 360] that have this sine and cosine"""
    base = pyth_deg(lonp)
    return [x for x in (base, base - 360.0, base + 360.0) if -360.0 <= x <= 360.0]


def station_plans(np, rnd, k, pyth=None):
    """three short traces per station: vectors (+ normal), covariance chain + ellipse, column + relative error"""
    v1, v2 = rand_vec(rnd, k), rand_vec(rnd, k + 2)
    V, _cls = psd_random(np, rnd, k)
    W, _cls2 = psd_random(np, rnd, k + 3)
    col = [abs(x) for x in rand_vec(rnd, 1)]
    a1, a2, c12 = joint_blocks(np, rnd, k, pyth)
    pa = [("normal",), ("set", "vec", "local", v1), ("conv",), ("conv",), ("set", "vec", "cart", v2), ("conv",), ("conv",), ("conv",)]
    pb = [("set", "vcv", "cart", V), ("conv",), ("ellipse",), ("conv",), ("set", "vcv", "local", W), ("conv",), ("ellipse",), ("conv",)]
    pc = [("set", "col", "cart", col), ("conv",), ("set", "col", "local", col), ("conv",), ("set", "vcv", "cart", a1), ("relerr", a2, c12)]
    return [pa, pb, pc]


def float_station(rnd, k):
    cls = k % 8
    if cls == 0:
        return rnd.choice([-1, 1]) * (90.0 - 10.0 ** rnd.uniform(-12, -3)), rnd.uniform(-360, 360)      # next to a pole
    if cls == 1:
        return rnd.choice([-90.0, 90.0]), rnd.uniform(-360, 360)                                         # on a pole
    if cls == 2:
        return rnd.uniform(-90, 90), rnd.choice([-360, -270, -180, -90, 0, 90, 180, 270, 360]) + rnd.choice([-1, 1]) * 10.0 ** rnd.uniform(-12, -6)
    if cls == 3:
        return rnd.uniform(-1e-6, 1e-6), rnd.uniform(-360, 360)                                          # on the equator
    return rnd.uniform(-90, 90), max(-360.0, min(360.0, rnd.uniform(-360, 360)))


# ----------------------------------------------------------------------------------------------
# TLC side
# ----------------------------------------------------------------------------------------------
def unfix(t):
    """BigFix record printed by TLC -> float (the seeds are small integers: exact)"""
    n = 0
    for i, l in enumerate(t["mag"]):
        n += l * fix.BASE ** i
    v = Fraction(n, fix.SCALE)
    return float(-v if t["neg"] else v)


def gen_cfg(depth, gi, gj):
    return ("SPECIFICATION Spec\nCONSTANT Lats <- GenLats\nCONSTANT Lons <- GenLons\nCONSTANT Vecs <- MCVecs\n"
            "CONSTANT Vcvs <- MCVcvs\nCONSTANT Cols <- MCCols\nCONSTANT Pairs <- MCPairs\nCONSTANT KArgs <- NoKArgs\n"
            "CONSTANT D = %d\nCONSTANT GI = %d\nCONSTANT GJ = %d\nCONSTRAINT Bound\nCHECK_DEADLOCK FALSE\n" % (depth, gi, gj))


def behaviours(depth, stations, ctx):
    """one single-worker TLC process per station: every behaviour of length `depth` of Local.tla there"""
    def one(st):
        cfg = tracecheck.write_tmp(gen_cfg(depth, st[0], st[1]), ".cfg")
        try:
            return tlc.run_tlc("MC_Local", cfg, workers=1, tags=("BEH", "PAIRS"), timeout=1800)
        finally:
            os.unlink(cfg)
    with ThreadPoolExecutor(max_workers=min(PAR, 8)) as ex:
        res = list(ex.map(one, stations))
    behs, pairs = [], None
    for r in res:
        ctx.add_tlc(r, None)
        pairs = r.tagged("PAIRS")[0][1]
        for p in r.tagged("BEH"):
            behs.append({"pos": p[1], "frame": p[2], "kind": p[3]["kind"], "m": p[3]["m"], "h": [tuple(x) for x in p[4]]})
    ctx.extra.setdefault("tlc_runs", []).append(
        {"run": "MC_Local behaviour generation depth %d, %d stations" % (depth, len(stations)), "processes": len(res),
         "generated": sum(r.generated for r in res), "distinct": sum(r.distinct for r in res),
         "wall_s": round(max(r.wall for r in res), 2)})
    return behs, pairs


def beh_plan(b, pairs):
    if b["kind"] == "vcv":
        val = [[unfix(x) for x in row] for row in b["m"]]
    else:
        val = [unfix(x) for x in b["m"]]
    plan = [("set", b["kind"], b["frame"], val)]
    for (a, i) in b["h"]:
        if a in ("Enu2Xyz", "Xyz2Enu", "VcvC2L", "VcvL2C"):
            plan.append(("conv",))
        elif a == "Ellipse":
            plan.append(("ellipse",))
        elif a == "RelErr":
            pr = pairs[i - 1]
            plan.append(("relerr", [[float(x) for x in row] for row in pr[0]], [[float(x) for x in row] for row in pr[1]]))
        else:
            raise tlc.MachineryError("unknown label %r" % (a,))
    return plan


def spec_text():
    with open(os.path.join(tlc.SPEC, "Local.tla")) as f:
        return f.read()


def model_coverage(out, spec):
    """per-action transition counts of the exhaustive run.  TLC reports the four conversions as `Convert` at the
    location of the call; the enclosing action is looked up in spec/Local.tla (text read when the run started)."""
    import re
    lines = spec.split("\n")

    def owner(ln):
        for i in range(ln - 1, -1, -1):
            m = re.match(r"^(\w+)(\(.*\))?\s*==", lines[i])
            if m:
                return m.group(1)
        return "?"
    cov = {}
    for m in re.finditer(r"^<(\w+) line \d+, col \d+ to line \d+, col \d+ of module Local(?: \((\d+) \d+ \d+ \d+\))?>: (\d+):(\d+)",
                         out, re.M):
        name = owner(int(m.group(2))) if m.group(2) else m.group(1)
        cov[name] = cov.get(name, 0) + int(m.group(4))
    return cov


def validate(traces, ctx, label, par=None):
    fails, _ = tracecheck.validate("Trace_Local", "Trace_Local.cfg", traces, ctx, label, min_chunk=40, timeout=3000,
                                   par=par or PAR)
    return fails


KSPLIT = 5


def validate_k(ktr, split=KSPLIT):
    """one table, `split` copies: copy r answers the Student-t clause for dof % split = r (parallel TLC processes)"""
    copies = []
    for r in range(split):
        c = strip(ktr)
        c["qmod"] = [split, r]
        copies.append(c)
    fails, res = tracecheck.validate("Trace_Local", "Trace_Local.cfg", copies, None, None, min_chunk=1, timeout=3000,
                                     par=min(split, PAR))
    seen, out = set(), []
    for (i, l, clause) in fails:          # the same table: report a failing entry once
        if (l, clause) not in seen:
            seen.add((l, clause))
            out.append((0, l, clause))
    return out, res


def strip(tr):
    """what TLC needs (drop driver-side bookkeeping that is not JSON-int safe)"""
    out = {"kind": tr["kind"], "pyth": tr["pyth"], "ev": []}
    if "qmod" in tr:
        out["qmod"] = tr["qmod"]
    for e in tr["ev"]:
        out["ev"].append({k: v for k, v in e.items() if k not in ("msg", "ori", "arg")})
    return out


def describe(tr, l, clause):
    d = {"clause": clause}
    if l and l <= len(tr["ev"]):
        ev = tr["ev"][l - 1]
        d["call"] = ev["a"]
        if ev.get("exc"):
            d["exception"] = ev["exc"]
        if ev["a"] == "KVal":
            d["dof"] = ev["dof"] if ev["int"] else ev["arg"]
    if tr["kind"] == "frame":
        d["station"] = "lattice" if tr["pyth"] else "float"
    return d


def case_of(tr):
    if tr["kind"] == "frame":
        return {"kind": "frame", "pyth": tr["pyth"], "lat": tr["lat"], "lon": tr["lon"], "plan": tr["plan"]}
    if tr["kind"] == "ellipse":
        return {"kind": "ellipse", "V": tr["V"], "design": tr["design"]}
    return {"kind": "k"}


def report(traces, fails, ctx):
    elsewhere = 0
    for (i, l, clause) in fails:
        tr = traces[i]
        if clause == "Normal.instrument":
            elsewhere += 1        # llh2xyz (C03) disagrees with the exact normal on the lattice: not C16's routine
            continue
        ev = tr["ev"][l - 1] if l and l <= len(tr["ev"]) else {}
        detail = "lat=%r lon=%r pyth=%s event=%s" % (tr.get("lat"), tr.get("lon"), tr.get("pyth"),
                                                      json.dumps({k: v for k, v in ev.items() if k not in ("x", "v1", "v2", "c12")},
                                                                 default=str)[:500])
        if tr["kind"] == "frame":
            detail += " plan=%s" % json.dumps(tr["plan"])[:400]
        elif tr["kind"] == "ellipse":
            detail += " V=%s" % json.dumps(tr["V"])
        ctx.violation(describe(tr, l, clause), detail, case=case_of(tr))
    if elsewhere:
        ctx.extra["attributed_elsewhere"] = {"Normal.instrument (llh2xyz, C03)": elsewhere}


# ----------------------------------------------------------------------------------------------
def run(ctx):
    np, st, gd, cv = _mods()
    rnd = random.Random(ctx.seed)
    quick = ctx.tier == "quick"
    R = Runner()
    pool = ThreadPoolExecutor(max_workers=3)

    # 1. the model itself, exhaustively, on the exact lattice (runs while the driver works)
    spec = spec_text()

    def model():
        return tlc.run_tlc("MC_Local", "MC_Local.cfg" if quick else "MC_Local_full.cfg", workers=4 if quick else 8,
                           coverage=True, timeout=3000)
    fut_model = pool.submit(model)

    # 2. the coverage-factor table: its own trace, validated in parallel
    ktr = R.k_trace()
    fut_k = pool.submit(lambda: validate_k(ktr))

    # 3. behaviours out of TLC, executed on the real functions
    stations = QUICK_STATIONS if quick else [(i, j) for i in range(1, NLAT + 1) for j in range(1, NLON + 1)]
    behs, pairs = behaviours(2, stations, ctx)
    if not quick:
        b3, _ = behaviours(3, QUICK_STATIONS, ctx)
        behs += b3
    traces = []
    for b in behs:
        pyth = (tuple(b["pos"][0]), tuple(b["pos"][1]))
        lat, lon = pyth_deg(pyth[0]), pyth_deg(pyth[1])
        traces.append(R.station_trace(pyth, lat, lon, beh_plan(b, pairs)))
        ctx.nontrivial(("beh", pyth, b["frame"], b["kind"], json.dumps(b["m"]), tuple(b["h"])))
    nbeh = len(traces)

    # 4. dense rational lattice of stations (exact expectations) ...
    lat_angles = [a for a in lattice_angles(12 if quick else 40) if a[1] >= 0]
    lon_angles = lattice_angles(12 if quick else 40)
    special_lat = [(-1, 0, 1), (0, 1, 1), (1, 0, 1)]
    special_lon = [(0, 1, 1), (1, 0, 1), (0, -1, 1), (-1, 0, 1)]
    stations_l = [(a, b) for a in special_lat for b in special_lon]
    n_l = 52 if quick else 1500
    while len(stations_l) < n_l:
        stations_l.append((rnd.choice(lat_angles), rnd.choice(lon_angles)))
    k = 0
    for (la, lo) in stations_l:
        lat = pyth_deg(la)
        for lon in (lon_variants(lo) if (la, lo) in stations_l[:12] else [rnd.choice(lon_variants(lo))]):
            for plan in station_plans(np, rnd, k, (la, lo)):
                traces.append(R.station_trace((la, lo), lat, lon, plan))
            ctx.nontrivial(("lattice", la, lo, lon))
            k += 1
    # ... and arbitrary floating-point stations (observed frame, once it passed the frame laws, is the reference)
    n_f = 45 if quick else 1500
    for j in range(n_f):
        lat, lon = float_station(rnd, j)
        for plan in station_plans(np, rnd, k):
            traces.append(R.station_trace(None, lat, lon, plan))
        ctx.nontrivial(("float", lat, lon))
        k += 1

    # 5. error ellipses: designed lattice (axes a >= b >= 0, rational bearing) and random / singular blocks
    bearings = [a for a in lattice_angles(4 if quick else 9)]
    axes = [(1, 0), (1, 1), (2, 1), (3, 0), (5, 4), (13, 5), (40, 1)] if quick else \
           [(a, b) for a in (1, 2, 3, 5, 8, 13, 21, 40, 100) for b in (0, 1, 2, 3, 5, 8, 13, 21, 40, 100) if b <= a]
    for (a, b) in axes:
        for th in bearings:
            s, c = Fraction(th[0], th[2]), Fraction(th[1], th[2])
            ee, nn, en = a * a * s * s + b * b * c * c, a * a * c * c + b * b * s * s, (a * a - b * b) * s * c
            u = float(rnd.randint(1, 50))
            V = [[float(ee), float(en), 0.0], [float(en), float(nn), 0.0], [0.0, 0.0, u]]
            traces.append(R.ellipse_trace(V, (a, b) + tuple(th)))
            ctx.nontrivial(("design", a, b, th))
    for j in range(120 if quick else 6000):
        if j % 3 == 0:
            w = [rnd.randint(-2000, 2000) for _ in range(3)]
            V = [[float(w[i] * w[jj]) for jj in range(3)] for i in range(3)]        # rank 1: singular horizontal block
            V[2][2] += 1.0
        else:
            V, _c = psd_random(np, rnd, j)
        traces.append(R.ellipse_trace(V, ()))
        ctx.nontrivial(("ellipse", json.dumps(V)))

    ctx.evaluations = R.calls
    acts = {}
    for t in traces + [ktr]:
        for e in t["ev"]:
            acts[e["a"]] = acts.get(e["a"], 0) + 1
    ctx.actions.update(acts)

    # 6. TLC decides
    fails = validate([strip(t) for t in traces], ctx, "Trace_Local (%d behaviours, %d stations, ellipses)" % (nbeh, len(stations_l) + n_f))
    report(traces, fails, ctx)
    kfails, kres = fut_k.result()
    for r in kres:
        ctx.add_tlc(r, None)
    ctx.extra["tlc_runs"].append({"run": "Trace_Local coverage-factor table (-5..200 + non-integers; Student-t brackets for 1..120 "
                                         "spread over %d processes)" % KSPLIT, "processes": len(kres),
                                  "generated": sum(r.generated for r in kres), "distinct": sum(r.distinct for r in kres),
                                  "wall_s": round(max(r.wall for r in kres), 2)})
    if not kfails:
        ctx.traces += 1
    report([ktr], kfails, ctx)
    for d in range(-5, 201):
        ctx.nontrivial(("k", d))

    rm = fut_model.result()
    ctx.add_tlc(rm, "MC_Local exhaustive (%s lattice)" % ("3 x 3" if quick else "5 x 8"))
    if rm.violated:
        raise tlc.MachineryError("Local model violates its own invariant %s\n%s" % (rm.violated, rm.out[-2000:]))
    cov = model_coverage(rm.out, spec)
    ctx.extra["model_actions"] = cov
    for a in ("Enu2Xyz", "Xyz2Enu", "VcvC2L", "VcvL2C", "Ellipse", "RelErr", "KVal"):
        if cov.get(a, 0) == 0:
            raise tlc.MachineryError("anti-vacuity: action %s never taken in MC_Local (%s)" % (a, cov))

    # 7. binding self-test
    ctx.selftest(selftest, traces, ktr, fails)

    ctx.exhaustive = True
    ctx.rule = ("coverage-factor table: ALL integer dof -5..200 (exhaustive) + 4 non-integers; behaviours: every behaviour of "
                "length 2%s of Local.tla at %d exact stations (TLC-generated) executed on the real functions; %d stations of "
                "the rational-trig lattice (tan(a/2) = m/n, n <= %d, poles and cardinal meridians always, longitudes wrapped to "
                "[-360, 360]) and %d floating-point stations (pole neighbourhoods, cardinal meridians +- 1e-12..1e-6, equator), "
                "each with seeded vectors (|v| up to 1e7) and PSD matrices cycling through well-conditioned / cond 1e8 / "
                "diagonal / exactly singular / double eigenvalue / survey magnitudes; designed ellipses (integer axes x rational "
                "bearings) and random / rank-1 blocks; distinct = distinct behaviours + stations + ellipse inputs + dof; the "
                "repository tests use one station and one matrix per function"
                % ("" if quick else " (and 3 at 6 stations)", len(stations), len(stations_l), 12 if quick else 40, n_f))
    for t in [traces[0], traces[nbeh], traces[-1]]:
        ctx.sample({"kind": t["kind"], "lat": t.get("lat"), "lon": t.get("lon"), "pyth": t["pyth"],
                    "calls": [e["a"] for e in t["ev"]], "exc": [e["exc"] for e in t["ev"] if e["exc"]]})
    ctx.sample({"kind": "k", "k_val95(2)": st.k_val95(2), "k_val95(121)": st.k_val95(121)})
    ctx.assumptions += [
        "floats are logged as their exact binary value rounded at 1e-20; every law is evaluated by TLC with relative tolerance "
        "1e-12 of the quantity's natural scale (+1e-16 absolute), the property's 'exact'/'preserves' up to double rounding",
        "alpha computes sin/cos of the RETURNED ellipse orientation (math.sin/cos); TLC binds them by sin^2+cos^2=1",
        "the ellipsoid normal at float stations is taken from llh2xyz(h=1)-llh2xyz(h=0) (instrument, judged itself against "
        "the exact normal on the lattice; tolerance 1e-7)",
        "Student-t clause: A(q -+ 0.5e-5 | nu) bracket 0.95 with a 1e-15 guard for BigFix truncation; even nu algebraic, odd nu "
        "through the alternating arctangent series and PiLo < pi < PiHi",
    ]
    pool.shutdown()


def selftest(traces, ktr, fails):
    """corrupt one logged field / drop one event: TLC must reject."""
    bad = set(i for (i, l, c) in fails)
    generic = lambda t: not t["pyth"] or (t["pyth"][2] > 1 and t["pyth"][5] > 1)      # not a pole / cardinal meridian
    base = next((t for i, t in enumerate(traces) if i not in bad and t["kind"] == "frame" and len(t["ev"]) >= 4 and generic(t)
                 and t["ev"][1]["a"] == "VcvC2L" and t["ev"][1]["shape"] == "3x3" and not any(e["exc"] for e in t["ev"])), None)
    out = {"ran": base is not None}
    if base is None:
        return out
    t1 = copy.deepcopy(base)              # one entry of the rotated covariance off by 1e-6 of the matrix scale
    y = t1["ev"][1]["y"]
    scale = max(abs(fix.dec(x)) for row in t1["ev"][1]["x"] for x in row) or Fraction(1)
    y[0][1] = fix.enc(fix.dec(y[0][1]) + scale / 10 ** 6)
    t2 = copy.deepcopy(base)              # the rotation-matrix event removed
    del t2["ev"][0]
    t3 = copy.deepcopy(base)              # rotation matrix transposed (still orthonormal, right-handed)
    m = t3["ev"][0]["y"]
    t3["ev"][0]["y"] = [[m[j][i] for j in range(3)] for i in range(3)]
    k1 = copy.deepcopy(ktr)               # one even and one odd table entry off by 1e-5
    k1["ev"][50 + 5]["y"] = fix.enc(fix.dec(k1["ev"][50 + 5]["y"]) + Fraction(1, 10 ** 5))
    k2 = copy.deepcopy(ktr)
    k2["ev"][51 + 5]["y"] = fix.enc(fix.dec(k2["ev"][51 + 5]["y"]) - Fraction(1, 10 ** 5))
    for kk, d in ((k1, 50), (k2, 51)):    # only the corrupted entry needs the expensive clause
        kk["qmod"] = [200, d]
    res = validate([strip(t) for t in (base, t1, t2, t3, k1, k2)], None, None, par=6)
    rej = {i: c for (i, l, c) in res}
    out.update({"baseline_accepted": 0 not in rej, "covariance_entry_off_rejected": rej.get(1), "removed_RotM_rejected": rej.get(2),
                "transposed_frame_rejected": rej.get(3), "k50_plus_1e-5_rejected": rej.get(4), "k51_minus_1e-5_rejected": rej.get(5)})
    if 0 in rej or not all(i in rej for i in (1, 2, 3, 4, 5)):
        raise tlc.MachineryError("binding self-test failed: %s" % out)
    return out


def replay(ctx, data):
    R = Runner()
    c = data["case"]
    if c["kind"] == "frame":
        pyth = (tuple(c["pyth"][:3]), tuple(c["pyth"][3:])) if c["pyth"] else None
        plan = [tuple(s) for s in c["plan"]]
        tr = R.station_trace(pyth, c["lat"], c["lon"], plan)
    elif c["kind"] == "ellipse":
        tr = R.ellipse_trace(c["V"], tuple(c["design"]))
    else:
        tr = R.k_trace()
    if tr["kind"] == "k":
        fails, res = validate_k(tr)
        for r in res:
            ctx.add_tlc(r, None)
    else:
        fails = validate([strip(tr)], ctx, "replay", par=1)
    report([tr], fails, ctx)
    print("replayed %d calls (%s); verdict by Trace_Local: %s" % (len(tr["ev"]), [e["a"] for e in tr["ev"]][:12],
                                                                  fails if fails else "accepted"))
