"""C18 - editing a SINEX solution keeps exactly the remaining parameters and covariance.

spec/Sinex.tla (documents, the three editors, the three readers, file grammar, matrix layout, clock)
 -> TLC checks the model exhaustively on small documents (MC_Sinex) and generates behaviours
    (start document, sequence of editor calls with their removal sets and wall clocks)
 -> this driver renders each start document as SINEX 2.02 text (harness/sinexio.py), executes the
    behaviour on the real geodepy.gnss functions in a scratch directory under a substituted clock
    (each output.snx is fed back as the next input), tokenises every file written and encodes what
    the readers return
 -> spec/Trace_Sinex.tla (TLC) decides every clause.
The stamp lattice (every second of a day x dates x fractions) is replayed into set_creation_time()
and judged by the same trace specification.
"""
import copy
import json
import os
import random
import shutil
import tempfile
import time

from harness import sinexio as sx
from harness import tlc, tracecheck

READS = ("ReadEstimate", "ReadMatrix", "ReadSites")


# ----------------------------------------------------------------------------------------------
# behaviours out of TLC
# ----------------------------------------------------------------------------------------------
def gen_cfg(spec, master, minn, variants, clkall, depth, rot, nrand):
    return ("SPECIFICATION %s\nCONSTANT Master <- %s\nCONSTANT MinN = %d\nCONSTANT Variants <- %s\n"
            "CONSTANT ClkAll = %s\nCONSTANT D = %d\nCONSTANT Rot = %s\nCONSTANT NRand = %d\nCONSTRAINT Bound\nCHECK_DEADLOCK FALSE\n"
            % (spec, master, minn, variants, "TRUE" if clkall else "FALSE", depth, "TRUE" if rot else "FALSE", nrand))


def _label(x):
    name, arg, clock = x
    s = sorted(arg["__set__"]) if isinstance(arg, dict) else list(arg)
    return [name, s, list(clock)]


def behaviours(ctx, label, spec, master, minn, variants, clkall, depth, rot=False, nrand=0, timeout=1800, seed=None):
    """ctx given: accounted there, returns the list; ctx None: returns (list, TLC result, label)"""
    cfg = tracecheck.write_tmp(gen_cfg(spec, master, minn, variants, clkall, depth, rot, nrand), ".cfg")
    try:
        r = tlc.run_tlc("MC_Sinex", cfg, workers=1, tags=("BEH",), timeout=timeout,
                        seed=seed if seed is not None else (ctx.seed if ctx is not None else 1))
    finally:
        os.unlink(cfg)
    if ctx is not None:
        ctx.add_tlc(r, label)
    out = []
    seen = set()
    for p in r.prints:
        b = (p[1], [_label(x) for x in p[2]])
        key = json.dumps(b, sort_keys=True)
        if key in seen:
            continue
        seen.add(key)
        out.append(b)
    return out if ctx is not None else (out, r, label)


# ----------------------------------------------------------------------------------------------
# execution on the real code
# ----------------------------------------------------------------------------------------------
class Runner:
    def __init__(self, seed):
        import numpy
        self.np = numpy
        self.g = sx.gnss()
        self.seed = seed
        self.calls = 0
        self.docs = []          # Data.docs
        self.dockey = {}
        self.dir = tempfile.mkdtemp(prefix="gvf_c18_")
        self.cwd = os.getcwd()

    def close(self):
        os.chdir(self.cwd)
        shutil.rmtree(self.dir, ignore_errors=True)

    def doc(self, adoc, variant):
        """concrete start document (cached): returns 1-based index into Data.docs"""
        key = json.dumps([adoc, variant], sort_keys=True)
        if key in self.dockey:
            return self.dockey[key]
        sites = []
        for s, _ in adoc["ent"]:
            if s not in sites:
                sites.append(s)
        assert sites == list(range(1, len(sites) + 1)), "sites must be numbered in order of first appearance"
        rnd = random.Random("%s:%s" % (self.seed, key))
        txt = sx.concretise(adoc, rnd, self.np)
        if variant % 3 == 1:
            txt["hdr"]["ctime"] = txt["hdr"]["start"]     # creation time = data start: both fields spell the same text
        text = sx.render(adoc, txt)
        self.docs.append({"adoc": adoc, "variant": variant, "text": txt, "lines": sx.tokenize(text), "file": text})
        self.dockey[key] = len(self.docs)
        return len(self.docs)

    def _edit(self, name, S, codes, path):
        g = self.g
        if name == "RemoveStns":
            g.remove_stns_sinex(path, [codes[s - 1] for s in S])
        elif name == "RemoveVel":
            g.remove_velocity_sinex(path)
        elif name == "RemoveZeros":
            g.remove_matrixzeros_sinex(path)
        else:
            raise ValueError(name)

    def _read(self, name, path):
        g = self.g
        if name == "ReadEstimate":
            return sx.est_obs(g.read_sinex_estimate(path))
        if name == "ReadMatrix":
            return sx.mat_obs(g.read_sinex_matrix(path))
        return sx.sites_obs(g.read_sinex_sites(path))

    def run(self, di, labels, reads="all", with_input=False):
        """execute one behaviour; returns the trace"""
        doc = self.docs[di - 1]
        codes = doc["text"]["codes"]
        os.chdir(self.dir)
        for f in os.listdir(self.dir):
            os.unlink(os.path.join(self.dir, f))
        cur = os.path.join(self.dir, "in0.snx")
        with open(cur, "w") as f:
            f.write(doc["file"])
        tr = {"kind": "doc", "di": di, "labels": labels, "ev": []}

        def do_reads(which):
            for rname in which:
                ev = {"a": rname, "S": [], "clock": [], "exc": "", "lines": [], "out": []}
                try:
                    self.calls += 1
                    ev["out"] = self._read(rname, cur)
                except BaseException as ex:     # noqa: the readers are part of the API under test
                    ev["exc"] = "%s: %s" % (type(ex).__name__, str(ex)[:120])
                tr["ev"].append(ev)
                if ev["exc"]:
                    return False
            return True

        if with_input:
            tr["ev"].append({"a": "Input", "S": [], "clock": [], "exc": "", "lines": [], "out": []})
            if not do_reads(READS):
                return tr
        for k, (name, S, clock) in enumerate(labels):
            ev = {"a": name, "S": S, "clock": clock, "exc": "", "lines": [], "out": []}
            sx.set_clock(clock)
            out = os.path.join(self.dir, "output.snx")
            if os.path.exists(out):
                os.unlink(out)
            try:
                self.calls += 1
                self._edit(name, S, codes, cur)
                with open(out) as f:
                    text = f.read()
                ev["lines"] = sx.tokenize(text)
            except BaseException as ex:         # noqa: SystemExit from exit() included
                ev["exc"] = "%s: %s" % (type(ex).__name__, str(ex)[:120])
            tr["ev"].append(ev)
            if ev["exc"]:
                break
            nxt = os.path.join(self.dir, "in%d.snx" % (k + 1))
            os.replace(out, nxt)
            cur = nxt
            which = READS if reads == "all" else ([READS[(k + len(S)) % 3]] if reads == "one" else [])
            if not do_reads(which):
                break
        os.chdir(self.cwd)
        return tr

    def stamp_traces(self, dates, fracs, hours=range(24)):
        import datetime
        g = self.g
        out = []
        for (y, mo, dd) in dates:
            for f in fracs:
                for hr in hours:
                    obs = []
                    for q in range(3600):
                        sx.FakeDT._now = datetime.datetime(y, mo, dd, hr, q // 60, q % 60, f * 100000)
                        try:
                            obs.append(str(g.set_creation_time()))
                        except Exception as ex:
                            obs.append("raised %s" % type(ex).__name__)
                    self.calls += 3600
                    out.append({"kind": "stamp", "date": [y, mo, dd], "hour": hr, "f": f, "obs": obs})
        return out


# ----------------------------------------------------------------------------------------------
# TLC decides
# ----------------------------------------------------------------------------------------------
def weight(t):
    if t["kind"] == "stamp":
        return len(t["obs"]) // 40
    return 1 + sum(len(e["lines"]) for e in t["ev"]) // 8


def validate(traces, docs, ctx, label, par=4):
    """TLC decides.  Only the documents a batch refers to are shipped with it; the traces are dealt round
    robin (heaviest first) over `par` single-worker TLC processes.  Returns [(index, l, clause)]."""
    n = len(traces)
    if n == 0:
        return [] if ctx is not None else ([], [])
    used = sorted(set(t["di"] for t in traces if t["kind"] == "doc"))
    remap = {di: k + 1 for k, di in enumerate(used)}
    dd = [{"adoc": docs[di - 1]["adoc"], "text": docs[di - 1]["text"], "lines": docs[di - 1]["lines"]} for di in used]
    par = max(1, min(par, n))
    size = (n + par - 1) // par
    order = sorted(range(n), key=lambda i: -weight(traces[i]))
    groups = [order[j::par] for j in range(par)]
    # tracecheck.validate cuts contiguous slices of `size`: pad the groups to that size with a trivial trace
    filler = {"kind": "stamp", "date": [2026, 1, 1], "hour": 0, "f": 0, "obs": []}
    flat = []
    back = []
    for gr in groups:
        for i in gr:
            t = traces[i]
            flat.append({"kind": "doc", "di": remap[t["di"]], "ev": t["ev"]} if t["kind"] == "doc" else t)
            back.append(i)
        for _ in range(size - len(gr)):
            flat.append(filler)
            back.append(None)
    fails, results = tracecheck.validate("Trace_Sinex", "Trace_Sinex.cfg", flat, None, None, extra={"docs": dd},
                                         min_chunk=size, par=par, timeout=3000)
    out = [(back[i], l, c) for (i, l, c) in fails if back[i] is not None]
    if ctx is not None:
        account(ctx, label, traces, out, results)
        return out
    return out, results


def account(ctx, label, traces, fails, results):
    for r in results:
        ctx.add_tlc(r, None)
    ctx.traces += len(traces) - len(set(i for (i, l, c) in fails))
    if label and results:
        ctx.extra.setdefault("tlc_runs", []).append(
            {"run": label, "processes": len(results), "generated": sum(r.generated for r in results),
             "distinct": sum(r.distinct for r in results), "wall_s": round(max(r.wall for r in results), 2)})


def clock_class(c):
    if not c:
        return "none"
    sod = c[3] * 3600 + c[4] * 60 + c[5]
    cls = "sod<10" if sod < 10 else "sod<100" if sod < 100 else "sod<1000" if sod < 1000 else "sod<10000" if sod < 10000 else "sod>=10000"
    if c[6] >= 5:
        cls += ",frac>=.5"
    return cls


def describe(tr, l, clause, docs):
    if tr["kind"] == "stamp":
        sod = tr["hour"] * 3600 + (l - 1)
        c = [0, 0, 0, tr["hour"], (l - 1) // 60, (l - 1) % 60, tr["f"]]
        return {"clause": clause, "action": "set_creation_time", "clock_class": clock_class(c),
                "last_second_of_day": sod == 86399}
    if not l:
        return {"clause": clause, "action": "?"}
    ev = tr["ev"][l - 1]
    a = docs[tr["di"] - 1]["adoc"]
    prev = [e["a"] for e in tr["ev"][:l - 1] if e["a"] not in READS and e["a"] != "Input"]
    d = {"clause": clause, "action": ev["a"], "tri": a["tri"], "vel_at_start": a["vel"], "after": prev}
    if ev.get("exc"):
        d["exception"] = ev["exc"].split(":")[0]
    if ev["a"] in ("RemoveStns", "RemoveVel", "RemoveZeros") and clause.split(".")[1:2] in (["Header"], ["raised"]):
        d["clock_class"] = clock_class(ev["clock"])
    return d


def report(traces, fails, docs, ctx):
    seen = {}
    for (i, l, clause) in fails:
        tr = traces[i]
        dsc = describe(tr, l, clause, docs)
        key = json.dumps(dsc, sort_keys=True)
        seen.setdefault(key, []).append((i, l))
    if os.environ.get("C18_DEBUG"):
        cl = {}
        for (i, l, clause) in fails:
            cl[clause] = cl.get(clause, 0) + 1
        for c, n in sorted(cl.items()):
            print("  [c18] FAIL %-60s %d traces" % (c, n), flush=True)
    for key, occ in seen.items():
        i, l = occ[0]
        tr = traces[i]
        dsc = json.loads(key)
        if tr["kind"] == "stamp":
            detail = "date=%s hour=%d second_of_hour=%d tenth=%d returned %r (%d traces fail alike)" % (
                tr["date"], tr["hour"], l - 1, tr["f"], tr["obs"][l - 1] if l else None, len(occ))
            case = {"kind": "stamp", "date": tr["date"], "hour": tr["hour"], "f": tr["f"]}
        else:
            doc = docs[tr["di"] - 1]
            ev = tr["ev"][l - 1] if l else {}
            shown = {k: ev.get(k) for k in ("a", "S", "clock", "exc")}
            if ev.get("lines"):
                shown["last_lines"] = [x["raw"][:90] for x in ev["lines"][-3:]]
                shown["header"] = ev["lines"][0]["raw"]
            if ev.get("out"):
                shown["out_first"] = ev["out"][0]
            detail = "start=%s calls=%s event=%s (%d traces fail alike)" % (
                json.dumps(doc["adoc"]), json.dumps(tr["labels"]), json.dumps(shown)[:900], len(occ))
            case = {"kind": "doc", "adoc": doc["adoc"], "variant": doc["variant"], "labels": tr["labels"],
                    "reads": tr.get("reads", "all"), "with_input": tr["ev"][0]["a"] == "Input" if tr["ev"] else False}
        ctx.violation(dsc, detail=detail, case=case)


# ----------------------------------------------------------------------------------------------
def _t(ctx, what, t0):
    ctx.extra.setdefault("phases_s", {})[what] = round(time.time() - t0, 1)
    if os.environ.get("C18_DEBUG"):
        print("  [c18] %-28s %.1fs" % (what, time.time() - t0), flush=True)


def run(ctx):
    from concurrent.futures import ThreadPoolExecutor
    quick = ctx.tier == "quick"
    t0 = time.time()
    # 1. the model itself (exhaustive on small documents: every invariant, law and action property) and
    # 2. the behaviours, all out of TLC (independent runs, started together)
    G = lambda *a, **k: (lambda: behaviours(None, *a, **k))
    jobs = {"mc": lambda: tlc.run_tlc("MC_Sinex", "MC_Sinex.cfg", workers=2, coverage=True, timeout=1800),
            "b1": G("gen small depth 1 (every transition, 16 layouts)", "SpecEd", "MasterSmall", 1, "AllVariants", False, 1, seed=ctx.seed),
            "bclk": G("gen clock sweep (every clock x every editor)", "SpecEd", "MasterSmall", 3, "BigVariants", True, 1, seed=ctx.seed)}
    if quick:
        jobs["b2"] = G("gen small depth 2 (4 layouts, >= 4 entries)", "SpecEd", "MasterSmall", 4, "BigVariants", False, 2, seed=ctx.seed)
        jobs["bb"] = G("gen 12 stations, picked removal sets, depth 1", "SpecPick", "MasterBig", 13, "BigVariants", False, 1, seed=ctx.seed)
        jobs["bs"] = G("gen 12 stations, 3 random removal sets (drawn by TLC), chains depth 2", "SpecRand", "MasterBig", 13,
                       "BigVariants2", False, 2, nrand=3, seed=ctx.seed)
    else:
        jobs["b2"] = G("gen small depth 2 (16 layouts)", "SpecEd", "MasterSmall", 2, "AllVariants", False, 2, seed=ctx.seed)
        jobs["b3"] = G("gen small depth 3 (4 layouts, >= 4 entries)", "SpecEd", "MasterSmall", 4, "BigVariants", False, 3, seed=ctx.seed)
        jobs["bb"] = G("gen 12 stations, picked removal sets, depth 2", "SpecPick", "MasterBig", 13, "BigVariants", False, 2, seed=ctx.seed)
        jobs["bsweep"] = G("gen 12 stations, EVERY removal set (layout rotates with the set)", "SpecStns", "MasterBig", 13,
                           "BigVariants", False, 1, rot=True, timeout=3000, seed=ctx.seed)
        jobs["bs"] = G("gen 12 stations, 12 random removal sets (drawn by TLC), chains depth 2", "SpecRand", "MasterBig", 13,
                       "BigVariants", False, 2, nrand=12, seed=ctx.seed)
    with ThreadPoolExecutor(max_workers=6) as ex:
        futs = {k: ex.submit(f) for k, f in jobs.items()}
        res = {k: f.result() for k, f in futs.items()}
    r = res.pop("mc")
    ctx.add_tlc(r, "MC_Sinex exhaustive (<= 5 entries / 4 sites, 16 layouts)")
    if r.violated:
        raise tlc.MachineryError("Sinex model violates its own invariant %s\n%s" % (r.violated, r.out[-3000:]))
    for a in ("RemoveStnsAny", "RemoveVel", "RemoveZeros", "ReadEstimate", "ReadMatrix", "ReadSites"):
        if r.coverage.get(a, (0, 0))[1] == 0:
            raise tlc.MachineryError("action %s never taken in the exhaustive run (vacuous model)" % a)
    for k in jobs:
        if k != "mc":
            ctx.add_tlc(res[k][1], res[k][2])
            res[k] = res[k][0]
    b1, bclk = res["b1"], [b for b in res["bclk"] if len(b[0]["ent"]) == 3]
    b2 = res["b2"] + res.get("b3", [])
    bs = res["bs"]
    bbig = res["bb"] + res.get("bsweep", []) + bs
    ctx.extra["random_big_chains"] = len(bs)
    plan = [(b1, "all"), (bclk, "none"), (b2, "one"), (bbig, "one")]

    _t(ctx, "behaviour generation", t0)
    t0 = time.time()
    # 3. execute on the real code
    R = Runner(ctx.seed)
    try:
        traces = []
        nb = 0
        for (behs, reads) in plan:
            for k, (adoc, labels) in enumerate(behs):
                big = len(adoc["ent"]) > 5
                di = R.doc(adoc, 0 if big else k % 3)
                tr = R.run(di, labels, reads=reads)
                tr["reads"] = reads
                traces.append(tr)
                nb += 1
                ctx.nontrivial(json.dumps([adoc, labels], sort_keys=True))
                for e in tr["ev"]:
                    ctx.actions[e["a"]] = ctx.actions.get(e["a"], 0) + 1
        # every start document is itself judged (renderer/tokenizer binding) and read by the three readers
        for di in range(1, len(R.docs) + 1):
            tr = R.run(di, [], with_input=True)
            tr["reads"] = "all"
            traces.append(tr)
            for e in tr["ev"]:
                ctx.actions[e["a"]] = ctx.actions.get(e["a"], 0) + 1
        stamps_dates = [(2026, 1, 1), (2024, 12, 31), (2024, 2, 29), (1999, 12, 31), (2009, 3, 1)]
        if quick:
            st = R.stamp_traces([(2026, 1, 1)], [0]) \
                + R.stamp_traces([(2024, 12, 31), (2024, 2, 29), (1999, 12, 31), (2000, 1, 1)], [0, 4, 6], hours=[0, 2, 12, 23])
        else:
            st = R.stamp_traces(stamps_dates, [0, 4, 6]) + R.stamp_traces([(2000, 1, 1), (2100, 3, 1)], [0, 5], hours=[0, 2, 12, 23])
        ctx.evaluations = R.calls
        docs = R.docs
        for a in ("RemoveStns", "RemoveVel", "RemoveZeros", "Input") + READS:
            if not ctx.actions.get(a):
                raise tlc.MachineryError("no %s event was recorded from the real code (vacuous run)" % a)
    finally:
        R.close()

    _t(ctx, "execution on real code", t0)
    t0 = time.time()
    # 4. TLC decides (three batches side by side, at most 8 TLC processes in all)
    small = [t for t in traces if len(docs[t["di"] - 1]["adoc"]["ent"]) <= 5]
    bigt = [t for t in traces if len(docs[t["di"] - 1]["adoc"]["ent"]) > 5]
    with ThreadPoolExecutor(max_workers=3) as ex:
        f1 = ex.submit(validate, small, docs, None, None, 3)
        f2 = ex.submit(validate, bigt, docs, None, None, 3 if quick else 4)
        f3 = ex.submit(validate, st, docs, None, None, 2)
        batches = [("Trace_Sinex small documents", small, f1.result()), ("Trace_Sinex 12-station documents", bigt, f2.result()),
                   ("Trace_Sinex stamp lattice", st, f3.result())]
    for (label, trs, (fails, results)) in batches:
        account(ctx, label, trs, fails, results)
        report(trs, fails, docs, ctx)
    small_failed = set(i for (i, l, c) in batches[0][2][0])
    nsec = sum(len(t["obs"]) for t in st)

    _t(ctx, "trace validation", t0)
    t0 = time.time()
    # 5. binding self-test
    ctx.selftest(selftest, small, docs, small_failed)
    ctx.extra["alpha_selftest"] = alpha_selftest()
    ctx.extra["stamp_lattice_points"] = nsec
    _t(ctx, "self-tests", t0)
    ctx.rule = ("behaviours generated by TLC from Sinex.tla: every (start document, editor call) transition for documents "
                "of 1..5 station entries (4 sites, one with two solution numbers, solution numbers 1..3) x vel/no-vel x L/U x "
                "dense/block-diagonal covariance x with/without comment block x EVERY removal set; every wall clock of the "
                "table x every editor; depth-2%s chains (outputs fed back); 12-station documents (13 entries, 39/78 parameters) "
                "with %s; each executed once on the real functions under a substituted clock, the three readers after "
                "the calls; plus %d (date, second, fraction) points of the creation-stamp lattice; distinct = distinct "
                "(start document, call sequence); the repository has no test for geodepy.gnss"
                % ("" if quick else "/3", "picked removal sets and %d chains over random removal sets" % len(bs) if quick
                   else "EVERY one of the 4095 removal sets, picked sets at depth 2 and %d chains over random removal sets" % len(bs), nsec))
    ctx.exhaustive = not quick
    for tr in (traces[:1] + traces[len(b1):len(b1) + 1] + bigt[:1]):
        doc = docs[tr["di"] - 1]
        ctx.sample({"start": doc["adoc"], "calls": tr["labels"], "header_in": doc["file"].split("\n")[0],
                    "header_out": [e["lines"][0]["raw"] for e in tr["ev"] if e["lines"]][-1:]})
    ctx.sample({"stamp": st[0]["date"], "hour": st[0]["hour"], "first": st[0]["obs"][:3]})
    ctx.assumptions += [
        "removal sets are sets of stations present in the file that leave at least one station",
        "values written with 15 significant digits (%21.14e) / 6 (%11.5e) / one decimal (F7.1): a returned float is projected "
        "on the same lattice before TLC compares it with the written field",
        "free text lines of the FILE/COMMENT block and '*' comment lines are opaque (not compared)",
        "the fraction of a second may be truncated or rounded half up by the stamp; 86400 is never a second of the day",
        "matrix comparison of remove_stns / remove_velocity is by element (any line blocking accepted); zero elements may be omitted",
    ]


def selftest(traces, docs, failed):
    """corrupt one logged field / drop one event / renumber one row: TLC must reject"""
    base = None
    for i, t in enumerate(traces):
        if i in failed:
            continue
        evs = [e for e in t["ev"] if e["a"] == "RemoveStns" and e["lines"] and not e["exc"]]
        if evs and all(not e["exc"] for e in t["ev"]) and any(e["a"] == "ReadEstimate" for e in t["ev"]) \
                and t["ev"][0]["a"] == "RemoveStns" and t["ev"][0]["S"]:
            base = t
            break
    if base is None:
        return {"ran": False, "why": "no accepted RemoveStns trace with reads (the tree fails earlier)"}

    def idx(t, pred):
        return [i for i, e in enumerate(t["ev"]) if pred(e)][0]
    out = {"ran": True}
    muts = []
    # a. renumber one estimate row
    t1 = copy.deepcopy(base)
    e = t1["ev"][idx(t1, lambda e: e["a"] == "RemoveStns")]
    li = [i for i, x in enumerate(e["lines"]) if x["k"] == "data" and "STAX" in x["w"]][0]
    e["lines"][li]["raw"] = e["lines"][li]["raw"].replace("    1 STAX", "    2 STAX", 1)
    e["lines"][li]["w"][0] = "2"
    muts.append(("renumbered_estimate_row_rejected", t1))
    # b. one covariance value altered in the last digit
    t2 = copy.deepcopy(base)
    e = t2["ev"][idx(t2, lambda e: e["a"] == "RemoveStns")]
    li = [i for i, x in enumerate(e["lines"]) if x["k"] == "data" and len(x["w"]) in (3, 4, 5) and x["n"][0] >= 1 and x["n"][1] >= 1][-1]
    w = e["lines"][li]["w"][2]
    e["lines"][li]["w"][2] = w[:15] + ("1" if w[15] != "1" else "2") + w[16:]
    muts.append(("altered_covariance_digit_rejected", t2))
    # c. block close line glued to the trailer
    t3 = copy.deepcopy(base)
    e = t3["ev"][idx(t3, lambda e: e["a"] == "RemoveStns")]
    e["lines"] = e["lines"][:-2] + [{"k": "close", "raw": "-SOLUTION/MATRIX_ESTIMATE%ENDSNX", "w": ["-SOLUTION/MATRIX_ESTIMATE%ENDSNX"],
                                      "n": [-1], "nm": "SOLUTION/MATRIX_ESTIMATE%ENDSNX"}]
    muts.append(("glued_trailer_rejected", t3))
    # d. a reader value altered
    t4 = copy.deepcopy(base)
    e = t4["ev"][idx(t4, lambda e: e["a"] == "ReadEstimate")]
    e["out"][0][3] = e["out"][0][3][:-5] + "9" + e["out"][0][3][-4:]
    muts.append(("altered_reader_value_rejected", t4))
    # e. the editor event dropped (the readers then see a file the model does not expect)
    t5 = copy.deepcopy(base)
    k = idx(t5, lambda e: e["a"] == "RemoveStns")
    drop_ok = len(t5["ev"][k]["S"]) > 0
    del t5["ev"][k]
    muts.append(("dropped_event_rejected", t5))
    # f. header count not matching
    t6 = copy.deepcopy(base)
    e = t6["ev"][idx(t6, lambda e: e["a"] == "RemoveStns")]
    hl = e["lines"][0]
    hl["raw"] = hl["raw"][:60] + "00099" + hl["raw"][65:]
    hl["w"][8] = "00099"
    muts.append(("wrong_header_count_rejected", t6))
    res, _ = validate([base] + [m[1] for m in muts], docs, None, None, 1)
    rej = set(i - 1 for (i, l, c) in res)
    if -1 in rej:
        raise tlc.MachineryError("binding self-test: the unmodified base trace was rejected on its own")
    for i, (name, _) in enumerate(muts):
        out[name] = i in rej
    need = [n for i, (n, _) in enumerate(muts) if not (n == "dropped_event_rejected" and not drop_ok)]
    if not all(out[n] for n in need):
        raise tlc.MachineryError("binding self-test failed: %s" % out)
    return out


def alpha_selftest():
    """abstract -> render -> tokenize gives back the records (Python-level check of the projection only)"""
    import numpy
    rnd = random.Random(5)
    adoc = {"ent": [[1, 1], [2, 2], [2, 3]], "vel": True, "tri": "U", "bd": False, "comm": True}
    txt = sx.concretise(adoc, rnd, numpy)
    toks = sx.tokenize(sx.render(adoc, txt))
    est = [t for t in toks if t["k"] == "data" and len(t["w"]) == 10]
    ok = len(est) == txt["n"] and all(t["raw"] == " %5d%s" % (i + 1, txt["estrest"][i]) for i, t in enumerate(est))
    ok = ok and toks[0]["k"] == "header" and toks[-1]["k"] == "trailer" and sx.norm("1.00000000000000E-06") == "1.00000000000000e-06"
    if not ok:
        raise tlc.MachineryError("alpha self-test failed")
    return {"render_tokenize_roundtrip": True}


def replay(ctx, data):
    c = data["case"]
    R = Runner(data.get("seed", ctx.seed))
    try:
        if c["kind"] == "stamp":
            trs = R.stamp_traces([tuple(c["date"])], [c["f"]], hours=[c["hour"]])
            docs = []
        else:
            di = R.doc(c["adoc"], c["variant"])
            tr = R.run(di, [tuple(x) for x in c["labels"]], reads=c.get("reads", "all"), with_input=c.get("with_input", False))
            tr["labels"] = c["labels"]
            trs = [tr]
            docs = R.docs
    finally:
        R.close()
    fails = validate(trs, docs, ctx, "replay", 1)
    report(trs, fails, docs, ctx)
    print("replayed %d trace(s); verdict by Trace_Sinex: %s" % (len(trs), fails if fails else "accepted"))
