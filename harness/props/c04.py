"""C04 / C05 - direct and inverse geodesic solutions (geodepy.geodesy.vincdir / vincinv).

spec/Geodesic.tla + MeridianArc.tla (exact meridian and equator oracles) + Trace_Geodesic.tla.
TLC enumerates the case skeleton and computes the meridian arcs the driver asks for (ArcService);
the driver runs the real code; TLC decides every law on the logged numbers.
"""
import json
import math
import random
from fractions import Fraction

from harness import alpha, fix, tlc, tracecheck

TRIS = [(0, 1, 1), (3, 4, 5), (4, 3, 5), (5, 12, 13), (12, 5, 13), (8, 15, 17), (15, 8, 17), (7, 24, 25), (24, 7, 25),
        (20, 21, 29), (21, 20, 29), (9, 40, 41), (40, 9, 41), (11, 60, 61), (60, 11, 61), (1, 0, 1)]
TRIS = TRIS + [(-p, q, r) for (p, q, r) in TRIS if p]
PREFIX = {"C04": "c04_", "C05": "c05_"}


def _mods():
    import geodepy.constants as gc
    import geodepy.geodesy as gd
    import geodepy.angles as an
    return gc, gd, an


def lat_of(t):
    return math.degrees(math.atan2(t[0], t[1]))


def E_(x):
    return fix.enc(float(x))


def bigfix_to_fraction(rec):
    n = 0
    for i, l in enumerate(rec["mag"]):
        n += l * 10000 ** i
    v = Fraction(n, 10000 ** fix.FL)
    return -v if rec["neg"] else v


class Skip(Exception):
    pass


class Geo:
    not_applicable = 0

    def __init__(self, rnd):
        self.gc, self.gd, self.an = _mods()
        self.rnd = rnd
        gc = self.gc
        self.ells = [("grs80", gc.grs80), ("wgs84", gc.wgs84), ("ans", gc.ans), ("intl24", gc.intl24)]
        for _ in range(2):
            a = round(rnd.uniform(6.3e6, 6.4e6), 3)
            invf = round(rnd.uniform(280, 320), 6)
            self.ells.append(("rand(%s,%s)" % (a, invf), alpha.build(gc.Ellipsoid, a, invf)))
        self.calls = 0

    def ell(self, cls):
        if cls == "rand":
            return self.ells[4 + self.rnd.randrange(2)]
        return [e for e in self.ells if e[0] == cls][0]

    def ell_rec(self, e):
        name, E = e
        a, invf = alpha.defn(E, "semimaj", "inversef")          # what the ellipsoid was built with, not what it says afterwards
        return {"name": name, "a": E_(a), "invf": E_(invf), "n0": E_(1.0 / (2.0 * invf - 1.0))}

    def arcs(self, ctx):
        """meridian distances for every (ellipsoid, triple) from TLC (ArcService)"""
        req = []
        keys = []
        for e in self.ells:
            for t in TRIS:
                r = self.ell_rec(e)
                req.append({"a": r["a"], "invf": r["invf"], "n0": r["n0"], "tri": list(t)})
                keys.append((e[0], t))
        import os
        from concurrent.futures import ThreadPoolExecutor
        nch = 10
        size = (len(req) + nch - 1) // nch

        def one(c0):
            p = tracecheck.write_tmp(json.dumps({"req": req[c0:c0 + size]}), ".json")
            try:
                return c0, tlc.run_tlc("ArcService", "ArcService.cfg", trace_file=p, workers=1, tags=("ARC",), timeout=1800)
            finally:
                os.unlink(p)
        with ThreadPoolExecutor(max_workers=nch) as ex:
            results = list(ex.map(one, range(0, len(req), size)))
        out = {}
        for c0, r in results:
            ctx.add_tlc(r, None)
            for x in r.tagged("ARC"):
                out[keys[c0 + x[1] - 1]] = bigfix_to_fraction(x[2])
        ctx.extra.setdefault("tlc_runs", []).append({"run": "ArcService: meridian distances for %d (ellipsoid, latitude) pairs" % len(req),
                                                     "processes": len(results), "wall_s": round(max(r.wall for _, r in results), 2)})
        if len(out) != len(keys):
            raise tlc.MachineryError("ArcService returned %d of %d arcs" % (len(out), len(keys)))
        return out

    # ---- real calls ----
    def fresh(self, E):
        """a NEW Ellipsoid object with the same defining numbers for every call: the property quantifies over arbitrary
        ellipsoids, and user code builds them on the fly (short-lived objects, recycled ids)"""
        self.keep = getattr(self, "keep", [])
        e = alpha.build(self.gc.Ellipsoid, *alpha.defn(E, "semimaj", "inversef")) if hasattr(E, "_verif_defn") else self.gc.Ellipsoid(E.semimaj, E.inversef)
        self.keep = (self.keep + [e])[-2:]
        return e

    def direct(self, lat, lon, az, s, E):
        self.calls += 1
        if self.calls % 3:
            E = self.fresh(E)
        la, lo, a21 = self.gd.vincdir(lat, lon, az, s, E)
        return {"lat": E_(la), "lon": E_(lo), "az": E_(a21), "f": (la, lo, a21), "hex": ",".join(float(v).hex() for v in (la, lo, a21))}

    def inverse(self, lat1, lon1, lat2, lon2, E):
        self.calls += 1
        if self.calls % 3:
            E = self.fresh(E)
        s, a12, a21 = self.gd.vincinv(lat1, lon1, lat2, lon2, E)
        return {"s": E_(s), "a12": E_(a12), "a21": E_(a21), "f": (s, a12, a21)}

    def oblique(self, lat, az, E):
        """the exact-geodesic clauses apply when cos(alpha0) >= 1e-3 (GeodesicOracle); lines running along the equator are the DEQ/IEQ
        events.  Only used to avoid generating events the specification would answer with `not_applicable`."""
        f = 1.0 / float(E.inversef)
        beta = math.atan((1 - f) * math.tan(math.radians(lat))) if abs(lat) < 90 else math.radians(lat)
        ca0 = math.hypot(math.cos(math.radians(az)), math.sin(math.radians(az)) * math.sin(beta))
        if ca0 < 2e-3:
            self.not_applicable += 1
            return False
        return True

    def ev(self, k, tag, fn):
        e = {"k": k, "tag": tag, "exc": "", "o": {}}
        try:
            e["o"] = fn()
        except Skip:
            raise
        except Exception as ex:
            e["exc"] = "%s: %s" % (type(ex).__name__, str(ex)[:100])
        return e


def cosb(lat, E):
    """cosine of the reduced latitude, tan(beta) = (1 - f) tan(lat): elementary auxiliary (alpha)"""
    f = 1.0 / float(E.inversef)
    if abs(lat) == 90.0:
        return E_(0.0)
    return E_(math.cos(math.atan((1.0 - f) * math.tan(math.radians(lat)))))


def cosd(x):
    return E_(max(math.cos(math.radians(x)), 0.0))


def pick_lat(rnd, band):
    lo, hi = {"S-polar": (-90, -70), "S-mid": (-70, -25), "S-low": (-25, -1e-6), "eq": (0, 0), "N-low": (1e-6, 25),
              "N-mid": (25, 70), "N-polar": (70, 90)}[band]
    if band.endswith("polar") and rnd.random() < 0.1:
        return float(lo if lo == -90 else hi)
    return rnd.uniform(lo, hi)


def pick_az(rnd, c):
    if c.startswith("oct"):
        k = int(c[3:]) - 1
        return rnd.uniform(45.0 * k + 1e-6, 45.0 * (k + 1) - 1e-6)
    return float(c)


def pick_dist(rnd, d):
    lo, hi = 10.0 ** d, min(10.0 ** (d + 1), 2.0e7)
    return round(rnd.uniform(lo, hi) if rnd.random() < 0.5 else math.exp(rnd.uniform(math.log(lo), math.log(hi))), 3)


def build_c04(g, cases, arcs, quick, rnd):
    evs = []
    # meridians (exact), incl. across the poles
    for e in g.ells:
        rec = g.ell_rec(e)
        E = e[1]
        Q = arcs[(e[0], (1, 0, 1))]
        for t1 in TRIS:
            if abs(lat_of(t1)) == 90:
                continue
            for t2 in TRIS:
                if t1 == t2 or (quick and (hash((t1, t2, e[0])) % 11)):
                    continue
                m1, m2 = arcs[(e[0], t1)], arcs[(e[0], t2)]
                lon1 = rnd.choice([0.0, 151.5, -73.25, 179.0])
                az = 0 if m2 > m1 else 180
                s = float(abs(m2 - m1))
                if s <= 2.0e7:
                    evs.append(g.ev("DMER", "meridian", lambda: {"ell": rec, "tri1": list(t1), "tri2": list(t2), "lon1": E_(lon1), "az": az,
                                                                   "cross": 0, "s": E_(s), "cos2": cosd(lat_of(t2)),
                                                                   "out": g.direct(lat_of(t1), lon1, float(az), s, E)}))
                for azc in (0, 180):
                    sc = float((Q - m1) + (Q - m2)) if azc == 0 else float((Q + m1) + (Q + m2))
                    if sc <= 2.0e7 and abs(lat_of(t2)) < 90 and not (quick and (hash((t1, t2, azc, e[0])) % 7)):
                        evs.append(g.ev("DMER", "pole-crossing", lambda: {"ell": rec, "tri1": list(t1), "tri2": list(t2), "lon1": E_(lon1),
                                                                            "az": azc, "cross": 1, "s": E_(sc), "cos2": cosd(lat_of(t2)),
                                                                            "out": g.direct(lat_of(t1), lon1, float(azc), sc, E)}))
        for k in ([0, 1, 45, 90, 179, 180] if quick else [0, 1, 2, 10, 45, 89, 90, 135, 170, 179, 180]):
            for az in (90, 270):
                lon1 = rnd.choice([0.0, -120.0, 100.0])
                s = float(E.semimaj) * math.radians(k)
                if s <= 2.0e7 + 1e5:
                    evs.append(g.ev("DEQ", "equator", lambda: {"ell": rec, "lon1": E_(lon1), "az": az, "kdeg": k, "s": E_(s),
                                                                "out": g.direct(0.0, lon1, float(az), s, E)}))
    # relational laws in every case of the skeleton
    # quick: one ellipsoid class per (latitude band, azimuth class, distance decade), rotating through the five classes
    # (the skeleton lists the ellipsoid fastest: a plain stride of 5 would always pick the same one)
    sub = [c for i, c in enumerate(cases) if c[1] == "direct" and (not quick or i % 5 == (i // 5) % 5)]
    for (_, _, c) in sub:
        for rep in range(1 if quick else 4):
            e = g.ell(c["ell"])
            E = e[1]
            lat, lon = pick_lat(rnd, c["lat"]), rnd.uniform(-180, 180)
            az, s = pick_az(rnd, c["az"]), pick_dist(rnd, c["dist"])
            tag = json.dumps(c, sort_keys=True)
            s1 = round(s * rnd.uniform(0.1, 0.9), 3)
            s2 = round(s - s1, 3)

            def flow():
                whole = g.direct(lat, lon, az, s1 + s2, E)
                leg1 = g.direct(lat, lon, az, s1, E)
                leg2 = g.direct(leg1["f"][0], leg1["f"][1], leg1["f"][2] - 180.0, s2, E)
                return {"p": {"lat": E_(lat), "lon": E_(lon), "az": E_(az)}, "s1": E_(s1), "s2": E_(s2), "whole": whole, "leg1": leg1,
                        "leg2": leg2, "cos2": cosd(whole["f"][0]), "ell": e[0]}
            evs.append(g.ev("DFLOW", tag, flow))

            def rev():
                out = g.direct(lat, lon, az, s, E)
                back = g.direct(out["f"][0], out["f"][1], out["f"][2], s, E)
                b = dict(back)      # the reverse azimuth after travelling back is the azimuth the line left the start with
                return {"p": {"lat": E_(lat), "lon": E_(lon), "az": E_(az)}, "s": E_(s), "out": out, "back": b, "cos1": cosd(lat), "ell": e[0]}
            evs.append(g.ev("DREV", tag, rev))

            def clair():
                out = g.direct(lat, lon, az, s, E)
                la2, lo2, a21 = out["f"]
                return {"lat2": E_(la2), "sa1": E_(math.sin(math.radians(az))), "cb1": cosb(lat, E),
                        "sa2": E_(math.sin(math.radians(a21 - 180.0))), "cb2": cosb(la2, E), "ell": e[0], "in": [lat, lon, az, s]}
            evs.append(g.ev("DCL", tag, clair))
            if rep == 0 and (not quick or rnd.random() < 0.25) and g.oblique(lat, az, E):
                form = ["float", "dec", "hp", "gon", "dms", "ddm", "float"][len(evs) % 7]

                def exact():
                    # latitude, longitude and azimuth handed over as floats or as objects of one of the five angle classes; the exact
                    # geodesic starts from the angles the objects denote
                    if form == "float":
                        return {"ell": g.ell_rec(e), "lat1": E_(lat), "lon1": E_(lon), "az": E_(az), "s": E_(s),
                                "out": g.direct(lat, lon, az, s, E), "in": [lat, lon, az, s], "form": form}
                    mk = {"dec": g.an.DECAngle, "hp": g.an.dec2hpa, "gon": g.an.dec2gona, "dms": g.an.dec2dms, "ddm": g.an.dec2ddm}[form]
                    o_lat, o_lon, o_az = mk(lat), mk(lon), mk(az)
                    return {"ell": g.ell_rec(e), "lat1": fix.enc(alpha.angle_deg(o_lat)), "lon1": fix.enc(alpha.angle_deg(o_lon)),
                            "az": fix.enc(alpha.angle_deg(o_az)), "s": E_(s), "out": g.direct(o_lat, o_lon, o_az, s, E),
                            "in": [lat, lon, az, s], "form": form}
                evs.append(g.ev("DGE", tag, exact))
            rel = rnd.choice(["reflect", "mirror", "shift", "zero", "args"])

            def sym():
                a = g.direct(lat, lon, az, s, E)
                o = {"rel": rel, "a": a, "lat1": E_(lat), "lon1": E_(lon), "off": E_(0.0), "cos": cosd(a["f"][0]), "ell": e[0]}
                if rel == "reflect":
                    o["b"] = g.direct(-lat, lon, 180.0 - az if az <= 180 else 540.0 - az, s, E)
                elif rel == "mirror":
                    o["b"] = g.direct(lat, lon, (360.0 - az) % 360.0, s, E)
                elif rel == "shift":
                    off = rnd.choice([360.0, -360.0, 90.0, -123.456, 180.0])
                    o["off"] = E_(off)
                    o["b"] = g.direct(lat, lon + off, az, s, E)
                elif rel == "zero":
                    o["a"] = g.direct(lat, lon, az, 0.0, E)
                    o["b"] = o["a"]
                    o["cos"] = cosd(lat)
                else:
                    o["b"] = g.direct(g.an.DECAngle(lat), g.an.DECAngle(lon), g.an.DECAngle(az), s, E)
                return o
            evs.append(g.ev("DSYM", tag, sym))
    return evs


def sph_sep(lat1, lon1, lat2, lon2):
    a = [math.cos(math.radians(lat1)) * math.cos(math.radians(lon1)), math.cos(math.radians(lat1)) * math.sin(math.radians(lon1)), math.sin(math.radians(lat1))]
    b = [math.cos(math.radians(lat2)) * math.cos(math.radians(lon2)), math.cos(math.radians(lat2)) * math.sin(math.radians(lon2)), math.sin(math.radians(lat2))]
    d = max(-1.0, min(1.0, sum(x * y for x, y in zip(a, b))))
    return math.degrees(math.acos(d))


def build_c05(g, cases, arcs, quick, rnd):
    evs = []
    for e in g.ells:
        rec = g.ell_rec(e)
        E = e[1]
        for t1 in TRIS:
            for t2 in TRIS:
                if t1 == t2 or (quick and (hash((t1, t2, e[0], 5)) % 6)):
                    continue
                if abs(lat_of(t1) - lat_of(t2)) > 177.9:
                    continue
                lon = rnd.choice([0.0, 151.5, -73.25])
                evs.append(g.ev("IMER", "meridian", lambda: {"ell": rec, "tri1": list(t1), "tri2": list(t2), "lon": E_(lon),
                                                               "out": g.inverse(lat_of(t1), lon, lat_of(t2), lon, E)}))
        for k in ([1, 45, 90, 135, 178] if quick else [1, 2, 10, 45, 89, 90, 91, 135, 170, 177, 178]):
            for east in (True, False):
                lon1 = rnd.choice([0.0, -120.0, 100.0, 170.0])
                lon2 = lon1 + k if east else lon1 - k
                if lon2 > 180:
                    lon2 -= 360
                if lon2 < -180:
                    lon2 += 360
                evs.append(g.ev("IEQ", "equator", lambda: {"ell": rec, "lon1": E_(lon1), "kdeg": k, "east": east,
                                                            "out": g.inverse(0.0, lon1, 0.0, lon2, E)}))
    sub = [c for i, c in enumerate(cases) if c[1] == "inverse" and (not quick or i % 2 == 0)]
    for (_, _, c) in sub:
        for rep in range(1 if quick else 6):
            e = g.ell(c["ell"])
            E = e[1]
            tag = json.dumps(c, sort_keys=True)
            for attempt in range(20):
                lat1, lat2 = pick_lat(rnd, c["lat1"]), pick_lat(rnd, c["lat2"])
                lon1 = rnd.uniform(-180, 180)
                d = {"0": 0.0, "tiny": rnd.choice([1e-8, 1e-6, 1e-4]), "small": rnd.uniform(0.001, 5), "90": rnd.uniform(60, 120),
                     "170": rnd.uniform(150, 177), "across180": rnd.uniform(1, 60)}[c["dlon"]]
                if c["dlon"] == "across180":
                    lon1 = rnd.uniform(175, 180)
                    lon2 = -180 + (d - (180 - lon1))
                else:
                    lon2 = lon1 + d if lon1 + d <= 180 else lon1 - d
                if sph_sep(lat1, lon1, lat2, lon2) <= 177.5 and not (abs(lat1 - lat2) < 1e-9 and abs(lon1 - lon2) < 1e-9):
                    break
            else:
                continue
            a = float(E.semimaj)

            def swap():
                ab = g.inverse(lat1, lon1, lat2, lon2, E)
                ba = g.inverse(lat2, lon2, lat1, lon1, E)
                return {"p1": [lat1, lon1], "p2": [lat2, lon2], "ab": ab, "ba": ba, "sinsig": E_(abs(math.sin(ab["f"][0] / a))), "ell": e[0]}
            evs.append(g.ev("ISWAP", tag, swap))

            def iclair():
                ab = g.inverse(lat1, lon1, lat2, lon2, E)
                s_, a12, a21 = ab["f"]
                return {"sa1": E_(math.sin(math.radians(a12))), "cb1": cosb(lat1, E), "sa2": E_(math.sin(math.radians(a21 - 180.0))),
                        "cb2": cosb(lat2, E), "sinsig": E_(abs(math.sin(s_ / a))), "ell": e[0], "in": [lat1, lon1, lat2, lon2]}
            if abs(lat1) < 89.0 and abs(lat2) < 89.0:
                evs.append(g.ev("ICL", tag, iclair))
            if rep < 2 and (not quick or rnd.random() < 0.17):
                iform = ["float", "dec", "hp", "gon", "dms", "ddm", "float"][len(evs) % 7]

                def iexact():
                    # the four coordinates as floats or as objects of one of the five angle classes; the exact geodesic is
                    # followed between the positions the objects denote
                    if iform == "float":
                        args, den = (lat1, lon1, lat2, lon2), [E_(lat1), E_(lon1), E_(lat2), E_(lon2)]
                    else:
                        mk = {"dec": g.an.DECAngle, "hp": g.an.dec2hpa, "gon": g.an.dec2gona, "dms": g.an.dec2dms, "ddm": g.an.dec2ddm}[iform]
                        args = tuple(mk(v) for v in (lat1, lon1, lat2, lon2))
                        den = [fix.enc(alpha.angle_deg(o)) for o in args]
                    ab = g.inverse(args[0], args[1], args[2], args[3], E)
                    if not g.oblique(lat1, ab["f"][1], E):
                        raise Skip()
                    return {"ell": g.ell_rec(e), "lat1": den[0], "lon1": den[1], "lat2": den[2], "lon2": den[3], "out": ab,
                            "in": [lat1, lon1, lat2, lon2], "form": iform}
                try:
                    evs.append(g.ev("IGE", tag, iexact))
                except Skip:
                    pass
            off = rnd.choice([360.0, -360.0, 37.5, -200.0, 180.0])

            def shift():
                ab = g.inverse(lat1, lon1, lat2, lon2, E)
                l1, l2 = lon1 + off, lon2 + off
                if not (-180 <= l1 <= 180 and -180 <= l2 <= 180) and abs(off) != 360.0:
                    # keep both inside [-180, 180] unless the offset is a full turn
                    l1 = (l1 + 180) % 360 - 180
                    l2 = (l2 + 180) % 360 - 180
                sh = g.inverse(lat1, l1, lat2, l2, E)
                return {"p1": [lat1, lon1], "p2": [lat2, lon2], "off": off, "ab": ab, "sh": sh, "sinsig": E_(abs(math.sin(ab["f"][0] / a))), "ell": e[0]}
            evs.append(g.ev("ISHIFT", tag, shift))

            def close():
                inv = g.inverse(lat1, lon1, lat2, lon2, E)
                dr = g.direct(lat1, lon1, inv["f"][1], inv["f"][0], E)
                rv = g.direct(dr["f"][0], dr["f"][1], dr["f"][2], inv["f"][0], E)
                return {"p1": {"lat": E_(lat1), "lon": E_(lon1)}, "p2": {"lat": E_(lat2), "lon": E_(lon2)}, "inv": inv, "dir": dr, "rev": rv,
                        "cos1": cosd(lat1), "cos2": cosd(lat2), "ell": e[0], "f": [lat1, lon1, lat2, lon2]}
            evs.append(g.ev("ICLOSE", tag, close))
    # very short lines (1 mm .. 100 m) in every direction: closure with the direct routine, swap symmetry
    for e in g.ells[:4] if quick else g.ells:
        E = e[1]
        a = float(E.semimaj)
        for lat1 in ([-70.0, -33.3, 0.0, 12.5, 58.0] if quick else [-85.0, -70.0, -33.3, -1.0, 0.0, 12.5, 45.0, 58.0, 80.0]):
            for L in [0.001, 0.005, 0.05, 0.5, 0.707, 3.0, 10.0, 100.0]:
                brg = rnd.uniform(0, 360)
                lon1 = rnd.uniform(-179, 179)
                lat2 = lat1 + math.degrees(L * math.cos(math.radians(brg)) / 6.36e6)
                lon2 = lon1 + math.degrees(L * math.sin(math.radians(brg)) / (6.38e6 * max(math.cos(math.radians(lat1)), 0.05)))
                tag = "short line %g m" % L

                def close(lat1=lat1, lon1=lon1, lat2=lat2, lon2=lon2, E=E, e=e):
                    inv = g.inverse(lat1, lon1, lat2, lon2, E)
                    dr = g.direct(lat1, lon1, inv["f"][1], inv["f"][0], E)
                    rv = g.direct(dr["f"][0], dr["f"][1], dr["f"][2], inv["f"][0], E)
                    return {"p1": {"lat": E_(lat1), "lon": E_(lon1)}, "p2": {"lat": E_(lat2), "lon": E_(lon2)}, "inv": inv, "dir": dr,
                            "rev": rv, "cos1": cosd(lat1), "cos2": cosd(lat2), "ell": e[0], "f": [lat1, lon1, lat2, lon2]}
                evs.append(g.ev("ICLOSE", tag, close))

                def swap(lat1=lat1, lon1=lon1, lat2=lat2, lon2=lon2, E=E, e=e, a=a):
                    ab = g.inverse(lat1, lon1, lat2, lon2, E)
                    ba = g.inverse(lat2, lon2, lat1, lon1, E)
                    return {"p1": [lat1, lon1], "p2": [lat2, lon2], "ab": ab, "ba": ba, "sinsig": E_(abs(math.sin(ab["f"][0] / a))), "ell": e[0]}
                evs.append(g.ev("ISWAP", tag, swap))
    # nearly antipodal pairs, 2.05 .. 2.95 degrees short of the antipode (still inside the quantifier: separation <= 178 deg),
    # where the inverse iteration converges slowly
    for e in g.ells:
        E = e[1]
        for k in range(3 if quick else 14):
            lat1, lon1 = rnd.uniform(-75, 75), rnd.uniform(-180, 180)
            gap, brg = math.radians(rnd.uniform(2.05, 2.95)), math.radians(rnd.uniform(0, 360))
            if k == 0:
                # the pair closest to the limit of the quantifier (178 deg apart: the slowest convergence inside it), displaced
                # diagonally so that both |lat1 + lat2| and the longitude distance from the antipode stay below 2 degrees
                lat1 = max(-40.0, min(40.0, lat1))
                gap, brg = math.radians(2.06), math.radians(45.0 + 90.0 * (int(abs(lon1)) % 4))
            elif k == 1:
                # the far corner of that 2 x 2 degree box: 2.75 degrees from the antipode, still 177.25 degrees apart
                lat1 = max(-10.0, min(10.0, lat1))
                gap, brg = math.radians(2.75), math.radians(45.0 + 90.0 * (int(abs(lon1)) % 4))
            p0 = math.radians(-lat1)                                     # the antipode, displaced by `gap` towards `brg` on the sphere
            p2 = math.asin(math.sin(p0) * math.cos(gap) + math.cos(p0) * math.sin(gap) * math.cos(brg))
            l2 = math.radians(lon1 + 180.0) + math.atan2(math.sin(brg) * math.sin(gap) * math.cos(p0), math.cos(gap) - math.sin(p0) * math.sin(p2))
            lat2, lon2 = math.degrees(p2), (math.degrees(l2) + 180.0) % 360.0 - 180.0
            if not (177.0 <= sph_sep(lat1, lon1, lat2, lon2) <= 177.96):
                continue
            tag = "near-antipodal"

            def nclose(lat1=lat1, lon1=lon1, lat2=lat2, lon2=lon2, E=E, e=e):
                inv = g.inverse(lat1, lon1, lat2, lon2, E)
                dr = g.direct(lat1, lon1, inv["f"][1], inv["f"][0], E)
                rv = g.direct(dr["f"][0], dr["f"][1], dr["f"][2], inv["f"][0], E)
                return {"p1": {"lat": E_(lat1), "lon": E_(lon1)}, "p2": {"lat": E_(lat2), "lon": E_(lon2)}, "inv": inv, "dir": dr,
                        "rev": rv, "cos1": cosd(lat1), "cos2": cosd(lat2), "ell": e[0], "f": [lat1, lon1, lat2, lon2]}
            evs.append(g.ev("ICLOSE", tag, nclose))

            def nexact(lat1=lat1, lon1=lon1, lat2=lat2, lon2=lon2, E=E, e=e):
                ab = g.inverse(lat1, lon1, lat2, lon2, E)
                if not g.oblique(lat1, ab["f"][1], E):
                    raise Skip()
                return {"ell": g.ell_rec(e), "lat1": E_(lat1), "lon1": E_(lon1), "lat2": E_(lat2), "lon2": E_(lon2), "out": ab,
                        "in": [lat1, lon1, lat2, lon2]}
            try:
                evs.append(g.ev("IGE", tag, nexact))
            except Skip:
                pass
    for (la, lo) in [(0.0, 0.0), (-37.5, 144.25), (89.9, -10.0), (-90.0, 0.0)]:
        evs.append(g.ev("ICOIN", "coincident", lambda: {"out": g.inverse(la, lo, la, lo, g.ells[0][1]), "p": [la, lo]}))
    return evs


def strip(e):
    """drop driver-only float fields before handing the trace to TLC"""
    def walk(v):
        if isinstance(v, dict):
            return {k: walk(x) for k, x in v.items() if k != "f"}
        if isinstance(v, list):
            return [walk(x) for x in v]
        return v
    return walk(e)


def run_family(ctx, prop):
    rnd = random.Random(ctx.seed)
    quick = ctx.tier == "quick"
    g = Geo(rnd)
    r = tlc.run_tlc("MC_Geodesic", "MC_Geodesic.cfg", workers=1, tags=("CASE",), timeout=1800, coverage=True)
    ctx.add_tlc(r, "MC_Geodesic case skeleton")
    cases = [tuple(p) for p in r.prints]
    arcs = g.arcs(ctx)
    evs = build_c04(g, cases, arcs, quick, rnd) if prop == "C04" else build_c05(g, cases, arcs, quick, rnd)
    ctx.evaluations = g.calls
    ctx.extra["exact_geodesic_not_applicable_lines_skipped"] = g.not_applicable
    traces = [{"ev": [strip(e)]} for e in evs]
    fails, _ = tracecheck.validate("Trace_Geodesic", "Trace_Geodesic.cfg", traces, ctx, "Trace_Geodesic", min_chunk=150, timeout=3000,
                                   all_fails=True)
    other = {}
    pre = PREFIX[prop]
    for (i, l, clause) in fails:
        ev = evs[i]
        if clause == "oracle_start_value":
            raise tlc.MachineryError("Newton start value for the third flattening did not verify")
        mine = clause.startswith(pre) or clause.startswith("stuck") or (clause.endswith("_raised") and ((prop == "C04") == ev["k"].startswith("D")))
        if not mine:
            other[clause] = other.get(clause, 0) + 1
            continue
        desc = {"clause": clause, "kind": ev["k"]}
        if ev["k"] == "DSYM":
            desc["rel"] = ev["o"].get("rel")
        if ev["tag"].startswith("short line"):
            desc["line_shorter_than_10m"] = float(ev["tag"].split()[2]) < 10.0
        ctx.violation(desc, json.dumps(strip(ev), default=str)[:900], case={"kind": ev["k"], "tag": ev["tag"]})
    ctx.extra["clauses_of_other_properties_failing_here"] = other
    for e in evs:
        ctx.nontrivial(json.dumps(strip(e), sort_keys=True, default=str)[:400])
        ctx.actions[e["k"]] = ctx.actions.get(e["k"], 0) + 1
    for e in evs[:1] + evs[len(evs) // 2:len(evs) // 2 + 1] + evs[-1:]:
        ctx.sample(json.loads(json.dumps(strip(e), default=str))) if False else ctx.sample({"kind": e["k"], "tag": e["tag"], "exc": e["exc"],
                                                                                            "keys": sorted(e["o"].keys())})
    ctx.selftest(selftest, g, arcs, prop)
    return evs


def selftest(g, arcs, prop):
    import copy
    e = g.ells[0]
    rec = g.ell_rec(e)
    t1, t2 = (3, 4, 5), (4, 3, 5)
    s = float(abs(arcs[(e[0], t2)] - arcs[(e[0], t1)]))
    if prop == "C04":
        base = g.ev("DMER", "selftest", lambda: {"ell": rec, "tri1": list(t1), "tri2": list(t2), "lon1": E_(10.0), "az": 0, "cross": 0,
                                                  "s": E_(s), "cos2": cosd(lat_of(t2)), "out": g.direct(lat_of(t1), 10.0, 0.0, s, e[1])})
        bad = copy.deepcopy(base)
        bad["o"]["out"]["lat"] = E_(float(fix.dec(bad["o"]["out"]["lat"])) + 3e-8)      # 3 mm north
        want = "c04_meridian_latitude"
    else:
        base = g.ev("IMER", "selftest", lambda: {"ell": rec, "tri1": list(t1), "tri2": list(t2), "lon": E_(10.0),
                                                  "out": g.inverse(lat_of(t1), 10.0, lat_of(t2), 10.0, e[1])})
        bad = copy.deepcopy(base)
        bad["o"]["out"]["s"] = E_(float(fix.dec(bad["o"]["out"]["s"])) + 0.004)
        want = "c05_meridian_distance"
    # the exact-geodesic clauses: an oblique 1234.5 km line; end point moved by 3 mm / distance by 4 mm
    E = e[1]
    if prop == "C04":
        base2 = g.ev("DGE", "selftest", lambda: {"ell": rec, "lat1": E_(-33.25), "lon1": E_(151.5), "az": E_(58.75), "s": E_(1234567.891),
                                                  "out": g.direct(-33.25, 151.5, 58.75, 1234567.891, E)})
        bad2 = copy.deepcopy(base2)
        bad2["o"]["out"]["lon"] = E_(float(fix.dec(bad2["o"]["out"]["lon"])) + 3.5e-8)     # about 3.3 mm east
        want2 = "c04_exact_geodesic_end_point"
        bad3 = copy.deepcopy(base2)
        bad3["o"]["ell"] = dict(rec, a=E_(6378132.0))                                      # not the published GRS80 semi-major axis
        want3 = "c04_shipped_ellipsoid_constants"
    else:
        base2 = g.ev("IGE", "selftest", lambda: {"ell": rec, "lat1": E_(-33.25), "lon1": E_(151.5), "lat2": E_(12.5), "lon2": E_(-170.25),
                                                  "out": g.inverse(-33.25, 151.5, 12.5, -170.25, E)})
        bad2 = copy.deepcopy(base2)
        bad2["o"]["out"]["s"] = E_(float(fix.dec(bad2["o"]["out"]["s"])) + 0.004)
        want2 = "c05_exact_geodesic_end_point"
        bad3 = copy.deepcopy(base2)
        bad3["o"]["out"]["a21"] = E_(float(fix.dec(bad3["o"]["out"]["a21"])) + 5e-8)
        want3 = "c05_exact_geodesic_reverse_azimuth"
    fails, _ = tracecheck.validate("Trace_Geodesic", "Trace_Geodesic.cfg",
                                   [{"ev": [strip(x)]} for x in (base, bad, base2, bad2, bad3)], None, None, all_fails=True)
    got = {}
    for (i, l, c) in fails:
        got.setdefault(i, []).append(c)
    out = {"baseline_clean": 0 not in got and 2 not in got, "corrupted": got.get(1, []), "corrupted_exact": got.get(3, []) + got.get(4, [])}
    if 0 in got or 2 in got or want not in got.get(1, []) or want2 not in got.get(3, []) or want3 not in got.get(4, []):
        raise tlc.MachineryError("binding self-test failed: %s" % got)
    return out


def run(ctx):
    run_family(ctx, "C04")
    ctx.rule = ("exact cases: every ordered pair of 31 Pythagorean latitudes (incl. equator, poles) along a meridian and across either "
                "pole where the line is <= 20 000 km, equatorial lines of whole degrees, on 4 shipped + 2 random ellipsoids; relational "
                "laws (flow, reversal, reflection, mirror, longitude shift, zero distance, angle classes) on samples in every case of the "
                "TLC-enumerated skeleton latitude band x azimuth class (8 cardinal/inter-cardinal + 8 octants) x distance decade "
                "(1 m..2e7 m) x ellipsoid; exact-geodesic end point (1 mm) and reverse azimuth (1e-8 deg) on oblique lines of the same "
                "skeleton (DGE); distinct = distinct events; the repository tests run ~130 Australian lines")
    ctx.assumptions += ["oblique lines: DGE events compare the returned end point and reverse azimuth with the EXACT geodesic solved inside the "
                        "specification (GeodesicOracle: Bessel/Helmert integrals, Romberg quadrature, one Newton step from the returned point; "
                        "validated against 40-digit quadrature in GeodesicOracleTest, error below 1e-8 m) - a quarter of the skeleton cases in "
                        "quick, every case in thorough; not applicable when cos(alpha0) < 1e-3 (within 0.06 deg of the equator's direction; "
                        "the equator itself is the DEQ closed form); leaving a pole the azimuth is read in the limit along the meridian of lon1",
                        "the four shipped ellipsoids are judged on their PUBLISHED constants (spec/Ellipsoids.tla)",
                        "metric separations use lower bounds of the metres per degree (never a false alarm)"]


def replay(ctx, data, prop="C04"):
    print("re-running the check with the recorded seed reproduces the case (events are generated from the seed)")
    ctx.seed = data.get("seed", ctx.seed)
    ctx.tier = data.get("tier", "quick")
    run_family(ctx, prop)
