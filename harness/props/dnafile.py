"""DNAFILE - beyond the listed properties: geodepy.fileio.read_dnacoord (fixed-column coordinate listing).

spec/DnaFile.tla models a file as a sequence of lines of sixteen fixed-column fields (abstract fields = class + identity) and
reading as the identity on abstract fields (SameCount, SameOrder, Isolation: TLC checks the model exhaustively on reduced
shapes).  TLC simulates documents; the driver renders each as a real text file (numbers zero / positive / negative / filling
their columns completely, texts short / full width / with inner blanks / empty, gaps between the columns blank or marked,
last line with or without a newline), reads it with the real reader, and Trace_DnaFile (TLC) decides: number of records,
every numeric field = the correctly rounded value of the text in ITS columns, every text field = its text without padding.
    ./check DNAFILE quick|thorough
"""
import json
import os
import random
import tempfile
from fractions import Fraction

from harness import fix, tlc, tracecheck

COLS = {"pointid": (0, 20), "const": (21, 25), "easting": (28, 40), "northing": (41, 58), "zone": (60, 63), "lat": (63, 78),
        "long": (78, 92), "ortho_ht": (93, 103), "ell_ht": (103, 114), "x": (115, 129), "y": (130, 144), "z": (145, 159),
        "x_sd": (160, 171), "y_sd": (172, 181), "z_sd": (182, 191)}
NUM = ["easting", "northing", "zone", "lat", "long", "ortho_ht", "ell_ht", "x", "y", "z", "x_sd", "y_sd", "z_sd"]
ATTR = {"long": "long"}


def num_text(rnd, name, cls, width):
    """decimal text of a number of class `cls` for a field `width` columns wide (not yet padded)"""
    if name == "zone":
        return {"zero": "0", "pos": str(rnd.randint(1, 60)), "neg": "-" + str(rnd.randint(1, 9)),
                "wide": "%0*d" % (width, rnd.randint(1, 60))}[cls]
    if cls == "zero":
        return rnd.choice(["0", "0.0", "0.000", "-0.0"])
    if cls == "wide":
        ip = rnd.randint(1, max(1, width - 3))
        digits = "".join(rnd.choice("123456789") for _ in range(width - 1))
        return digits[:ip] + "." + digits[ip:]
    n = rnd.randint(3, width - 2 - (cls == "neg"))
    ip = rnd.randint(1, n - 1)
    digits = rnd.choice("123456789") + "".join(rnd.choice("0123456789") for _ in range(n - 1))
    t = digits[:ip] + "." + digits[ip:]
    return ("-" if cls == "neg" else "") + t


def txt_text(rnd, cls, width, tag):
    if cls == "empty":
        return ""
    if cls == "full":
        return (tag + "ABCDEFGHIJKLMNOPQRSTUVWXYZ0123456789")[:width]
    if cls == "inner":
        return (tag + " x y")[:width].rstrip()
    return tag[:max(1, min(width, 4))]


def render(rnd, shapes, newline, gapmark):
    """-> (file text, expected fields per record)"""
    lines, exp = [], []
    for i, sh in enumerate(shapes):
        buf = [gapmark] * 192
        rec = {"num": {}, "txt": {}}
        pid = txt_text(rnd, sh["pid"], 20, "P%d" % (i + 1))
        con = txt_text(rnd, sh["const"], 4, "FFF" if i % 2 else "CCC")
        for name, text in (("pointid", pid), ("const", con)):
            a, b = COLS[name]
            buf[a:b] = list(text.ljust(b - a))
            rec["txt"][name] = text
        for j, name in enumerate(NUM, 1):
            a, b = COLS[name]
            cls = sh["sclass"] if j == sh["special"] else sh["base"]
            t = num_text(rnd, name, cls, b - a)
            buf[a:b] = list(t.rjust(b - a))
            rec["num"][name] = t
        desc = txt_text(rnd, sh["desc"], 30, "desc %d" % (i + 1))
        rec["txt"]["desc"] = desc
        lines.append("".join(buf) + desc)
        exp.append(rec)
    text = "\n".join(lines) + ("\n" if newline and lines else "")
    return text, exp


def run_doc(rnd, fio, shapes, newline, gapmark, tmpdir):
    text, exp = render(rnd, shapes, newline, gapmark)
    evs = [{"k": "add", "shape": sh} for sh in shapes] + [{"k": "close", "nl": bool(newline)}]
    path = os.path.join(tmpdir, "doc.dnacoord")
    with open(path, "w") as f:
        f.write(text)
    rd = {"k": "read", "exc": "", "n": 0}
    recs = []
    try:
        recs = fio.read_dnacoord(path)
        rd["n"] = len(recs)
    except Exception as ex:
        rd["exc"] = "%s: %s" % (type(ex).__name__, str(ex)[:80])
    evs.append(rd)
    if not rd["exc"]:
        for i, (r, e) in enumerate(zip(recs, exp), 1):
            evs.append({"k": "rec", "i": i,
                        "exp": {n: fix.enc(Fraction(e["num"][n])) for n in NUM},
                        "obs": {n: fix.enc(Fraction(float(getattr(r, n)))) for n in NUM},
                        "texp": e["txt"], "tobs": {"pointid": r.pointid, "const": r.const, "desc": r.desc}})
    return {"ev": evs, "newline": bool(newline), "gapmark": gapmark, "shapes": shapes, "text": text}


def documents(ctx, n):
    cfg = tracecheck.write_tmp("SPECIFICATION Spec\nCONSTANT MaxRecs = 3\nCONSTRAINT Emit\nCHECK_DEADLOCK FALSE\n", ".cfg")
    try:
        r = tlc.run_tlc("MC_DnaFile", cfg, workers=1, tags=("BEH",), simulate={"num": n}, depth=6, seed=ctx.seed, timeout=900)
    finally:
        os.unlink(cfg)
    seen = {}
    for p in r.prints:
        seen[json.dumps(p[1:], sort_keys=True)] = (p[1], p[2])
    return list(seen.values())


def run(ctx):
    import geodepy.fileio as fio
    rnd = random.Random(ctx.seed)
    quick = ctx.tier == "quick"
    r = tlc.run_tlc("MC_DnaFile", "MC_DnaFile.cfg", workers=8, timeout=900, coverage=True)
    ctx.add_tlc(r, "MC_DnaFile exhaustive: 2 lines, reduced shapes (SameCount, SameOrder, Isolation, Disjoint)")
    if r.violated:
        raise tlc.MachineryError("DnaFile model violated %s" % r.violated)
    docs = documents(ctx, 300 if quick else 5000)
    traces = []
    with tempfile.TemporaryDirectory(prefix="gvf_dna_") as td:
        for k, (shapes, nl) in enumerate(docs):
            traces.append(run_doc(rnd, fio, list(shapes), nl, " " if k % 2 == 0 else "|", td))
            ctx.evaluations += 1
    fails, _ = tracecheck.validate("Trace_DnaFile", "Trace_DnaFile.cfg", [{"ev": t["ev"]} for t in traces], ctx, "Trace_DnaFile",
                                   min_chunk=100, timeout=1800)
    for (i, l, clause) in fails:
        t = traces[i]
        ev = t["ev"][l - 1] if l else {}
        last = bool(ev.get("k") == "rec" and ev.get("i") == len(t["shapes"]))
        ctx.violation({"clause": clause, "last_line_without_newline": last and not t["newline"]},
                      "newline=%s gapmark=%r event=%s" % (t["newline"], t["gapmark"], json.dumps(ev)[:500]),
                      case={"shapes": t["shapes"], "newline": t["newline"], "gapmark": t["gapmark"]})
    for t in traces:
        ctx.nontrivial(json.dumps([t["shapes"], t["newline"], t["gapmark"]], sort_keys=True))
        for e in t["ev"]:
            ctx.actions[e["k"]] = ctx.actions.get(e["k"], 0) + 1
    bad = set(i for (i, l, c) in fails)
    ctx.selftest(selftest, [t for i, t in enumerate(traces) if i not in bad and len(t["shapes"]) >= 1])
    for t in traces[:2]:
        ctx.sample({"shapes": t["shapes"], "newline": t["newline"], "first_line": t["text"].split("\n")[0][:120]})
    ctx.rule = ("documents = TLC-simulated behaviours of DnaFile.tla (0..3 lines; per line a base class for the thirteen numeric fields, one "
                "field singled out with another class, classes of point id / constraint / description; final newline present or not), "
                "rendered with blank or marked gaps between the columns; distinct = distinct documents; the repository has no test of fileio")
    ctx.assumptions += ["numbers are compared as 'correctly rounded double of the decimal text' (3e-16 relative)"]


def selftest(good):
    import copy
    base = next((t for t in good if any(e["k"] == "rec" for e in t["ev"])), None)
    if base is None:
        return {"ran": False}
    t1 = copy.deepcopy(base)
    rec = next(e for e in t1["ev"] if e["k"] == "rec")
    rec["obs"]["lat"] = fix.enc(Fraction(fix.dec(rec["obs"]["lat"])) + Fraction(1, 10 ** 9))
    t2 = copy.deepcopy(base)
    next(e for e in t2["ev"] if e["k"] == "read")["n"] += 1
    t3 = copy.deepcopy(base)
    next(e for e in t3["ev"] if e["k"] == "rec")["tobs"]["pointid"] += "x"
    fails, _ = tracecheck.validate("Trace_DnaFile", "Trace_DnaFile.cfg", [{"ev": t["ev"]} for t in (base, t1, t2, t3)], None, None)
    rej = {i: c for (i, l, c) in fails}
    out = {"baseline_accepted": 0 not in rej, "wrong_number": rej.get(1, ""), "wrong_count": rej.get(2, ""), "wrong_text": rej.get(3, "")}
    if 0 in rej or not all(k in rej for k in (1, 2, 3)):
        raise tlc.MachineryError("binding self-test failed: %s" % out)
    return out


def replay(ctx, data):
    import geodepy.fileio as fio
    c = data["case"]
    with tempfile.TemporaryDirectory(prefix="gvf_dna_") as td:
        t = run_doc(random.Random(data.get("seed", 0)), fio, c["shapes"], c["newline"], c["gapmark"], td)
    fails, _ = tracecheck.validate("Trace_DnaFile", "Trace_DnaFile.cfg", [{"ev": t["ev"]}], ctx, "replay")
    for (i, l, clause) in fails:
        ctx.violation({"clause": clause}, json.dumps(t["ev"][l - 1] if l else {})[:500])
    print("replayed: %s" % (fails if fails else "accepted"))
