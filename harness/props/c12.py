"""C12 - angle-object arithmetic and comparison agree with decimal-degree arithmetic.

spec/AnglesExpr.tla: a stack machine whose instructions are the operators of the five angle
classes; TLC enumerates the programs (expression trees in postfix, with leaf classes); the driver
evaluates each shape on the real objects once per class assignment and
spec/Trace_AnglesExpr.tla decides every instruction in exact arithmetic.
"""
import json
import operator
import os
import random
from fractions import Fraction

from harness import alpha, fix, tlc, tracecheck

NANO = 10 ** 9
CLASSES = ["DECAngle", "HPAngle", "GONAngle", "DMSAngle", "DDMAngle"]
# leaf lattice: (neg, whole arc-seconds, nano-arc-seconds)
LEAVES = [(False, 0, 0), (False, 30, 0), (True, 30, 0), (False, 3599, 0), (True, 3599, 0), (False, 3600, 0), (True, 3600, 0),
          (False, 215999, 0), (True, 215999, 0), (False, 647999, 999999999), (True, 647999, 999999999),
          (False, 1292400, 0), (True, 1292400, 0), (True, 1800, 0), (False, 60, 0), (False, 324000, 0)]


def _an():
    import geodepy.angles as an
    return an


def make(an, cls, leaf):
    neg, w, f = leaf
    D, r = divmod(w, 3600)
    MM, SS = divmod(r, 60)
    sgn = -1.0 if neg else 1.0
    deg = (Fraction(w) + Fraction(f, NANO)) / 3600
    if cls == "DECAngle":
        return an.DECAngle(sgn * float(deg))
    if cls == "HPAngle":
        return an.HPAngle(sgn * float("%d.%02d%02d%09d" % (D, MM, SS, f)))
    if cls == "GONAngle":
        return an.GONAngle(sgn * float(deg * 10 / 9))
    if cls == "DMSAngle":
        return an.DMSAngle(D, MM, float(Fraction(SS) + Fraction(f, NANO)), positive=not neg)
    if cls == "DDMAngle":
        return an.DDMAngle(D, float((Fraction(r) + Fraction(f, NANO)) / 60), positive=not neg)
    raise ValueError(cls)


def obs(o):
    """angle object -> {cls, dec (its own .dec() as exact number), ang (alpha-decoded degrees)}"""
    return {"cls": type(o).__name__, "dec": fix.enc(Fraction(float(o.dec()))), "ang": fix.enc(alpha.angle_deg(o))}


NOOBS = {"cls": "", "dec": [0], "ang": [0]}
CMP = {"Eq": operator.eq, "Ne": operator.ne, "Lt": operator.lt, "Gt": operator.gt}


def evaluate(an, prog, classes, leaves, calls):
    """one evaluation of the program with the given leaf classes / values -> events"""
    st = []
    evs = []
    li = 0
    for (op, _c, k) in prog:
        ev = {"op": op, "k": int(k) if op != "Push" else 0, "exc": "", "res": NOOBS, "bool": False, "opsame": True}
        operands = st[-2:] if op in ("Add", "Sub") or op in CMP else (st[-1:] if op != "Push" else [])
        before = [alpha.angle_payload(x) for x in operands]
        try:
            calls[0] += 1
            if op == "Push":
                o = make(an, classes[li], leaves[li])
                li += 1
                st.append(o)
                ev["res"] = obs(o)
            elif op in ("Add", "Sub"):
                b, a = st.pop(), st.pop()
                r = a + b if op == "Add" else a - b
                st.append(r)
                ev["res"] = obs(r)
            elif op in ("Neg", "Abs"):
                a = st.pop()
                r = -a if op == "Neg" else abs(a)
                st.append(r)
                ev["res"] = obs(r)
            elif op in ("MulK", "RMulK", "DivK"):
                a = st.pop()
                r = a * k if op == "MulK" else (k * a if op == "RMulK" else a / k)
                st.append(r)
                ev["res"] = obs(r)
            elif op == "ModK":
                a = st.pop()
                r = a % k
                st.append(r)
                ev["res"] = obs(r)
            elif op == "Round":
                a = st.pop()
                r = round(a, k)
                st.append(r)
                ev["res"] = obs(r)
            elif op in CMP:
                b, a = st.pop(), st.pop()
                ev["bool"] = bool(CMP[op](a, b))
            else:
                raise tlc.MachineryError("unknown instruction %r" % (op,))
        except tlc.MachineryError:
            raise
        except Exception as ex:
            ev["exc"] = "%s: %s" % (type(ex).__name__, str(ex)[:80])
            evs.append(ev)
            return evs, False
        # an operator returns a new angle: its operands still hold what they held (an expression may use a value twice)
        ev["opsame"] = [alpha.angle_payload(x) for x in operands] == before
        evs.append(ev)
    evs.append({"op": "Final", "k": 0, "exc": "", "res": NOOBS, "bool": False, "opsame": True})
    return evs, True


def supported(prog, classes):
    """Mod exists for DMS/DDM, round for all but HP: the class on the stack is the class of the leftmost
    leaf of the sub-expression (read off the program text, not a verdict)."""
    st = []
    li = 0
    for (op, _c, k) in prog:
        if op == "Push":
            st.append(classes[li]); li += 1
        elif op in ("Add", "Sub"):
            b, a = st.pop(), st.pop(); st.append(a)
        elif op in CMP:
            st = []
        elif op == "ModK" and st[-1] not in ("DMSAngle", "DDMAngle"):
            return False
        elif op == "Round" and st[-1] == "HPAngle":
            return False
    return True


def programs(ctx, maxlen, simulate=None):
    cfg = tracecheck.write_tmp("SPECIFICATION Spec\nCONSTANT Leaves <- MCLeaf1\nCONSTANT ModelClasses <- MCAll\n"
                               "CONSTANT MaxLen = %d\nCONSTRAINT Emit\nCHECK_DEADLOCK FALSE\n" % maxlen, ".cfg")
    try:
        r = tlc.run_tlc("MC_AnglesExpr", cfg, workers=1, tags=("BEH",), timeout=3000, simulate=simulate,
                        depth=maxlen + 2 if simulate else None, seed=ctx.seed if simulate else None)
    finally:
        os.unlink(cfg)
    if not simulate:
        ctx.add_tlc(r, "MC_AnglesExpr programs of length <= %d (with leaf classes)" % maxlen)
    return [[tuple(i) for i in p[1]] for p in r.prints]


def validate(traces, ctx, label):
    fails, res = tracecheck.validate("Trace_AnglesExpr", "Trace_AnglesExpr.cfg", traces, ctx, label, min_chunk=300,
                                     timeout=3000, tags=("FAIL", "END", "SKIP"))
    skipped = sum(len(r.tagged("SKIP")) for r in res)
    return fails, skipped


def run(ctx):
    rnd = random.Random(ctx.seed)
    quick = ctx.tier == "quick"
    an = _an()
    r = tlc.run_tlc("MC_AnglesExpr", "MC_AnglesExpr.cfg", workers=4, coverage=True, timeout=1800)
    ctx.add_tlc(r, "MC_AnglesExpr exhaustive: 2 classes x 4 leaves x programs <= 4")
    if r.violated:
        raise tlc.MachineryError("AnglesExpr model violated %s" % r.violated)
    progs = programs(ctx, 4 if quick else 5)
    sim = programs(ctx, 7, simulate={"num": 400 if quick else 20000})
    ctx.extra["programs_generated"] = {"enumerated": len(progs), "simulated_len_le_7": len(sim)}
    # group by shape: the same expression evaluated once per class assignment
    shapes = {}
    for p in progs + sim:
        shape = tuple((op, "", k) for (op, c, k) in p)
        cls = tuple(c for (op, c, k) in p if op == "Push")
        shapes.setdefault(shape, []).append(cls)
    traces = []
    calls = [0]
    nvals = 2 if quick else 5
    for shape, classlists in shapes.items():
        nleaf = len(classlists[0])
        classlists = [c for c in sorted(set(classlists)) if supported(shape, c)]
        if not classlists:
            continue
        if len(classlists) > (12 if quick else 40):
            classlists = rnd.sample(classlists, 12 if quick else 40)
        for _ in range(nvals):
            leaves = [rnd.choice(LEAVES) if rnd.random() < 0.8 else
                      (rnd.random() < 0.5, rnd.randrange(0, 1296000), rnd.randrange(0, NANO)) for _ in range(nleaf)]
            if nleaf == 2 and shape[-1][0] in CMP and _ == 0:
                # comparisons of EQUAL angles held in different notations (and a nano-arc-second apart)
                leaves = [leaves[0], leaves[0] if rnd.random() < 0.7 else (leaves[0][0], leaves[0][1], (leaves[0][2] + 1) % NANO)]
            evs = []
            for cl in classlists:
                e, ok = evaluate(an, shape, cl, leaves, calls)
                evs += e
                if not ok:
                    break
            traces.append({"shape": [list(i) for i in shape], "classes": [list(c) for c in classlists],
                           "leaves": [list(x) for x in leaves], "ev": evs})
    ctx.evaluations = calls[0]
    fails, skipped = validate(traces, ctx, "Trace_AnglesExpr")
    report(traces, fails, ctx)
    ctx.extra["out_of_domain_skipped"] = skipped
    for t in traces:
        for cl in t["classes"]:
            ctx.nontrivial((json.dumps(t["shape"]), tuple(cl), json.dumps(t["leaves"])))
        for e in t["ev"]:
            ctx.actions[e["op"]] = ctx.actions.get(e["op"], 0) + 1
    ctx.selftest(selftest, an)
    ctx.rule = ("programs = every well-formed postfix program of length <= %d over Push(class) / Add Sub Neg Abs MulK RMulK DivK "
                "ModK Round / Eq Ne Lt Gt (TLC-enumerated, all 5 leaf classes) + simulated programs up to length 7; each shape is "
                "evaluated on real objects once per supported class assignment (max %d) x %d leaf-value assignment(s) from the "
                "boundary lattice (zero, +-30\", +-59'59\", +-1 deg, +-59d59'59\", +-179d59'59.999999999\", +-359 deg, -0d30') "
                "and random values; distinct = distinct (shape, class assignment, leaf values); the repository tests evaluate "
                "~10 fixed expressions" % (4 if quick else 5, 12 if quick else 40, nvals))
    for t in traces[:1] + traces[len(traces) // 2:len(traces) // 2 + 1] + traces[-1:]:
        ctx.sample({"program": [i[0] + (str(i[2]) if i[2] else "") for i in t["shape"]], "leaf_values_[neg,w,f]": t["leaves"],
                    "class_assignments": t["classes"][:4], "n_assignments": len(t["classes"])})
    ctx.assumptions += ["expected values use the operands' own .dec() (as the property states); the result is decoded "
                        "independently by alpha from the object's fields",
                        "expression-level agreement across class assignments allows 2e-8\" per operation"]


def describe(tr, l, clause):
    d = {"clause": clause.split(".")[-1], "op": clause.split(".")[0]}
    if l:
        # class of the operand the operator was applied to
        ev = tr["ev"][l - 1]
        d["result_class"] = ev["res"]["cls"]
    return d


def report(traces, fails, ctx):
    for (i, l, clause) in fails:
        tr = traces[i]
        ctx.violation(describe(tr, l, clause),
                      "program %s leaves %s event#%d %s" % ([x[0] + (str(x[2]) if x[2] else "") for x in tr["shape"]],
                                                         tr["leaves"], l, json.dumps(tr["ev"][l - 1] if l else {})[:300]),
                      case={"shape": tr["shape"], "classes": tr["classes"], "leaves": tr["leaves"]})


def run_case(an, shape, classes, leaves):
    calls = [0]
    evs = []
    for cl in classes:
        e, ok = evaluate(an, [tuple(i) for i in shape], cl, [tuple(x) for x in leaves], calls)
        evs += e
        if not ok:
            break
    return {"shape": shape, "classes": classes, "leaves": leaves, "ev": evs}


def selftest(an):
    import copy
    shape = [["Push", "", 0], ["Push", "", 0], ["Add", "", 0], ["MulK", "", 2]]
    base = run_case(an, shape, [["DMSAngle", "HPAngle"], ["GONAngle", "DDMAngle"]], [[False, 3599, 0], [True, 30, 0]])
    t1 = copy.deepcopy(base); t1["ev"][2]["res"]["cls"] = "HPAngle"                       # class of the right operand
    t2 = copy.deepcopy(base)
    t2["ev"][3]["res"]["ang"] = fix.enc(fix.dec(t2["ev"][3]["res"]["ang"]) + Fraction(3, 10 ** 12))   # 1.08e-8" off
    t3 = copy.deepcopy(base); del t3["ev"][1]
    t4 = copy.deepcopy(base)
    t4["ev"][8]["res"]["ang"] = fix.enc(fix.dec(t4["ev"][8]["res"]["ang"]) + Fraction(1, 10 ** 9))
    t4["ev"][8]["res"]["dec"] = t4["ev"][8]["res"]["ang"]
    fails, _ = validate([base, t1, t2, t3, t4], None, None)
    rej = {i: c for (i, l, c) in fails}
    out = {"baseline_accepted": 0 not in rej, "wrong_class_rejected": rej.get(1, ""), "value_off_rejected": rej.get(2, ""),
           "dropped_push_rejected": rej.get(3, ""), "second_assignment_differs_rejected": rej.get(4, "")}
    if 0 in rej or not all(k in rej for k in (1, 2, 3, 4)):
        raise tlc.MachineryError("binding self-test failed: %s" % out)
    return out


def replay(ctx, data):
    an = _an()
    c = data["case"]
    tr = run_case(an, c["shape"], c["classes"], c["leaves"])
    fails, _ = validate([tr], ctx, "replay")
    report([tr], fails, ctx)
    print("replayed %s: %s" % (c["shape"], fails if fails else "accepted"))
