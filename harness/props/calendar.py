"""CALENDAR - beyond the listed properties: date_to_yyyydoy / yyyydoy_to_date on every day 1900..2100.

spec/Calendar.tla steps through the Gregorian calendar (TLC checks leap rules / day-of-year invariants on all 73 414 days);
the driver converts every day with the real functions, year by year; Trace_Calendar walks the same days with NextDay and
decides.     ./check CALENDAR quick|thorough
"""
import datetime

from harness import tlc, tracecheck


def run(ctx):
    import geodepy.convert as cv
    r = tlc.run_tlc("Calendar", "MC_Calendar.cfg", workers=1, timeout=900, coverage=True)
    ctx.add_tlc(r, "Calendar 1900..2100: one state per day")
    if r.violated:
        raise tlc.MachineryError("Calendar model violated %s" % r.violated)
    years = range(1900, 2101) if ctx.tier == "thorough" else [1900, 1999, 2000, 2001, 2004, 2019, 2020, 2024, 2026, 2096, 2100]
    traces = []
    calls = 0
    for yy in years:
        day = datetime.date(yy, 1, 1)
        evs = []
        while day.year == yy:
            ev = {"k": "day", "date": [day.year, day.month, day.day], "str": "", "back_dot": [0, 0, 0], "back_plain": [0, 0, 0], "exc": ""}
            try:
                s = cv.date_to_yyyydoy(day)
                b1 = cv.yyyydoy_to_date(s)
                b2 = cv.yyyydoy_to_date(s.replace(".", ""))
                calls += 3
                ev.update({"str": s, "back_dot": [b1.year, b1.month, b1.day], "back_plain": [b2.year, b2.month, b2.day]})
            except Exception as ex:
                ev["exc"] = "%s: %s" % (type(ex).__name__, ex)
            evs.append(ev)
            day += datetime.timedelta(1)
        # (day-of-year 000 or 366 in a common year are NOT rejected by the library: they roll over into the neighbouring year;
        #  no listed property speaks about them, so they are recorded here as an observation, not judged)
        for bad in ("2020.1", "20201", "2020-001", "2020.0011", "abcd.efg", ""):
            try:
                cv.yyyydoy_to_date(bad)
                raised = "none"
            except Exception as ex:
                raised = type(ex).__name__
            calls += 1
            evs.append({"k": "bad", "s": bad, "raised": raised})
        traces.append({"y0": yy, "m0": 1, "d0": 1, "doy0": 1, "ev": evs})
        ctx.nontrivial(yy)
    ctx.evaluations = calls
    fails, _ = tracecheck.validate("Trace_Calendar", "Trace_Calendar.cfg", traces, ctx, "Trace_Calendar", min_chunk=1, timeout=1800)
    for (i, l, clause) in fails:
        ev = traces[i]["ev"][l - 1] if l else {}
        ctx.violation({"clause": clause}, str(ev)[:300], case={"year": traces[i]["y0"]})
    ctx.sample({"year": traces[0]["y0"], "first": traces[0]["ev"][0], "last_bad": traces[0]["ev"][-1]})
    ctx.exhaustive = ctx.tier == "thorough"
    ctx.rule = "every day of the listed years (thorough: every day 1900-01-01..2100-12-31) + 8 malformed strings per year; distinct = years"


def replay(ctx, data):
    run(ctx)
