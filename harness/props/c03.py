"""C03 - geodetic <-> Cartesian conversion is exact and self-inverse on every ellipsoid.

spec/Cart.tla: closed form of the forward conversion at positions with rational sine/cosine
(Pythagorean triples), Newton-verified reciprocal and reciprocal square root in BigFix;
MC_Cart enumerates the lattice; Trace_Cart decides closed form (1 um), longitude range and
closure of the inverse (0.02 mm) on values observed from the real code.
"""
import json
import math
import random
from fractions import Fraction

from harness import alpha, fix, tlc, tracecheck


def _mods():
    import geodepy.constants as gc
    import geodepy.convert as cv
    import geodepy.angles as an
    return gc, cv, an


def hx(*v):
    return ",".join(float(x).hex() for x in v)


def ellipsoids(gc, rnd, n):
    out = [("grs80", gc.grs80), ("wgs84", gc.wgs84), ("ans", gc.ans), ("intl24", gc.intl24)]
    for k in range(n):
        a = round(rnd.uniform(6.3e6, 6.4e6), 3)
        invf = round(rnd.uniform(150, 400), 6)
        out.append(("rand(%s,%s)" % (a, invf), alpha.build(gc.Ellipsoid, a, invf)))
    return out


_KEEP = []
_N = [0]


def fresh(E):
    """two calls out of three get a NEW Ellipsoid object with the same defining numbers (user code builds them on the fly; the last two
    stay alive, older ones are freed and their ids recycled): a cache keyed on less than (a, 1/f) shows up as a wrong closed form"""
    _N[0] += 1
    if _N[0] % 3 == 0:
        return E
    e = alpha.build(type(E), *alpha.defn(E, "semimaj", "inversef")) if hasattr(E, "_verif_defn") else type(E)(E.semimaj, E.inversef)
    _KEEP.append(e)
    del _KEEP[:-2]
    return e


def fwd_event(cv, an, name, E, slat, slon, h, turn):
    lat = math.degrees(math.atan2(slat[0], slat[1]))
    lon = math.degrees(math.atan2(slon[0], slon[1])) + 360.0 * turn
    a, invf = alpha.defn(E, "semimaj", "inversef")
    f = 1.0 / invf
    e2 = f * (2 - f)
    s2 = (slat[0] / slat[2]) ** 2
    ev = {"k": "Fwd", "ell": name, "a": fix.enc(a), "invf": fix.enc(invf), "f0": fix.enc(f),
          "r0": fix.enc(1.0 / math.sqrt(1 - e2 * s2)), "slat": list(slat), "slon": list(slon), "h": fix.enc(float(h)),
          "lat": lat, "lon": lon, "hf": float(h), "out": [[0], [0], [0]], "same": True, "exc": ""}
    try:
        x, y, z = cv.llh2xyz(lat, lon, float(h), E)
        ev["out"] = [fix.enc(x), fix.enc(y), fix.enc(z)]
        ev["same"] = hx(x, y, z) == hx(*cv.llh2xyz(an.DECAngle(lat), an.DECAngle(lon), float(h), E))
    except Exception as ex:
        ev["exc"] = "%s: %s" % (type(ex).__name__, str(ex)[:100])
    return ev


def fwdany_event(cv, name, E, lat, lon, h, out=None, form="float", an=None):
    """forward conversion at ANY position (degrees as given): the closed form with the specification's own sines and cosines.
    form: latitude / longitude handed over as floats or as objects of one of the five angle classes (the closed form is then
    evaluated at the angle the object denotes)"""
    alat, alon = lat, lon
    if form != "float":
        mk = {"dec": an.DECAngle, "hp": an.dec2hpa, "gon": an.dec2gona, "dms": an.dec2dms, "ddm": an.dec2ddm}[form]
        alat, alon = mk(lat), mk(lon)
        lat, lon = float(alpha.angle_deg(alat)), float(alpha.angle_deg(alon))
        exact = (alpha.angle_deg(alat), alpha.angle_deg(alon))
    else:
        exact = None
    a, invf = alpha.defn(E, "semimaj", "inversef")
    f = 1.0 / invf
    e2 = f * (2 - f)
    ev = {"k": "FwdAny", "ell": name, "a": fix.enc(a), "invf": fix.enc(invf), "f0": fix.enc(f),
          "r0": fix.enc(1.0 / math.sqrt(1 - e2 * math.sin(math.radians(lat)) ** 2)), "latdeg": fix.enc(float(lat)),
          "londeg": fix.enc(float(lon)), "h": fix.enc(float(h)), "lat": lat, "lon": lon, "hf": float(h), "out": [[0], [0], [0]], "exc": "",
          "form": form}
    if exact is not None:
        ev["latdeg"], ev["londeg"] = fix.enc(exact[0]), fix.enc(exact[1])
    try:
        x, y, z = cv.llh2xyz(alat, alon, float(h), fresh(E)) if out is None else out
        ev["out"] = [fix.enc(x), fix.enc(y), fix.enc(z)]
    except Exception as ex:
        ev["exc"] = "%s: %s" % (type(ex).__name__, str(ex)[:100])
    return ev


def inv_event(cv, name, E, p):
    ev = {"k": "Inv", "ell": name, "in": [fix.enc(v) for v in p], "p": list(p), "lat": [0], "lon": [0], "back": [[0], [0], [0]],
          "exc": ""}
    try:
        lat, lon, h = cv.xyz2llh(p[0], p[1], p[2], fresh(E))
        ev["lat"], ev["lon"] = fix.enc(lat), fix.enc(lon)
        ev["back"] = [fix.enc(v) for v in cv.llh2xyz(lat, lon, h, fresh(E))]
    except Exception as ex:
        ev["exc"] = "%s: %s" % (type(ex).__name__, str(ex)[:100])
    return ev


def validate(traces, ctx, label):
    fails, _ = tracecheck.validate("Trace_Cart", "Trace_Cart.cfg", traces, ctx, label, min_chunk=150, timeout=3000)
    return fails


def run(ctx):
    rnd = random.Random(ctx.seed)
    quick = ctx.tier == "quick"
    gc, cv, an = _mods()
    r = tlc.run_tlc("MC_Cart", "MC_Cart.cfg", workers=1, tags=("PT",), timeout=1800)
    ctx.add_tlc(r, "MC_Cart lattice: Pythagorean latitudes x longitudes x heights")
    if r.violated:
        raise tlc.MachineryError("MC_Cart violated %s" % r.violated)
    lattice = sorted(set((tuple(p[1]), tuple(p[2]), p[3]) for p in r.prints))
    if not quick:
        rs = tlc.run_tlc("MC_Cart", "MC_Cart_sphere.cfg", workers=1, timeout=3000)
        ctx.add_tlc(rs, "MC_Cart closed form on the sphere (f = 0) for every direction")
        if rs.violated:
            raise tlc.MachineryError("closed form fails its own sphere check: %s" % rs.violated)
    ells = ellipsoids(gc, rnd, 4 if quick else 12)
    traces = []
    calls = 0
    pts = lattice if not quick else rnd.sample(lattice, 1800)
    # equator and poles for EVERY ellipsoid (separate code branch at lat == 0)
    special = [p for p in lattice if p[0] in ((0, 1, 1), (1, 0, 1), (-1, 0, 1)) and p[2] in (0, 1000, -10000)]
    special = special if not quick else rnd.sample(special, 60)
    for i, (slat, slon, h) in enumerate(special):
        for name, E in ells:
            traces.append({"ev": [fwd_event(cv, an, name, E, slat, slon, h, 0)]})
    for i, (slat, slon, h) in enumerate(pts):
        name, E = ells[i % len(ells)]
        traces.append({"ev": [fwd_event(cv, an, name, E, slat, slon, h, (i % 3) - 1 if abs(math.degrees(math.atan2(slon[0], slon[1])) + 360 * ((i % 3) - 1)) <= 360 else 0)]})
    calls += 2 * len(traces)
    # anywhere (not only on the rational-trigonometry lattice): random latitudes, longitudes in [-360, 360], heights, values a hair
    # off the equator / the poles / the quadrant meridians
    for k in range(300 if quick else 6000):
        name, E = ells[k % len(ells)]
        lat = rnd.choice([rnd.uniform(-90, 90), rnd.uniform(-90, 90), rnd.uniform(-1e-7, 1e-7), 90 - rnd.uniform(0, 1e-6), -90 + rnd.uniform(0, 1e-6),
                          0.0, 90.0, -90.0, 45.0])
        lon = rnd.choice([rnd.uniform(-360, 360), rnd.uniform(-360, 360), 0.0, 90.0, -90.0, 180.0, -180.0, 270.0, 360.0, -360.0,
                          90 + rnd.uniform(-1e-9, 1e-9)])
        h = rnd.choice([-1e4, 0.0, 4e7, rnd.uniform(-1e4, 4e7), rnd.uniform(-1e4, 1e4)])
        traces.append({"ev": [fwdany_event(cv, name, E, lat, lon, h, form=["float", "dec", "hp", "gon", "dms", "ddm", "float"][k % 7], an=an)]})
        calls += 1
    n_fwd = len(traces)
    # inverse: Cartesian points from geodetic strata and directly in all octants
    ninv = 600 if quick else 20000
    for k in range(ninv):
        name, E = ells[k % len(ells)]
        a = float(E.semimaj)
        if k % 2 == 0:
            lat = rnd.choice([0.0, 90.0, -90.0, rnd.uniform(-90, 90), rnd.uniform(-1e-6, 1e-6), 89.9999999, -45.0])
            lon = rnd.choice([0.0, 180.0, -180.0, rnd.uniform(-360, 360), 90.0, -90.0])
            h = rnd.choice([-1e4, 0.0, 4e7, rnd.uniform(-1e4, 4e7), rnd.uniform(-1e4, 1e4)])
            if abs(lat) == 90.0:
                lat = math.copysign(89.99999, lat)       # stay off the rotation axis
            p = cv.llh2xyz(lat, lon, h, E)
        else:
            R = rnd.choice([a - 1e4, a, a + 4e7, rnd.uniform(a - 1e4, a + 4e7)])
            u = [rnd.gauss(0, 1) for _ in range(3)]
            n = math.sqrt(sum(x * x for x in u))
            p = [R * x / n for x in u]
            if k % 10 == 1:                          # a metre (or less) off the axis, height inside [-10 km, 40 000 km]
                # (k is odd here: `k % 4` never vanished and x stayed positive; the side alternates with k // 10 - round 9)
                p[0], p[1] = rnd.choice([1.0, 1e-3, 100.0, 5e-4, 1e-4, 1e-6]) * (1 if (k // 10) % 2 else -1), 0.0
                p[2] = math.copysign(max(R, float(E.semimin) - 9.0e3), p[2] if p[2] else 1.0)
            if k % 10 == 3:
                p[2] = 0.0
            if k % 10 == 5:
                # beside the +-180 meridian (x < 0, |y| << |x|), one decade of the offset per event, both sides, and the meridian
                # itself as Cartesian input (y == 0.0 and y == -0.0 exactly: llh2xyz(lat, 180) never gives that) - round 9, C03-r9-1
                j = k // 10
                d = math.radians([0.0, 1e-13, 1e-11, 1e-9, 1e-7, 1e-5, 1e-3, 2e-2][j % 8])
                side = 1.0 if (j // 8) % 2 else -1.0
                la = math.radians(rnd.choice([0.0, rnd.uniform(-89.0, 89.0), rnd.uniform(-89.0, 89.0)]))
                p = [-R * math.cos(la) * math.cos(d), side * R * math.cos(la) * math.sin(d), R * math.sin(la)]
                if d == 0.0:
                    p[1] = 0.0 * side
        traces.append({"ev": [inv_event(cv, name, E, p)]})
        calls += 2
    ctx.evaluations = calls
    fails = validate(traces, ctx, "Trace_Cart")
    report(traces, fails, ctx)
    ctx.selftest(selftest, cv, an, gc)
    for t in traces:
        e = t["ev"][0]
        ctx.nontrivial((e["k"], e["ell"], json.dumps(e.get("slat", e.get("p"))), json.dumps(e.get("slon", 0)), e.get("hf", 0), e.get("lon", 0) if e["k"] == "Fwd" else 0))
        ctx.actions[e["k"]] = ctx.actions.get(e["k"], 0) + 1
    ctx.exhaustive = not quick
    ctx.rule = ("forward: %s lattice of Pythagorean latitudes (incl. 0 and +-90) x longitudes in four quadrants (+-360 deg turns) x "
                "9 heights (-10 km..40 000 km), 4 shipped + random ellipsoids, equator and poles on every ellipsoid, plus %d positions "
                "anywhere (random and a hair off the equator / poles / quadrant meridians; sines and cosines from Trig.tla); inverse: %d "
                "Cartesian points from geodetic strata and directly in all octants (radii a-10 km..a+4e7 m, incl. 1 mm..100 m off "
                "the axis and z = 0); distinct = distinct (direction, height, ellipsoid); the repository tests use ~130 Australian "
                "points on GRS80" % ("sampled (1800 of 21420)" if quick else "complete (21420 points)", 300 if quick else 6000, ninv))
    for t in traces[:1] + traces[n_fwd - 1:n_fwd] + traces[-1:]:
        e = t["ev"][0]
        ctx.sample({k: e[k] for k in e if k in ("k", "ell", "slat", "slon", "hf", "lat", "lon", "p")})
    ctx.assumptions += ["the latitude/longitude handed to the code is degrees(atan2(p, q)) of the triple (input rounding 1e-16 rad = 1e-9 m)",
                        "Newton start values for 1/(1/f) and 1/sqrt(1 - e2 sin^2) come from the trace and are verified in the spec to 1e-18"]


def describe(tr, l, clause):
    e = tr["ev"][l - 1] if l else {}
    d = {"clause": clause.split(".")[-1], "call": clause.split(".")[0]}
    if e.get("k") == "Fwd":
        d["lat_is_zero"] = e["slat"][0] == 0
    return d


def report(traces, fails, ctx):
    for (i, l, clause) in fails:
        tr = traces[i]
        e = tr["ev"][l - 1] if l else {}
        ctx.violation(describe(tr, l, clause), json.dumps({k: e[k] for k in e if k in ("k", "ell", "slat", "slon", "hf", "lat", "lon", "p", "exc", "same")}),
                      case={"ev": e})


def selftest(cv, an, gc):
    import copy
    b1 = {"ev": [fwd_event(cv, an, "grs80", gc.grs80, (3, 4, 5), (-5, 12, 13), 1000, 0)]}
    b2 = {"ev": [inv_event(cv, "grs80", gc.grs80, [-4052052.7379, 4212835.9897, -2545104.5898])]}
    t1 = copy.deepcopy(b1); t1["ev"][0]["out"][2] = fix.enc(fix.dec(t1["ev"][0]["out"][2]) + Fraction(3, 10 ** 6))
    t2 = copy.deepcopy(b2); t2["ev"][0]["back"][0] = fix.enc(fix.dec(t2["ev"][0]["back"][0]) + Fraction(3, 10 ** 5))
    t3 = copy.deepcopy(b1); t3["ev"][0]["r0"] = fix.enc(0.9)
    fails = validate([b1, b2, t1, t2, t3], None, None)
    rej = {i: c for (i, l, c) in fails}
    out = {"baselines_accepted": 0 not in rej and 1 not in rej, "z_plus_3um_rejected": rej.get(2, ""),
           "closure_plus_0.03mm_rejected": rej.get(3, ""), "bad_newton_start_detected": rej.get(4, "")}
    if 0 in rej or 1 in rej or not all(k in rej for k in (2, 3, 4)):
        raise tlc.MachineryError("binding self-test failed: %s" % out)
    return out


def replay(ctx, data):
    gc, cv, an = _mods()
    e = data["case"]["ev"]
    names = {"grs80": gc.grs80, "wgs84": gc.wgs84, "ans": gc.ans, "intl24": gc.intl24}
    if e["ell"] in names:
        E = names[e["ell"]]
    else:
        a, invf = e["ell"][5:-1].split(",")
        E = gc.Ellipsoid(float(a), float(invf))
    if e["k"] == "Fwd":
        turn = round((e["lon"] - math.degrees(math.atan2(e["slon"][0], e["slon"][1]))) / 360.0)
        tr = {"ev": [fwd_event(cv, an, e["ell"], E, tuple(e["slat"]), tuple(e["slon"]), e["hf"], turn)]}
    else:
        tr = {"ev": [inv_event(cv, e["ell"], E, e["p"])]}
    fails = validate([tr], ctx, "replay")
    report([tr], fails, ctx)
    print("replayed %s: %s" % (e["k"], fails if fails else "accepted"))
