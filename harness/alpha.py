"""The projection alpha: implementation values -> abstract values.

Deliberately dumb (DESIGN 3.7): exact decimal/limb encoding, digit decoding of HP values,
constant unit factors, objects -> records of their public attributes.  No iterative solver,
no series, no call into geodepy's own conversion routines, no comparison / verdict.
"""
from fractions import Fraction
import math

from harness import fix

NOTN = {"float": "float", "DECAngle": "dec", "HPAngle": "hp", "GONAngle": "gon",
        "DMSAngle": "dms", "DDMAngle": "ddm"}


def hp_digits(hp):
    """HP float -> (neg, D, MM, SS, frac9) read off the exact value rounded at 13 decimals (12 decimals from 512
    degrees on, where a double no longer carries the 13th).  frac9 = nano-arc-seconds (0..999999999)."""
    fr = Fraction(float(hp))
    neg = fr < 0
    if neg:
        fr = -fr
    nd = 13 if fr < 512 else 12
    q = (fr.numerator * 10 ** nd * 2 + fr.denominator) // (2 * fr.denominator)
    q *= 10 ** (13 - nd)
    D, rest = divmod(q, 10 ** 13)
    MM, rest = divmod(rest, 10 ** 11)
    SS, frac9 = divmod(rest, 10 ** 9)
    return neg, int(D), int(MM), int(SS), int(frac9)


def hp_to_deg(hp):
    neg, D, MM, SS, f9 = hp_digits(hp)
    v = Fraction(D) + Fraction(MM, 60) + (Fraction(SS) + Fraction(f9, 10 ** 9)) / 3600
    return -v if neg else v


def angle_deg(a):
    """Any of the six notations (float = decimal degrees) -> exact Fraction of degrees."""
    t = type(a).__name__
    if t in ("float", "int"):
        return Fraction(a)
    if t == "DECAngle":
        return Fraction(a.dec_angle)
    if t == "HPAngle":
        return hp_to_deg(a.hp_angle)
    if t == "GONAngle":
        return Fraction(a.gon_angle) * 9 / 10
    if t == "DMSAngle":
        v = Fraction(a.degree) + Fraction(a.minute, 60) + Fraction(a.second) / 3600
        return v if a.positive else -v
    if t == "DDMAngle":
        v = Fraction(a.degree) + Fraction(a.minute) / 60
        return v if a.positive else -v
    raise TypeError("not an angle: %r" % (a,))


def angle_payload(a):
    """Bit-exact signature of an angle value in its notation."""
    t = type(a).__name__
    if t in ("float", "int"):
        return "float:" + float(a).hex()
    if t == "DECAngle":
        return "dec:" + float(a.dec_angle).hex()
    if t == "HPAngle":
        return "hp:" + float(a.hp_angle).hex()
    if t == "GONAngle":
        return "gon:" + float(a.gon_angle).hex()
    if t == "DMSAngle":
        return "dms:%s:%d:%d:%s" % ("+" if a.positive else "-", a.degree, a.minute, float(a.second).hex())
    if t == "DDMAngle":
        return "ddm:%s:%d:%s" % ("+" if a.positive else "-", a.degree, float(a.minute).hex())
    return "?:" + repr(a)


def notn_of(a):
    return NOTN.get(type(a).__name__, "?" + type(a).__name__)


def opt(v):
    """optional height -> [present, number]"""
    if v is None:
        return [0, [0]]
    return [1, fix.enc(v)]


def hexes(*xs):
    return ",".join(float(x).hex() for x in xs)


def coord_obs(obj, prj_names):
    """CoordCart / CoordGeo / CoordTM -> observation record for Trace_Coord."""
    t = type(obj).__name__
    if t == "CoordCart":
        return {"form": "cart", "notn": "na", "ell": opt(None), "orth": opt(None), "nval": opt(obj.nval),
                "prjlab": "na", "hemi": "na",
                "pay": hexes(obj.xaxis, obj.yaxis, obj.zaxis),
                "pos": [fix.enc(obj.xaxis), fix.enc(obj.yaxis), fix.enc(obj.zaxis)]}
    if t == "CoordGeo":
        lat = angle_deg(obj.lat)
        lon = angle_deg(obj.lon)
        return {"form": "geo", "notn": notn_of(obj.lat) if notn_of(obj.lat) == notn_of(obj.lon) else "mixed",
                "ell": opt(obj.ell_ht), "orth": opt(obj.orth_ht), "nval": opt(None),
                "prjlab": "na", "hemi": "na",
                "pay": angle_payload(obj.lat) + "|" + angle_payload(obj.lon),
                "pos": [fix.enc(lat), fix.enc(lon), fix.enc(math.cos(math.radians(float(lat))))]}
    if t == "CoordTM":
        return {"form": "tm", "notn": "na", "ell": opt(obj.ell_ht), "orth": opt(obj.orth_ht), "nval": opt(None),
                "prjlab": prj_names.get(id(obj.projection), "other"),
                "hemi": "N" if obj.hemi_north else "S",
                "pay": "%d,%s,%s" % (obj.zone, hexes(obj.east, obj.north), "N" if obj.hemi_north else "S"),
                "pos": [int(obj.zone), fix.enc(obj.east), fix.enc(obj.north)]}
    return {"form": "?" + t, "notn": "na", "ell": opt(None), "orth": opt(None), "nval": opt(None),
            "prjlab": "na", "hemi": "na", "pay": repr(obj), "pos": [[0], [0], [0]]}


def build(cls, *args):
    """build a library object (Ellipsoid, Projection, TransformationSD ...) and remember the numbers it was BUILT WITH: the
    specification is given those, not what the object's attributes say afterwards (a constructor that truncates, rounds or drops an
    argument would otherwise be read back into the oracle)"""
    obj = cls(*args)
    try:
        obj._verif_defn = tuple(args)
    except Exception:
        pass
    return obj


def defn(obj, *attrs):
    """the defining numbers of an object: its constructor arguments if the driver built it (build), else the named attributes
    (shipped constants: their published values are stated in the specification)"""
    d = getattr(obj, "_verif_defn", None)
    if d is not None:
        return tuple(float(x) for x in d[:len(attrs)])
    return tuple(float(getattr(obj, a)) for a in attrs)

