"""pytest plugin: records the calls the REPOSITORY'S OWN tests make into the library (no change to /repo).

    PYTHONPATH=<repo>:/verif VERIF_RECORD_FILE=<path> python -m pytest -p harness.recorder geodepy/tests api

At configure time (before the test modules are imported) every geodepy module attribute that is one of the recorded public
functions is replaced by a recording wrapper, so that both the tests' own calls and the library's internal calls go through
it.  One JSON line per call: function, arguments and result in exact form (`float.hex`), the ellipsoid / parameter set
passed (defining numbers), nesting depth and the test that was running.  Nothing is judged here.
"""
import datetime
import functools
import json
import os
import sys
import types

TARGETS = {"geodepy.geodesy": ["vincdir", "vincinv"],
           "geodepy.convert": ["xyz2llh", "llh2xyz", "geo2grid", "grid2geo"],
           "geodepy.transform": ["conform7", "conform14"],
           "geodepy.angles": ["dec2hp", "dec2hpa", "dec2gon", "dec2gona", "dec2dms", "dec2ddm", "hp2dec", "hp2deca", "hp2rad", "hp2gon",
                              "hp2gona", "hp2dms", "hp2ddm", "gon2dec", "gon2deca", "gon2hp", "gon2hpa", "gon2rad", "gon2dms", "gon2ddm"]}
STATE = {"depth": 0, "out": None, "test": ""}


def enc(v):
    import numpy as np
    t = type(v).__name__
    if v is None or isinstance(v, (bool, str)):
        return v
    if isinstance(v, (int, float, np.floating, np.integer)) and t not in ("DECAngle", "HPAngle", "GONAngle", "DMSAngle", "DDMAngle"):
        return {"f": float(v).hex()}
    if isinstance(v, (datetime.date,)):
        return {"date": v.toordinal()}
    if isinstance(v, (tuple, list)):
        return [enc(x) for x in v]
    if isinstance(v, np.ndarray):
        return {"arr": [[float(x).hex() for x in row] for row in np.atleast_2d(v).tolist()], "shape": list(v.shape)}
    if t == "Ellipsoid":
        return {"ell": [float(v.semimaj).hex(), float(v.inversef).hex()]}
    if t == "Projection":
        return {"prj": [float(v.falseeast).hex(), float(v.falsenorth).hex(), float(v.cmscale).hex(), float(v.zonewidth).hex(),
                        float(v.initialcm).hex()]}
    if t == "Transformation":
        sd = v.tf_sd
        return {"trans": {"from": str(v.from_datum), "to": str(v.to_datum),
                          "ep": v.ref_epoch.toordinal() if isinstance(v.ref_epoch, datetime.date) else 0,
                          "p14": [float(getattr(v, k)).hex() for k in ("tx", "ty", "tz", "sc", "rx", "ry", "rz", "d_tx", "d_ty", "d_tz",
                                                                       "d_sc", "d_rx", "d_ry", "d_rz")],
                          "sd": [float(getattr(sd, k)).hex() for k in ("sd_tx", "sd_ty", "sd_tz", "sd_sc", "sd_rx", "sd_ry", "sd_rz")]
                          if type(sd).__name__ == "TransformationSD" else []}}
    if t in ("DECAngle", "HPAngle", "GONAngle", "DMSAngle", "DDMAngle"):
        o = {"angle": t, "dec": float(v.dec()).hex()}
        if t == "DECAngle":
            o["fields"] = [float(v.dec_angle).hex()]
        elif t == "HPAngle":
            o["fields"] = [float(v.hp_angle).hex()]
        elif t == "GONAngle":
            o["fields"] = [float(v.gon_angle).hex()]
        elif t == "DMSAngle":
            o["fields"] = [bool(v.positive), int(v.degree), int(v.minute), float(v.second).hex()]
        else:
            o["fields"] = [bool(v.positive), int(v.degree), float(v.minute).hex()]
        return o
    return {"other": t}


SAMPLED = set()          # functions the tests call in long loops: the first 60 calls and then every 1499th are recorded
COUNT = {}


def wrap(name, fn):
    @functools.wraps(fn)
    def w(*a, **k):
        if name in SAMPLED:
            n = COUNT[name] = COUNT.get(name, 0) + 1
            if n > 60 and n % 1499:
                return fn(*a, **k)
        STATE["depth"] += 1
        rec = {"fn": name, "args": enc(a), "kwargs": {x: enc(y) for x, y in k.items()}, "depth": STATE["depth"], "test": STATE["test"]}
        try:
            r = fn(*a, **k)
            rec["res"] = enc(r)
            return r
        except BaseException as ex:
            rec["exc"] = type(ex).__name__
            raise
        finally:
            STATE["depth"] -= 1
            if STATE["out"] is not None:
                STATE["out"].write(json.dumps(rec) + "\n")
    w._verif_recorded = True
    return w


def pytest_configure(config):
    path = os.environ.get("VERIF_RECORD_FILE")
    if not path:
        return
    sys.modules.setdefault("pandas", types.ModuleType("pandas")) if False else None
    STATE["out"] = open(path, "w")
    import importlib
    mods = []
    for m in ("geodepy.constants", "geodepy.angles", "geodepy.convert", "geodepy.geodesy", "geodepy.statistics", "geodepy.transform",
              "geodepy.coord", "geodepy.survey"):
        try:
            mods.append(importlib.import_module(m))
        except Exception:
            pass
    for mname, names in TARGETS.items():
        home = sys.modules.get(mname)
        if home is None:
            continue
        for n in names:
            orig = getattr(home, n)
            if mname == "geodepy.angles":
                SAMPLED.add(n)
            w = wrap(n, orig)
            for m in mods:
                if getattr(m, n, None) is orig:
                    setattr(m, n, w)


def pytest_runtest_setup(item):
    STATE["test"] = item.nodeid


def pytest_unconfigure(config):
    if STATE["out"] is not None:
        STATE["out"].close()
        STATE["out"] = None
