"""setup: BigFix self-test under TLC + number-encoding round trip."""
import random
import sys
from fractions import Fraction

from harness import fix, tlc


def main():
    r = tlc.run_tlc("BigFixTest", "BigFixTest.cfg")
    r2 = tlc.run_tlc("GeodesicOracleTest", "GeodesicOracleTest.cfg", workers=1, timeout=600)      # ASSUMEs: raises if one is false
    rnd = random.Random(1)
    for _ in range(2000):
        x = rnd.uniform(-1e8, 1e8) * rnd.choice([1, 1e-3, 1e-9, 1e-15])
        t = fix.enc(x)
        assert abs(fix.dec(t) - Fraction(x)) <= Fraction(1, 2 * fix.SCALE), x
        assert all(0 <= l < 10000 for l in t[1:]) and (len(t) == 1 or t[-1] != 0)
    print("setup ok: BigFix self-test passed (%d states), GeodesicOracle agrees with 12 lines solved with 40-digit quadrature "
          "(%.1f s), fix.enc exact on 2000 samples" % (r.distinct, r2.wall))
    return 0


if __name__ == "__main__":
    sys.exit(main())
