"""Check context: counters, verdict lines, evidence file, known findings, replay files."""
import hashlib
import json
import os
import sys
import time

VERIF = os.path.dirname(os.path.dirname(os.path.abspath(__file__)))
# (the two directories can be redirected, e.g. while a seeded change is being evaluated, so that the committed
#  evidence of the unchanged tree is not overwritten)
EVID = os.environ.get("VERIF_EVIDENCE_DIR") or os.path.join(VERIF, "evidence")
REPLAYS = os.environ.get("VERIF_REPLAY_DIR") or os.path.join(VERIF, "replays")
KNOWN = os.path.join(VERIF, "known_findings.json")


def load_known():
    if not os.path.exists(KNOWN):
        return []
    with open(KNOWN) as f:
        return json.load(f).get("entries", [])


def _matches(entry_match, desc):
    for k, v in entry_match.items():
        if k not in desc:
            return False
        dv = desc[k]
        if isinstance(v, dict) and "in" in v:
            if dv not in v["in"]:
                return False
        elif isinstance(v, dict) and ("min" in v or "max" in v):
            if "min" in v and not dv >= v["min"]:
                return False
            if "max" in v and not dv <= v["max"]:
                return False
        elif dv != v:
            return False
    return True


class Ctx:
    def __init__(self, prop, tier, seed):
        self.prop = prop
        self.tier = tier
        self.seed = seed
        self.t0 = time.time()
        self.states = 0
        self.transitions = 0
        self.traces = 0          # traces of the real code accepted by the trace spec
        self.evaluations = 0     # calls into the real code
        self.distinct = set()    # distinct non-trivial case keys
        self.samples = []
        self.assumptions = []
        self.rule = ""
        self.exhaustive = False
        self.actions = {}        # coverage: action -> count
        self.extra = {}          # extra coverage keys
        self.violations = []     # list of dict(desc=..., detail=..., case=...)
        self.tlc_cmds = []
        self.known = [e for e in load_known() if e.get("property") == prop and e.get("kind") == "finding"]
        self.known_hit = {}      # what -> count

    # ---- accounting ----
    def add_tlc(self, res, label=None):
        self.states += res.distinct
        self.transitions += res.generated
        for a, (d, t) in res.coverage.items():
            self.actions[a] = self.actions.get(a, 0) + t
        if label:
            self.extra.setdefault("tlc_runs", []).append(
                {"run": label, "generated": res.generated, "distinct": res.distinct, "wall_s": round(res.wall, 2)})

    def sample(self, s, cap=6):
        if len(self.samples) < cap:
            self.samples.append(s)

    def nontrivial(self, key):
        self.distinct.add(key if isinstance(key, (str, int, tuple)) else json.dumps(key, sort_keys=True))

    def selftest(self, fn, *args):
        """run a binding self-test; a self-test that cannot run because the tree under test is already
        violating the property (its baseline trace is rejected) must not mask the verdict"""
        from harness.tlc import MachineryError
        try:
            self.extra["binding_selftest"] = fn(*args)
        except Exception as e:
            # (any exception: on a tree that already violates the property the self-test's own baseline call may raise or lack fields)
            if self.violations or self.known_hit:
                self.extra["binding_selftest"] = {"ran": False, "why": "baseline unusable on a tree that violates the property: %s: %s"
                                                  % (type(e).__name__, str(e)[:300])}
            else:
                raise

    # ---- verdicts ----
    def violation(self, desc, detail="", case=None):
        """desc: canonical dict describing the failing input / call site / history."""
        for e in self.known:
            if _matches(e.get("match", {}), desc):
                w = e.get("what", "")
                self.known_hit[w] = self.known_hit.get(w, 0) + 1
                return False
        self.violations.append({"desc": desc, "detail": detail, "case": case})
        return True

    def finish(self):
        os.makedirs(EVID, exist_ok=True)
        os.makedirs(REPLAYS, exist_ok=True)
        wall = time.time() - self.t0
        cov = {
            "states": int(self.states),
            "transitions": int(self.transitions),
            "traces_validated_against_impl": int(self.traces),
            "samples": self.samples if self.samples else ["(no sample recorded)"],
            "evaluations": int(self.evaluations),
            "distinct_nontrivial": len(self.distinct),
            "rule": self.rule,
            "exhaustive": bool(self.exhaustive),
            "actions": self.actions,
            "known_findings_seen": self.known_hit,
        }
        cov.update(self.extra)
        ev = {
            "property_id": self.prop,
            "tier": self.tier,
            "seed": int(self.seed),
            "level": "model_checking",
            "coverage": cov,
            "assumptions": self.assumptions,
            "wall_s": round(wall, 2),
            "violations": len(self.violations),
        }
        with open(os.path.join(EVID, self.prop + ".json"), "w") as f:
            json.dump(ev, f, indent=1, default=str)
        for w, n in sorted(self.known_hit.items()):
            print("KNOWN-FINDING: property=%s %s (%d occurrence%s this run)" % (self.prop, w, n, "" if n == 1 else "s"))
        if self.violations:
            seen = set()
            for v in self.violations[:25]:
                blob = json.dumps({"property": self.prop, "tier": self.tier, "seed": self.seed, **v},
                                  indent=1, default=str, sort_keys=True)
                h = hashlib.sha1(json.dumps(v["desc"], sort_keys=True, default=str).encode()).hexdigest()[:10]
                if h in seen:
                    continue
                seen.add(h)
                path = os.path.join(REPLAYS, "%s_%s.json" % (self.prop, h))
                with open(path, "w") as f:
                    f.write(blob)
                print("VIOLATION property=%s replay=%s" % (self.prop, os.path.relpath(path, VERIF)))
                print("  what: %s" % json.dumps(v["desc"], default=str, sort_keys=True)[:600])
                if v.get("detail"):
                    print("  detail: %s" % str(v["detail"])[:600])
            if len(self.violations) > 25:
                print("  (+%d more violations not written)" % (len(self.violations) - 25))
            return 1
        print("OK property=%s tier=%s seed=%s states=%d transitions=%d traces=%d evaluations=%d distinct=%d wall=%.1fs"
              % (self.prop, self.tier, self.seed, self.states, self.transitions, self.traces,
                 self.evaluations, len(self.distinct), wall))
        return 0
