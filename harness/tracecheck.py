"""Batch trace validation: split a list of traces over parallel TLC processes.

Each TLC process validates one chunk with `-workers 1` (so PrintT lines do not interleave),
printing <<"FAIL", tid, l, clause>> for the first non-conforming step of a trace and
<<"END", tid>> for a trace consumed to its end.  A trace that does neither is `stuck`.
"""
import json
import os
import tempfile
from concurrent.futures import ThreadPoolExecutor

from harness import tlc

PAR = max(1, min(14, (os.cpu_count() or 2) - 2))


def write_tmp(text, suffix):
    fd, p = tempfile.mkstemp(prefix="gvf_", suffix=suffix)
    with os.fdopen(fd, "w") as f:
        f.write(text)
    return p


def _one(args):
    module, cfg, chunk, key, extra, tags, timeout, dfs, extra_files = args
    doc = {key: chunk}
    if extra:
        doc.update(extra)
    p = write_tmp(json.dumps(doc), ".json")
    try:
        return tlc.run_tlc(module, cfg, trace_file=p, workers=1, tags=tags, timeout=timeout, dfs=dfs,
                           extra_files=extra_files)
    finally:
        os.unlink(p)


def validate(module, cfg, traces, ctx=None, label=None, *, key="traces", extra=None, min_chunk=200,
             tags=("FAIL", "END"), timeout=3600, dfs=False, par=None, extra_files=(), all_fails=False):
    """Returns (fails, results): fails = list of (index, l, clause) for every trace not accepted."""
    n = len(traces)
    if n == 0:
        return [], []
    par = par or PAR
    nchunks = max(1, min(par, n // min_chunk if n >= min_chunk else 1))
    size = (n + nchunks - 1) // nchunks
    jobs = [(module, cfg, traces[i:i + size], key, extra, tags, timeout, dfs, tuple(extra_files))
            for i in range(0, n, size)]
    with ThreadPoolExecutor(max_workers=par) as ex:
        results = list(ex.map(_one, jobs))
    fails = []
    for j, r in enumerate(results):
        c0 = j * size
        if ctx is not None:
            ctx.add_tlc(r, None)
        if r.violated:
            raise tlc.MachineryError("%s: model invariant %s violated along a real trace\n%s"
                                     % (module, r.violated, r.out[-3000:]))
        ended = set(x[1] for x in r.tagged("END"))
        failed = {}
        for x in r.tagged("FAIL"):
            failed.setdefault(x[1], (x[2], x[3]))
        if all_fails:
            seen = set()
            for x in r.tagged("FAIL"):
                fails.append((c0 + x[1] - 1, x[2], x[3]))
                seen.add(x[1])
            for i in range(1, len(jobs[j][2]) + 1):
                if i in seen:
                    continue
                if i in ended:
                    if ctx is not None:
                        ctx.traces += 1
                else:
                    fails.append((c0 + i - 1, 0, "stuck: the trace specification could not consume the trace"))
            continue
        for i in range(1, len(jobs[j][2]) + 1):
            if i in failed:
                fails.append((c0 + i - 1, failed[i][0], failed[i][1]))
            elif i in ended:
                if ctx is not None:
                    ctx.traces += 1
            else:
                fails.append((c0 + i - 1, 0, "stuck: the trace specification could not consume the trace"))
    if ctx is not None and label:
        ctx.extra.setdefault("tlc_runs", []).append(
            {"run": label, "processes": len(jobs), "generated": sum(r.generated for r in results),
             "distinct": sum(r.distinct for r in results), "wall_s": round(max(r.wall for r in results), 2)})
    return fails, results
