"""Shared driver for the grid-conversion properties C01, C02, C10 (spec/Grid.tla, Trace_Grid.tla).

Builds observations of geo2grid / grid2geo on the real code for strata enumerated by TLC; TLC
(Trace_Grid) evaluates every clause; each property's check reports the clauses carrying its prefix.
"""
import importlib.util
import json
import math
import os
import random
import warnings

from harness import alpha, fix, tlc, tracecheck


def mods():
    import geodepy.constants as gc
    import geodepy.convert as cv
    import geodepy.angles as an
    return gc, cv, an


def hx(*v):
    return ",".join(float(x).hex() if isinstance(x, float) else str(x) for x in v)


class World:
    def __init__(self, rnd):
        self.gc, self.cv, self.an = mods()
        gc = self.gc
        self.rnd = rnd
        self.ell = {"grs80": gc.grs80, "wgs84": gc.wgs84, "ans": gc.ans, "intl24": gc.intl24}
        self.prj = {"utm": gc.utm, "isg": gc.isg}
        self.calls = 0

    def rand_ell(self):
        a = round(self.rnd.uniform(6.3e6, 6.4e6), 3)
        invf = round(self.rnd.uniform(150, 400), 6)
        return ("rand", alpha.build(self.gc.Ellipsoid, a, invf))

    def rand_prj(self):
        r = self.rnd
        return ("rand", alpha.build(self.gc.Projection, float(r.randrange(100000, 1000001, 50000)), float(r.randrange(9000000, 10000001, 100000)),
                                    r.choice([0.9996, 0.9999, 1.0, 0.999]), 6, -177))

    def rand_prj2(self):
        """user-defined zone systems other than 6 degrees from -177: (zone width, central meridian of zone 1)"""
        r = self.rnd
        zw, cm1 = r.choice([(6, 0), (3, -177), (8, -176), (2, 141), (6, -177), (4, -178), (6, 3), (1.5, -179.25), (2.5, -178.75), (1.5, 100.5)])
        return ("rand", alpha.build(self.gc.Projection, float(r.randrange(100000, 1000001, 50000)), float(r.randrange(9000000, 10000001, 100000)),
                                    r.choice([0.9996, 0.9999, 1.0, 0.999]), zw, cm1))

    def get_ell(self, cls):
        return self.rand_ell() if cls == "rand" else (cls, self.ell[cls])

    def get_prj(self, cls):
        return self.rand_prj() if cls == "rand" else (cls, self.prj[cls])

    # ---- alpha pieces ----
    def ell_rec(self, name, E):
        a, invf = alpha.defn(E, "semimaj", "inversef")
        return {"name": name, "a": fix.enc(a), "invf": fix.enc(invf)}

    def prj_rec(self, name, P):
        fe, fn, k0, zw, cm1 = alpha.defn(P, "falseeast", "falsenorth", "cmscale", "zonewidth", "initialcm")   # as built, not as stored
        return {"name": name, "fe": fix.enc(fe), "fn": fix.enc(fn), "k0": fix.enc(k0), "zw": int(zw), "cm1": int(cm1), "isg": P is self.gc.isg,
                "zwx": fix.enc(zw), "cm1x": fix.enc(cm1)}       # exact (a zone system may have a fractional width: TMA events only)

    def rounding_env(self, lat, E):
        """metric auxiliaries (DESIGN 3.7): longitude equivalent of the 0.05 mm output rounding of E and N"""
        e2 = float(E.ecc1sq)
        s = math.sin(math.radians(lat))
        nu = float(E.semimaj) / math.sqrt(1 - e2 * s * s)
        c = max(math.cos(math.radians(lat)), 1e-6)
        lonround = math.degrees(1.6 * 0.5e-4 / (nu * c))
        return lonround, lonround + 4e-10

    def observe(self, lat, lon, zonearg, ell, prj, args="float"):
        """forward at (lat, lon) and inverse of the result"""
        cv, an = self.cv, self.an
        (en, E), (pn, P) = ell, prj
        lr, cr = self.rounding_env(lat, E)
        o = {"lat": fix.enc(lat), "lon": fix.enc(lon), "latf": lat, "lonf": lon, "zonearg": int(zonearg), "args": args,
             "ell": self.ell_rec(en, E), "prj": self.prj_rec(pn, P), "lonround": fix.enc(lr), "convround": fix.enc(cr),
             "fwd": {"hemi": "", "zone": 0, "e": [0], "n": [0], "psf": [0], "conv": [0], "hex": ""},
             "inv": {"lat": [0], "lon": [0], "psf": [0], "conv": [0], "exc": "skipped"}}
        with warnings.catch_warnings():
            warnings.simplefilter("ignore")
            self.calls += 1
            a_lat, a_lon = lat, lon
            if args == "dec":
                a_lat, a_lon = an.DECAngle(lat), an.DECAngle(lon)
            elif args in ("hp", "gon", "dms", "ddm"):
                # an angle OBJECT of that class; the position it denotes (alpha: exact value of its fields) is what the exact
                # projection is evaluated at - the conversion into the notation moves it by up to 1e-13 deg
                mk = {"hp": an.dec2hpa, "gon": an.dec2gona, "dms": an.dec2dms, "ddm": an.dec2ddm}[args]
                a_lat, a_lon = mk(lat), mk(lon)
                dlat, dlon = alpha.angle_deg(a_lat), alpha.angle_deg(a_lon)
                o["lat"], o["lon"] = fix.enc(dlat), fix.enc(dlon)
                o["latf"], o["lonf"] = float(dlat), float(dlon)
            hemi, zone, e, n, psf, conv = cv.geo2grid(a_lat, a_lon, zonearg, E, P)
            o["fwd"] = {"hemi": hemi, "zone": int(zone), "e": fix.enc(e), "n": fix.enc(n), "psf": fix.enc(psf), "conv": fix.enc(conv),
                        "hex": hx(hemi, zone, e, n, psf, conv)}
            o["_f"] = (hemi, zone, e, n)
            try:
                self.calls += 1
                la, lo, ps, co = cv.grid2geo(zone, e, n, hemi, E, P)
                o["inv"] = {"lat": fix.enc(la), "lon": fix.enc(lo), "psf": fix.enc(ps), "conv": fix.enc(co), "exc": ""}
            except Exception as ex:
                o["inv"]["exc"] = "%s: %s" % (type(ex).__name__, str(ex)[:80])
        return o

    def p_event(self, lat, lon, zonearg, ell, prj, tag):
        ev = {"k": "P", "exc": "", "tag": tag}
        try:
            ev["o"] = self.observe(lat, lon, zonearg, ell, prj)
        except Exception as ex:
            ev["exc"] = "%s: %s" % (type(ex).__name__, str(ex)[:100])
            ev["o"] = {"latf": lat, "lonf": lon, "zonearg": zonearg, "ell": {"name": ell[0]}, "prj": {"name": prj[0]}}
        return ev

    def pair_event(self, rel, a_args, b_args, tag):
        ev = {"k": "PAIR", "rel": rel, "exc": "", "tag": tag}
        try:
            ev["a"] = self.observe(*a_args)
            ev["b"] = self.observe(*b_args)
        except Exception as ex:
            ev["exc"] = "%s: %s" % (type(ex).__name__, str(ex)[:100])
            ev["a"] = ev["b"] = {}
            ev["args"] = [str(a_args[:3]), str(b_args[:3])]
        return ev

    def irt_event(self, zone, e, n, hemi, ell, prj, tag):
        cv = self.cv
        (en, E), (pn, P) = ell, prj
        ev = {"k": "IRT", "exc": "", "tag": tag}
        o = {"zone": int(zone), "e": fix.enc(e), "n": fix.enc(n), "ef": e, "nf": n, "hemi": hemi, "ell": self.ell_rec(en, E),
             "prj": self.prj_rec(pn, P), "lat": [0], "lon": [0], "psf": [0], "conv": [0], "convround": [0],
             "back": {"e": [0], "n": [0], "zone": 0, "hemi": "", "psf": [0], "conv": [0], "exc": "skipped"},
             "mirror": {"skip": True, "lat": [0], "lon": [0]}}
        ev["o"] = o
        with warnings.catch_warnings():
            warnings.simplefilter("ignore")
            try:
                self.calls += 1
                la, lo, ps, co = cv.grid2geo(zone, e, n, hemi.lower(), E, P)
            except Exception as ex:
                ev["exc"] = "%s: %s" % (type(ex).__name__, str(ex)[:100])
                return ev
            lr, cr = self.rounding_env(la, E)
            o.update({"lat": fix.enc(la), "lon": fix.enc(lo), "psf": fix.enc(ps), "conv": fix.enc(co), "convround": fix.enc(cr)})
            try:
                self.calls += 1
                h2, z2, e2, n2, p2, c2 = cv.geo2grid(la, lo, zone, E, P)
                o["back"] = {"e": fix.enc(e2), "n": fix.enc(n2), "zone": int(z2), "hemi": h2, "psf": fix.enc(p2), "conv": fix.enc(c2), "exc": ""}
            except Exception as ex:
                o["back"]["exc"] = "%s: %s" % (type(ex).__name__, str(ex)[:80])
            # mirror image in the other hemisphere (northing N in the north <-> fn - N in the south)
            fn = float(P.falsenorth)
            nm = fn - n
            if 0 <= nm <= 10000000:
                try:
                    self.calls += 1
                    other = "south" if hemi.lower() == "north" else "north"
                    la2, lo2, _, _ = cv.grid2geo(zone, e, nm, other, E, P)
                    o["mirror"] = {"skip": False, "lat": fix.enc(la2), "lon": fix.enc(lo2)}
                except Exception:
                    pass
        return ev

    _sta = None

    def standalone(self):
        if World._sta is None:
            path = os.path.join(os.environ.get("GEODEPY_REPO", "/repo"), "Standalone", "mga2gda.py")
            spec = importlib.util.spec_from_file_location("verif_mga2gda", path)
            m = importlib.util.module_from_spec(spec)
            spec.loader.exec_module(m)
            World._sta = m
        return World._sta

    def sta_event(self, zone, e, n, tag):
        ev = {"k": "STA", "exc": "", "tag": tag, "o": {"zone": zone, "ef": e, "nf": n}}
        try:
            self.calls += 2
            la, lo = self.standalone().grid2geo(zone, e, n)
            lb, lob, _, _ = self.cv.grid2geo(zone, e, n)
            ev["o"].update({"sta": {"lat": fix.enc(la), "lon": fix.enc(lo)}, "lib": {"lat": fix.enc(lb), "lon": fix.enc(lob)}})
        except Exception as ex:
            ev["exc"] = "%s: %s" % (type(ex).__name__, str(ex)[:100])
        return ev

    def cm_event(self, tri, zone, ell, prj, tag):
        """forward + inverse on the central meridian at the Pythagorean latitude of `tri`"""
        P = prj[1]
        if P is self.gc.isg:
            cm = (zone // 10 - 1) * P.zonewidth * 3 + P.initialcm + (zone % 10 - 2) * P.zonewidth
        else:
            cm = zone * P.zonewidth + P.initialcm - P.zonewidth
        lat = math.degrees(math.atan2(tri[0], tri[1]))
        ev = {"k": "CM", "exc": "", "tag": tag}
        try:
            o = self.observe(lat, float(cm), zone, ell, prj)
            o["tri"] = list(tri)
            o["n0"] = fix.enc(1.0 / (2.0 * alpha.defn(ell[1], "semimaj", "inversef")[1] - 1.0))
            ev["o"] = o
        except Exception as ex:
            ev["exc"] = "%s: %s" % (type(ex).__name__, str(ex)[:100])
            ev["o"] = {"latf": lat, "lonf": float(cm), "zonearg": zone, "ell": {"name": ell[0]}, "prj": {"name": prj[0]}}
        return ev

    def tm_event(self, tri, tdl, zone, ell, prj, tag):
        """forward + inverse at Pythagorean latitude `tri` and Pythagorean longitude difference `tdl` from the CM"""
        P = prj[1]
        cm = zone * P.zonewidth + P.initialcm - P.zonewidth
        lat = math.degrees(math.atan2(tri[0], tri[1]))
        lon = cm + math.degrees(math.atan2(tdl[0], tdl[1]))
        ev = {"k": "TM", "exc": "", "tag": tag}
        try:
            o = self.observe(lat, lon, zone, ell, prj)
            o["tri"] = list(tri)
            o["tdl"] = list(tdl)
            o["n0"] = fix.enc(1.0 / (2.0 * alpha.defn(ell[1], "semimaj", "inversef")[1] - 1.0))
            ev["o"] = o
        except Exception as ex:
            ev["exc"] = "%s: %s" % (type(ex).__name__, str(ex)[:100])
            ev["o"] = {"latf": lat, "lonf": lon, "zonearg": zone, "ell": {"name": ell[0]}, "prj": {"name": prj[0]}}
        return ev

    def tma_event(self, lat, lon, zone, ell, prj, tag, args="float"):
        """forward + inverse at ANY latitude / longitude (exact TM oracle with the specification's sines and cosines);
        args: the form in which latitude and longitude are handed over (float or an object of one of the five angle classes)"""
        ev = {"k": "TMA", "exc": "", "tag": tag, "args": args}
        try:
            o = self.observe(lat, lon, zone, ell, prj, args)
            o["n0"] = fix.enc(1.0 / (2.0 * alpha.defn(ell[1], "semimaj", "inversef")[1] - 1.0))
            ev["o"] = o
        except Exception as ex:
            ev["exc"] = "%s: %s" % (type(ex).__name__, str(ex)[:100])
            ev["o"] = {"latf": lat, "lonf": lon, "zonearg": zone, "ell": {"name": ell[0]}, "prj": {"name": prj[0]}}
        return ev

    def zone_event(self, lon100, lat, prj, tag):
        (pn, P) = prj
        ev = {"k": "ZONE", "exc": "", "tag": tag, "o": {"lon100": lon100, "zw": int(P.zonewidth), "cm1": int(P.initialcm), "zone": 0}}
        try:
            self.calls += 1
            ev["o"]["zone"] = int(self.cv.geo2grid(lat, lon100 / 100.0, 0, self.gc.grs80, P)[1])
        except Exception as ex:
            ev["exc"] = "%s: %s" % (type(ex).__name__, str(ex)[:100])
        return ev

    # ---- strata -> concrete positions ----
    def position(self, s):
        """a real position inside stratum s (record from Grid!Strata) -> (lat, lon, zone, ell, prj)"""
        r = self.rnd
        ell = self.get_ell(s["ell"])
        prj = self.get_prj(s["prj"])
        P = prj[1]
        if s["prj"] == "isg":
            zone = r.choice([541, 542, 543, 551, 552, 553, 561, 562, 563, 572])
            cm = (zone // 10 - 1) * P.zonewidth * 3 + P.initialcm + (zone % 10 - 2) * P.zonewidth
        else:
            zone = {"1": 1, "60": 60, "mid": r.randint(2, 59)}[s["zone"]]
            cm = zone * P.zonewidth + P.initialcm - P.zonewidth
        lo, hi = {"0": (0, 0), "0-3": (1e-7, 3.0), "3-10": (3.0, 10.0), "10-30": (10.0, 30.0)}[s["dlon"]]
        if s["prj"] == "isg":
            hi = min(hi, 0.999)         # strictly inside the ten ISG zones (their neighbours, e.g. 571, are not valid codes)
        d = r.uniform(lo, hi) if hi > 0 else 0.0
        if s["dlon"] == "0-3" and r.random() < 0.15:
            d = r.choice([1e-7, 1e-5, hi])
        dl = -d if s["side"] == "W" else d
        lon = cm + dl
        if lon < -180 or lon >= 180:
            lon = cm - dl          # other side of the CM keeps |dlon| and the band inside [-180, 180)
            if lon < -180 or lon >= 180:
                lon = float(cm)
        if s["lat"] == "eq":
            lat = 0.0
        else:
            a, b = {"low": (1e-6, 20.0), "mid": (20.0, 60.0), "high": (60.0, 79.9), "limit": (79.9, 79.999999)}[s["lat"]]
            if s["hemi"] == "N" and s["lat"] == "limit":
                a, b = 83.0, 83.999999
            if s["prj"] == "isg":
                b = min(b, 44.0)
            lat = r.uniform(a, b)
            if s["lat"] == "limit" and r.random() < 0.3:
                lat = b
            if s["hemi"] == "S":
                lat = -lat
        return lat, lon, zone, ell, prj


def strata(ctx):
    """Grid!Strata enumerated by TLC"""
    r = tlc.run_tlc("MC_Grid", "MC_Grid.cfg", workers=1, tags=("STRATUM",), timeout=1800, coverage=True)
    ctx.add_tlc(r, "MC_Grid strata + zone rule on the 0.01-degree lattice")
    if r.violated:
        raise tlc.MachineryError("Grid model violated %s" % r.violated)
    seen = {}
    for p in r.prints:
        seen[json.dumps(p[1], sort_keys=True)] = p[1]
    return list(seen.values())


def validate(traces, ctx, label):
    fails, _ = tracecheck.validate("Trace_Grid", "Trace_Grid.cfg", traces, ctx, label, min_chunk=250, timeout=3000, all_fails=True)
    return fails


def describe_event(ev):
    k = ev["k"]
    if k in ("P", "CM", "TM", "TMA"):
        o = ev["o"]
        return {"lat": o.get("latf"), "lon": o.get("lonf"), "zonearg": o.get("zonearg"), "ell": o["ell"]["name"], "prj": o["prj"]["name"],
                "fwd": o.get("fwd", {}).get("hex", ""), "inv_exc": o.get("inv", {}).get("exc", "")}
    if k == "PAIR":
        a, b = ev.get("a", {}), ev.get("b", {})
        return {"rel": ev["rel"], "a": [a.get("latf"), a.get("lonf"), a.get("zonearg"), a.get("ell", {}).get("name"), a.get("prj", {}).get("name"), a.get("fwd", {}).get("hex")],
                "b": [b.get("latf"), b.get("lonf"), b.get("zonearg"), b.get("ell", {}).get("name"), b.get("prj", {}).get("name"), b.get("fwd", {}).get("hex")]}
    if k == "IRT":
        o = ev["o"]
        return {"zone": o["zone"], "e": o["ef"], "n": o["nf"], "hemi": o["hemi"], "ell": o["ell"]["name"], "prj": o["prj"]["name"],
                "back_exc": o["back"]["exc"]}
    return {kk: vv for kk, vv in ev.get("o", {}).items() if not isinstance(vv, (dict, list))}
