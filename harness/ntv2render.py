"""NTv2 binary renderer / tokeniser for C17 (the inverse pair `abstract file <-> bytes`).

Abstract file (the same record the TLA+ module NTv2 works on, all integers):
  {"hdr": {"gs_type","version","system_f","system_t": str <= 8 chars,
           "major_f","minor_f","major_t","minor_t": float.hex() strings},
   "subs": [ {"name","parent": str, "cd","cm","cy","ud","um","uy": digit strings (created / updated),
              "s","n","e","w": extents in 0.001 arc-second (longitudes positive WEST, e < w),
              "dlat","dlon": increments in 1e-6 arc-second split as [milli, micro] -> here `dlat`,`dlon` in 0.001"
                             plus `dlatu`,`dlonu` extra micro-arc-seconds (0..999),
              "rows","cols": node counts, "sh": values are P / 2^sh,
              "coef": 4 fields x 3 x 3 integers a[f][i][j], P_f(u, v) = sum a[f][i][j] u^i v^j,
                      u = column index (0 = EAST edge), v = row index (0 = SOUTH edge)} ... ]}

Layout written (the published NTv2 layout, little endian, 16-byte records): 11 overview records
(8-byte key + int32/pad | 8 chars | float64), per sub-grid 11 header records followed by rows*cols node
records of four float32 (row 0 = south, inside a row column 0 = east, going west), one END record.

Nothing here interpolates or selects anything: `render` evaluates the integer polynomial at integer node
indices (that is the definition of the abstract file), `tokens` cuts bytes back into records.
"""
import struct
from fractions import Fraction

OV_KEYS = ["NUM_OREC", "NUM_SREC", "NUM_FILE", "GS_TYPE ", "VERSION ", "SYSTEM_F", "SYSTEM_T",
           "MAJOR_F ", "MINOR_F ", "MAJOR_T ", "MINOR_T "]
SUB_KEYS = ["SUB_NAME", "PARENT  ", "CREATED ", "UPDATED ", "S_LAT   ", "N_LAT   ", "E_LONG  ", "W_LONG  ",
            "LAT_INC ", "LONG_INC", "GS_COUNT"]
REC = 16


def _s8(s):
    b = s.encode("ascii")
    assert len(b) <= 8, s
    return b.ljust(8, b" ")


def _int(key, n):
    return _s8(key) + struct.pack("<i", n) + b"\0\0\0\0"


def _str(key, s):
    return _s8(key) + _s8(s)


def _dbl(key, x):
    return _s8(key) + struct.pack("<d", x)


def milli(m):
    """0.001-arc-second integer -> the double nearest to the decimal value"""
    return float(Fraction(m, 1000))


def inc_value(m, u):
    """increment = m * 0.001" + u * 1e-6" -> nearest double"""
    return float(Fraction(m, 1000) + Fraction(u, 1000000))


def node_int(sub, f, r, c):
    a = sub["coef"][f]
    return sum(a[i][j] * c ** i * r ** j for i in range(3) for j in range(3))


def node_value(sub, f, r, c):
    p = node_int(sub, f, r, c)
    assert abs(p) < 2 ** 24, "node value not exact in float32"
    return p / float(2 ** sub["sh"])


def render_sub_header(sub):
    return b"".join([
        _str(SUB_KEYS[0], sub["name"]), _str(SUB_KEYS[1], sub["parent"]),
        _str(SUB_KEYS[2], sub["cd"] + sub["cm"] + sub["cy"]), _str(SUB_KEYS[3], sub["ud"] + sub["um"] + sub["uy"]),
        _dbl(SUB_KEYS[4], milli(sub["s"])), _dbl(SUB_KEYS[5], milli(sub["n"])),
        _dbl(SUB_KEYS[6], milli(sub["e"])), _dbl(SUB_KEYS[7], milli(sub["w"])),
        _dbl(SUB_KEYS[8], inc_value(sub["dlat"], sub.get("dlatu", 0))),
        _dbl(SUB_KEYS[9], inc_value(sub["dlon"], sub.get("dlonu", 0))),
        _int(SUB_KEYS[10], sub["rows"] * sub["cols"])])


def render_nodes(sub):
    out = bytearray()
    for r in range(sub["rows"]):
        for c in range(sub["cols"]):
            out += struct.pack("<4f", *[node_value(sub, f, r, c) for f in range(4)])
    return bytes(out)


def render(af):
    h = af["hdr"]
    out = bytearray()
    out += _int(OV_KEYS[0], 11) + _int(OV_KEYS[1], 11) + _int(OV_KEYS[2], len(af["subs"]))
    out += _str(OV_KEYS[3], h["gs_type"]) + _str(OV_KEYS[4], h["version"])
    out += _str(OV_KEYS[5], h["system_f"]) + _str(OV_KEYS[6], h["system_t"])
    for k, key in zip(("major_f", "minor_f", "major_t", "minor_t"), OV_KEYS[7:]):
        out += _dbl(key, float.fromhex(h[k]))
    for sub in af["subs"]:
        out += render_sub_header(sub)
        out += render_nodes(sub)
    out += _s8("END") + b"\0" * 8
    return bytes(out)


def tokens(data):
    """bytes -> abstract-level tokens (inverse of render up to the polynomial: nodes come back as values)."""
    def rec(i):
        return data[i * REC:(i + 1) * REC]
    ov = {}
    for k in range(11):
        r = rec(k)
        key = r[:8].decode("ascii")
        assert key == OV_KEYS[k], (key, OV_KEYS[k])
        if k < 3:
            ov[key.strip().lower()] = struct.unpack("<i", r[8:12])[0]
        elif k < 7:
            ov[key.strip().lower()] = r[8:].decode("ascii").strip()
        else:
            ov[key.strip().lower()] = struct.unpack("<d", r[8:])[0].hex()
    subs = []
    pos = 11
    for _ in range(ov["num_file"]):
        sh = {}
        for k in range(11):
            r = rec(pos + k)
            key = r[:8].decode("ascii")
            assert key == SUB_KEYS[k]
            name = key.strip().lower()
            if k < 4:
                sh[name] = r[8:].decode("ascii").strip()
            elif k < 10:
                sh[name] = struct.unpack("<d", r[8:])[0]
            else:
                sh[name] = struct.unpack("<i", r[8:12])[0]
        pos += 11
        sh["first_node_record"] = pos
        sh["nodes"] = [struct.unpack("<4f", rec(pos + k)) for k in range(sh["gs_count"])]
        pos += sh["gs_count"]
        subs.append(sh)
    assert rec(pos)[:3] == b"END"
    return ov, subs


def poisoned(data, keep_records):
    """copy of the file image in which every 16-byte record NOT in keep_records is overwritten with NaN
    patterns (headers, other sub-grids, far nodes, END)."""
    nan = struct.pack("<4f", *([float("nan")] * 4))
    n = len(data) // REC
    out = bytearray(nan * n)
    for k in keep_records:
        out[k * REC:(k + 1) * REC] = data[k * REC:(k + 1) * REC]
    return bytes(out)
