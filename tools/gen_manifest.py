#!/usr/bin/env python3
"""Regenerate MANIFEST.json from the table below (kept valid at all times)."""
import json
import os
import subprocess

HERE = os.path.dirname(os.path.dirname(os.path.abspath(__file__)))
props = [json.loads(l) for l in open(os.path.join(HERE, "properties.jsonl"))]

CHECKS = {}


def claim(pid, text, note, technique, design_ref, engine="tlc"):
    CHECKS[pid] = dict(text=text, note=note, technique=technique, design_ref=design_ref, engine=engine)


claim("C15",
      "Coord.tla models CoordCart/CoordGeo/CoordTM as one state machine (one action per public method, heights "
      "absent/0/value, six notations). TLC checks the height-carrying invariants exhaustively on the model, then "
      "enumerates every (state, action) transition, every depth-2 (thorough: depth-3) path and simulated chains of "
      "length 8; the driver executes each on the real objects and Trace_Coord.tla (TLC) validates every step: abstract "
      "state = Coord!Post, numbers bit-identical to the functional API, notation change keeps the position (1e-8\"), "
      "closed chains return within 0.3 mm.",
      "Trusted: TLC; the projection alpha (harness/alpha.py: attribute reads, exact decimal encoding, digit decoding of HP "
      "floats); positions are seeded samples per (hemisphere, latitude band, ellipsoid, projection) stratum, so the numeric "
      "clauses are sampled while the state machine is covered exhaustively to the stated depth.",
      "TLA+ state machine + TLC exhaustive model check + TLC-generated behaviours replayed into the code + TLC trace validation",
      "DESIGN.md section 4 C15")

claim("C11",
      "The live catalogue (all Transformation constants of geodepy.constants) is dumped as a TLA+ constant; TLC audits it "
      "completely: every name against its labels, every forward/reverse pair for exact negation, every ordered ITRF triple "
      "(A->B, B->C, A->C) at every date reference epoch of the catalogue against the published rounding, with the intended "
      "Neg/Shift/Iers2Trans operators written in exact fixed-point arithmetic (Catalogue.tla). The algebra of the operators "
      "is model-checked on the live data, and all words of length <= 2 (thorough: 3) over {Neg, Shift(e)} from every dated "
      "set plus random IERS tuples are executed on the real objects and validated step by step by Trace_Catalogue.tla.",
      "Trusted: TLC; BigFix arithmetic (self-tested at setup); alpha's tokenisation of constant names and exact decimal "
      "encoding of floats. The catalogue is finite, so the audit is exhaustive; IERS tuples are sampled.",
      "TLA+ specification over the dumped configuration, exhaustive TLC audit + TLC-generated words replayed into the code + TLC trace validation",
      "DESIGN.md section 4 C11")

claim("C09",
      "Purity.tla models threads running programs of library calls over shared constants; TLC proves the non-interference "
      "theorem on the intended model (no action writes a constant => every interleaving gives every call the result of its "
      "first evaluation; every call returns) and must refute it on the as-built write sets (anti-vacuity). TLC then generates "
      "schedules (all single-thread programs to the bound over 16 call classes, all 2-thread interleavings over 5 classes, "
      "simulated programs up to 50 calls); the driver runs them, plus free-running 2..8 real threads, on the real library with "
      "the guarded write barrier of geodepy/constants.py on, and Trace_Purity.tla validates each history: a write to any shipped "
      "constant has no action in the specification (rejected, naming object.attribute, even if transient), arguments and the "
      "deep snapshot of all module-level constants unchanged, results bit-identical to the first evaluation of the same call.",
      "Trusted: TLC; the write barrier (one guarded add-only hook) sees writes through __setattr__ only, direct __dict__ "
      "mutation only as a net change in the snapshot; interleaving inside a call is left to CPython (switch interval 1 us); "
      "the call alphabet is 129 concrete calls of the public API with fixed valid arguments, not every argument value.",
      "TLA+ model of threads/calls/shared constants checked by TLC (theorem + as-built refutation), TLC-generated schedules "
      "replayed on real threads with a write-barrier hook, TLC trace validation",
      "DESIGN.md section 4 C09")

claim("C08",
      "Angles.tla: nine notations, the 67 public conversion routines (20 functions, math.radians/degrees, constructors, "
      "vectorised forms, 40 object methods) as edges of a state machine whose actions must not change the abstract angle "
      "<<sign, whole arc-seconds, nano-arc-seconds>>. TLC enumerates every chain of routines up to length 3; each is run on "
      "the real code from lattice angles (degree/minute/second boundary values x fraction classes x both signs, float "
      "predecessors of boundaries, random reals to 720 deg) and Trace_Angles.tla decides every step in integer arithmetic: "
      "same angle within 1e-8\", same sign, every HP value produced is valid, valid HP accepted by every HP-taking routine, "
      "HP with a field >= 60 rejected by hp2dec and HPAngle. The whole-second lattice (1 296 000 values x 2 signs) goes through "
      "HPAngle(), hp2dec, hp2dms, hp2ddm, hp2dec_v, dec2hp, dec2hpa, dec2hp_v: sampled in quick, complete in thorough.",
      "Trusted: TLC; alpha's decoding of each notation to nano-arc-seconds (exact rational arithmetic, HP digits read from the "
      "exact float at 13 decimals, 35-digit pi for radians, one rounding of 0.5e-9\" on the generous side).",
      "TLA+ state machine over notations, TLC-enumerated conversion chains replayed into the code, TLC trace validation in exact integer arithmetic",
      "DESIGN.md section 4 C08")

claim("C12",
      "AnglesExpr.tla is a stack machine whose instructions are the operators of the five angle classes (+, -, unary -, abs, "
      "* k, k *, / k, % k for DMS/DDM, round(n), ==, !=, <, >) with the intended semantics in exact arithmetic: value = the "
      "operation on the operands' decimal degrees, class = class of the left operand, rounding within half a unit of the rounded "
      "field. TLC enumerates every well-formed postfix program to the bound with all leaf-class assignments (and simulates "
      "longer ones); the driver evaluates each expression shape on real objects once per class assignment with boundary-lattice "
      "and random leaf values, and Trace_AnglesExpr.tla decides every instruction (raised / class / value within 1e-8\" / round / "
      "bool) and that all class assignments of one expression denote the same angle.",
      "Trusted: TLC, BigFix; alpha's decoding of angle objects from their fields (exact rationals). Expected values use the "
      "operands' own .dec() as the property states; leaf values are lattice + seeded random samples.",
      "TLA+ stack-machine specification, TLC-enumerated programs replayed into the code, TLC trace validation in exact fixed-point arithmetic",
      "DESIGN.md section 4 C12")

claim("C06",
      "Helmert.tla holds the 7-parameter similarity formula (Australian rotation convention, arc-seconds, ppm), its first-order "
      "covariance propagation J Q J^T and the second-order reversal bound in exact fixed-point arithmetic over the dumped live "
      "catalogue. Audit_Helmert (TLC) decides the formula-level statements for all 120 shipped sets x 9 points (reversal below "
      "0.01 mm / 2 mm for AGD sets, bound, reference-epoch reduction). Trace_Helmert (TLC) validates chains of real conform7 "
      "calls: every shipped set forward then negated on points in all octants up to 5e7 m, random sets in the stated ranges, "
      "covariance presence table and value (rank-deficient / ill-conditioned PSD inputs, sets with and without uncertainties): "
      "value within 1 um of the exactly evaluated formula, closure, vcv symmetric / = J Q J^T to 1e-9 / PSD by principal minors.",
      "Trusted: TLC, BigFix (pi bracketed at 1e-20); alpha's exact decimal encoding of floats. Points and random sets are "
      "seeded samples; the catalogue is covered completely.",
      "TLA+ specification with the formula in exact fixed-point arithmetic, TLC audit of the live catalogue, TLC trace validation of real call chains",
      "DESIGN.md section 4 C06")
claim("C07",
      "On top of Helmert.tla and Catalogue!ShiftSet (parameter + rate * days/365.25, exact): Trace_Helmert (TLC) validates "
      "chains of real conform14 / transform_atrf2014_to_gda2020 / transform_gda2020_to_atrf2014 calls for every dated shipped "
      "set and random dated sets over epochs 1980..2060 (reference epoch itself, +-1 day, leap days, year starts, epochs before "
      "the reference epoch): value within 2 um of the formula with exactly advanced parameters (which at the reference epoch is the "
      "7-parameter formula, and for the ATRF helpers the formula with the plate-motion set), exactly the identity at "
      "2020-01-01, set-then-negation at the same epoch within the second-order bound. Audit_Helmert decides the formula-level "
      "statements on the catalogue.",
      "Trusted: as C06. The 8-decimal rounding of re-referenced parameters in the code (< 0.3 um at 1e7 m) is inside the stated 2 um.",
      "TLA+ specification with exact time propagation, TLC audit, TLC trace validation of real call chains",
      "DESIGN.md section 4 C07")

claim("C03",
      "Cart.tla gives the closed form of the geodetic-to-Cartesian conversion at positions whose latitude and longitude have "
      "rational sine and cosine (Pythagorean triples, incl. equator and poles) for any rational (a, 1/f), with the reciprocal and "
      "reciprocal square root obtained by Newton steps in exact fixed-point arithmetic and verified in the spec. MC_Cart (TLC) "
      "enumerates the lattice (35 latitudes x 68 longitudes x 9 heights) and, in thorough, checks the closed form against the "
      "sphere. Trace_Cart (TLC) decides on values observed from the real code: llh2xyz within 1 um of the closed form on the "
      "lattice for 4 shipped + random ellipsoids (equator and poles on every ellipsoid, +-360 deg longitude turns, angle-object "
      "arguments bit-identical) AND at arbitrary positions (random latitudes, longitudes in [-360, 360], a hair off the equator / "
      "poles / quadrant meridians) with the sines and cosines from the specification's own series (Trig.tla); the shipped "
      "ellipsoids judged on their published constants; xyz2llh longitude in [-180, 180] and llh2xyz(xyz2llh(P)) = P within 0.02 mm for Cartesian points "
      "generated both from geodetic strata and directly in all octants (incl. 1 mm..100 m off the axis, z = 0, heights -10 km..4e7 m).",
      "Trusted: TLC, BigFix; alpha's exact decimal encoding; lattice inputs are degrees(atan2(p, q)) (1e-9 m input rounding). "
      "The inverse is decided by closure against a forward that is decided exactly; inverse points are seeded samples.",
      "TLA+ specification with closed form in exact fixed-point arithmetic on a rational-trigonometry lattice enumerated by TLC, TLC trace validation",
      "DESIGN.md section 4 C03")

claim("C20",
      "Api.tla models the HTTP API as the pipeline Receive -> Parse -> ConvIn -> LibCall -> ConvOut -> Respond (+ Index) with "
      "S-tables for field->argument wiring, angle-type->conversion (absent = dd), result->key; TLC checks the model exhaustively "
      "(14 580 requests x 6 stages, every action taken) and enumerates request classes: 2 endpoints x {dd, dms, absent}^2 x input "
      "classes (hemisphere, side, geometry / azimuth and distance bands) x query syntax. The driver sends each request through "
      "Flask's test client with a recording wrapper on api.app.vincinv/vincdir and calls the library directly; Trace_Api (TLC) "
      "decides on every real request, bit for bit (float.hex): the recorded library call = ConvIn(parse(query)) in the table's "
      "order, response = ConvOut(what the library returns directly), status 200, keys, HP conversions against exact BigFix HP "
      "arithmetic at 1e-8\", and the index route lists every endpoint.",
      "Decides API == library (wiring, independent from/to conversion, defaults, pass-through, status, keys, index), not the "
      "library's geodesic accuracy (C04/C05). LibCall.* clauses depend on a recording wrapper and are skipped when no positional "
      "call is recorded; Respond.* clauses are purely observable. JSON 0 vs 0.0 not distinguished.",
      "TLA+ pipeline state machine checked exhaustively by TLC, TLC-enumerated requests sent to the real Flask app, TLC trace validation bit for bit",
      "DESIGN.md section 4 C20")

claim("C19",
      "Survey.tla: a traverse state machine on the Pythagorean lattice (directions = triples, distances multiples of r, so every "
      "expected point is an exact integer) with one action per public call (Radiate, JoinBack, Polar, Rect, Reduce, Params, "
      "Correct), 8 invariants checked exhaustively by TLC with every action taken, and the complete validity table of the "
      "first-velocity correction (3456 + 8 cells: must return / must raise / free) beside the as-built truthiness table. TLC-generated "
      "traverses, every cell and strata samples are replayed on geodepy.survey / convert; Trace_Survey (TLC) decides every clause "
      "with exact rational expectations or its own fixed-point sine/cosine: joins/radiations closure 1e-9 x distance, bearing in "
      "[0, 360), rotation and scale, Pythagoras and heights-shift-only-dh of va_conv, correction defined for every valid "
      "atmosphere, proportionality, CO2 form identity, 1 ppm agreement at 420 ppm for 0.5-1.0 um, dispersion identity; the shipped table "
      "of Ciddor / Owens / Davis constants equals the published one (RefractivityConstants.tla).",
      "Not decided: the Rueger closed-form constants themselves (only through the 1 ppm agreement and the cross-relations); sign of dh for face-right "
      "zenith angles; cells where the property is silent are free. Trusted: TLC, BigFix, alpha's exact encodings.",
      "TLA+ state machine + validity tables checked exhaustively by TLC, TLC-generated behaviours/cells replayed into the code, TLC trace validation with exact lattice oracle",
      "DESIGN.md section 4 C19")
GRID_NOTE = ("Trusted: TLC, BigFix; alpha's exact decimal encoding and the rounding-envelope auxiliaries (cos lat, nu of outputs). "
             "Positions are seeded samples inside every TLC-enumerated stratum (1965 strata); the zone lattice is complete.")
claim("C01",
      "Grid.tla states the discrete rules of the Transverse Mercator grid (zone systems, central meridians incl. ISG codes, "
      "hemisphere, false origin, convergence sign) and the relational laws of the exact projection; MC_Grid (TLC) proves the "
      "automatic-zone rule on the complete 0.01-degree longitude lattice for every zone system in integer arithmetic and enumerates "
      "the strata (hemisphere x side x |dlon| band to 30 deg x latitude band to the limits x zone class x ellipsoid x projection). "
      "Trace_Grid (TLC) decides on real geo2grid calls: zone rule (automatic and explicit), hemisphere label, false northing sign, "
      "E = false easting on the central meridian, N = 0 on the equator, mirror symmetry in the central meridian and the equator "
      "(0.4 mm), offsets scale with k0 and are independent of fe/fn, offsets scale with the semi-major axis at fixed 1/f, "
      "angle-object / explicit-natural-zone / Projection-clone arguments give bit-identical results; and EXACTNESS on the central "
      "meridian: at Pythagorean latitudes the northing equals false northing + k0 x the meridian distance computed inside the spec "
      "(MeridianArc.tla: arctangent series + Helmert's series to n^5 in exact fixed point, remainder < 6e-9 m) within 0.2 mm for "
      "shipped and random ellipsoids, utm / isg / random projections, both hemispheres; and EXACTNESS OFF the central meridian: "
      "KruegerTM.tla evaluates the Transverse Mercator projection inside the spec (Krueger/Karney series in n to n^5 with "
      "independently stated rational coefficients, arctangent and area-tangent series, verified Newton roots; neglected terms "
      "< 4e-6 m within 30 deg of the CM) at Pythagorean latitude x Pythagorean longitude difference (1.8..28 deg both sides), "
      "and easting / northing must agree within 0.2 mm; and at ARBITRARY positions (event TMA: random latitudes in the band, "
      "|dlon| up to 30 deg, a hair off the equator / central meridian / band limits) with the sines and cosines of latitude and "
      "longitude difference from the specification's own series (Trig.tla, KruegerTM!TMRatiosSC).",
      "Exactness is decided on the rational-trigonometry lattice (25 latitudes x 18 longitude differences x ellipsoids x "
      "projections), elsewhere by the symmetry / scaling laws and C02's closure. The in-spec series is the same mathematics as the "
      "code's (Krueger), written independently to n^5 instead of n^8; a common conceptual error of the method itself is not "
      "detectable. " + GRID_NOTE,
      "TLA+ specification of zone/hemisphere rules model-checked exhaustively by TLC, TLC-enumerated strata sampled on the real code, TLC trace validation of relational laws",
      "DESIGN.md section 4 C01")
claim("C02",
      "On Grid.tla: Trace_Grid (TLC) decides, on real calls, geo -> grid -> geo closure (2e-9 deg; longitude also with the explicit "
      "envelope of the documented 0.1 mm output rounding) for samples in every stratum, grid -> geo -> grid closure (0.2 mm, explicit "
      "zone) on a grid lattice (zones 1,2,30,31,59,60 + ten ISG zones x both hemispheres x eastings to +-3.3e6 m x northings 0..1e7), "
      "rejection by the forward conversion of lattice points whose latitude/longitude leave the domain, mirrored-hemisphere "
      "coordinates give opposite latitudes and identical longitudes (exact), and the stand-alone mga2gda converter agrees with the "
      "library within 1e-10 deg on southern UTM input; the inverse of an exactly projected position (KruegerTM.tla, lattice and "
      "arbitrary positions, events TM / TMA) returns that position (2e-9 deg + output-rounding envelope).",
      "Decided up to sampling. Known finding: the literal 2e-9 deg longitude closure fails above ~70 deg "
      "latitude purely from the 4-decimal rounding of E/N (within the rounding envelope); anything beyond the envelope is a "
      "VIOLATION. " + GRID_NOTE,
      "TLA+ specification, TLC-enumerated strata and grid lattice exercised on the real code, TLC trace validation of closure laws in exact fixed-point arithmetic",
      "DESIGN.md section 4 C02")
claim("C10",
      "On Grid.tla: Trace_Grid (TLC) decides, on real geo2grid / grid2geo calls in every stratum (all four quadrants, both axes, "
      "|dlon| to 30 deg, utm / isg / random projections, shipped and random ellipsoids): point scale factor = k0 of the REQUESTED "
      "projection on the central meridian (8 decimals), convergence = 0 on both axes, sign table (grid bearing = azimuth + "
      "convergence), forward and inverse report the same two values (2e-8; 1e-9 deg + rounding envelope), parity under both mirrors, "
      "psf/k0 and convergence independent of fe/fn/k0, psf independent of the size of the ellipsoid; and OFF the axes, at "
      "Pythagorean latitude x longitude difference, the scale factor (2e-8) and the convergence (1e-9 deg, with its sign) against "
      "KruegerTM.tla: k = k0 (A/a) sqrt(p^2+q^2) sec(lat) sqrt(1 - e2 sin^2 lat) / hypot(tau', cos dl), gamma = atan(q/p) + "
      "atan(tau' tan dl / sqrt(1 + tau'^2)) evaluated in exact fixed point inside the spec - on the lattice and (event TMA) at "
      "arbitrary positions with sines / cosines from Trig.tla.",
      "Exact values are decided at the lattice points and at seeded random positions; the relational laws tie the rest. " + GRID_NOTE,
      "TLA+ specification, TLC-enumerated strata exercised on the real code, TLC trace validation of axis values, sign table and relational laws",
      "DESIGN.md section 4 C10")

GEO_NOTE = ("Trusted: TLC, BigFix, MeridianArc (arctangent series + Helmert's series to n^5, remainder < 6e-9 m, validated once "
            "against 40-digit quadrature), GeodesicOracle (validated likewise); alpha's exact encodings and elementary auxiliaries (cos lat, sin sigma of outputs).")
claim("C04",
      "Geodesic.tla states what being the exact geodesic entails without transcendental ground truth; MC_Geodesic (TLC) enumerates "
      "the case skeleton; ArcService (TLC) computes meridian distances. Trace_Geodesic (TLC) decides on real vincdir calls: EXACT "
      "cases - lines along meridians between Pythagorean latitudes incl. across either pole (end latitude from the spec's own "
      "meridian arcs, 1 mm; longitude; reverse azimuth 1e-8 deg) and along the equator (a x dlambda) on shipped and random "
      "ellipsoids; RELATIONAL laws in every case of latitude band x 16 azimuth classes x distance decade 1 m..2e7 m x ellipsoid: "
      "flow Direct(s1+s2) = Direct(s1);Direct(s2), reversal, reflection in the equator, mirror in the meridian, longitude shift "
      "(incl. +-360), zero distance, angle-class arguments bit-identical, and Clairaut's constant sin(azimuth) x cos(reduced "
      "latitude) equal at both ends of every line (4e-10). OBLIQUE lines against the EXACT geodesic: GeodesicOracle.tla solves the "
      "direct problem inside the specification (Bessel/Helmert auxiliary-sphere integrals by Romberg quadrature on 16-64 panels, "
      "sines/cosines by Taylor series in Trig.tla, one second-order Newton step started from the returned point; checked against "
      "40-digit quadrature in GeodesicOracleTest to 1e-8 m); DGE events require the returned end point within 1 mm (north/east "
      "metres with the chord in longitude, valid to the poles) and the reverse azimuth within 1e-8 deg on lines of the same skeleton; "
      "the shipped ellipsoids are judged on their published constants (Ellipsoids.tla).",
      "Exact-geodesic clauses are not applicable (the specification says so) when cos(alpha0) < 1e-3, i.e. lines within 0.06 deg of the "
      "equator's direction (the equator itself is a closed form). " + GEO_NOTE,
      "TLA+ specification with the exact geodesic (quadrature), meridian and equator oracles computed by TLC; TLC-enumerated case skeleton exercised on the real code; TLC trace validation",
      "DESIGN.md section 4 C04")
claim("C05",
      "On Geodesic.tla: Trace_Geodesic (TLC) decides on real vincinv calls: EXACT cases - every ordered pair of Pythagorean latitudes "
      "on one meridian (distance = difference of the spec's meridian arcs within 1 mm, azimuths 0/180) and equatorial pairs up to "
      "178 deg (a x dlambda, azimuths 90/270) on shipped and random ellipsoids; OWN laws in every case of latitude band x latitude "
      "band x longitude-difference class (same meridian, tiny, small, 90, 170, across +-180) x ellipsoid: swap symmetry (distance "
      "1 mm, azimuths exchanged within what moves the far end by 1 mm), common longitude offset incl. +-360, coincident points -> 0; "
      "CLOSURE: following the direct routine with the returned distance and azimuth arrives within 2 mm (+ the direct routine's own "
      "1 mm and output rounding) and the reverse azimuth agrees, charged to C05 only when the direct routine is self-consistent on "
      "that very line; Clairaut's constant agrees at the two ends (the two azimuths belong to one geodesic); lines of 1 mm..100 m "
      "in every direction. EXACT GEODESIC: IGE events follow the exact geodesic of GeodesicOracle.tla (see C04) from point 1 with "
      "the returned distance and forward azimuth: it must arrive within 2 mm of point 2, and the returned reverse azimuth must be "
      "that geodesic's azimuth there within 1e-8 deg + the angle 2 mm subtends at the distance from the nearer pole; includes "
      "nearly antipodal pairs (177..177.96 deg apart) where the iteration converges slowly.",
      "Known finding: reverse azimuth of lines shorter than 10 m (float cancellation). Exact-geodesic clauses not applicable when "
      "cos(alpha0) < 1e-3 (see C04). " + GEO_NOTE,
      "TLA+ specification with the exact geodesic (quadrature), meridian and equator oracles; TLC-enumerated case skeleton exercised on the real code; TLC trace validation with guarded instrument",
      "DESIGN.md section 4 C05")

claim("C18",
      "Sinex.tla models a SINEX solution (station entries with solution numbers, vel/no-vel, L/U, dense / block-diagonal / "
      "zero-stripped covariance with symbolic element values), the three editors, the three readers, the file grammar, the "
      "three-per-line matrix layout and the creation stamp. TLC checks the model exhaustively for documents of 1..5 entries x 16 "
      "layouts x every removal set (estimates kept in order, renumbering, sub-matrix exactness, header count, well-formedness, "
      "composition / commutation / idempotence laws) and generates the behaviours: every single call, every wall clock of the "
      "property x every editor, chains of calls feeding output back as input, and for a 12-station document every one of the 4095 "
      "removal sets (thorough). Each behaviour is executed on the real geodepy.gnss functions under a substituted clock; every "
      "output file is tokenised lexically and judged by Trace_Sinex.tla clause by clause (grammar, fixed-width header text with stamp "
      "and count, verbatim SITE/ID, EPOCHS and renumbered ESTIMATE records, covariance element map, zero-line removal), as are the "
      "tuples returned by the three readers; set_creation_time() is judged on every second of the day.",
      "Trusted: TLC; the renderer of harness/sinexio.py (bound by the Input clauses: each rendered start file must satisfy the same "
      "clauses) and its lexical tokenizer; projection of returned floats on the written 15/6-digit lattice. Exhaustive only up to the "
      "stated bounds; free text of FILE/COMMENT is not judged.",
      "TLA+ document/editor/grammar/clock specification, exhaustive TLC on small documents, TLC-generated behaviours replayed on real files under a substituted clock, TLC trace validation",
      "DESIGN.md section 4 C18")
claim("C13",
      "Mga.tla makes the transformation a five-step behaviour (Grid2Geo -> Llh2Xyz -> Helmert7(P or -P) -> Xyz2Llh -> "
      "Geo2Grid(natural zone)) with the height rule and the covariance rule; TLC checks order, rules and termination for all "
      "direction x height x covariance classes. The driver calls the public pipeline AND the public step functions itself; "
      "Trace_Mga (TLC) consumes the stage events with Mga's actions and decides: every stage's input is the previous stage's output "
      "bit for bit, the pipeline's return equals the stepwise result up to one unit of the 4-decimal output rounding, no input height -> 0 in / "
      "0 out, covariance out iff in, natural zone of the transformed position (also within 2 m of a zone boundary), the Helmert "
      "stage against Helmert.tla (1 um), covariance symmetric / PSD / equal (1e-9) to local2cart -> conform7 -> cart2local AND equal "
      "in VALUE (1e-9 relative) to the specification's own R2^T (M (R1 V R1^T) M^T + sum sd_k^2 j_k j_k^T) R2 with the east-north-up "
      "frames from Trig.tla (sines/cosines in the spec), Helmert.tla's Jacobian and the PUBLISHED parameter uncertainties, and "
      "there-and-back returns within 0.3 mm / 0.2 mm (grid, or geographic when the zone changes).",
      "Trusted: TLC, BigFix. Grid points are a lattice over zones 46..59 x eastings x latitudes -60..-5 with seeded jitter.",
      "TLA+ multi-step behaviour specification model-checked by TLC, stepwise stage events recorded from the real code, TLC trace validation with the spec's own actions",
      "DESIGN.md section 4 C13")

claim("C14",
      "GridGeodesic.tla: InvUTM as the behaviour Grid2Geo; Grid2Geo; Inverse; LineSF, DirUTM as an iteration whose termination "
      "TLC checks (liveness under weak fairness, contraction abstraction, passes <= 4). Trace_GridGeodesic (TLC) decides on real "
      "calls: vincinv_utm returns exactly ellipsoidal distance x line scale factor and azimuth + convergence at each end in its own "
      "zone (against the public step functions: 1 um, 1e-10 deg, 1e-12), line scale factor within 3e-7 of the range of point scale factors along "
      "the line and within 5e-7 of their Simpson mean up to 100 km, vincdir_utm fed with the inverse's output reproduces the second "
      "point within 1 mm in the first point's zone also when it was given in the adjacent zone, and EXACTLY: along a central "
      "meridian between Pythagorean latitudes grid distance = k0 x difference of meridian arcs (MeridianArc), bearings 0/180, line "
      "scale factor k0; zones 1/30/31/55/60, both hemispheres, latitudes -79..83, eastings 100..900 km, lengths 1 m..100 km, 4 ellipsoids.",
      "Trusted: TLC, BigFix, MeridianArc. The contraction assumption of the termination model is recorded and the observed number "
      "of passes (via a wrapper on geodepy.geodesy.vincdir) is reported as evidence only. Lines are a lattice with seeded jitter.",
      "TLA+ behaviour/iteration specification model-checked by TLC incl. liveness, real call results validated by TLC against stepwise composition and exact central-meridian oracle",
      "DESIGN.md section 4 C14")

claim("C17",
      "NTv2.tla models a grid-shift file (sub-grids as records of integers: extents in 0.001\", increments, rows/cols, four fields "
      "as integer bi-quadratic polynomials exact in float32; the flat 16-byte record view), sub-grid choice (finest spacing, none "
      "outside), cell location, the allowed node window, the exact four-node blend and polynomial oracles, and a cursor model of "
      "the reads in two variants (as shipped / repaired). TLC checks ReadsOwnNodes, ReadsAroundPosition, OutsideNoValue, "
      "FinestIsDeepest, OraclesAgree exhaustively on 11 file shapes (1-4 sub-grids, nested / disjoint / flush / overlapping) and "
      "refutes the as-shipped cursor. The shapes are rendered as binary .gsb files; TLC plans the allowed records; the driver runs "
      "read_ntv2_file, interpolate_ntv2 (both methods) and ntv2_2d on the clean file and on a copy NaN-poisoned outside the allowed "
      "window; Trace_NTv2 (TLC) decides: metadata read back exactly, bilinear = exact blend, node values, linear fields, bicubic "
      "bi-quadratic fields (1e-6 + 1e-6 x cell change), no value outside / value inside, result bits unchanged by the poisoning "
      "(own nodes only), ntv2_2d signs and errors.",
      "Known finding: bicubic does not reproduce bi-quadratic fields in the outermost ring of cells. Not decided: bicubic on fields "
      "of degree > 2, positions exactly on an extent line (either choice accepted), equal-spacing overlaps. Trusted: TLC, BigFix, the "
      "renderer harness/ntv2render.py (round-trip tested).",
      "TLA+ file/sub-grid/cursor model checked exhaustively by TLC, TLC-planned node windows, synthetic binary files exercised on the real code incl. NaN-poisoning, TLC trace validation",
      "DESIGN.md section 4 C17")

claim("C16",
      "LocalFrame.tla holds the exact mathematics in fixed point (rotation matrix at stations with rational sine and cosine incl. "
      "poles and cardinal meridians, the Post_X function of every public call, ellipse / relative-variance / bearing laws, the "
      "Student-t coverage probability for even AND odd dof through the arctangent series with a pi bracket); Local.tla is the state "
      "machine, model-checked exhaustively on the 3-4-5 lattice with every action taken. TLC-generated behaviours and ~100 (quick) / "
      "3000 (thorough) stations are executed on the real functions and Trace_Local (TLC) decides: exact matrix entries on the "
      "lattice, orthonormal / det +1 / east x north = up / up = ellipsoid normal anywhere, enu2xyz / xyz2enu exact and inverse and "
      "length-preserving, covariance rotation exact with symmetry / trace / minors / determinant preserved and round trip, 3x1 "
      "column = rotated diagonal, error ellipse a >= b >= 0, a^2+b^2 = trace, a^2 b^2 = det, orientation = bearing of the major "
      "axis, relative error = ellipse of var1+var2-cov12-cov12^T, and the complete coverage-factor table (-5..200, clamping, "
      "TypeError, all 120 quantiles bracketed to 5 decimals).",
      "Exact at rational-trig stations; at float stations polynomial laws + the llh2xyz normal (1e-7, instrument judged on the "
      "lattice first); 1e-12 relative tolerances; orientation mod 180 through alpha's sin/cos of the returned angle. Trusted: TLC, BigFix.",
      "TLA+ state machine with exact fixed-point oracle, exhaustive TLC model check, TLC-generated behaviours replayed into the code, TLC trace validation",
      "DESIGN.md section 4 C16")

NOT_YET = "check not built yet in this session (work in progress; see DESIGN.md section 8 for build order)"


def main():
    src = subprocess.run(["git", "-C", "/repo", "log", "--format=%h %s", "514e153..HEAD"], capture_output=True,
                         text=True).stdout.strip().split("\n")
    hooks = [l.split()[0] for l in src if l and l.split(" ", 1)[1].startswith("verif-hook")]
    m = {"version": 1, "setup_cmd": "./setup.sh",
         "hooks": {"guard": "GEODEPY_VERIF",
                   "enable": "export GEODEPY_VERIF=1 (set by ./check); geodepy is imported from /repo's working tree, nothing is built",
                   "baseline_off_cmd": "cd /repo && env -u GEODEPY_VERIF /venv/bin/python -m pytest -ra -q -p no:cacheprovider --timeout=900 --continue-on-collection-errors",
                   "source_commits": hooks, "add_only": True},
         "engines": [{"name": "tlc", "path": "/opt/veriftools/tla/tla2tools.jar",
                      "serves_properties": sorted(CHECKS),
                      "kind_free_text": "TLC 1.8 explicit-state model checker: exhaustive model runs, behaviour generation, batch trace validation of traces recorded from the real code"}],
         "checks": [], "not_applicable": [],
         "notes": "See DESIGN.md. Every check = TLA+ module(s) in spec/ + TLC + conformance driver in harness/props/. "
                  "Exit 2 = machinery failure (never a verdict). known_findings.json lists recorded findings and fixed defects."}
    for p in props:
        pid = p["id"]
        if pid in CHECKS:
            c = CHECKS[pid]
            m["checks"].append({
                "property_id": pid, "quick_cmd": "./check %s quick" % pid, "thorough_cmd": "./check %s thorough" % pid,
                "evidence_file": "/verif/evidence/%s.json" % pid,
                "replay_cmd_template": "./check %s --replay {path}" % pid, "engine": c["engine"],
                "level_claimed": {"category": "model_checking", "text": c["text"], "design_ref": c["design_ref"]},
                "level_note": c["note"], "technique": c["technique"]})
        else:
            m["not_applicable"].append({"property_id": pid, "reason": NOT_YET})
    with open(os.path.join(HERE, "MANIFEST.json"), "w") as f:
        json.dump(m, f, indent=1)
    print("MANIFEST.json: %d checks, %d not_applicable" % (len(m["checks"]), len(m["not_applicable"])))


if __name__ == "__main__":
    main()
