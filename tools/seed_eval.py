#!/usr/bin/env python3
"""Evaluate a seeded change proposed by a sub-agent.

  tools/seed_eval.py <candidate dir with patch.diff, demo.py, meta.json> [--tier quick|thorough] [--keep-as <id>]

1. confirmation in a scratch worktree of /repo (outside /repo and /verif): the patch applies, the
   repository tests still pass, the demonstration fails with the change and passes without it;
2. detection: the patch is applied to /repo itself, the property's check is run, the patch is undone
   straight afterwards (git -C /repo checkout -- .);
3. --keep-as copies the candidate to /verif/seeded/<id>/ with what was run.
"""
import json
import os
import shutil
import subprocess
import sys
import tempfile
import time

VERIF = os.path.dirname(os.path.dirname(os.path.abspath(__file__)))


def sh(cmd, cwd=None, timeout=3600, env=None):
    p = subprocess.run(cmd, shell=True, cwd=cwd, stdout=subprocess.PIPE, stderr=subprocess.STDOUT, text=True, timeout=timeout, env=env)
    return p.returncode, p.stdout


def main():
    cand = os.path.abspath(sys.argv[1])
    tier = "quick"
    keep = None
    checks = None
    a = sys.argv[2:]
    while a:
        if a[0] == "--tier":
            tier = a[1]; a = a[2:]
        elif a[0] == "--keep-as":
            keep = a[1]; a = a[2:]
        elif a[0] == "--checks":
            checks = a[1].split(","); a = a[2:]
        else:
            a = a[1:]
    meta = json.load(open(os.path.join(cand, "meta.json")))
    prop = meta["property"]
    checks = checks or [prop]
    patch = os.path.join(cand, "patch.diff")
    demo = os.path.join(cand, "demo.py")
    out = {"candidate": cand, "property": prop, "steps": []}
    wt = tempfile.mkdtemp(prefix="gvf_seedwt_")
    os.rmdir(wt)
    rc, o = sh("git -C /repo worktree add --detach %s HEAD" % wt)
    env = dict(os.environ)
    env.pop("GEODEPY_VERIF", None)
    env["PYTHONPATH"] = wt
    try:
        rc0, o0 = sh("/venv/bin/python %s" % demo, cwd=wt, env=env, timeout=900)
        out["demo_without_change_exit"] = rc0
        rc, o = sh("git apply %s" % patch, cwd=wt)
        if rc != 0:
            # the candidate was written against an earlier HEAD of /repo (a later fix: commit touched the same file): merge
            rc, o = sh("git apply --3way %s && git reset -q" % patch, cwd=wt)
            out["applied_with_3way_merge"] = rc == 0
        out["patch_applies"] = rc == 0
        if rc != 0:
            out["error"] = o[-500:]
            return finish(out, None)
        rct, ot = sh("/venv/bin/python -m pytest -q -p no:cacheprovider geodepy/tests api 2>&1 | tail -3", cwd=wt, env=env, timeout=1800)
        out["repo_tests_with_change"] = ot.strip().split("\n")[-1]
        out["repo_tests_pass"] = " passed" in ot and "failed" not in ot and "error" not in ot.lower()
        rc1, o1 = sh("/venv/bin/python %s" % demo, cwd=wt, env=env, timeout=900)
        out["demo_with_change_exit"] = rc1
        out["demo_with_change_tail"] = o1[-300:]
        out["confirmed"] = bool(out["repo_tests_pass"] and rc0 == 0 and rc1 != 0)
        if not out.get("confirmed"):
            return finish(out, None)
        # detection: the property's check runs against the scratch worktree that has the change applied
        # (GEODEPY_REPO), so that /repo itself is never disturbed and several candidates can be evaluated at once
        det = {}
        env2 = dict(os.environ)
        env2["GEODEPY_REPO"] = wt
        scratch_out = tempfile.mkdtemp(prefix="gvf_seedout_")
        env2["VERIF_EVIDENCE_DIR"] = scratch_out
        env2["VERIF_REPLAY_DIR"] = scratch_out
        for c in checks:
            t0 = time.time()
            rc, o = sh("./check %s %s" % (c, tier), cwd=VERIF, timeout=7200, env=env2)
            lines = [l for l in o.split("\n") if l.startswith("VIOLATION") or l.startswith("  what:") or l.startswith("MACHINERY") or l.startswith("OK ")]
            det[c] = {"tier": tier, "exit": rc, "wall_s": round(time.time() - t0, 1), "lines": lines[:6]}
    finally:
        sh("git -C /repo worktree remove --force %s" % wt)
        try:
            shutil.rmtree(scratch_out, ignore_errors=True)
        except NameError:
            pass
    out["detection"] = det
    out["detected"] = any(d["exit"] == 1 for d in det.values())
    return finish(out, keep, cand)


def finish(out, keep, cand=None):
    print(json.dumps(out, indent=1))
    if keep and cand:
        dst = os.path.join(VERIF, "seeded", keep)
        os.makedirs(dst, exist_ok=True)
        for f in ("patch.diff", "demo.py"):
            if os.path.realpath(cand) != os.path.realpath(dst):
                shutil.copy(os.path.join(cand, f), dst)
        meta = json.load(open(os.path.join(cand, "meta.json")))
        meta["evaluation"] = {k: out[k] for k in out if k not in ("candidate",)}
        json.dump(meta, open(os.path.join(dst, "meta.json"), "w"), indent=1)
    return 0


if __name__ == "__main__":
    sys.exit(main())
