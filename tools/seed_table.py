#!/usr/bin/env python3
"""Markdown table of the seeded changes of a round (`tools/seed_table.py r2`), from seeded/<id>-<round>-<k>/meta.json."""
import glob
import json
import os
import sys

VERIF = os.path.dirname(os.path.dirname(os.path.abspath(__file__)))


def main():
    rnd = sys.argv[1]
    print("| id | change (needs) | detected by | first clause reported |")
    print("|---|---|---|---|")
    for d in sorted(glob.glob(os.path.join(VERIF, "seeded", "*-%s-*" % rnd))):
        m = json.load(open(os.path.join(d, "meta.json")))
        ev = m.get("evaluation", {})
        det = ev.get("detection", {})
        by, clause = [], ""
        for c, v in det.items():
            if v["exit"] == 1:
                by.append(c)
                if not clause:
                    w = [l for l in v["lines"] if l.strip().startswith("what:")]
                    if w:
                        try:
                            j = json.loads(w[0].split("what:", 1)[1])
                            clause = str(j.get("clause") or j)[:60]
                        except Exception:
                            clause = w[0][:60]
            elif v["exit"] == 0:
                by.append("(%s: holds)" % c)
        s = (m.get("summary", "") + " (" + m.get("needs", "")[:80] + ")").replace("|", "/").replace("\n", " ")
        print("| %s | %s | %s | `%s` |" % (os.path.basename(d), s[:230], ", ".join(by) or "MISSED", clause))


if __name__ == "__main__":
    main()
