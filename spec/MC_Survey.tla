----------------------------- MODULE MC_Survey -----------------------------
(* Model-checking wrapper for Survey.                                        *)
(*  - exhaustive run (MC_Survey.cfg): small constants, every action taken,   *)
(*    all model invariants.  The pure single-call actions (Polar, Rect,      *)
(*    Reduce, Params, Correct) are explored from the start of a session, the *)
(*    traverse actions (Radiate, JoinBack) along traverses: the functions    *)
(*    are pure (C09 decides that), so interleaving them adds nothing.        *)
(*  - behaviour generation (GenSpec + Bound): every traverse of MaxLegs legs *)
(*    over the generation constants is printed as <<"BEH", start, legs>>.    *)
EXTENDS Survey

\* ---- exhaustive configuration ----
MCTriples == {<<3, 4, 5>>}
MCMults   == {1, 2}
MCOrigins == {<<0, 0>>}
MCRots    == {NoArg, <<-3, 4, 5>>}
MCPsfs    == {NoArg, <<1, 2>>}
MCHts     == {None, 0, 162}
MCKs      == {1, 7}
MCCells   == {<<t, 101325, h, w, c, wl>> : t \in {-20, 0, 15}, h \in {None, 0, 50}, w \in {None, 0, 10},
                                            c \in {None, 420}, wl \in {None, 85}}
ParCells  == {<<a, b, c>> : a \in BOOLEAN, b \in BOOLEAN, c \in BOOLEAN}

InTraverse == last.op \in {"none", "Radiate", "Join"}
AtStart    == legs = <<>> /\ last.op = "none"

DoRadiate == InTraverse /\ \E leg \in LegSet : Radiate(leg)
DoJoinBack == InTraverse /\ JoinBack
DoPolar   == AtStart /\ \E d \in Dirs, m \in Mults : Polar(d, m)
DoRect    == AtStart /\ \E d \in Dirs, m \in Mults : Rect(d, m)
DoReduce  == AtStart /\ \E z \in Dirs, k \in MCKs, hi \in MCHts, ht \in MCHts : Reduce(z, k, hi, ht)
DoParams  == AtStart /\ \E c \in ParCells : Params(c)
DoCorrect == AtStart /\ \E c \in MCCells : Correct(c)

Next == DoRadiate \/ DoJoinBack \/ DoPolar \/ DoRect \/ DoReduce \/ DoParams \/ DoCorrect
Spec == Init /\ [][Next]_vars

\* ---- behaviour generation ----
GenNext == \E leg \in LegSet : Radiate(leg)
GenSpec == Init /\ [][GenNext]_vars
\* the arguments and the expected point of every leg (so that the driver computes nothing)
RECURSIVE Itin(_, _, _)
Itin(p, ls, i) == IF i > Len(ls) THEN <<>>
                  ELSE <<[dist |-> LegDist(ls[i]), to |-> Post_Radiate(p, ls[i])]>> \o Itin(Post_Radiate(p, ls[i]), ls, i + 1)
Emit == IF Len(legs) = MaxLegs THEN PrintT(<<"BEH", start, legs, Itin(start, legs, 1)>>) ELSE TRUE
Bound == Len(legs) <= MaxLegs /\ Emit

\* generation constants (quick / thorough)
GQTriples == {<<3, 4, 5>>, <<5, 12, 13>>, <<20, 21, 29>>}
GTTriples == {<<3, 4, 5>>, <<5, 12, 13>>, <<8, 15, 17>>, <<7, 24, 25>>, <<20, 21, 29>>, <<9, 40, 41>>, <<12, 35, 37>>, <<11, 60, 61>>}
GQMults   == {1, 300}
GTMults   == {1, 2, 300}
GQOrigins == {<<0, 0>>, <<5000000, -8000000>>}
GTOrigins == {<<0, 0>>, <<500, 500>>, <<5000000, -8000000>>, <<-9990000, 9990000>>}
GQRots    == {NoArg, <<1, 0, 1>>, <<-3, 4, 5>>, <<-12, -5, 13>>}
GTRots    == {NoArg, <<0, 1, 1>>, <<1, 0, 1>>, <<0, -1, 1>>, <<-3, 4, 5>>, <<-12, -5, 13>>, <<15, -8, 17>>}
GPsfs     == {NoArg, <<2, 1>>, <<1, 2>>, <<9996, 10000>>}

\* ---- self-test of the fixed-point sine / cosine, evaluated once at start-up ----
A345 == [neg |-> FALSE, mag |-> <<9685, 212, 5844, 9764, 8698, 36>>]     \* atan2(3, 4) = 36.8698 9764 5844 0212 9685 degrees
ASSUME Within(SinCosDeg(FromInt(30))[1], FromRat(1, 2), Dec(100, 5))
ASSUME Within(SinCosDeg(FromInt(210))[1], FromRat(-1, 2), Dec(100, 5))
ASSUME Within(SinCosDeg(FromInt(-30))[1], FromRat(-1, 2), Dec(100, 5))
ASSUME Within(SinCosDeg(FromInt(120))[2], FromRat(-1, 2), Dec(100, 5))
ASSUME Within(SinCosDeg(FromInt(90))[1], One, Dec(100, 5)) /\ Within(SinCosDeg(FromInt(270))[2], Zero, Dec(100, 5))
ASSUME Within(SinCosDeg(FromInt(89))[1], SinCosDeg(FromInt(1))[2], Dec(100, 5))
ASSUME AngleIsDir(A345, <<3, 4, 5>>, Dec(10, 5)) /\ ~AngleIsDir(Add(A345, Dec(1, 2)), <<3, 4, 5>>, Dec(1, 3))
ASSUME \A d \in DirsOf(GTTriples) : IsDir(d)
=============================================================================
