SPECIFICATION TraceSpec
CONSTANT MaxChain = 3
CONSTRAINT Consumed
CHECK_DEADLOCK FALSE
