--------------------------- MODULE MC_SinexBlocks ---------------------------
EXTENDS SinexBlocks
CONSTANTS HLen,       \* behaviours are printed for replay when their history reaches this length
          ReadNames   \* exhaustive run: the block readers that are called (the others behave alike: Scan is generic in the name)
\* the start document of a behaviour is a function of its plan and the first label
StartDoc == Render(plan, h[1][2], h[1][3])
Emit == (phase = "open" /\ Len(h) = HLen) => PrintT(<<"BEH", StartDoc, h>>)
\* exhaustive run: history labels are not part of the state
View == <<plan, phase, A, regs, prev, gen>>
\* a written file is a leaf: every invariant about it (and about the scanners on it) is evaluated in that state
Reduced == /\ (gen >= 1 => regs = NoRegs)
           /\ \A n \in Generic \ ReadNames : regs[n] = NoVal
           /\ \A q \in 1..Len(plan) : (plan[q].nm \notin RecordBlocks => ~plan[q].text)
\* exhaustive run: the readers that leave every variable of View unchanged are stuttering steps and are left out; a written
\* file is not read again (it is a leaf, see Reduced)
MCNext == \/ \E b \in Plans : AddBlock(b)
          \/ \E hn, sp \in BOOLEAN : CloseFile(hn, sp)
          \/ gen = 0 /\ (ReadComments \/ ReadHeaderLine \/ \E nm \in ReadNames : ReadBlock(nm))
          \/ \E S \in SUBSET Held : \E wh \in BOOLEAN : Write(S, wh)
MCSpec == Init /\ [][MCNext]_vars
\* simulation: every reader, a few line ranges for read_sinex_custom
SimNext == \/ \E b \in Plans : AddBlock(b)
           \/ \E hn, sp \in BOOLEAN : CloseFile(hn, sp)
           \/ \E nm \in Generic : ReadBlock(nm)
           \/ ReadComments \/ ReadHeaderLine \/ ReadHeaderBlock \/ ListBlocks \/ ReadEpochs \/ ReadDisconts
           \/ \E i \in {1, 2, Len(A) \div 2} : \E j \in {i, i + 3, Len(A) + 1} : ReadCustom(i, j)
           \/ \E S \in SUBSET Held : \E wh \in BOOLEAN : Write(S, wh)
SimSpec == Init /\ [][SimNext]_vars
=============================================================================
