------------------------------- MODULE MC_Cart -------------------------------
(* The lattice the driver must visit, enumerated by TLC: Pythagorean latitudes  *)
(* (incl. equator and poles) x longitudes in all four quadrants x heights x     *)
(* ellipsoid classes; and a self-check of the closed form on the sphere-like    *)
(* cases where it is elementary (equator: x^2 + y^2 = (a + h)^2; pole: z = +-(b + h)). *)
EXTENDS Cart, Sequences, TLC
Triples == {<<3, 4, 5>>, <<5, 12, 13>>, <<8, 15, 17>>, <<7, 24, 25>>, <<20, 21, 29>>, <<9, 40, 41>>, <<12, 35, 37>>, <<11, 60, 61>>}
LatTriples == {<<0, 1, 1>>, <<1, 0, 1>>, <<-1, 0, 1>>}
              \cup {<<t[1], t[2], t[3]>> : t \in Triples} \cup {<<t[2], t[1], t[3]>> : t \in Triples}
              \cup {<<-t[1], t[2], t[3]>> : t \in Triples} \cup {<<-t[2], t[1], t[3]>> : t \in Triples}
LonTriples == {<<0, 1, 1>>, <<1, 0, 1>>, <<-1, 0, 1>>, <<0, -1, 1>>}
              \cup {<<sa * t[1], sb * t[2], t[3]>> : t \in Triples, sa \in {-1, 1}, sb \in {-1, 1}}
              \cup {<<sa * t[2], sb * t[1], t[3]>> : t \in Triples, sa \in {-1, 1}, sb \in {-1, 1}}
Heights == {-10000, -1, 0, 1, 1000, 8848, 400000, 20200000, 40000000}
FewHeightsSet == {0, 8848}
CONSTANT Sphere
VARIABLES slat, slon, h
Init == slat \in LatTriples /\ slon \in LonTriples /\ h \in Heights /\ (Sphere => h \in FewHeightsSet)
Next == UNCHANGED <<slat, slon, h>>
Spec == Init /\ [][Next]_<<slat, slon, h>>
\* sphere (f = 0): the closed form reduces to (a + h) * direction cosines
A0 == FromInt(6378137)
OnSphere == LET p == Forward(A0, Zero, One, slat, slon, FromInt(h))
                r == Add(A0, FromInt(h))
            IN Within(Add(Add(Sq(p[1]), Sq(p[2])), Sq(p[3])), Sq(r), Dec(1, 1))   \* 1e-4 m^2 on ~4e13 m^2: truncation of the rational direction cosines
TriplesOK == IsTriple(slat) /\ IsTriple(slon) /\ slat[2] >= 0
Emit == PrintT(<<"PT", slat, slon, h>>)

=============================================================================
