SPECIFICATION Spec
CONSTANT MaxChain = 3
VIEW View
INVARIANT ValidHP
PROPERTY AngleKept
CHECK_DEADLOCK FALSE
