------------------------------ MODULE MC_Coord ------------------------------
(* Model-checking wrapper for Coord: exhaustive check (history hidden by a   *)
(* VIEW that keeps `start`, which HeightsCarried reads) and behaviour        *)
(* generation (history in the state: the state space is the tree of paths).  *)
EXTENDS Coord, TLC
CONSTANT D                      \* depth of generated behaviours
MCHVals == {0, 3, 7}
View == <<s, start>>
\* behaviour generation: print every path of length D, prune below
Emit == IF Len(h) = D THEN PrintT(<<"BEH", start, h>>) ELSE TRUE
Bound == Len(h) <= D /\ Emit
\* quick tier: deep paths only from a reduced set of start states
ReducedStart == start.form = "geo" => start.notn \in {"float", "hp"}
BoundReduced == Bound /\ ReducedStart
=============================================================================
