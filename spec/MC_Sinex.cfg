SPECIFICATION Spec
CONSTANT Master <- MasterSmall
CONSTANT MinN = 1
CONSTANT Variants <- AllVariants
CONSTANT ClkAll = FALSE
CONSTANT D = 0
CONSTANT NRand = 0
CONSTANT Rot = FALSE
VIEW View
INVARIANT TypeOK
INVARIANT EstimatesKeptInOrder
INVARIANT Renumbered
INVARIANT HeaderCountMatches
INVARIANT LayoutExact
INVARIANT SubMatrixExact
INVARIANT ZerosOnlyDropped
INVARIANT WellFormed
INVARIANT StampOK
INVARIANT ComposeLaw
INVARIANT CommuteLaw
INVARIANT ZerosIdempotent
PROPERTY OnlyRemovals
PROPERTY ReadsArePure
CHECK_DEADLOCK FALSE
