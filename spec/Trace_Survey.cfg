SPECIFICATION TraceSpec
CONSTANT Triples = {}
CONSTANT Mults = {}
CONSTANT Origins = {}
CONSTANT Rots = {}
CONSTANT Psfs = {}
CONSTANT MaxLegs = 1000
CONSTRAINT Consumed
INVARIANT ModelInv
CHECK_DEADLOCK FALSE
