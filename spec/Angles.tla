------------------------------- MODULE Angles -------------------------------
(***************************************************************************)
(* C08 - the nine angle notations of geodepy.angles and every conversion   *)
(* between them.                                                           *)
(*                                                                         *)
(* An abstract angle is [neg, w, f]: sign, whole arc-seconds (0..2592000,  *)
(* i.e. up to 720 deg) and nano-arc-seconds (0..999999999).  The state is  *)
(* "a value held in notation rep denoting angle ang"; every public         *)
(* conversion routine is an edge <<source notation, target notation,       *)
(* routine name>> and one action: it changes the notation and MUST NOT     *)
(* change the angle.  Chains of conversions are behaviours.                *)
(***************************************************************************)
EXTENDS Integers, Sequences, FiniteSets

Notations == {"rad", "dec", "hp", "gon", "deca", "hpa", "gona", "dms", "ddm"}
Floats    == {"rad", "dec", "hp", "gon"}
Classes   == {"deca", "hpa", "gona", "dms", "ddm"}
ClassName(c) == CASE c = "deca" -> "DECAngle" [] c = "hpa" -> "HPAngle" [] c = "gona" -> "GONAngle"
                  [] c = "dms" -> "DMSAngle" [] c = "ddm" -> "DDMAngle"
Kind(n) == IF n \in Floats THEN "float" ELSE ClassName(n)

\* the 20 conversion functions, math.radians / math.degrees, the float-taking constructors
FloatFns ==
  {<<"dec", "hp", "dec2hp">>, <<"dec", "hpa", "dec2hpa">>, <<"dec", "gon", "dec2gon">>, <<"dec", "gona", "dec2gona">>,
   <<"dec", "dms", "dec2dms">>, <<"dec", "ddm", "dec2ddm">>,
   <<"hp", "dec", "hp2dec">>, <<"hp", "deca", "hp2deca">>, <<"hp", "rad", "hp2rad">>, <<"hp", "gon", "hp2gon">>,
   <<"hp", "gona", "hp2gona">>, <<"hp", "dms", "hp2dms">>, <<"hp", "ddm", "hp2ddm">>,
   <<"gon", "dec", "gon2dec">>, <<"gon", "deca", "gon2deca">>, <<"gon", "hp", "gon2hp">>, <<"gon", "hpa", "gon2hpa">>,
   <<"gon", "rad", "gon2rad">>, <<"gon", "dms", "gon2dms">>, <<"gon", "ddm", "gon2ddm">>,
   <<"dec", "rad", "radians">>, <<"rad", "dec", "degrees">>,
   <<"dec", "deca", "DECAngle()">>, <<"hp", "hpa", "HPAngle()">>, <<"gon", "gona", "GONAngle()">>,
   <<"dec", "hp", "dec2hp_v">>, <<"hp", "dec", "hp2dec_v">>}
\* the object methods: every class converts to every other notation (not to its own class)
Methods == {<<c, m, ClassName(c) \o "." \o m>> : c \in Classes, m \in Notations} \ {<<c, c, ClassName(c) \o "." \o c>> : c \in Classes}
Edges == FloatFns \cup Methods

TakesHP(e)    == e[1] = "hp"                       \* routines with HP float input
ProducesHP(e) == e[2] \in {"hp", "hpa"}

CONSTANTS MaxChain
VARIABLES rep, ang, h
vars == <<rep, ang, h>>

\* lattice of angles the model starts from (the driver adds fractional classes, see Trace_Angles)
Degs == {0, 1, 59, 60, 89, 90, 179, 180, 359, 360, 540, 650, 719}
Mins == {0, 1, 29, 30, 59}
Secs == {0, 1, 30, 59}
Fracs == {0, 1, 500000000, 999999999}
\* from 512 degrees on a double no longer resolves 1e-9" in HP notation (540.0059999999999 and 540.006 are one double):
\* the lattice keeps only the fraction classes 0 and 0.5" there
Lattice == {a \in {[neg |-> s, w |-> d * 3600 + m * 60 + x, f |-> fr] : s \in BOOLEAN, d \in Degs, m \in Mins, x \in Secs, fr \in Fracs} :
              a.w < 512 * 3600 \/ a.f \in {0, 500000000}}

Convert(e) == /\ e[1] = rep /\ rep' = e[2]
              /\ ang' = ang                 \* the property: the angle is not changed
              /\ h' = Append(h, e)
Init == rep \in Notations /\ ang \in Lattice /\ h = <<>>
Next == \E e \in Edges : Convert(e)
Spec == Init /\ [][Next]_vars

(* payloads each notation must carry for an angle (exact) *)
HPDigits(a) == <<a.w \div 3600, (a.w % 3600) \div 60, a.w % 60, a.f>>
ValidHPDigits(d) == d[2] < 60 /\ d[3] < 60
ValidHP == ValidHPDigits(HPDigits(ang))          \* every HP payload of the model is valid by construction
AngleKept == [][ang' = ang]_vars
Reachable == \A n \in Notations : \E e \in Edges : e[2] = n    \* every notation is the target of some routine
ASSUME Reachable
ASSUME Cardinality(Methods) = 40 /\ Cardinality(FloatFns) = 27
=============================================================================
