---------------------------- MODULE Trace_Local ----------------------------
(***************************************************************************)
(* Trace validation for C16.  A batch of traces recorded from the real     *)
(* geodepy.statistics / geodepy.geodesy functions (harness/props/c16.py)   *)
(* is consumed event by event; every event is one public call.             *)
(*                                                                         *)
(* kind "frame": one station.  First event RotM (rotation_matrix), then    *)
(*   conversions (Enu2Xyz, Xyz2Enu, VcvC2L, VcvL2C) and observing calls    *)
(*   (Ellipse, RelErr), optionally Normal (llh2xyz at h = 0 and 1, an      *)
(*   instrument).  When T.pyth = <<ps,pc,pr, ls,lc,lr>> the station has    *)
(*   rational sines and cosines and the expected values come from          *)
(*   Local!RotM in exact arithmetic; otherwise (arbitrary floats) the      *)
(*   observed rotation matrix, once it has passed the frame laws, is the   *)
(*   matrix the other calls are compared with.                             *)
(* kind "k": the complete table k_val95(-5..200) and non-integer calls.    *)
(*                                                                         *)
(* Numbers are BigFix encodings of the exact binary values of the floats.  *)
(* The property states its laws exactly; floats satisfy them up to         *)
(* rounding, so every law is evaluated with the relative tolerance Tol     *)
(* (1e-12 of the natural scale of the quantity, 4 orders above double      *)
(* rounding) - never tighter than the property, far below any real fault.  *)
(*                                                                         *)
(* Verdicts are total: the first failing clause of a step is printed as    *)
(* <<"FAIL", tid, l, "Action.clause">> and the trace becomes dead; a trace *)
(* consumed to its end prints <<"END", tid>>.                              *)
(***************************************************************************)
EXTENDS LocalFrame, Json, IOUtils

Data   == JsonDeserialize(IOEnv.TRACE_FILE)
Traces == Data.traces

VARIABLES tid, l, dead,
          rm,       \* rotation matrix of the station used for expectations (<<>> before RotM)
          cur,      \* last converted value: [frame, kind, raw (encoding as logged), n (conversions since orig)]
          org       \* the value the current chain of conversions started from: [frame, kind, m]
tvars == <<tid, l, dead, rm, cur, org>>
T == Traces[tid]

Tol   == Dec(1, 3)          \* 1e-12 relative
Floor == Dec(1, 4)          \* 1e-16 absolute (resolution of the encoding and of BigFix products)
TolN  == Dec(10, 2)         \* 1e-7: unit normal from two llh2xyz positions 1 m apart (6.4e6 m magnitudes)
TolAt(scale) == Add(Mul(Tol, scale), Floor)

JV(t) == <<FromJ(t[1]), FromJ(t[2]), FromJ(t[3])>>
JM(m) == <<JV(m[1]), JV(m[2]), JV(m[3])>>
None == [frame |-> "", kind |-> "none", raw |-> <<>>, n |-> 0]
NoOrg == [frame |-> "", kind |-> "none", m |-> <<>>]

RECURSIVE FirstFail(_, _)
FirstFail(cs, i) == IF i > Len(cs) THEN "" ELSE IF ~cs[i][2] THEN cs[i][1] ELSE FirstFail(cs, i + 1)
Report(clause) == PrintT(<<"FAIL", tid, l, clause>>)

IsP == T.pyth # <<>>
PLat == <<T.pyth[1], T.pyth[2], T.pyth[3]>>
PLon == <<T.pyth[4], T.pyth[5], T.pyth[6]>>

(* ------------------------------- RotM --------------------------------- *)
\* "right-handed orthonormal rotation whose up axis is the ellipsoid normal", columns east, north, up
RotChecks(Ro) ==
  << <<"well_formed_station", IsP => (IsLat(PLat) /\ IsPyth(PLon))>>,
     <<"exact_entries", IsP => MatClose(Ro, RotM(<<PLat, PLon>>), Tol)>>,
     <<"orthonormal", MatClose(MatMul(Transp(Ro), Ro), Ident, Tol)>>,
     <<"right_handed", Within(Det(Ro), One, Tol) /\ VecClose(Cross(Col(Ro, 1), Col(Ro, 2)), Col(Ro, 3), Tol)>>,
     <<"east_horizontal", Within(Ro[3][1], Zero, Tol) /\ Geq(Ro[3][2], Neg(Tol))>>,
     \* east = (z axis) x up, normalised:  (z x up) . east >= 0
     <<"east_points_east", Geq(Sub(Mul(Ro[1][3], Ro[2][1]), Mul(Ro[2][3], Ro[1][1])), Neg(Tol))>> >>

RotStep ==
  /\ ~dead /\ l = 1 /\ T.kind = "frame" /\ T.ev[1].a = "RotM"
  /\ LET ev == T.ev[1] IN
     \E Ro \in {IF ev.exc # "" THEN <<>> ELSE JM(ev.y)} :
     \E f \in {IF ev.exc # "" THEN "raised" ELSE FirstFail(RotChecks(Ro), 1)} :
        /\ (IF f = "" THEN TRUE ELSE Report("RotM." \o f))
        /\ dead' = (f # "")
        /\ rm' = IF f # "" THEN <<>> ELSE IF IsP THEN RotM(<<PLat, PLon>>) ELSE Ro
  /\ l' = 2 /\ UNCHANGED <<tid, cur, org>>

(* ------------------------------ Normal -------------------------------- *)
\* instrument: n = llh2xyz(lat, lon, 1) - llh2xyz(lat, lon, 0).  On the lattice the instrument itself is
\* judged against the exact normal (a failure there is C03's business: clause "instrument");
\* elsewhere the up column of the observed frame is compared with it.
NormalStep ==
  /\ ~dead /\ l > 1 /\ l <= Len(T.ev) /\ T.ev[l].a = "Normal"
  /\ LET ev == T.ev[l] IN
     \E n \in {<<Sub(FromJ(ev.p1[1]), FromJ(ev.p0[1])), Sub(FromJ(ev.p1[2]), FromJ(ev.p0[2])),
                Sub(FromJ(ev.p1[3]), FromJ(ev.p0[3]))>>} :
     \E f \in {IF ev.exc # "" THEN "instrument"
               ELSE IF IsP THEN (IF VecClose(n, Col(rm, 3), TolN) THEN "" ELSE "instrument")
               ELSE (IF VecClose(n, Col(rm, 3), TolN) THEN "" ELSE "up_is_normal")} :
        /\ (IF f = "" THEN TRUE ELSE Report("Normal." \o f))
        /\ dead' = (f # "")
  /\ l' = l + 1 /\ UNCHANGED <<tid, rm, cur, org>>

(* ---------------------------- conversions ----------------------------- *)
FromFrame(a) == IF a \in {"Enu2Xyz", "VcvL2C"} THEN "local" ELSE "cart"
\* is this call a continuation of the chain (its input is, bit for bit, the previous output)?
Continues(ev, kind) == cur.kind = kind /\ cur.frame = FromFrame(ev.a) /\ cur.raw = ev.x

VecChecks(ev, x, y, cont) ==
  LET exp == IF ev.a = "Enu2Xyz" THEN Post_Enu2Xyz(rm, x) ELSE Post_Xyz2Enu(rm, x)
      sc  == Abs3(x)
  IN << <<"exact", VecClose(y, exp, TolAt(sc))>>,
        <<"length", Within(Len2(y), Len2(x), TolAt(Sq(sc)))>>,
        <<"round_trip", (cont /\ org.frame = Other(FromFrame(ev.a)))
                          => VecClose(y, org.m, MulSmall(TolAt(sc), cur.n + 1))>> >>

VecStep ==
  /\ ~dead /\ l > 1 /\ l <= Len(T.ev) /\ T.ev[l].a \in {"Enu2Xyz", "Xyz2Enu"}
  /\ LET ev == T.ev[l] IN
     \E cont \in {Continues(ev, "vec")} :
     \E x \in {JV(ev.x)} :
     \E f \in {IF ev.exc # "" THEN "raised" ELSE FirstFail(VecChecks(ev, x, JV(ev.y), cont), 1)} :
        /\ (IF f = "" THEN TRUE ELSE Report(ev.a \o "." \o f))
        /\ dead' = (f # "")
        /\ org' = IF cont THEN org ELSE [frame |-> FromFrame(ev.a), kind |-> "vec", m |-> x]
        /\ cur' = IF f # "" THEN None
                  ELSE [frame |-> Other(FromFrame(ev.a)), kind |-> "vec", raw |-> ev.y, n |-> IF cont THEN cur.n + 1 ELSE 1]
  /\ l' = l + 1 /\ UNCHANGED <<tid, rm>>

\* 3x3: symmetric in => symmetric out, trace / principal minors / determinant kept, exact, round trip
VcvChecks(ev, x, y, cont) ==
  LET exp == IF ev.a = "VcvC2L" THEN Post_VcvC2L(rm, x) ELSE Post_VcvL2C(rm, x)
      sc  == Norm1(x)
  IN << <<"shape", ev.oshape = "3x3">>,
        <<"exact", MatClose(y, exp, TolAt(sc))>>,
        <<"symmetric", IsSym(x, TolAt(sc)) => IsSym(y, MulSmall(TolAt(sc), 2))>>,
        <<"trace", Within(Tr(y), Tr(x), TolAt(sc))>>,
        <<"minors", Within(Minors(y), Minors(x), TolAt(Sq(sc)))>>,
        <<"determinant", Within(Det(y), Det(x), TolAt(Mul(sc, Sq(sc))))>>,
        <<"round_trip", (cont /\ org.frame = Other(FromFrame(ev.a)))
                          => MatClose(y, org.m, MulSmall(TolAt(sc), cur.n + 1))>> >>
\* 3x1: the rotated diagonal of the diagonal matrix
ColChecks(ev, x, y) ==
  LET exp == IF ev.a = "VcvC2L" THEN Post_ColC2L(rm, x) ELSE Post_ColL2C(rm, x)
      sc  == Abs3(x)
  IN << <<"shape", ev.oshape = "3x1">>,
        <<"column", VecClose(y, exp, TolAt(sc))>>,
        <<"column_total", Within(Sum3(y[1], y[2], y[3]), Sum3(x[1], x[2], x[3]), TolAt(sc))>> >>

VcvStep ==
  /\ ~dead /\ l > 1 /\ l <= Len(T.ev) /\ T.ev[l].a \in {"VcvC2L", "VcvL2C"} /\ T.ev[l].shape = "3x3"
  /\ LET ev == T.ev[l] IN
     \E cont \in {Continues(ev, "vcv")} :
     \E x \in {JM(ev.x)} :
     \E f \in {IF ev.exc # "" THEN "raised"
               ELSE IF ev.oshape # "3x3" THEN "shape"
               ELSE FirstFail(VcvChecks(ev, x, JM(ev.y), cont), 1)} :
        /\ (IF f = "" THEN TRUE ELSE Report(ev.a \o "." \o f))
        /\ dead' = (f # "")
        /\ org' = IF cont THEN org ELSE [frame |-> FromFrame(ev.a), kind |-> "vcv", m |-> x]
        /\ cur' = IF f # "" THEN None
                  ELSE [frame |-> Other(FromFrame(ev.a)), kind |-> "vcv", raw |-> ev.y, n |-> IF cont THEN cur.n + 1 ELSE 1]
  /\ l' = l + 1 /\ UNCHANGED <<tid, rm>>

ColStep ==
  /\ ~dead /\ l > 1 /\ l <= Len(T.ev) /\ T.ev[l].a \in {"VcvC2L", "VcvL2C"} /\ T.ev[l].shape = "3x1"
  /\ LET ev == T.ev[l] IN
     \E f \in {IF ev.exc # "" THEN "raised"
               ELSE IF ev.oshape # "3x1" THEN "shape"
               ELSE FirstFail(ColChecks(ev, JV(ev.x), JV(ev.y)), 1)} :
        /\ (IF f = "" THEN TRUE ELSE Report(ev.a \o "." \o f))
        /\ dead' = (f # "")
  /\ cur' = None /\ org' = NoOrg
  /\ l' = l + 1 /\ UNCHANGED <<tid, rm>>

(* --------------------------- error ellipse ---------------------------- *)
\* o = <<a, b>> observed semi-axes, aux = <<sin B, cos B>> of the observed orientation B (alpha: math.sin/cos
\* of the returned angle, bound here by sin^2 + cos^2 = 1), V the 3x3 whose east/north block is described
BlockScale(V) == Sum3(Abs(V[1][1]), Abs(V[2][2]), Abs(Add(V[1][2], V[2][1])))
EllipseChecks(V, a, b, s, c, sc) ==
  LET t  == Tr2(V)
  IN << <<"aux_unit", Within(Add(Sq(s), Sq(c)), One, Tol)>>,
        <<"order", Geq(a, b) /\ ~Lt(b, Zero)>>,
        <<"axes_sum", Within(Add(Sq(a), Sq(b)), t, TolAt(sc))>>,                       \* a^2 + b^2 = trace
        <<"axes_product", Within(Mul(Sq(a), Sq(b)), Det2(V), TolAt(Sq(sc)))>>,         \* a^2 b^2 = determinant
        <<"orientation", BearingOK(AxisOf(V), s, c, TolAt(sc))>> >>
\* designed case: V = a^2 d d^T + b^2 e e^T, d = (sin B, cos B) the major axis at the rational bearing B = th
DesignV2(a, b, th) ==
  LET s == SinOf(th)  c == CosOf(th)  A == FromInt(a * a)  B == FromInt(b * b)
  IN <<Add(Mul(A, Sq(s)), Mul(B, Sq(c))), Mul(Sub(A, B), Mul(s, c)), Add(Mul(A, Sq(c)), Mul(B, Sq(s)))>>   \* ee, en, nn
DesignChecks(V, a, b, s, c, d) ==
  LET th == <<d[3], d[4], d[5]>>
      dv == DesignV2(d[1], d[2], th)
      sc == FromInt(d[1] * d[1] + 1)
  IN << <<"design_input", /\ IsPyth(th) /\ d[1] >= d[2] /\ d[2] >= 0
                          /\ Within(V[1][1], dv[1], TolAt(sc)) /\ Within(V[1][2], dv[2], TolAt(sc))
                          /\ Within(V[2][1], dv[2], TolAt(sc)) /\ Within(V[2][2], dv[3], TolAt(sc))>>,
        \* (squares: a rounding of 1e-16 in an eigenvalue is 1e-8 in the semi-axis of a degenerate ellipse)
        <<"exact_axes", Within(Sq(a), FromInt(d[1] * d[1]), TolAt(sc)) /\ Within(Sq(b), FromInt(d[2] * d[2]), TolAt(sc))>>,
        \* same axis as the designed bearing (mod 180 degrees):  sin B cos th - cos B sin th = 0
        <<"exact_bearing", d[1] > d[2] => Within(Mul(s, CosOf(th)), Mul(c, SinOf(th)), Dec(1000, 3))>> >>

EllipseStep ==    \* (needs no station: also the only event of traces of kind "ellipse")
  /\ ~dead /\ (l > 1 \/ T.kind = "ellipse") /\ l <= Len(T.ev) /\ T.ev[l].a = "Ellipse"
  /\ LET ev == T.ev[l] IN
     \E V \in {JM(ev.x)} :
     \E f \in {IF ev.exc # "" THEN "raised"
               ELSE LET a == FromJ(ev.y[1])  b == FromJ(ev.y[2])  s == FromJ(ev.aux[1])  c == FromJ(ev.aux[2])
                    IN FirstFail(EllipseChecks(V, a, b, s, c, BlockScale(V))
                                 \o (IF ev.design = <<>> THEN <<>> ELSE DesignChecks(V, a, b, s, c, ev.design)), 1)} :
        /\ (IF f = "" THEN TRUE ELSE Report("Ellipse." \o f))
        /\ dead' = (f # "")
  /\ l' = l + 1 /\ UNCHANGED <<tid, rm, cur, org>>

(* --------------------------- relative error --------------------------- *)
\* ellipse of var1 + var2 - cov12 - cov12^T in the local frame of station 1; up error = sqrt of its up variance
RelErrStep ==
  /\ ~dead /\ l > 1 /\ l <= Len(T.ev) /\ T.ev[l].a = "RelErr"
  /\ LET ev == T.ev[l] IN
     \E Dm \in {RelVar(JM(ev.v1), JM(ev.v2), JM(ev.c12))} :
     \E L \in {Post_VcvC2L(rm, Dm)} :
     \E f \in {IF ev.exc # "" THEN "raised"
               ELSE LET a == FromJ(ev.y[1])  b == FromJ(ev.y[2])  u == FromJ(ev.y[3])
                        s == FromJ(ev.aux[1])  c == FromJ(ev.aux[2])
                        \* the code rotates the three blocks and then subtracts: roundings are relative to the blocks
                        sc == Add(Add(Norm1(JM(ev.v1)), Norm1(JM(ev.v2))), MulSmall(Norm1(JM(ev.c12)), 2))
                    IN FirstFail(EllipseChecks(L, a, b, s, c, sc)
                                 \o << <<"up_error", ~Lt(u, Zero) /\ Within(Sq(u), L[3][3], TolAt(sc))>> >>, 1)} :
        /\ (IF f = "" THEN TRUE ELSE Report("RelErr." \o f))
        /\ dead' = (f # "")
  /\ l' = l + 1 /\ UNCHANGED <<tid, rm, cur, org>>

(* -------------------------- coverage factors -------------------------- *)
\* trace kind "k": events 1..206 are k_val95(-5) .. k_val95(200) in order, later events are non-integer calls
KLo == -5
KHi == 200
KIdx(dof) == dof - KLo + 1
KY(dof) == FromJ(T.ev[KIdx(dof)].y)
KSlack == Dec(2000, 2)           \* 2e-5: rounding of the three entries of a second difference
\* The Student-t quantile clause is the expensive one (~0.15 s per entry).  It is evaluated once per table,
\* inside an ASSUME (where TLC caches operator arguments; as a plain constant definition the same expression
\* took minutes), stored with TLCSet and read by the steps.  A k-trace carries qmod = <<m, r>>: this copy
\* of the table answers for the entries with dof % m = r, so that the driver can spread one table over
\* m parallel TLC processes; the other clauses are evaluated on every copy.
KTraceIds == {i \in 1..Len(Traces) : Traces[i].kind = "k"}
KQuantileBadOf(trs) ==
  UNION { UNION { IF /\ nu % trs[i].qmod[1] = trs[i].qmod[2]
                     /\ KIdx(nu) <= Len(trs[i].ev) /\ trs[i].ev[KIdx(nu)].exc = ""
                     /\ ~QuantileOK(nu, FromJ(trs[i].ev[KIdx(nu)].y))
                  THEN {<<i, nu>>} ELSE {} : nu \in KMin..KMax } : i \in KTraceIds }
ASSUME TLCSet(7, KQuantileBadOf(Traces))
KQuantileBad == TLCGet(7)
KChecks(ev) ==
  LET k == KAbstract([int |-> ev.int, v |-> ev.dof]) IN
  IF k.kind = "TypeError" THEN << <<"type_error", ev.exc = "TypeError">> >>
  ELSE
  << <<"raised", ev.exc = "">>,
     <<"table_order", l <= KIdx(KHi) => ev.dof = l + KLo - 1>>,
     <<"below_one", (k.kind = "entry" /\ ev.dof < KMin) => ev.y = T.ev[KIdx(KMin)].y>>,
     <<"above_120", k.kind = "normal" => Within(FromJ(ev.y), K196, Floor)>>,
     <<"decreasing", (k.kind = "entry" /\ ev.dof \in (KMin + 1)..KMax) => Lt(FromJ(ev.y), KY(ev.dof - 1))>>,
     <<"above_normal_limit", k.kind = "entry" => Gt(FromJ(ev.y), Dec(19599, 1))>>,
     <<"convex", (k.kind = "entry" /\ ev.dof \in (KMin + 1)..(KMax - 1))
                    => Geq(Add(Sub(Add(KY(ev.dof - 1), KY(ev.dof + 1)), MulSmall(FromJ(ev.y), 2)), KSlack), Zero)>>,
     <<"student_t_quantile", (k.kind = "entry" /\ ev.dof \in KMin..KMax /\ ev.dof % T.qmod[1] = T.qmod[2])
                                => <<tid, ev.dof>> \notin KQuantileBad>> >>

KStep ==
  /\ ~dead /\ T.kind = "k" /\ l <= Len(T.ev) /\ T.ev[l].a = "KVal"
  /\ (l = 1 => Len(T.ev) >= KIdx(KHi))
  /\ LET ev == T.ev[l] IN
     \E f \in {FirstFail(KChecks(ev), 1)} :
        /\ (IF f = "" THEN TRUE ELSE Report("KVal." \o f))
        /\ dead' = (f # "")
  /\ l' = l + 1 /\ UNCHANGED <<tid, rm, cur, org>>

(* ---------------------------------------------------------------------- *)
TraceInit == /\ tid \in 1..Len(Traces) /\ l = 1 /\ dead = FALSE
             /\ rm = <<>> /\ cur = None /\ org = NoOrg
TraceNext == RotStep \/ NormalStep \/ VecStep \/ VcvStep \/ ColStep \/ EllipseStep \/ RelErrStep \/ KStep
TraceSpec == TraceInit /\ [][TraceNext]_tvars
Consumed == (~dead /\ l = Len(T.ev) + 1) => PrintT(<<"END", tid>>)
=============================================================================
