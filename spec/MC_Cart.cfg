SPECIFICATION Spec
CONSTANT Sphere = FALSE
INVARIANT TriplesOK
CONSTRAINT Emit
CHECK_DEADLOCK FALSE
