---------------------------- MODULE Trace_Angles ----------------------------
(***************************************************************************)
(* Trace validation for C08.  A trace is one chain of conversions run on   *)
(* the real geodepy.angles: the start value (built by the driver in the    *)
(* source notation from a lattice angle) and, per step, the routine called *)
(* and the value returned, decoded by alpha to <<neg, w, f>> (nano-arc-    *)
(* seconds, rounded once) plus, for HP-valued results, the HP digits read  *)
(* off the float at 13 decimals.  Also `Reject` probes: HP values with a   *)
(* minutes / seconds field >= 60 given to hp2dec and HPAngle.              *)
(* Clauses (first failing one is reported):                                *)
(*   raised      a routine raised where the specification has a step       *)
(*               (covers Accepts: valid HP input is accepted everywhere)   *)
(*   edge        the routine is not an edge from the current notation      *)
(*   kind        wrong result type                                         *)
(*   same_angle  result differs from the start angle by more than 1e-8"    *)
(*   same_sign   sign differs (angles within 1e-8" of zero excepted)       *)
(*   valid_hp    an HP value produced has minutes or seconds field >= 60   *)
(*   source_unchanged  a conversion changed the angle object it was given  *)
(*   constructed  a DMS / DDM object built from (degree, minute, second,    *)
(*            sign flag) does not denote that angle                        *)
(*   rejects     invalid HP accepted / valid HP rejected by hp2dec, HPAngle*)
(***************************************************************************)
EXTENDS Angles, Json, IOUtils, TLC

Data   == JsonDeserialize(IOEnv.TRACE_FILE)
Traces == Data.traces
VARIABLES tid, l, dead
tvars == <<vars, tid, l, dead>>
T == Traces[tid]

Tol == 10          \* 1e-8 arc-second in nano-arc-seconds
\* difference obs - exp in nano-arc-seconds, saturated at +-2e9 (w differs by 2" or more)
Signed(a) == IF a.neg THEN [w |-> -a.w, f |-> -a.f] ELSE [w |-> a.w, f |-> a.f]
Diff(a, b) == LET x == Signed(a) y == Signed(b) dw == x.w - y.w
              IN IF dw > 1 THEN 2000000000 ELSE IF dw < -1 THEN -2000000000
                 ELSE dw * 1000000000 + (x.f - y.f)
AbsI(n) == IF n < 0 THEN -n ELSE n
SameAngle(o, a) == AbsI(Diff(o, a)) <= Tol
NearZero(a) == a.w = 0 /\ a.f <= Tol
SameSign(o, a) == NearZero(o) \/ NearZero(a) \/ o.neg = a.neg

RECURSIVE FirstFail(_, _)
FirstFail(cs, i) == IF i > Len(cs) THEN "" ELSE IF ~cs[i][2] THEN cs[i][1] ELSE FirstFail(cs, i + 1)
Report(clause) == PrintT(<<"FAIL", tid, l, clause>>)

ObsAng(o) == [neg |-> o.neg = 1, w |-> o.w, f |-> o.f]

TraceInit == /\ tid \in 1..Len(Traces) /\ l = 1 /\ dead = FALSE /\ h = <<>>
             /\ rep = Traces[tid].rep
             /\ ang = [neg |-> Traces[tid].ang.neg = 1, w |-> Traces[tid].ang.w, f |-> Traces[tid].ang.f]

Step == /\ ~dead /\ l <= Len(T.ev) /\ T.ev[l].a # "Reject"
        /\ LET ev == T.ev[l]
               es == {e \in Edges : e[3] = ev.a /\ e[1] = rep}
           IN IF es = {} THEN Report("edge") /\ dead' = TRUE /\ UNCHANGED vars
              ELSE \E e \in es :
                   \E f \in {IF ev.exc # "" THEN "raised"
                             ELSE FirstFail(<< \* a DMS / DDM start object built from its fields denotes the angle it was built for
                                               <<"constructed", l > 1 \/ ~T.ctor.on \/
                                                                (SameAngle(ObsAng(T.ctor), ang) /\ SameSign(ObsAng(T.ctor), ang))>>,
                                               <<"kind", ev.kind = Kind(e[2])>>,
                                               <<"same_angle", SameAngle(ObsAng(ev), ang)>>,
                                               <<"same_sign", SameSign(ObsAng(ev), ang)>>,
                                               <<"valid_hp", ProducesHP(e) => ValidHPDigits(ev.hp)>>,
                                               <<"source_unchanged", ev.srcsame>> >>, 1)} :     \* Convert yields a NEW value
                      /\ (IF T.fan THEN UNCHANGED vars ELSE Convert(e))   \* fan: every probe starts from the start value
                      /\ (IF f = "" THEN TRUE ELSE Report(ev.a \o "." \o f))
                      /\ dead' = (f # "")
        /\ l' = l + 1 /\ UNCHANGED tid

\* HP input with given digits handed to hp2dec / HPAngle: raised iff a field is >= 60
Reject == /\ ~dead /\ l <= Len(T.ev) /\ T.ev[l].a = "Reject"
          /\ LET ev == T.ev[l]
                 ok == (ev.raised = ~ValidHPDigits(ev.hp))
             IN /\ (IF ok THEN TRUE ELSE Report(ev.fn \o ".rejects"))
                /\ dead' = ~ok
          /\ l' = l + 1 /\ UNCHANGED <<vars, tid>>

TraceNext == Step \/ Reject
TraceSpec == TraceInit /\ [][TraceNext]_tvars
Consumed == (~dead /\ l = Len(T.ev) + 1) => PrintT(<<"END", tid>>)
=============================================================================
