------------------------------ MODULE MC_Purity ------------------------------
EXTENDS Purity
MCThreads2 == {1, 2}
MCThreads1 == {1}
MCCalls3  == {"conv", "tr14", "tr14vcv"}
MCAdders  == {"tr14", "tr14vcv", "tr_atrf", "tr_alg"}
MCCells   == {"sd_tx", "sd_ty"}
\* the replay alphabets: abstract call classes of the driver (harness/props/c09.py)
Calls14 == {"conv_grid", "conv_cart", "conv_misc", "geod_dir", "geod_inv", "geod_utm", "stat_rot", "stat_vcv",
            "stat_err", "surv", "tr7", "tr14", "tr14vcv", "tr_atrf", "tr_mga", "tr_alg"}
Calls5  == {"conv_grid", "tr14vcv", "tr_alg", "stat_vcv", "surv"}
\* behaviour emission: print the schedule of every completed run
Emit == Done => PrintT(<<"BEH", sched>>)
View == <<shared, budget, pc, cur, pending, seen, first, ok>>
=============================================================================
