SPECIFICATION TraceSpec
CONSTANT Points <- TrPoints
CONSTANT MaxVals = 40
CONSTRAINT Consumed
INVARIANT TypeOK
CHECK_DEADLOCK FALSE
