SPECIFICATION TraceSpec
CONSTANT Points <- TrPoints
CONSTANT South <- TrSouth
CONSTANT Near <- TrNear
CONSTANT MaxVals = 40
CONSTRAINT Consumed
INVARIANT TypeOK
CHECK_DEADLOCK FALSE
