SPECIFICATION Spec
CONSTANT Sphere = TRUE
INVARIANT TriplesOK
INVARIANT OnSphere
CHECK_DEADLOCK FALSE
