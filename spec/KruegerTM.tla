------------------------------ MODULE KruegerTM ------------------------------
(***************************************************************************)
(* The Transverse Mercator projection of an ellipsoid, evaluated inside    *)
(* the specification at positions with RATIONAL trigonometry: latitude     *)
(* triple <<p, q, r>> (sin = p/r, cos = q/r > 0) and longitude-difference  *)
(* triple <<P, Q, R>> from the central meridian (sin = P/R, cos = Q/R > 0).*)
(*                                                                         *)
(* Method (Krueger 1912 as extended by Karney 2011), series in the third   *)
(* flattening n complete to n^5:                                           *)
(*   tau = tan(lat) = p/q,  sec(lat) = r/q                                 *)
(*   sigma = sinh(e atanh(e sin lat)),  tau' = tau sqrt(1+sigma^2) - sigma sec *)
(*   xi' = atan2(tau', cos dl),  eta' = asinh(sin dl / hypot(tau', cos dl))*)
(*   xi  = xi'  + SUM_k alpha_k sin(2k xi') cosh(2k eta')                  *)
(*   eta = eta' + SUM_k alpha_k cos(2k xi') sinh(2k eta')                  *)
(*   E = fe + k0 A eta,  N = fn_eff + k0 A xi,  A = a/(1+n)(1+n^2/4+n^4/64)*)
(* Only xi' and eta' need transcendental functions: the arctangent series  *)
(* (MeridianArc!AtanSmall, after algebraic half-angle reductions) and the  *)
(* area-tangent series.  Everything else is algebraic in BigFix; square    *)
(* roots and reciprocals are Newton iterations whose results are VERIFIED  *)
(* by multiplication (residuals collected in `res`, all must be < 1e-15).  *)
(* Neglected: terms of order n^6 (n <= 3.4e-3 for 1/f >= 150): below 4e-6 m*)
(* within 30 degrees of the central meridian; truncation of the two        *)
(* series: below 1e-18.                                                    *)
(***************************************************************************)
EXTENDS MeridianArc

Half(x) == DivSmall(x, 2)

\* ---- verified Newton square root / reciprocal, from generic start values ----
\* 1/sqrt(v) for v in [0.2, 30]: start 1 is not always in the basin; scale by powers of 4 first
RECURSIVE RSqrtScaled(_, _)
RSqrtScaled(v, depth) ==
  IF depth > 12 THEN RSqrtIt(v, One, 8)
  ELSE IF Gt(v, Two) THEN Half(RSqrtScaled(DivSmall(v, 4), depth + 1))
  ELSE IF Lt(v, FromRat(1, 2)) THEN MulSmall(RSqrtScaled(MulSmall(v, 4), depth + 1), 2)
  ELSE RSqrtIt(v, One, 7)                        \* v in [0.5, 2]: Newton from 1 converges quadratically
RSqrt(v) == RSqrtScaled(v, 0)
Sqrt(v) == Mul(v, RSqrt(v))
Recip(v) == Sq(RSqrt(Abs(v)))                     \* 1/|v|
SqrtResidual(v, s) == Abs(Sub(Sq(s), v))

\* ---- atanh(x) = x + x^3/3 + ... for |x| <= 0.6 (K terms) ----
RECURSIVE AtanhSum(_, _, _, _, _)
AtanhSum(x2, pow, k, K, acc) ==
  IF k > K THEN acc ELSE AtanhSum(x2, Mul(pow, x2), k + 1, K, Add(acc, DivSmall(pow, 2 * k + 1)))
Atanh(x, K) == AtanhSum(Sq(x), x, 0, K, Zero)
\* ---- sinh(y) for |y| < 0.02 ----
SinhSmall(y) == LET y2 == Sq(y) y3 == Mul(y, y2) y5 == Mul(y3, y2) y7 == Mul(y5, y2)
                IN Add(Add(Add(y, DivSmall(y3, 6)), DivSmall(y5, 120)), DivSmall(y7, 5040))
\* ---- atan of any x >= 0 given as a ratio s/c (s, c >= 0, not both 0): two half-angle reductions ----
\* atan(x) = 2 atan(x / (1 + sqrt(1 + x^2)));  for s > c use pi/2 - atan(c/s)
AtanLe1(x) == LET h1 == Mul(x, Recip(Add(One, Sqrt(Add(One, Sq(x))))))          \* <= 0.4143
              IN MulSmall(AtanSmall(h1), 2)
AtanRatio(s, c) == IF Leq(s, c) THEN AtanLe1(Mul(s, Recip(c)))
                   ELSE Sub(HalfPi, AtanLe1(Mul(c, Recip(s))))

\* ---- Krueger alpha coefficients to n^5 (Karney 2011, eq. 35) ----
Poly(n, cs) == \* cs = <<c1, .., c5>> rationals <<num, den>>; returns SUM c_j n^j
  LET n2 == Sq(n) n3 == Mul(n2, n) n4 == Sq(n2) n5 == Mul(n4, n)
      T(j, x) == DivSmall(MulSmall(x, cs[j][1]), cs[j][2])
  IN Add(Add(Add(Add(T(1, n), T(2, n2)), T(3, n3)), T(4, n4)), T(5, n5))
Alpha(n) == << Poly(n, << <<1, 2>>, <<-2, 3>>, <<5, 16>>, <<41, 180>>, <<-127, 288>> >>),
               Poly(n, << <<0, 1>>, <<13, 48>>, <<-3, 5>>, <<557, 1440>>, <<281, 630>> >>),
               Poly(n, << <<0, 1>>, <<0, 1>>, <<61, 240>>, <<-103, 140>>, <<15061, 26880>> >>),
               Poly(n, << <<0, 1>>, <<0, 1>>, <<0, 1>>, <<49561, 161280>>, <<-179, 168>> >>),
               Poly(n, << <<0, 1>>, <<0, 1>>, <<0, 1>>, <<0, 1>>, <<34729, 80640>> >>) >>

\* ---- the projection; returns [xi, eta, res] in units of the rectifying radius, res = verification residuals ----
\* written as a chain of operators: each argument is evaluated once
TM6(al, sx, cx, u, ch, xip, etp, taup, hyp, res) ==
  LET s2 == MulSmall(Mul(sx, cx), 2) c2 == Sub(Sq(cx), Sq(sx))
      sh2 == MulSmall(Mul(u, ch), 2) ch2 == Add(One, MulSmall(Sq(u), 2))
      s4 == MulSmall(Mul(s2, c2), 2) c4 == Sub(Sq(c2), Sq(s2))
      sh4 == MulSmall(Mul(sh2, ch2), 2) ch4 == Add(Sq(ch2), Sq(sh2))
      s6 == Add(Mul(s4, c2), Mul(c4, s2)) c6 == Sub(Mul(c4, c2), Mul(s4, s2))
      sh6 == Add(Mul(sh4, ch2), Mul(ch4, sh2)) ch6 == Add(Mul(ch4, ch2), Mul(sh4, sh2))
      s8 == MulSmall(Mul(s4, c4), 2) c8 == Sub(Sq(c4), Sq(s4))
      sh8 == MulSmall(Mul(sh4, ch4), 2) ch8 == Add(Sq(ch4), Sq(sh4))
      s10 == Add(Mul(s8, c2), Mul(c8, s2)) c10 == Sub(Mul(c8, c2), Mul(s8, s2))
      sh10 == Add(Mul(sh8, ch2), Mul(ch8, sh2)) ch10 == Add(Mul(ch8, ch2), Mul(sh8, sh2))
  IN [xi |-> Add(xip, Add(Add(Add(Add(Mul(al[1], Mul(s2, ch2)), Mul(al[2], Mul(s4, ch4))), Mul(al[3], Mul(s6, ch6))),
                             Mul(al[4], Mul(s8, ch8))), Mul(al[5], Mul(s10, ch10)))),
      eta |-> Add(etp, Add(Add(Add(Add(Mul(al[1], Mul(c2, sh2)), Mul(al[2], Mul(c4, sh4))), Mul(al[3], Mul(c6, sh6))),
                               Mul(al[4], Mul(c8, sh8))), Mul(al[5], Mul(c10, sh10)))),
      \* p = 1 + SUM 2k alpha_k cos(2k xi') cosh(2k eta'),  q = SUM 2k alpha_k sin(2k xi') sinh(2k eta')   (scale / convergence)
      pp |-> Add(One, Add(Add(Add(Add(MulSmall(Mul(al[1], Mul(c2, ch2)), 2), MulSmall(Mul(al[2], Mul(c4, ch4)), 4)),
                                  MulSmall(Mul(al[3], Mul(c6, ch6)), 6)), MulSmall(Mul(al[4], Mul(c8, ch8)), 8)),
                          MulSmall(Mul(al[5], Mul(c10, ch10)), 10))),
      qq |-> Add(Add(Add(Add(MulSmall(Mul(al[1], Mul(s2, sh2)), 2), MulSmall(Mul(al[2], Mul(s4, sh4)), 4)),
                         MulSmall(Mul(al[3], Mul(s6, sh6)), 6)), MulSmall(Mul(al[4], Mul(s8, sh8)), 8)),
                 MulSmall(Mul(al[5], Mul(s10, sh10)), 10)),
      taup |-> taup, hyp |-> hyp, res |-> res]
\* sx, cx = sin, cos of xi'; u = sinh eta', ch = cosh eta'
TM5(al, taup, cdl, sdl, hyp, rh) ==
  LET sx == Mul(taup, rh) cx == Mul(cdl, rh) u == Mul(sdl, rh)
      ch == Sqrt(Add(One, Sq(u)))
      v == Mul(u, Recip(ch))                                    \* tanh eta'
      xip == IF taup.neg THEN Neg(AtanRatio(Abs(sx), cx)) ELSE AtanRatio(sx, cx)
      etp == Atanh(v, 40)
  IN TM6(al, sx, cx, u, ch, xip, etp, taup, hyp,
         << SqrtResidual(Add(Sq(taup), Sq(cdl)), hyp), Abs(Sub(Mul(hyp, rh), One)), SqrtResidual(Add(One, Sq(u)), ch) >>)
TM4(al, taup, cdl, sdl, hyp) == TM5(al, taup, cdl, sdl, hyp, Recip(hyp))
TM3(al, taup, cdl, sdl) == TM4(al, taup, cdl, sdl, Sqrt(Add(Sq(taup), Sq(cdl))))
\* tau' = tau sqrt(1 + sigma^2) - sigma sec
TM2(al, sigma, tlat, tdl) ==
  TM3(al, Sub(Mul(RatS(tlat[1], tlat[2]), Sqrt(Add(One, Sq(sigma)))), Mul(sigma, RatS(tlat[3], tlat[2]))),
      RatS(tdl[2], tdl[3]), RatS(tdl[1], tdl[3]))
\* sigma = sinh(e atanh(e sin lat)), e = sqrt(e2)
TM1(al, e, tlat, tdl) == TM2(al, SinhSmall(Mul(e, Atanh(Mul(e, RatS(tlat[1], tlat[3])), 14))), tlat, tdl)
Ecc2OfN(n) == Mul(MulSmall(n, 4), Sq(Recip(Add(One, n))))        \* e^2 = 4n / (1+n)^2
TMRatios(n, tlat, tdl) == TM1(Alpha(n), Sqrt(Ecc2OfN(n)), tlat, tdl)

\* rectifying radius
RectRadius(a, n) == LET n2 == Sq(n) IN Mul(Mul(a, Recip(Add(One, n))), Add(Add(One, DivSmall(n2, 4)), DivSmall(Sq(n2), 64)))
\* point scale factor / k0 and grid convergence magnitude (radians) from the ratios record t
\*   k/k0 = (A/a) sqrt(p^2+q^2) sec(lat) sqrt(1 - e2 sin^2 lat) / hypot(tau', cos dl)
ScaleOverK0(a, n, tlat, t) ==
  Mul(Mul(Mul(Mul(Mul(RectRadius(a, n), Recip(a)), Sqrt(Add(Sq(t.pp), Sq(t.qq)))), RatS(tlat[3], tlat[2])),
          Sqrt(Sub(One, Mul(Ecc2OfN(n), Sq(RatS(tlat[1], tlat[3])))))), Recip(t.hyp))
\*   |gamma| = atan|q/p| + atan(|tau' tan dl| / sqrt(1 + tau'^2))
ConvMagnitude(tdl, t) ==
  Add(AtanRatio(Abs(t.qq), Abs(t.pp)),
      AtanRatio(Mul(Abs(t.taup), RatS(IF tdl[1] < 0 THEN -tdl[1] ELSE tdl[1], tdl[2])), Sqrt(Add(One, Sq(t.taup)))))

\* ---- the same at ANY position: sines and cosines of the latitude and of the longitude difference given as numbers
\* (from Trig!SinCosDeg in the trace specification) instead of Pythagorean ratios; latitude strictly between the poles ----
TM2g(al, sigma, sphi, cphi, sdl, cdl) ==
  TM3(al, Sub(Mul(Mul(sphi, Recip(cphi)), Sqrt(Add(One, Sq(sigma)))), Mul(sigma, Recip(cphi))), cdl, sdl)
TMRatiosSC(n, sphi, cphi, sdl, cdl) ==
  TM2g(Alpha(n), SinhSmall(Mul(Sqrt(Ecc2OfN(n)), Atanh(Mul(Sqrt(Ecc2OfN(n)), sphi), 14))), sphi, cphi, sdl, cdl)
ScaleOverK0SC(a, n, sphi, cphi, t) ==
  Mul(Mul(Mul(Mul(Mul(RectRadius(a, n), Recip(a)), Sqrt(Add(Sq(t.pp), Sq(t.qq)))), Recip(cphi)),
          Sqrt(Sub(One, Mul(Ecc2OfN(n), Sq(sphi))))), Recip(t.hyp))
ConvMagnitudeSC(sdl, cdl, t) ==
  Add(AtanRatio(Abs(t.qq), Abs(t.pp)), AtanRatio(Mul(Abs(t.taup), Abs(sdl)), Mul(cdl, Sqrt(Add(One, Sq(t.taup))))))

ResidualsOK(r) == \A i \in 1..Len(r) : Leq(r[i], Dec(10, 4))      \* 1e-15
=============================================================================
