------------------------------- MODULE Helmert -------------------------------
(***************************************************************************)
(* C06 / C07 - the 7- and 14-parameter similarity transformation           *)
(* (geodepy.transform.conform7 / conform14 and the ATRF convenience        *)
(* functions).  The formula lives here, in exact fixed-point arithmetic:   *)
(*                                                                         *)
(*   T_P(p) = t + (1 + sc * 1e-6) * (I + Omega(r)) p                       *)
(*   Omega(r) = [[0, rz, -ry], [-rz, 0, rx], [ry, -rx, 0]]                 *)
(*   r = rotation in arc-seconds * pi / 648000     (Australian convention) *)
(*                                                                         *)
(* and its first-order covariance propagation J Q J^T with                 *)
(* Q = diag(V_in, sd_sc^2, sd_r^2 (3), sd_t^2 (3)).                        *)
(* The 14-parameter form is T with Catalogue!ShiftSet applied first        *)
(* (parameter + rate * days / 365.25).  A point is a triple of BigFix      *)
(* numbers; the state machine moves a point through transformations.       *)
(***************************************************************************)
EXTENDS Catalogue

ArcsecToRad(a) == DivSmall(DivSmall(Mul(a, Pi), 3600), 180)      \* a * pi / 648000
Ppm(s) == DivSmall(DivSmall(s, 1000), 1000)                      \* s * 1e-6

\* parameters of a set as a record of numbers (first 7 entries of p)
Par(t) == [tx |-> t.p[1], ty |-> t.p[2], tz |-> t.p[3], s |-> Ppm(t.p[4]),
           rx |-> ArcsecToRad(t.p[5]), ry |-> ArcsecToRad(t.p[6]), rz |-> ArcsecToRad(t.p[7])]

\* (I + Omega) p
RotP(q, p) == << Add(p[1], Sub(Mul(q.rz, p[2]), Mul(q.ry, p[3]))),
                 Add(p[2], Sub(Mul(q.rx, p[3]), Mul(q.rz, p[1]))),
                 Add(p[3], Sub(Mul(q.ry, p[1]), Mul(q.rx, p[2]))) >>
Scale(q) == Add(One, q.s)
Conform7(t, p) == LET q == Par(t) rp == RotP(q, p) k == Scale(q)
                  IN << Add(q.tx, Mul(k, rp[1])), Add(q.ty, Mul(k, rp[2])), Add(q.tz, Mul(k, rp[3])) >>
Conform14(t, e, p) == Conform7(ShiftSet(t, e), p)

(* ------------------- first-order covariance propagation ----------------- *)
\* sd: <<sd_tx, sd_ty, sd_tz, sd_sc (ppm), sd_rx, sd_ry, sd_rz (arc-seconds)>>,  V: 3x3 as <<row1,row2,row3>>
\* columns of the Jacobian, each a 3-vector already multiplied by the parameter's one-sigma
\* (the small one-sigma is multiplied by the coordinate BEFORE the unit conversion, so that the fixed
\*  1e-20 resolution does not cost relative precision)
JCols(t, p, sd) ==
  LET q == Par(t) k == Scale(q) rp == RotP(q, p)
      S(x) == Ppm(Mul(x, sd[4]))
      AX(x) == ArcsecToRad(Mul(Mul(k, sd[5]), x))
      AY(x) == ArcsecToRad(Mul(Mul(k, sd[6]), x))
      AZ(x) == ArcsecToRad(Mul(Mul(k, sd[7]), x))
  IN << <<S(rp[1]), S(rp[2]), S(rp[3])>>,                                   \* d/d scale = (I+Omega) p
        <<Zero, AX(p[3]), Neg(AX(p[2]))>>,                                  \* d/d rx
        <<Neg(AY(p[3])), Zero, AY(p[1])>>,                                  \* d/d ry
        <<AZ(p[2]), Neg(AZ(p[1])), Zero>>,                                  \* d/d rz
        <<sd[1], Zero, Zero>>, <<Zero, sd[2], Zero>>, <<Zero, Zero, sd[3]>> >>   \* d/d t
\* M = k (I + Omega)
MMat(t) == LET q == Par(t) k == Scale(q)
           IN << <<k, Mul(k, q.rz), Neg(Mul(k, q.ry))>>,
                 <<Neg(Mul(k, q.rz)), k, Mul(k, q.rx)>>,
                 <<Mul(k, q.ry), Neg(Mul(k, q.rx)), k>> >>
Row3(m, i) == m[i]
MatMul3(a, b) == [i \in 1..3 |-> [j \in 1..3 |-> Add(Add(Mul(a[i][1], b[1][j]), Mul(a[i][2], b[2][j])), Mul(a[i][3], b[3][j]))]]
Transp3(a) == [i \in 1..3 |-> [j \in 1..3 |-> a[j][i]]]
Propagate(t, p, V, sd) ==
  LET m == MMat(t) c == JCols(t, p, sd)
      mv == MatMul3(MatMul3(m, V), Transp3(m))
  IN [i \in 1..3 |-> [j \in 1..3 |->
        Add(mv[i][j], Sum([n \in 1..7 |-> Mul(c[n][i], c[n][j])]))]]

(* ------------------------- reversibility bound -------------------------- *)
\* |T_{-P}(T_P(p)) - p| <= ((|s| + |r|) |t| + (s^2 + |r|^2) |p|) * 1.001 with 1-norms (generous side)
N1(v) == Add(Add(Abs(v[1]), Abs(v[2])), Abs(v[3]))
ReverseBound(t, p) == LET q == Par(t)
                          r1 == N1(<<q.rx, q.ry, q.rz>>) t1 == N1(<<q.tx, q.ty, q.tz>>) s1 == Abs(q.s)
                      IN MulSmall(DivSmall(Add(Mul(Add(s1, r1), t1), Mul(Add(Sq(s1), Sq(r1)), N1(p))), 1000), 1001)
=============================================================================
