SPECIFICATION TraceSpec
CONSTANT FirstYear = 1900
CONSTANT LastYear = 2100
CONSTRAINT Consumed
INVARIANT MonthsOK
INVARIANT DoyInRange
CHECK_DEADLOCK FALSE
