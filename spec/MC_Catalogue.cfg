SPECIFICATION Spec
CONSTANT D = 2
CONSTRAINT Bound
INVARIANT NegInvolution
INVARIANT NegShiftCommute
INVARIANT PathIndependent
INVARIANT LabelsAndRatesKept
INVARIANT ShiftIsIdentityAtOwnEpoch
CHECK_DEADLOCK FALSE
