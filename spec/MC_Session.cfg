SPECIFICATION Spec
CONSTANT Points <- MCPoints
CONSTANT South <- MCSouth
CONSTANT Near <- MCNear
CONSTANT MaxVals = 3
INVARIANT TypeOK
INVARIANT Shape
PROPERTY Immutable
CHECK_DEADLOCK FALSE
