----------------------------- MODULE MC_Geodesic -----------------------------
EXTENDS Geodesic
Emit == legs > 0 \/ PrintT(<<"CASE", kind, case>>)
LegsBound == legs <= 3
=============================================================================
