SPECIFICATION Spec
CONSTANT Threads <- MCThreads2
CONSTANT CallIds <- MCCalls3
CONSTANT Cells <- MCCells
CONSTANT Adders <- MCAdders
CONSTANT MaxLen = 2
CONSTANT AsBuilt = FALSE
VIEW View
INVARIANT NoSharedWrite
INVARIANT Determinism
PROPERTY Returns
CHECK_DEADLOCK FALSE
