------------------------------- MODULE Sinex -------------------------------
(***************************************************************************)
(* C18 - editing a SINEX solution (geodepy.gnss).                          *)
(*                                                                         *)
(* A document is                                                           *)
(*   ent     sequence of <<site, soln>>  (one SOLUTION/EPOCHS record each; *)
(*           a site may have several solution numbers; SITE/ID has one     *)
(*           record per site, in order of first appearance)                *)
(*   vel     velocity parameters present                                   *)
(*   tri     "L" | "U"   triangle of the covariance matrix that is stored  *)
(*   bd      the covariance is block diagonal per station entry (every     *)
(*           cross-entry element is exactly zero)                          *)
(*   comm    a FILE/COMMENT block is present                               *)
(*   sparse  all-zero matrix lines have been removed                       *)
(*   est     sequence of [id, site, soln, typ]; the position in the        *)
(*           sequence is the parameter number written in the file, `id`    *)
(*           is the parameter number in the START document and is the      *)
(*           symbolic value of the estimate; matrix element (i,j) has the  *)
(*           symbolic value <<max(id_i,id_j), min(id_i,id_j)>>, so "the    *)
(*           original with rows and columns deleted" is checkable exactly. *)
(* Environment: the wall clock <<year, month, day, hour, min, sec, tenth>>.*)
(*                                                                         *)
(* One action per public call: RemoveStns(S), RemoveVel, RemoveZeros,      *)
(* ReadEstimate, ReadMatrix, ReadSites.  The editors are deterministic and *)
(* given as functions Post_X so that Trace_Sinex re-uses them.  The file   *)
(* grammar (blocks opened and closed on their own lines, header first,     *)
(* %ENDSNX last) is the automaton GStep; the matrix layout (three values   *)
(* per line) is DenseLines.                                                *)
(***************************************************************************)
EXTENDS Integers, Sequences, FiniteSets, TLC

CONSTANTS Master,     \* sequence of <<site, soln>>: the entries of the largest start document
          MinN,       \* smallest start document = the first MinN entries of Master
          Variants,   \* set of <<vel, tri, bd, comm>> allowed for start documents
          ClkAll      \* TRUE: every clock of ClockTab is a possible initial clock; FALSE: one, spread over documents

Max2(a, b) == IF a > b THEN a ELSE b
Min2(a, b) == IF a < b THEN a ELSE b
\* evaluate `heavy` ONCE and hand its value to Body (TLC re-evaluates LET definitions at every use)
Let1(heavy, Body(_)) == CHOOSE r \in {Body(x) : x \in {heavy}} : TRUE

PosT == <<"STAX", "STAY", "STAZ">>
VelT == <<"VELX", "VELY", "VELZ">>
TypesOf(v) == IF v THEN PosT \o VelT ELSE PosT
IsVelType(t) == t \in {"VELX", "VELY", "VELZ"}

(* ------------------------------ documents ------------------------------ *)
RECURSIVE BuildEst(_, _, _)
BuildEst(ent, v, base) ==
  IF ent = <<>> THEN <<>>
  ELSE LET T == TypesOf(v)
       IN [k \in 1..Len(T) |-> [id |-> base + k, site |-> ent[1][1], soln |-> ent[1][2], typ |-> T[k]]]
          \o BuildEst(Tail(ent), v, base + Len(T))

NewDoc(ent, v, t, b, cm) ==
  [ent |-> ent, vel |-> v, tri |-> t, bd |-> b, comm |-> cm, sparse |-> FALSE, est |-> BuildEst(ent, v, 0)]

N(d) == Len(d.est)
SitesOf(d) == {d.ent[k][1] : k \in 1..Len(d.ent)}
\* sites in order of first appearance (the SITE/ID records)
SiteSeq(ent) ==
  LET first == SelectSeq([i \in 1..Len(ent) |-> i], LAMBDA i : \A j \in 1..(i - 1) : ent[j][1] # ent[i][1])
  IN [k \in 1..Len(first) |-> ent[first[k]][1]]

(* ------------------------- the editors (intended) ---------------------- *)
\* remove_stns_sinex(file, sites): every record of the removed sites disappears, the others keep
\* their order and are renumbered by position; the matrix is re-written densely
Post_RemoveStns(d, S) ==
  [d EXCEPT !.ent = SelectSeq(d.ent, LAMBDA e : e[1] \notin S),
            !.est = SelectSeq(d.est, LAMBDA p : p.site \notin S),
            !.sparse = FALSE]
\* remove_velocity_sinex(file): the velocity parameters disappear
Post_RemoveVel(d) ==
  [d EXCEPT !.vel = FALSE, !.est = SelectSeq(d.est, LAMBDA p : ~IsVelType(p.typ)), !.sparse = FALSE]
\* remove_matrixzeros_sinex(file): only all-zero matrix lines disappear
Post_RemoveZeros(d) == [d EXCEPT !.sparse = TRUE]

\* any removal set of stations of the file that leaves at least one; the matrix block may be
\* dense or have its all-zero lines removed (omitted elements of a SINEX matrix are zero)
En_RemoveStns(d, S) == S \subseteq SitesOf(d) /\ S # SitesOf(d)
En_RemoveVel(d) == d.vel

(* ------------------------------ the matrix ------------------------------ *)
SameEntry(p, q) == p.site = q.site /\ p.soln = q.soln
IsZero(d, i, j) == d.bd /\ ~SameEntry(d.est[i], d.est[j])
Elem(d, i, j) == <<Max2(d.est[i].id, d.est[j].id), Min2(d.est[i].id, d.est[j].id)>>
InTri(t, n, i, j) == i >= 1 /\ j >= 1 /\ i <= n /\ j <= n /\ (IF t = "L" THEN j <= i ELSE j >= i)
Tri(d) == {p \in (1..N(d)) \X (1..N(d)) : InTri(d.tri, N(d), p[1], p[2])}

\* SINEX layout: row i of the triangle, at most three values per line, para2 = column of the first
RowLen(d, i) == IF d.tri = "L" THEN i ELSE N(d) - i + 1
RowCol1(d, i) == IF d.tri = "L" THEN 1 ELSE i
RowLines(d, i) ==
  [c \in 1..((RowLen(d, i) + 2) \div 3) |->
     [r |-> i, c |-> RowCol1(d, i) + 3 * (c - 1), n |-> Min2(3, RowLen(d, i) - 3 * (c - 1))]]
RECURSIVE ConcatRows(_, _, _)
ConcatRows(d, lo, hi) ==
  IF lo > hi THEN <<>>
  ELSE IF lo = hi THEN RowLines(d, lo)
  ELSE ConcatRows(d, lo, (lo + hi) \div 2) \o ConcatRows(d, (lo + hi) \div 2 + 1, hi)
DenseLines(d) == ConcatRows(d, 1, N(d))
LineZero(d, ln) == \A k \in 0..(ln.n - 1) : IsZero(d, ln.r, ln.c + k)
MatLines(d) == IF d.sparse THEN SelectSeq(DenseLines(d), LAMBDA ln : ~LineZero(d, ln)) ELSE DenseLines(d)
Covered(lns) == UNION {{<<lns[q].r, lns[q].c + k>> : k \in 0..(lns[q].n - 1)} : q \in 1..Len(lns)}
RECURSIVE SumN(_, _, _)
SumN(lns, lo, hi) == IF lo > hi THEN 0 ELSE IF lo = hi THEN lns[lo].n
                     ELSE SumN(lns, lo, (lo + hi) \div 2) + SumN(lns, (lo + hi) \div 2 + 1, hi)

(* ------------------------- the grammar of a file ------------------------ *)
KnownBlocks == {"FILE/COMMENT", "SITE/ID", "SOLUTION/EPOCHS", "SOLUTION/ESTIMATE", "SOLUTION/MATRIX_ESTIMATE"}
BlockSeq(d) == (IF d.comm THEN <<"FILE/COMMENT">> ELSE <<>>)
               \o <<"SITE/ID", "SOLUTION/EPOCHS", "SOLUTION/ESTIMATE", "SOLUTION/MATRIX_ESTIMATE">>
\* a line is [k, nm]: k in header | open | close | trailer | data | comment | blank | other; nm = block name of +/- lines
G0 == [phase |-> "start", open |-> "none", from |-> 0, err |-> "", blocks |-> <<>>]
GErr(g, m) == [g EXCEPT !.err = m]
GStep(g, ln, i) ==
  IF g.err # "" \/ ln.k \in {"comment", "blank"} THEN g
  ELSE IF g.phase = "end" THEN GErr(g, "line_after_trailer")
  ELSE IF ln.k = "header" THEN (IF g.phase = "start" THEN [g EXCEPT !.phase = "body"] ELSE GErr(g, "second_header"))
  ELSE IF g.phase = "start" THEN GErr(g, "header_not_first")
  ELSE IF ln.k = "open" THEN
         (IF g.open # "none" THEN GErr(g, "block_opened_inside_block")
          ELSE IF ln.nm \notin KnownBlocks THEN GErr(g, "unknown_block")
          ELSE [g EXCEPT !.open = ln.nm, !.from = i])
  ELSE IF ln.k = "close" THEN
         (IF g.open = "none" THEN GErr(g, "close_without_open")
          ELSE IF ln.nm # g.open THEN GErr(g, "block_not_closed_on_its_own_line")
          ELSE [g EXCEPT !.open = "none", !.blocks = Append(@, [nm |-> ln.nm, lo |-> g.from, hi |-> i])])
  ELSE IF ln.k = "trailer" THEN
         (IF g.open # "none" THEN GErr(g, "trailer_inside_block") ELSE [g EXCEPT !.phase = "end"])
  ELSE IF ln.k = "data" THEN (IF g.open = "none" THEN GErr(g, "data_outside_block") ELSE g)
  ELSE IF g.open = "FILE/COMMENT" THEN g          \* free text of the comment block is opaque
  ELSE GErr(g, "malformed_line")
GStep1(g, ln, i) == Let1(g, LAMBDA x : GStep(x, ln, i))
RECURSIVE GFold(_, _, _, _)
GFold(lines, lo, hi, g) ==
  IF lo > hi THEN g
  ELSE IF lo = hi THEN GStep1(g, lines[lo], lo)
  ELSE GFold(lines, (lo + hi) \div 2 + 1, hi, GFold(lines, lo, (lo + hi) \div 2, g))
Gram(lines) == GFold(lines, 1, Len(lines), G0)
GVerdict(g) == IF g.err # "" THEN g.err
               ELSE IF g.open # "none" THEN "block_not_closed"
               ELSE IF g.phase # "end" THEN "no_trailer" ELSE ""
\* the line kinds of the intended rendering of a document
RenderK(d) ==
  LET blk(nm, cnt) == <<[k |-> "open", nm |-> nm], [k |-> "comment", nm |-> ""]>>
                      \o [q \in 1..cnt |-> [k |-> "data", nm |-> ""]] \o <<[k |-> "close", nm |-> nm], [k |-> "comment", nm |-> ""]>>
  IN <<[k |-> "header", nm |-> ""], [k |-> "comment", nm |-> ""]>>
     \o (IF d.comm THEN blk("FILE/COMMENT", 2) ELSE <<>>)
     \o blk("SITE/ID", Len(SiteSeq(d.ent))) \o blk("SOLUTION/EPOCHS", Len(d.ent))
     \o blk("SOLUTION/ESTIMATE", N(d)) \o blk("SOLUTION/MATRIX_ESTIMATE", Len(MatLines(d)))
     \o <<[k |-> "trailer", nm |-> ""]>>

(* ------------------------------- the clock ------------------------------ *)
Leap(y) == (y % 4 = 0 /\ y % 100 # 0) \/ y % 400 = 0
CumDays == <<0, 31, 59, 90, 120, 151, 181, 212, 243, 273, 304, 334>>
Doy(c) == CumDays[c[2]] + c[3] + (IF Leap(c[1]) /\ c[2] > 2 THEN 1 ELSE 0)
Sod(c) == c[4] * 3600 + c[5] * 60 + c[6]
Digits(n) == IF n < 10 THEN 1 ELSE IF n < 100 THEN 2 ELSE IF n < 1000 THEN 3 ELSE IF n < 10000 THEN 4 ELSE 5
Fill(ch, k) == CASE k <= 0 -> "" [] k = 1 -> ch [] k = 2 -> ch \o ch [] k = 3 -> ch \o ch \o ch [] k >= 4 -> ch \o ch \o ch \o ch
ZPad(n, w) == Fill("0", w - Digits(n)) \o ToString(n)      \* n < 10^5, w <= 5
SPad(n, w) == Fill(" ", w - Digits(n)) \o ToString(n)
StampText(yy, ddd, sss) == ZPad(yy, 2) \o ":" \o ZPad(ddd, 3) \o ":" \o ZPad(sss, 5)
\* YY:DDD:SSSSS, always 12 characters, SSSSS in 00000..86399.  The property does not say how a
\* fraction of a second is rounded: truncation is accepted, and rounding half up where the result
\* is still a second of a day (at 23:59:59.5+ the first second of the next day).
Stamps(c) ==
  {StampText(c[1] % 100, Doy(c), Sod(c))}
  \cup (IF c[7] < 5 THEN {}
        ELSE IF Sod(c) < 86399 THEN {StampText(c[1] % 100, Doy(c), Sod(c) + 1)}
        ELSE IF Doy(c) < (IF Leap(c[1]) THEN 366 ELSE 365) THEN {StampText(c[1] % 100, Doy(c) + 1, 0)}
        ELSE {StampText((c[1] + 1) % 100, 1, 0)})
\* the instants named by the property, year boundaries, a leap day, and fractions of a second
ClockTab == << <<2026, 1, 1, 0, 0, 0, 0>>,    <<2026, 1, 1, 0, 16, 39, 0>>,   <<2026, 6, 15, 2, 46, 39, 0>>,
               <<2026, 6, 15, 2, 46, 40, 0>>, <<2024, 2, 29, 12, 0, 0, 0>>,   <<2026, 12, 31, 23, 59, 59, 0>>,
               <<2026, 12, 31, 23, 59, 59, 6>>, <<2024, 12, 31, 23, 59, 59, 6>>, <<1999, 12, 31, 23, 59, 59, 4>>,
               <<2000, 1, 1, 0, 0, 0, 0>>,    <<2009, 3, 1, 0, 0, 9, 6>> >>
NClk == Len(ClockTab)
\* clock 0 is derived from the document: the second of the day whose SSSSS field spells the
\* parameter count of the header (a stamp that a textual search-and-replace of the count would hit)
ClockOf(k, n) == IF k = 0 THEN <<2026, 1, 1, 0, n \div 60, n % 60, 0>> ELSE ClockTab[k]

(* ------------------------------ state machine --------------------------- *)
VARIABLES d,       \* the current document
          start,   \* history: the start document (read by the invariants)
          h,       \* history: labels <<action, argument, clock>> of the calls made so far
          ck       \* environment: index of the wall clock at the next call (0..NClk)
vars == <<d, start, h, ck>>

Bool(b) == IF b THEN 1 ELSE 0
SpreadClk(x) == (Len(x.ent) + 2 * Bool(x.vel) + 3 * Bool(x.tri = "U") + 5 * Bool(x.bd) + 7 * Bool(x.comm)) % (NClk + 1)
StartDocs == {NewDoc(SubSeq(Master, 1, n), v[1], v[2], v[3], v[4]) : n \in MinN..Len(Master), v \in Variants}

Edit(lab, e) == /\ d' = e
                /\ h' = Append(h, <<lab[1], lab[2], ClockOf(ck, N(d))>>)
                /\ ck' = (ck + 1) % (NClk + 1)
                /\ UNCHANGED start
Read(name) == h' = Append(h, <<name, {}, <<>>>>) /\ UNCHANGED <<d, start, ck>>

RemoveStns(S) == En_RemoveStns(d, S) /\ Edit(<<"RemoveStns", S>>, Post_RemoveStns(d, S))
RemoveVel     == En_RemoveVel(d) /\ Edit(<<"RemoveVel", {}>>, Post_RemoveVel(d))
RemoveZeros   == TRUE /\ Edit(<<"RemoveZeros", {}>>, Post_RemoveZeros(d))
ReadEstimate  == TRUE /\ Read("ReadEstimate")
ReadMatrix    == TRUE /\ Read("ReadMatrix")
ReadSites     == TRUE /\ Read("ReadSites")
RemoveStnsAny == \E S \in SUBSET SitesOf(d) : RemoveStns(S)

Init == /\ d \in StartDocs /\ start = d /\ h = <<>>
        /\ ck \in (IF ClkAll THEN 0..NClk ELSE {SpreadClk(d)})
Editors == RemoveStnsAny \/ RemoveVel \/ RemoveZeros
Readers == ReadEstimate \/ ReadMatrix \/ ReadSites
Next == Editors \/ Readers
Spec == Init /\ [][Next]_vars

(* -------------------------------- properties ---------------------------- *)
TypeOK == /\ d.tri \in {"L", "U"} /\ d.vel \in BOOLEAN /\ d.sparse \in BOOLEAN
          /\ \A k \in 1..N(d) : d.est[k].typ \in {"STAX", "STAY", "STAZ", "VELX", "VELY", "VELZ"}
\* exactly the remaining stations' estimates (positions only once velocities were removed), in their original order
EstimatesKeptInOrder ==
  d.est = SelectSeq(start.est, LAMBDA p : p.site \in SitesOf(d) /\ (d.vel \/ ~IsVelType(p.typ)))
\* the written parameter number is the position: numbers are 1..n without gaps, ids strictly increase
Renumbered == \A a, b \in 1..N(d) : a < b => d.est[a].id < d.est[b].id
\* the header count is the number of estimates = entries x parameters per entry
HeaderCountMatches == N(d) = Len(d.ent) * Len(TypesOf(d.vel))
\* the dense layout lists every element of the triangle exactly once, three per line, rows in order
LayoutExact == LET lns == DenseLines(d) IN Covered(lns) = Tri(d) /\ SumN(lns, 1, Len(lns)) = Cardinality(Tri(d))
\* the matrix is the original with the removed parameters' rows and columns deleted
SubMatrixExact ==
  LET ids == {d.est[k].id : k \in 1..N(d)}
  IN {Elem(d, p[1], p[2]) : p \in Tri(d)} = {q \in ids \X ids : q[2] <= q[1]}
\* removing zero lines drops only elements that are zero, keeps the order of the other lines
ZerosOnlyDropped ==
  LET lns == MatLines(d)
  IN /\ Covered(lns) \subseteq Tri(d)
     /\ \A p \in Tri(d) \ Covered(lns) : IsZero(d, p[1], p[2])
     /\ (d.sparse => \A q \in 1..Len(lns) : ~LineZero(d, lns[q]))
\* the intended rendering is a well-formed file with the expected blocks
WellFormed == Let1(Gram(RenderK(d)), LAMBDA g : GVerdict(g) = "" /\ [q \in 1..Len(g.blocks) |-> g.blocks[q].nm] = BlockSeq(d))
\* every clock gives a 12-character stamp with a second of the day
StampOK == \A k \in 0..NClk : \A s \in Stamps(ClockOf(k, N(d))) : s \in STRING
\* algebraic laws (replayed on real files by the driver: chains feed the output back as input)
ComposeLaw == \A S1, S2 \in SUBSET SitesOf(d) :
                 (En_RemoveStns(d, S1) /\ En_RemoveStns(Post_RemoveStns(d, S1), S2))
                    => Post_RemoveStns(Post_RemoveStns(d, S1), S2) = Post_RemoveStns(d, S1 \cup S2)
CommuteLaw == d.vel => \A S \in SUBSET SitesOf(d) :
                 En_RemoveStns(d, S) => Post_RemoveVel(Post_RemoveStns(d, S)) = Post_RemoveStns(Post_RemoveVel(d), S)
ZerosIdempotent == /\ Post_RemoveZeros(Post_RemoveZeros(d)) = Post_RemoveZeros(d)
                   /\ MatLines(Post_RemoveZeros(Post_RemoveZeros(d))) = MatLines(Post_RemoveZeros(d))
\* action properties
OnlyRemovals == [][Len(d'.est) <= Len(d.est) /\ \A k \in 1..Len(d'.est) : \E q \in 1..Len(d.est) : d'.est[k] = d.est[q]]_vars
ReadsArePure == [][(h' # h /\ h'[Len(h')][1] \in {"ReadEstimate", "ReadMatrix", "ReadSites"}) => d' = d]_vars

(* grammar self-test: the automaton rejects the malformed files seen in the code under test *)
ASSUME LET hd == [k |-> "header", nm |-> ""]  tr == [k |-> "trailer", nm |-> ""]
           op(b) == [k |-> "open", nm |-> b]  cl(b) == [k |-> "close", nm |-> b]  da == [k |-> "data", nm |-> ""]
       IN /\ GVerdict(Gram(<<hd, op("SITE/ID"), da, cl("SITE/ID"), tr>>)) = ""
          /\ GVerdict(Gram(<<hd, op("SITE/ID"), da, cl("SITE/ID%ENDSNX")>>)) = "block_not_closed_on_its_own_line"
          /\ GVerdict(Gram(<<hd, op("SITE/ID"), da, tr>>)) = "trailer_inside_block"
          /\ GVerdict(Gram(<<hd, op("SITE/ID")>>)) = "block_not_closed"
          /\ GVerdict(Gram(<<hd, op("SITE/ID"), da, cl("SITE/ID")>>)) = "no_trailer"
          /\ GVerdict(Gram(<<hd, da, tr>>)) = "data_outside_block"
          /\ GVerdict(Gram(<<op("SITE/ID"), cl("SITE/ID"), tr>>)) = "header_not_first"
ASSUME /\ StampText(26, 1, 999) = "26:001:00999" /\ StampText(9, 365, 86399) = "09:365:86399"
       /\ Stamps(<<2026, 12, 31, 23, 59, 59, 6>>) = {"26:365:86399", "27:001:00000"}
       /\ Stamps(<<2024, 2, 29, 12, 0, 0, 6>>) = {"24:060:43200", "24:060:43201"}
       /\ Stamps(<<2024, 12, 31, 0, 0, 0, 0>>) = {"24:366:00000"}
       /\ SPad(7, 5) = "    7" /\ ZPad(36, 5) = "00036"
=============================================================================
