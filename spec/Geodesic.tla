------------------------------ MODULE Geodesic ------------------------------
(***************************************************************************)
(* C04 / C05 - direct and inverse geodesic problem (geodepy.geodesy        *)
(* vincdir / vincinv).                                                     *)
(*                                                                         *)
(* State: a point with a heading on the ellipsoid, <<lat, lon, az>>.       *)
(* Direct(s) moves it along its geodesic; Inverse relates two points.      *)
(* The specification states what being "the exact geodesic" entails and    *)
(* what is decidable without transcendental ground truth:                  *)
(*  - on a meridian the travelled distance is a difference of meridian     *)
(*    distances (MeridianArc, exact), also across a pole;                  *)
(*  - on the equator it is a * dlambda;                                    *)
(*  - flow (Direct(s1 + s2) = Direct(s2) after Direct(s1)), reversal,      *)
(*    reflection in the equator, mirror in the meridian, longitude shift;  *)
(*  - the inverse solution is symmetric under swapping the points and      *)
(*    invariant under a common longitude offset, and following the direct  *)
(*    solution with its output arrives at the second point.                *)
(* Metric comparisons use LOWER bounds of the metres per degree so that a  *)
(* computed separation never exceeds the true one (no false alarm).        *)
(***************************************************************************)
EXTENDS MeridianArc, Sequences, TLC

MPerDegLat == FromInt(110574)       \* minimum of metres per degree of latitude (equator, a = 6.3e6..6.4e6: >= 109 900)
MPerDegMin == FromInt(109900)       \* lower bound of (pi/180) * nu for a >= 6 300 000 m (and of the above)

\* longitude difference folded into [-180, 180]
Fold(d) == IF Gt(d, FromInt(180)) THEN Sub(d, FromInt(360))
           ELSE IF Lt(d, FromInt(-180)) THEN Add(d, FromInt(360)) ELSE d
Fold2(d) == Fold(Fold(d))
\* azimuth difference folded into [-180, 180]
AzDiff(a, b) == Fold2(Sub(a, b))

\* (lower bound of the) north and east separation in metres; coslat = cos of either latitude, from alpha
NorthSep(latA, latB) == Mul(Abs(Sub(latA, latB)), MPerDegMin)
EastSep(lonA, lonB, coslat) == Mul(Mul(Abs(Fold2(Sub(lonA, lonB))), MPerDegMin), coslat)
PosWithin(latA, lonA, latB, lonB, coslat, tol) ==
  /\ Leq(NorthSep(latA, latB), tol) /\ Leq(EastSep(lonA, lonB, coslat), tol)

Mm1 == Dec(10, 1)       \* 1 mm
Mm2 == Dec(20, 1)       \* 2 mm
Az1e8 == Dec(10000, 3)  \* 1e-8 deg
Az1e9 == Dec(1000, 3)   \* 1e-9 deg (output rounding of azimuths)
DegToRad(d) == DivSmall(Mul(d, Pi), 180)

\* the displacement (metres) of the far end of a line of length s caused by an azimuth change d (deg):
\* at most |d| (rad) * s  (the reduced length never exceeds s on an oblate ellipsoid up to 178 deg) -
\* used to turn azimuth tolerances into their effect after a further leg
AzEffect(d, s) == Mul(DegToRad(Abs(d)), s)

(* ---------------------------- state machine ----------------------------- *)
\* the discrete skeleton of the cases (enumerated by TLC, sampled inside by the driver)
LatBands == {"S-polar", "S-mid", "S-low", "eq", "N-low", "N-mid", "N-polar"}
AzClass  == {"0", "45", "90", "135", "180", "225", "270", "315", "oct1", "oct2", "oct3", "oct4", "oct5", "oct6", "oct7", "oct8"}
DistDecade == {0, 1, 2, 3, 4, 5, 6, 7}     \* 10^k metres .. 10^(k+1) metres (7: up to 2e7)
Ells == {"grs80", "wgs84", "ans", "intl24", "rand"}
DirectCases == [lat : LatBands, az : AzClass, dist : DistDecade, ell : Ells]
DlonClass == {"0", "tiny", "small", "90", "170", "across180"}
InverseCases == [lat1 : LatBands, lat2 : LatBands, dlon : DlonClass, ell : Ells]

VARIABLES kind, case, legs
vars == <<kind, case, legs>>
Init == \/ kind = "direct" /\ case \in DirectCases /\ legs = 0
        \/ kind = "inverse" /\ case \in InverseCases /\ legs = 0
\* Direct legs may be chained (flow); an inverse query is a single step
Leg == kind = "direct" /\ legs < 3 /\ legs' = legs + 1 /\ UNCHANGED <<kind, case>>
Query == kind = "inverse" /\ legs = 0 /\ legs' = 1 /\ UNCHANGED <<kind, case>>
Next == Leg \/ Query
Spec == Init /\ [][Next]_vars
=============================================================================
