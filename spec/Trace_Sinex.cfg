SPECIFICATION TraceSpec
CONSTANT Master <- TrMaster
CONSTANT MinN = 1
CONSTANT Variants <- TrVariants
CONSTANT ClkAll = FALSE
CONSTRAINT Consumed
INVARIANT ModelInv
CHECK_DEADLOCK FALSE
