INIT Init
NEXT Next
