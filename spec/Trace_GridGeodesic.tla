------------------------- MODULE Trace_GridGeodesic -------------------------
(***************************************************************************)
(* Trace validation for C14.  Events (all numbers from real calls):        *)
(*  INV   vincinv_utm against the stepwise composition of public functions *)
(*        (bit for bit), and the line scale factor against the point scale *)
(*        factors along the straight grid line (bounds 3e-7, Simpson 5e-7) *)
(*  DIR   vincdir_utm fed with what vincinv_utm reported reproduces the    *)
(*        second point within 1 mm in the first point's zone               *)
(*  CM    a line along a central meridian between Pythagorean latitudes:   *)
(*        grid distance = k0 * difference of meridian arcs (MeridianArc),  *)
(*        bearings 0 / 180, line scale factor = k0                         *)
(***************************************************************************)
EXTENDS GridGeodesic, MeridianArc, Json, IOUtils, TLC

Data   == JsonDeserialize(IOEnv.TRACE_FILE)
Traces == Data.traces
VARIABLES tid, l, dead
tvars == <<vars, tid, l, dead>>
T == Traces[tid]
Report(clause) == PrintT(<<"FAIL", tid, l, clause>>)
J(x) == FromJ(x)
RECURSIVE FirstFail(_, _)
FirstFail(cs, i) == IF i > Len(cs) THEN "" ELSE IF ~cs[i][2] THEN cs[i][1] ELSE FirstFail(cs, i + 1)

Mm1 == Dec(10, 1)
Lsf3e7 == Dec(30, 2)
Lsf5e7 == Dec(50, 2)
RECURSIVE MinOf(_, _) RECURSIVE MaxOf(_, _)
MinOf(s, i) == IF i = Len(s) THEN J(s[i]) ELSE Min(J(s[i]), MinOf(s, i + 1))
MaxOf(s, i) == IF i = Len(s) THEN J(s[i]) ELSE Max(J(s[i]), MaxOf(s, i + 1))
AzFold(d) == IF Gt(d, FromInt(180)) THEN Sub(d, FromInt(360)) ELSE IF Lt(d, FromInt(-180)) THEN Add(d, FromInt(360)) ELSE d

INVChecks(o) ==
  LET lsf == J(o.lsf)
      simpson == DivSmall(Add(Add(J(o.psf[1]), MulSmall(J(o.psf[3]), 4)), J(o.psf[5])), 6)
      \* "returns the distance times the line scale factor, the azimuths plus the convergences": numerically (1 um, 1e-10 deg, 1e-12) -
      \* an implementation that orders its floating-point operations differently still returns these products and sums
  IN << <<"grid_distance_is_ellipsoidal_times_lsf", Within(J(o.num.dist), J(o.num.sdist), Dec(100, 2))>>,
        <<"bearing_1_is_azimuth_plus_convergence", Leq(Abs(AzFold(Sub(J(o.num.g12), J(o.num.sg12)))), Dec(100, 3))>>,
        <<"bearing_2_is_azimuth_plus_convergence", Leq(Abs(AzFold(Sub(J(o.num.g21), J(o.num.sg21)))), Dec(100, 3))>>,
        <<"lsf_is_line_sf", Within(lsf, J(o.num.slsf), Dec(1, 3))>>,
        <<"lsf_not_below_min_psf", Geq(lsf, Sub(MinOf(o.psf, 1), Lsf3e7))>>,
        <<"lsf_not_above_max_psf", Leq(lsf, Add(MaxOf(o.psf, 1), Lsf3e7))>>,
        <<"lsf_simpson", ~o.short \/ Within(lsf, simpson, Lsf5e7)>> >>

DIRChecks(o) ==
  << <<"direct_reproduces_east", Within(J(o.e2d), J(o.e2ref), Mm1)>>,
     <<"direct_reproduces_north", Within(J(o.n2d), J(o.n2ref), Mm1)>>,
     <<"direct_keeps_zone_1", o.zone2d = o.zone1>> >>

CMChecks(o) ==
  LET n == ThirdFlat(J(o.ell.invf), J(o.ell.n0)) IN
  IF ~NOK(J(o.ell.invf), n) THEN << <<"oracle_start_value", FALSE>> >> ELSE
  LET F(m1, m2) ==
        LET d == Mul(J(o.k0), Abs(Sub(m2, m1))) north == Gt(m2, m1) IN
        << <<"cm_grid_distance", Within(J(o.dist), d, Add(Mm1, Dec(7, 1)))>>,      \* 1 mm + distance rounded to 1 mm + 0.1 mm roundings of N
           <<"cm_line_scale_factor", Within(J(o.lsf), J(o.k0), Dec(1, 2))>>,
           <<"cm_bearing_12", Leq(Abs(AzFold(Sub(J(o.g12), IF north THEN Zero ELSE FromInt(180)))), Dec(200, 2))>>,
           <<"cm_bearing_21", Leq(Abs(AzFold(AzFold(Sub(J(o.g21), IF north THEN FromInt(180) ELSE Zero)))), Dec(200, 2))>> >>
  IN F(Meridian(J(o.ell.a), n, o.tri1), Meridian(J(o.ell.a), n, o.tri2))

Checks(ev) == CASE ev.k = "INV" -> INVChecks(ev.o) [] ev.k = "DIR" -> DIRChecks(ev.o) [] ev.k = "CM" -> CMChecks(ev.o)

TraceInit == /\ tid \in 1..Len(Traces) /\ l = 1 /\ dead = FALSE
             /\ mode = (IF Traces[tid].ev[1].k = "DIR" THEN "dir" ELSE "inv") /\ pc = "start" /\ digits = 9 /\ passes = 0
\* an event is a completed behaviour of the model (InvUTM: five steps; DirUTM: start, passes, finish)
Step == /\ ~dead /\ l <= Len(T.ev)
        /\ LET ev == T.ev[l] IN
           \E f \in {IF ev.exc # "" THEN "raised" ELSE FirstFail(Checks(ev), 1)} :
              /\ (IF f = "" THEN TRUE ELSE Report(ev.k \o "." \o f))
              /\ dead' = (f # "")
        /\ pc' = "done" /\ passes' = (IF mode = "dir" /\ T.ev[l].exc = "" THEN T.ev[l].o.passes ELSE 0) /\ UNCHANGED <<mode, digits>>
        /\ l' = l + 1 /\ UNCHANGED tid
TraceSpec == TraceInit /\ [][Step]_tvars
Consumed == (~dead /\ l = Len(T.ev) + 1) => PrintT(<<"END", tid>>)
=============================================================================
