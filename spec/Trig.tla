-------------------------------- MODULE Trig --------------------------------
(***************************************************************************)
(* Sines and cosines inside the specification (Taylor series on BigFix,    *)
(* 1e-20 resolution): no value computed by a floating-point library enters *)
(* the laws that need the direction cosines of a latitude, longitude or    *)
(* azimuth.  Also the strict-binding helper Let.                           *)
(***************************************************************************)
EXTENDS BigFix

\* STRICT binding: TLC re-evaluates LET definitions and (inside RECURSIVE operators) arguments at every use; mapping over a
\* singleton set evaluates `x` once and hands the VALUE to the body
Let(x, F(_)) == CHOOSE r \in {F(y) : y \in {x}} : TRUE

(* ------------------------- elementary functions ------------------------- *)
\* sin and cos of x (radians), |x| <= 1.6: Taylor series, terms below 1e-20 vanish
RECURSIVE SinCosSum(_, _, _, _, _)
SinCosSum(x, term, k, s, c) ==       \* term = x^k / k!
  IF k > 27 \/ IsZero(term) THEN <<s, c>>
  ELSE Let(DivSmall(Mul(term, x), k + 1), LAMBDA nx :
       SinCosSum(x, nx, k + 1,
                 IF k % 4 = 1 THEN Add(s, term) ELSE IF k % 4 = 3 THEN Sub(s, term) ELSE s,
                 IF k % 4 = 0 THEN Add(c, term) ELSE IF k % 4 = 2 THEN Sub(c, term) ELSE c))
SinCosRad(x) == SinCosSum(x, One, 0, Zero, Zero)
D90 == FromInt(90)
D180 == FromInt(180)
D360 == FromInt(360)
RadOf(d) == DivSmall(Mul(d, Pi), 180)
\* <<sin, cos>> of an angle in degrees, any value in [-720, 720]
RECURSIVE SinCosDeg(_)
SinCosDeg(d) ==
  IF d.neg THEN Let(SinCosDeg(Neg(d)), LAMBDA p : <<Neg(p[1]), p[2]>>)
  ELSE IF Geq(d, D360) THEN SinCosDeg(Sub(d, D360))
  ELSE IF Gt(d, D180) THEN Let(SinCosDeg(Sub(d, D180)), LAMBDA p : <<Neg(p[1]), Neg(p[2])>>)
  ELSE IF Gt(d, D90) THEN Let(SinCosDeg(Sub(D180, d)), LAMBDA p : <<p[1], Neg(p[2])>>)
  ELSE IF Eq(d, D90) THEN <<One, Zero>>                \* exactly a pole / a right angle: the cosine is exactly zero
  ELSE SinCosRad(RadOf(d))
\* the local east-north-up frame at (lat, lon) in degrees: columns east, north, up in Cartesian axes
EnuFrame(lat, lon) ==
  Let(<<SinCosDeg(lat), SinCosDeg(lon)>>, LAMBDA t :
      << <<Neg(t[2][1]), Neg(Mul(t[1][1], t[2][2])), Mul(t[1][2], t[2][2])>>,
         <<t[2][2], Neg(Mul(t[1][1], t[2][1])), Mul(t[1][2], t[2][1])>>,
         <<Zero, t[1][2], t[1][1]>> >>)
=============================================================================
