------------------------------ MODULE MC_Session ------------------------------
EXTENDS Session
MCPoints == {1, 2}
\* behaviours for replay: every run that fills the workspace
\* at most three fresh objects per session, so that simulated sessions spend their steps on derivations
Count(S) == Cardinality({k \in 1..Len(hist) : hist[k][1] \in S})
FewNew == /\ Count({"NewGeo"}) <= 2 /\ Count({"GeoNotation"}) <= 1
          /\ Count({"GeoCart", "CartGeo", "GeoTM", "TMGeo"}) <= 3 /\ Count({"Tuple"}) <= 3
Emit == FewNew /\ (Len(ws) < MaxVals \/ PrintT(<<"BEH", hist>>))
=============================================================================
