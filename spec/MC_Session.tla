------------------------------ MODULE MC_Session ------------------------------
EXTENDS Session
MCPoints == {1, 2, 3}
MCSouth == {1, 3}
MCNear == {<<1, 3>>, <<3, 1>>}
\* behaviours for replay: every run that fills the workspace
\* at most two fresh objects per session, so that simulated sessions spend their steps on derivations
Count(S) == Cardinality({k \in 1..Len(hist) : hist[k][1] \in S})
FewNew == /\ Count({"NewGeo"}) <= 2 /\ Count({"GeoNotation"}) <= 1
          /\ Count({"GeoCart", "CartGeo", "GeoTM", "TMGeo"}) <= 3 /\ Count({"Tuple"}) <= 3
          /\ Count({"F_llh2xyz", "F_xyz2llh"}) <= 3 /\ Count({"F_geo2grid", "F_grid2geo"}) <= 4
Emit == FewNew /\ (Len(ws) < MaxVals \/ PrintT(<<"BEH", hist>>))
\* profiles: -simulate chooses uniformly among successor states, so the deep derivations (grid geodesics need two grid tuples of
\* nearby points, the way back from ATRF needs a Cartesian tuple in ATRF) are rare in free sessions; a profile confines a session
\* to the calls of one theme
Only(S) == \A k \in 1..Len(hist) : hist[k][1] \in S
GridActs == {"NewGeo", "GeoTM", "Tuple", "F_geo2grid", "MgaTo94", "MgaTo2020", "GridInverse", "GridDirect"}
CartActs == {"NewGeo", "GeoCart", "Tuple", "F_llh2xyz", "To94", "To2020", "ToAtrf", "FromAtrf", "F_xyz2llh"}
GeodActs == {"NewGeo", "Tuple", "Inverse", "Direct", "F_geo2grid", "F_grid2geo"}
NewLe(n) == Count({"NewGeo"}) <= n /\ Count({"Tuple"}) <= n + 1 /\ Count({"GeoTM", "GeoCart"}) <= n
NearOnly == \A k \in 1..Len(hist) : hist[k][1] = "NewGeo" => hist[k][2] \in {1, 3}
Both == Len(hist) < 2 \/ (hist[1][1] = "NewGeo" /\ hist[2][1] = "NewGeo" /\ hist[1][2] # hist[2][2])      \* start with the two nearby points
EmitGrid == Only(GridActs) /\ NearOnly /\ Both /\ NewLe(2) /\ Count({"F_geo2grid"}) <= 2 /\ (Len(ws) < MaxVals \/ PrintT(<<"BEH", hist>>))
EmitCart == Only(CartActs) /\ NewLe(2) /\ Count({"F_llh2xyz"}) <= 2 /\ (Len(ws) < MaxVals \/ PrintT(<<"BEH", hist>>))
EmitGeod == Only(GeodActs) /\ NewLe(2) /\ (Len(ws) < MaxVals \/ PrintT(<<"BEH", hist>>))
=============================================================================
