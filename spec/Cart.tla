-------------------------------- MODULE Cart --------------------------------
(***************************************************************************)
(* C03 - geodetic <-> Cartesian conversion (geodepy.convert.llh2xyz /      *)
(* xyz2llh) on an arbitrary ellipsoid (a, 1/f).                            *)
(*                                                                         *)
(* Forward, in closed form and without transcendental functions: for a     *)
(* position whose latitude and longitude have RATIONAL sine and cosine     *)
(* (Pythagorean triples <<p, q, r>>: sin = p/r, cos = q/r; the driver      *)
(* hands degrees(atan2(p, q)) to the code),                                *)
(*    nu = a / sqrt(1 - e2 sin^2 lat),   e2 = f (2 - f),                   *)
(*    x = (nu + h) cos lat cos lon, y = (nu + h) cos lat sin lon,          *)
(*    z = (nu (1 - e2) + h) sin lat.                                       *)
(* The reciprocal 1/(1/f) and the reciprocal square root are obtained by   *)
(* Newton steps in BigFix from a start value supplied in the trace and     *)
(* are VERIFIED here (residual below 1e-18) before they are used.          *)
(* Inverse: any Cartesian point off the axis converts to (lat, lon, h)     *)
(* with lon in [-180, 180] which the forward conversion maps back within   *)
(* 0.02 mm.                                                                *)
(***************************************************************************)
EXTENDS BigFix

Rat(n, d) == FromRat(n, d)                       \* |n| < 1e8, 0 < d < 200000
Tiny == Dec(1, 4)                                \* 1e-16 (needed: 1e-14 relative for 0.1 um at 6.4e6 m)

\* f = 1 / invf (Newton from start f0), verified
Flattening(invf, f0) == RecipIt(invf, f0, 3)
FlatteningOK(invf, f) == Within(Mul(f, invf), One, Tiny)
Ecc2(f) == Mul(f, Sub(Two, f))

\* 1 / sqrt(1 - e2 s^2) (Newton from start r0), verified
W(e2, s) == Sub(One, Mul(e2, Sq(s)))
RS(e2, s, r0) == RSqrtIt(W(e2, s), r0, 3)
RSOK(e2, s, rs) == Within(Mul(Sq(rs), W(e2, s)), One, Tiny)

\* closed form; slat = <<p,q,r>>, slon = <<p,q,r>> (sin = p/r, cos = q/r), h a number.
\* (written as a chain of operators with arguments: TLC evaluates an argument once, whereas a LET
\*  definition used twice is evaluated twice in a state-level context)
Fwd3(pp, zz, s, cl, sl) == << Mul(pp, cl), Mul(pp, sl), Mul(zz, s) >>
Fwd2(nu, e2, h, s, c, cl, sl) == Fwd3(Mul(Add(nu, h), c), Add(Mul(nu, Sub(One, e2)), h), s, cl, sl)
Forward(a, f, rs, slat, slon, h) ==
  Fwd2(Mul(a, rs), Ecc2(f), h, Rat(slat[1], slat[3]), Rat(slat[2], slat[3]), Rat(slon[2], slon[3]), Rat(slon[1], slon[3]))

IsTriple(t) == t[1] * t[1] + t[2] * t[2] = t[3] * t[3] /\ t[3] > 0      \* |entries| <= 100: no overflow

Um1   == Dec(100, 2)      \* 1 micrometre
Mm002 == Dec(2000, 2)     \* 0.02 mm = 2e-5 m
Deg180 == FromInt(180)
=============================================================================
