--------------------------- MODULE Trace_Helmert ---------------------------
(***************************************************************************)
(* Trace validation for C06 and C07.  A trace is a chain of calls of       *)
(* conform7 / conform14 / transform_atrf2014_to_gda2020 /                  *)
(* transform_gda2020_to_atrf2014 on one point; every event logs the        *)
(* parameter set used (index into the dumped catalogue, or 14 explicit     *)
(* numbers for random sets), the epoch, input and output coordinates       *)
(* (exact decimals of the floats, and float.hex strings), covariance in /  *)
(* out.  Clauses (first failing is reported):                              *)
(*   raised, continuity (input = previous output, bit for bit),            *)
(*   value        |out - T(in)| <= 1 um (conform7) / 2 um (14-parameter)   *)
(*   (at the reference epoch, and for the ATRF helpers, `value` decides:   *)
(*    the formula of Conform14 reduces to Conform7 at dt = 0)              *)
(*   identity_2020     ATRF helpers at 2020-01-01 return the input bits    *)
(*   closes       set then its negation returns within the second-order    *)
(*                bound (and the absolute figures for shipped sets)        *)
(*   vcv_presence, vcv_symmetric, vcv_value (J Q J^T, rel 1e-9), vcv_psd   *)
(***************************************************************************)
EXTENDS Helmert, Json, IOUtils, Sequences

Data   == JsonDeserialize(IOEnv.TRACE_FILE)
Traces == Data.traces
VARIABLES tid, l, dead, orig, prevhex
tvars == <<tid, l, dead, orig, prevhex>>
T == Traces[tid]

Um1 == Dec(100, 2)      \* 1 micrometre = 1e-6 m
Um2 == Dec(200, 2)      \* 2 micrometres
Report(clause) == PrintT(<<"FAIL", tid, l, clause>>)
Vec(v) == <<FromJ(v[1]), FromJ(v[2]), FromJ(v[3])>>
Mat(m) == <<Vec(m[1]), Vec(m[2]), Vec(m[3])>>
Close3(a, b, tol) == \A i \in 1..3 : Within(a[i], b[i], tol)

\* the parameter set an event refers to
EvSet(ev) == LET base == IF ev.idx > 0 THEN SetOf(ev.idx)
                         ELSE [from |-> "", to |-> "", ep |-> ev.ep, p |-> [k \in 1..NP |-> FromJ(ev.p14[k])]]
             IN IF ev.neg THEN NegSet(base) ELSE base
IsAGD(ev) == ev.idx > 0 /\ (Cat[ev.idx].fa = "AGD" \/ Cat[ev.idx].fb = "AGD")

Expected(ev) == CASE ev.a = "C7"  -> Conform7(EvSet(ev), Vec(ev.in))
                  [] ev.a \in {"C14", "A2G", "G2A"} -> Conform14(EvSet(ev), ev.e, Vec(ev.in))
ValTol(ev) == IF ev.a = "C7" THEN Um1 ELSE Um2

\* covariance clauses
Tr3(m) == Add(Add(m[1][1], m[2][2]), m[3][3])
VcvTol(e) == Add(Mul(Dec(10, 3), Tr3(e)), Dec(100, 5))         \* 1e-9 * trace + 1e-18
Minor2(m, i, j) == Sub(Mul(m[i][i], m[j][j]), Mul(m[i][j], m[j][i]))
Det3(m) == Add(Sub(Mul(m[1][1], Sub(Mul(m[2][2], m[3][3]), Mul(m[2][3], m[3][2]))),
                   Mul(m[1][2], Sub(Mul(m[2][1], m[3][3]), Mul(m[2][3], m[3][1])))),
               Mul(m[1][3], Sub(Mul(m[2][1], m[3][2]), Mul(m[2][2], m[3][1]))))
PSD(m) == LET t == Tr3(m) e1 == Mul(Dec(10, 3), t) e2 == Mul(e1, t) e3 == Mul(e2, t)
          IN /\ \A i \in 1..3 : Geq(m[i][i], Neg(e1))
             /\ Geq(Minor2(m, 1, 2), Neg(e2)) /\ Geq(Minor2(m, 1, 3), Neg(e2)) /\ Geq(Minor2(m, 2, 3), Neg(e2))
             /\ Geq(Det3(m), Neg(e3))
Symm(m) == LET e == Mul(Dec(1, 3), Tr3(m))                      \* 1e-12 * trace
           IN Within(m[1][2], m[2][1], e) /\ Within(m[1][3], m[3][1], e) /\ Within(m[2][3], m[3][2], e)

VcvClause(ev) ==
  IF ev.a # "C7" THEN ""
  ELSE IF (ev.vout # <<>>) # (ev.vin # <<>> /\ ev.sd # <<>>) THEN "vcv_presence"
  ELSE IF ev.vout = <<>> THEN ""
  ELSE LET o == Mat(ev.vout)
           e == Propagate(EvSet(ev), Vec(ev.in), Mat(ev.vin), [k \in 1..7 |-> FromJ(ev.sd[k])])
       IN IF ~Symm(o) THEN "vcv_symmetric"
          ELSE IF ~(\A i \in 1..3 : \A j \in 1..3 : Within(o[i][j], e[i][j], VcvTol(e))) THEN "vcv_value"
          ELSE IF ~PSD(o) THEN "vcv_psd" ELSE ""

\* closure after a set and its negation: shipped sets through conform7 must meet the property's absolute
\* figures (0.01 mm; 2 mm for the AGD66/84 sets); otherwise the second-order bound of the set actually
\* applied (re-referenced to the epoch for the 14-parameter forms) plus the two value tolerances
Eff(ev) == IF ev.a = "C7" THEN EvSet(ev) ELSE ShiftSet(EvSet(ev), ev.e)
CloseAbs(ev) == IF ev.a = "C7" /\ ev.idx > 0 THEN (IF IsAGD(ev) THEN Dec(20, 1) ELSE Dec(1000, 2))
                ELSE Add(ReverseBound(Eff(ev), orig), MulSmall(ValTol(ev), 2))

TraceInit == tid \in 1..Len(Traces) /\ l = 1 /\ dead = FALSE /\ orig = <<>> /\ prevhex = ""

Step ==
  /\ ~dead /\ l <= Len(T.ev)
  /\ LET ev == T.ev[l] IN
     \E f \in {IF ev.exc # "" THEN "raised"
               ELSE IF prevhex # "" /\ ev.inhex # prevhex THEN "continuity"
               ELSE IF ~Close3(Vec(ev.out), Expected(ev), ValTol(ev)) THEN "value"
               \* (at the reference epoch Conform14 IS Conform7, and the convenience functions ARE Conform14 with the plate-motion set: both
               \*  are decided numerically by `value`; no bit-for-bit comparison with another routine - a different order of the same
               \*  floating-point operations is still the same operation)
               ELSE IF ev.a \in {"A2G", "G2A"} /\ ev.e = EvSet(ev).ep /\ ev.outhex # ev.inhex THEN "identity_2020"
               ELSE IF ev.closes /\ ~Close3(Vec(ev.out), orig, CloseAbs(ev)) THEN "closes"
               ELSE VcvClause(ev)} :
        /\ (IF f = "" THEN TRUE ELSE Report(ev.a \o "." \o f))
        /\ dead' = (f # "")
        /\ orig' = IF orig = <<>> THEN Vec(ev.in) ELSE orig
        /\ prevhex' = ev.outhex
  /\ l' = l + 1 /\ UNCHANGED tid

TraceSpec == TraceInit /\ [][Step]_tvars
Consumed == (~dead /\ l = Len(T.ev) + 1) => PrintT(<<"END", tid>>)
=============================================================================
