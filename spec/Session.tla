------------------------------- MODULE Session -------------------------------
(***************************************************************************)
(* Composition of the library: a user session as a WORKSPACE of immutable  *)
(* values, every public call reading named values and adding one new value *)
(* (DESIGN section 9).  The modules of the twenty properties describe one  *)
(* part of the API each; this module describes how their results flow into *)
(* one another:                                                            *)
(*   coordinate objects (C15)  <->  functional conversions (C01-C03)       *)
(*   geographic tuples  ->  inverse geodesic (C05)  ->  direct (C04)       *)
(*   Cartesian tuples   ->  7-parameter transformation there and back (C06)*)
(*   Cartesian tuples   ->  ATRF2014 at an epoch and back (C07)             *)
(*   grid tuples        ->  MGA94 <-> MGA2020 pipeline (C13)                *)
(*   grid tuples        ->  grid inverse / grid direct geodesic (C14)       *)
(* A value is [k, p, f, foot, n]:                                          *)
(*   k     "geo" | "cart" | "tm" (objects)  "llh" | "xyz" | "grid" (tuples)*)
(*         "line" (distance, azimuths from point p to point q)             *)
(*         "gline" (grid distance, grid bearings from p to q, nearby points)*)
(*   p     abstract point it denotes (for a line: <<p, q>>)                *)
(*   f     reference frame label ("G2020" | "G94" | "ATRF" = ATRF2014 at   *)
(*         the epoch of the session)                                      *)
(*   foot  TRUE when the height was dropped on the way (2-D forms): the    *)
(*         value denotes the foot point on the ellipsoid                   *)
(*   n     angle notation of a geo object, "na" otherwise                  *)
(* Library-wide contracts, as invariants / action properties:              *)
(*   Immutable      a value, once in the workspace, never changes          *)
(*   SameDenotation two values of the same kind with the same (p, f, foot) *)
(*                  denote the same position, whatever route produced them *)
(*                  (numerically: Trace_Session, on observed values)       *)
(* TLC cannot explore the full composition: the model is used with         *)
(* -simulate to generate cross-module behaviours which are replayed on the *)
(* real library and validated by Trace_Session.                            *)
(***************************************************************************)
EXTENDS Integers, Sequences, FiniteSets, TLC

CONSTANTS Points,    \* e.g. {1, 2, 3}
          South,     \* the points in the southern hemisphere (the MGA pipeline has no hemisphere argument)
          Near,      \* ordered pairs of points less than 100 km apart in one hemisphere (domain of the grid geodesics)
          MaxVals    \* workspace bound
Nots == {"float", "dec", "hp", "dms"}
Frames == {"G2020", "G94", "ATRF"}

VARIABLES ws,      \* the workspace: sequence of values
          hist     \* history: the calls made, <<action, argument indices / parameters>>
vars == <<ws, hist>>

Val(k, p, f, foot, n) == [k |-> k, p |-> p, f |-> f, foot |-> foot, n |-> n]
Has(i, k) == i \in 1..Len(ws) /\ ws[i].k = k
Put(v, lab) == /\ Len(ws) < MaxVals
               /\ ws' = Append(ws, v) /\ hist' = Append(hist, lab)

Init == ws = <<>> /\ hist = <<>>

\* ---- coordinate objects (geodepy.coord) ----
NewGeo(p, n)      == Put(Val("geo", p, "G2020", FALSE, n), <<"NewGeo", p, n>>)
GeoCart(i)        == Has(i, "geo") /\ Put(Val("cart", ws[i].p, ws[i].f, ws[i].foot, "na"), <<"GeoCart", i, "">>)
CartGeo(i, n)     == Has(i, "cart") /\ Put(Val("geo", ws[i].p, ws[i].f, ws[i].foot, n), <<"CartGeo", i, n>>)
GeoTM(i)          == Has(i, "geo") /\ Put(Val("tm", ws[i].p, ws[i].f, ws[i].foot, "na"), <<"GeoTM", i, "">>)      \* heights travel with the object
TMGeo(i, n)       == Has(i, "tm") /\ Put(Val("geo", ws[i].p, ws[i].f, ws[i].foot, n), <<"TMGeo", i, n>>)
GeoNotation(i, n) == Has(i, "geo") /\ Put(Val("geo", ws[i].p, ws[i].f, ws[i].foot, n), <<"GeoNotation", i, n>>)
\* ---- objects -> plain tuples (what user code does with attributes) ----
Tuple(i) == /\ i \in 1..Len(ws) /\ ws[i].k \in {"geo", "cart", "tm"}
            /\ Put(Val(CASE ws[i].k = "geo" -> "llh" [] ws[i].k = "cart" -> "xyz" [] ws[i].k = "tm" -> "grid",
                       ws[i].p, ws[i].f, IF ws[i].k = "tm" THEN TRUE ELSE ws[i].foot, "na"), <<"Tuple", i, "">>)   \* a grid tuple is 2-D
\* ---- functional conversions (geodepy.convert) ----
F_llh2xyz(i)  == Has(i, "llh") /\ Put(Val("xyz", ws[i].p, ws[i].f, ws[i].foot, "na"), <<"F_llh2xyz", i, "">>)
F_xyz2llh(i)  == Has(i, "xyz") /\ Put(Val("llh", ws[i].p, ws[i].f, ws[i].foot, "na"), <<"F_xyz2llh", i, "">>)
F_geo2grid(i) == Has(i, "llh") /\ Put(Val("grid", ws[i].p, ws[i].f, TRUE, "na"), <<"F_geo2grid", i, "">>)
F_grid2geo(i) == Has(i, "grid") /\ Put(Val("llh", ws[i].p, ws[i].f, TRUE, "na"), <<"F_grid2geo", i, "">>)
\* ---- geodesics (geodepy.geodesy) ----
Inverse(i, j) == /\ Has(i, "llh") /\ Has(j, "llh") /\ ws[i].f = ws[j].f /\ ws[i].p # ws[j].p
                 /\ Put(Val("line", <<ws[i].p, ws[j].p>>, ws[i].f, TRUE, "na"), <<"Inverse", i, j>>)
Direct(i, l)  == /\ Has(i, "llh") /\ Has(l, "line") /\ ws[l].p[1] = ws[i].p /\ ws[l].f = ws[i].f
                 /\ Put(Val("llh", ws[l].p[2], ws[i].f, TRUE, "na"), <<"Direct", i, l>>)       \* arrives at the second point
\* ---- datum transformation (geodepy.transform.conform7 with the GDA94 <-> GDA2020 set) ----
To94(i)   == Has(i, "xyz") /\ ws[i].f = "G2020" /\ Put(Val("xyz", ws[i].p, "G94", ws[i].foot, "na"), <<"To94", i, "">>)
To2020(i) == Has(i, "xyz") /\ ws[i].f = "G94" /\ Put(Val("xyz", ws[i].p, "G2020", ws[i].foot, "na"), <<"To2020", i, "">>)

\* ---- plate-motion model: GDA2020 <-> ATRF2014 at the session's epoch (geodepy.transform, conform14) ----
ToAtrf(i)   == Has(i, "xyz") /\ ws[i].f = "G2020" /\ Put(Val("xyz", ws[i].p, "ATRF", ws[i].foot, "na"), <<"ToAtrf", i, "">>)
FromAtrf(i) == Has(i, "xyz") /\ ws[i].f = "ATRF" /\ Put(Val("xyz", ws[i].p, "G2020", ws[i].foot, "na"), <<"FromAtrf", i, "">>)
\* ---- the MGA94 <-> MGA2020 pipeline on grid tuples (southern hemisphere only: it has no hemisphere argument) ----
MgaTo94(i)   == Has(i, "grid") /\ ws[i].f = "G2020" /\ ws[i].p \in South /\ Put(Val("grid", ws[i].p, "G94", TRUE, "na"), <<"MgaTo94", i, "">>)
MgaTo2020(i) == Has(i, "grid") /\ ws[i].f = "G94" /\ ws[i].p \in South /\ Put(Val("grid", ws[i].p, "G2020", TRUE, "na"), <<"MgaTo2020", i, "">>)
\* ---- grid geodesics (geodepy.geodesy vincinv_utm / vincdir_utm) between nearby points ----
GridInverse(i, j) == /\ Has(i, "grid") /\ Has(j, "grid") /\ ws[i].f = ws[j].f /\ <<ws[i].p, ws[j].p>> \in Near
                     /\ Put(Val("gline", <<ws[i].p, ws[j].p>>, ws[i].f, TRUE, "na"), <<"GridInverse", i, j>>)
GridDirect(i, l)  == /\ Has(i, "grid") /\ Has(l, "gline") /\ ws[l].p[1] = ws[i].p /\ ws[l].f = ws[i].f
                     /\ Put(Val("grid", ws[l].p[2], ws[i].f, TRUE, "na"), <<"GridDirect", i, l>>)

Next == \/ \E p \in Points, n \in Nots : NewGeo(p, n)
        \/ \E i \in 1..Len(ws) : GeoCart(i) \/ GeoTM(i) \/ Tuple(i) \/ F_llh2xyz(i) \/ F_xyz2llh(i) \/ F_geo2grid(i)
                                 \/ F_grid2geo(i) \/ To94(i) \/ To2020(i) \/ ToAtrf(i) \/ FromAtrf(i) \/ MgaTo94(i) \/ MgaTo2020(i)
        \/ \E i \in 1..Len(ws), n \in Nots : CartGeo(i, n) \/ TMGeo(i, n) \/ GeoNotation(i, n)
        \/ \E i, j \in 1..Len(ws) : Inverse(i, j) \/ Direct(i, j) \/ GridInverse(i, j) \/ GridDirect(i, j)
Spec == Init /\ [][Next]_vars

(* ------------------------------ contracts ------------------------------ *)
TypeOK == \A i \in 1..Len(ws) : ws[i].k \in {"geo", "cart", "tm", "llh", "xyz", "grid", "line", "gline"} /\ ws[i].f \in Frames
Immutable == [][\A i \in 1..Len(ws) : ws'[i] = ws[i]]_vars
\* only objects carry a notation; lines are between two different points of one frame
Shape == \A i \in 1..Len(ws) : /\ (ws[i].k = "geo") = (ws[i].n \in Nots)
                               /\ (ws[i].k \in {"line", "gline"} => ws[i].p[1] # ws[i].p[2])
                               /\ (ws[i].k = "gline" => ws[i].p \in Near)
                               /\ (ws[i].f = "ATRF" => ws[i].k = "xyz")            \* only Cartesian tuples live in ATRF here
\* a 2-D form never regains the height that was dropped (foot is monotone along derivations): by construction of the actions
=============================================================================
