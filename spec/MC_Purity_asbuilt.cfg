SPECIFICATION Spec
CONSTANT Threads <- MCThreads2
CONSTANT CallIds <- MCCalls3
CONSTANT Cells <- MCCells
CONSTANT Adders <- MCAdders
CONSTANT MaxLen = 2
CONSTANT AsBuilt = TRUE
VIEW View
INVARIANT Determinism
CHECK_DEADLOCK FALSE
