---------------------------- MODULE MC_Catalogue ----------------------------
(* Words over {Neg, Shift(e)} from every dated catalogue entry: the intended  *)
(* semantics compose (involution, commutation, path independence, labels and  *)
(* rates kept), checked by TLC on the live catalogue; the words are printed   *)
(* and replayed on the real Transformation objects (Trace_Catalogue).         *)
EXTENDS Catalogue, Sequences
CONSTANTS D,        \* word length bound
          Stride    \* explore every Stride-th dated set (1 = all)
VARIABLES idx, cur, base, w
vars == <<idx, cur, base, w>>
Dated == {i \in 1..Len(CatData) : CatData[i].ep # 0}
Init == idx \in {i \in Dated : i % Stride = 0} /\ cur = SetOf(idx) /\ base = cur /\ w = <<>>
DoNeg == /\ cur' = NegSet(cur) /\ base' = NegSet(base) /\ w' = Append(w, <<"Neg", 0>>) /\ UNCHANGED idx
DoShift(e) == /\ cur' = ShiftSet(cur, e) /\ w' = Append(w, <<"Shift", e>>) /\ UNCHANGED <<idx, base>>
Next == DoNeg \/ \E e \in RefEpochData : DoShift(e)
Spec == Init /\ [][Next]_vars
Bound == Len(w) <= D
Tiny == Dec(100, 5)   \* 1e-18: truncation noise of the fixed-point operators
\* laws of the intended semantics
NegInvolution   == NegSet(NegSet(cur)) = cur
NegShiftCommute == \A e \in RefEpochData : NegSet(ShiftSet(cur, e)) = ShiftSet(NegSet(cur), e)
PathIndependent == SameSet(cur, ShiftSet(base, cur.ep), Tiny)
LabelsAndRatesKept == /\ cur.from = base.from /\ cur.to = base.to
                      /\ \A i \in 8..14 : cur.p[i] = base.p[i]
ShiftIsIdentityAtOwnEpoch == ShiftSet(cur, cur.ep) = cur
=============================================================================
