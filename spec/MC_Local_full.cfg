SPECIFICATION Spec
CONSTANT Lats <- MCLats
CONSTANT Lons <- MCLons
CONSTANT Vecs <- MCVecs
CONSTANT Vcvs <- MCVcvs
CONSTANT Cols <- MCCols
CONSTANT Pairs <- MCPairs
CONSTANT KArgs <- MCKArgs
CONSTANT D = 0
CONSTANT GI = 1
CONSTANT GJ = 1
VIEW View
INVARIANT TypeOK
INVARIANT FrameOrthonormal
INVARIANT FrameRightHanded
INVARIANT UpIsNormal
INVARIANT EastIsHorizontal
INVARIANT RoundTrip
INVARIANT LengthKept
INVARIANT SymmetryKept
INVARIANT SpectrumKept
INVARIANT ColumnTraceKept
INVARIANT EllipseAxes
INVARIANT RelErrUp
INVARIANT KTable
PROPERTY ColumnIsRotatedDiagonal
PROPERTY PosFixed
CHECK_DEADLOCK FALSE
