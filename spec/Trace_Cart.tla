----------------------------- MODULE Trace_Cart -----------------------------
(***************************************************************************)
(* Trace validation for C03.  Events:                                      *)
(*  Fwd   llh2xyz at a Pythagorean position: triples, height, ellipsoid    *)
(*        (a, 1/f, Newton starts), observed x, y, z; `same` = the result   *)
(*        with angle-object arguments is bit-identical to the float call   *)
(*  Inv   xyz2llh on a Cartesian point, then llh2xyz of what it returned   *)
(*        (both observed): longitude range, closure within 0.02 mm         *)
(* Clauses: raised, triple (malformed lattice point = machinery),          *)
(* oracle (Newton start did not verify = machinery), closed_form (1 um),   *)
(* angle_classes, lon_range, closure.                                      *)
(***************************************************************************)
EXTENDS Cart, Ellipsoids, Trig, Json, IOUtils, Sequences, TLC

Data   == JsonDeserialize(IOEnv.TRACE_FILE)
Traces == Data.traces
VARIABLES tid, l, dead
tvars == <<tid, l, dead>>
T == Traces[tid]
Report(clause) == PrintT(<<"FAIL", tid, l, clause>>)
Vec(v) == <<FromJ(v[1]), FromJ(v[2]), FromJ(v[3])>>
Close3(a, b, tol) == \A i \in 1..3 : Within(a[i], b[i], tol)

FwdClause(ev) ==
  IF ~(IsTriple(ev.slat) /\ IsTriple(ev.slon) /\ ev.slat[2] >= 0) THEN "triple"
  ELSE LET a == FromJ(ev.a) invf == FromJ(ev.invf)
           f == Flattening(invf, FromJ(ev.f0))
           e2 == Ecc2(f)
           s == Rat(ev.slat[1], ev.slat[3])
           rs == RS(e2, s, FromJ(ev.r0))
       IN IF ~(FlatteningOK(invf, f) /\ RSOK(e2, s, rs)) THEN "oracle"
          ELSE IF ~ConstantsOK(ev.ell, a, invf) THEN "shipped_ellipsoid_constants"     \* "that ellipsoid": the published figures
          ELSE IF ~Close3(Vec(ev.out), Forward(a, f, rs, ev.slat, ev.slon, FromJ(ev.h)), Um1) THEN "closed_form"
          ELSE IF ~ev.same THEN "angle_classes"
          ELSE ""

\* the closed form at ANY latitude / longitude given in degrees: sines and cosines from the specification's own series (Trig)
FwdAnyClause(ev) ==
  LET a == FromJ(ev.a) invf == FromJ(ev.invf)
      f == Flattening(invf, FromJ(ev.f0))
      e2 == Ecc2(f)
  IN Let(SinCosDeg(FromJ(ev.latdeg)), LAMBDA p : Let(SinCosDeg(FromJ(ev.londeg)), LAMBDA q :
     Let(RS(e2, p[1], FromJ(ev.r0)), LAMBDA rs :
         IF ~(FlatteningOK(invf, f) /\ RSOK(e2, p[1], rs)) THEN "oracle"
         ELSE IF ~ConstantsOK(ev.ell, a, invf) THEN "shipped_ellipsoid_constants"
         ELSE IF ~Close3(Vec(ev.out), Fwd2(Mul(a, rs), e2, FromJ(ev.h), p[1], p[2], q[2], q[1]), Um1) THEN "closed_form"
         ELSE "")))

InvClause(ev) ==
  IF ~(Leq(FromJ(ev.lon), Deg180) /\ Geq(FromJ(ev.lon), Neg(Deg180))) THEN "lon_range"
  ELSE IF ~Close3(Vec(ev.back), Vec(ev.in), Mm002) THEN "closure"
  ELSE ""

TraceInit == tid \in 1..Len(Traces) /\ l = 1 /\ dead = FALSE
Step == /\ ~dead /\ l <= Len(T.ev)
        /\ LET ev == T.ev[l] IN
           \E f \in {IF ev.exc # "" THEN "raised" ELSE IF ev.k = "Fwd" THEN FwdClause(ev)
                      ELSE IF ev.k = "FwdAny" THEN FwdAnyClause(ev) ELSE InvClause(ev)} :
              /\ (IF f = "" THEN TRUE ELSE Report(ev.k \o "." \o f))
              /\ dead' = (f # "")
        /\ l' = l + 1 /\ UNCHANGED tid
TraceSpec == TraceInit /\ [][Step]_tvars
Consumed == (~dead /\ l = Len(T.ev) + 1) => PrintT(<<"END", tid>>)
=============================================================================
