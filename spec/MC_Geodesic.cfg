SPECIFICATION Spec
CONSTRAINT Emit
INVARIANT LegsBound
CHECK_DEADLOCK FALSE
