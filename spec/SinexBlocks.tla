----------------------------- MODULE SinexBlocks -----------------------------
(***************************************************************************)
(* Beyond the listed properties: the block-level SINEX interface of        *)
(* geodepy.gnss - the readers that hand a whole block back as text         *)
(* (read_sinex_*_block, read_sinex_comments, read_sinex_header_line,       *)
(* read_sinex_header_block, read_sinex_custom, list_sinex_blocks), the     *)
(* record readers read_solution_epochs / read_disconts, and writeSINEX,    *)
(* which assembles a new file from blocks.  The workflow a user runs is    *)
(*     blocks = read(A) ; writeSINEX(B, blocks) ; read(B) ...              *)
(* and that is the state machine: `A` is the file that is open, `regs`     *)
(* holds what the readers returned, `Write` makes the written file the     *)
(* open one.                                                               *)
(*                                                                         *)
(* A file is a sequence of lines; a line is                                *)
(*   k     header | open | close | data | note | stamp | trailer           *)
(*   nm    block name of open/close lines; flavour of a note:              *)
(*         sep (the rule `*-----`), cols (the column heading of a block),  *)
(*         text (free comment)                                             *)
(*   id    identity of data lines and text notes (0 otherwise): what makes *)
(*         "the same line" checkable after any number of copies            *)
(*   lead  number of leading blanks (data lines start in column 2)         *)
(*   tw    number of trailing blanks in the file                           *)
(*   f     the fixed-column fields of the line when it is an epoch /       *)
(*         discontinuity record (<<id>> in the model, the rendered field   *)
(*         texts in traces), <<>> otherwise                                *)
(*                                                                         *)
(* The MEANING of each reader is given declaratively (Block, HeaderBlock,  *)
(* CommentsOf, Records ...); the scanners AS BUILT (line loops with a      *)
(* `go` flag and a `break`) are given as folds (Scan, ScanHeader ...).     *)
(* TLC checks meaning = scanner over every document of the model, incl.    *)
(* duplicate and unterminated blocks, and refutes it exactly where the     *)
(* code deviates (AsBuiltDeviations below, named, not hidden).             *)
(***************************************************************************)
EXTENDS Integers, Sequences, FiniteSets, TLC

CONSTANTS Names,      \* block names the writer of start documents may use
          MaxBlocks,  \* blocks per start document
          MaxData,    \* data lines per block
          MaxGen      \* how often the written file is opened again

\* the order in which writeSINEX lays blocks out, whatever the order of the file they came from
Canon == <<"FILE/COMMENT", "FILE/REFERENCE", "INPUT/ACKNOWLEDGMENTS", "SOLUTION/STATISTICS", "SITE/ID", "SITE/RECEIVER",
           "SITE/ANTENNA", "SITE/GPS_PHASE_CENTER", "SITE/ECCENTRICITY", "SOLUTION/EPOCHS", "SOLUTION/ESTIMATE",
           "SOLUTION/APRIORI", "SOLUTION/MATRIX_ESTIMATE", "SOLUTION/MATRIX_APRIORI">>
CanonSet == {Canon[i] : i \in 1..Len(Canon)}
Generic  == CanonSet \ {"FILE/COMMENT"}                  \* one read_sinex_<name>_block reader each
RecordBlocks == {"SOLUTION/EPOCHS", "SOLUTION/DISCONTINUITY"}
AllNames == CanonSet \cup {"SOLUTION/DISCONTINUITY"}

Let1(heavy, Body(_)) == CHOOSE r \in {Body(x) : x \in {heavy}} : TRUE
MinOf(S) == CHOOSE x \in S : \A y \in S : x <= y

Ln(k, nm)  == [k |-> k, nm |-> nm, id |-> 0, lead |-> 0, tw |-> 0, f |-> <<>>]
Header     == Ln("header", "")
Trailer    == Ln("trailer", "")
Sep        == Ln("note", "sep")
Stamp      == Ln("stamp", "")
Open(nm)   == Ln("open", nm)
Close(nm)  == Ln("close", nm)
IsOpen(ln, nm)  == ln.k = "open" /\ ln.nm = nm
IsClose(ln, nm) == ln.k = "close" /\ ln.nm = nm
RStrip(ln) == [ln EXCEPT !.tw = 0]
Strip(ln)  == [ln EXCEPT !.tw = 0, !.lead = 0]
MapSeq(s, F(_)) == [i \in 1..Len(s) |-> F(s[i])]

(* ----------------------- start documents (the writer) ------------------- *)
\* a block plan: name, number of data lines, closed or not, a column heading, a free comment inside
Plans == [nm : Names, n : 0..MaxData, closed : BOOLEAN, cols : BOOLEAN, text : BOOLEAN]
PlanLines(b) ==
  <<Open(b.nm)>> \o (IF b.cols THEN <<Ln("note", "cols")>> ELSE <<>>)
  \o [q \in 1..b.n |-> [Ln("data", b.nm) EXCEPT !.lead = 1]]
  \o (IF b.text THEN <<Ln("note", "text")>> ELSE <<>>)
  \o (IF b.closed THEN <<Close(b.nm)>> ELSE <<>>)
RECURSIVE Body(_, _)
Body(plan, sep) == IF plan = <<>> THEN <<>> ELSE PlanLines(plan[1]) \o (IF sep THEN <<Sep>> ELSE <<>>) \o Body(Tail(plan), sep)
\* identities and trailing blanks are a function of the position in the start document
Number(lines) ==
  [i \in 1..Len(lines) |->
     IF lines[i].k = "data" \/ (lines[i].k = "note" /\ lines[i].nm = "text")
     THEN [lines[i] EXCEPT !.id = i, !.tw = IF i % 3 = 0 THEN 2 ELSE 0,
                           !.f = IF lines[i].k = "data" /\ lines[i].nm \in RecordBlocks THEN <<i>> ELSE <<>>,
                           !.nm = IF lines[i].k = "data" THEN "" ELSE "text"]
     ELSE lines[i]]
Render(plan, hnote, sep) == Number(<<Header>> \o (IF hnote THEN <<Sep>> ELSE <<>>) \o Body(plan, sep) \o <<Trailer>>)

(* ------------------------------ the meaning ----------------------------- *)
Opens(doc, nm)  == {i \in 1..Len(doc) : IsOpen(doc[i], nm)}
\* the first block called nm: from its opening line through its closing line (to the end of the file when it is never closed)
BlockRange(doc, nm) ==
  IF Opens(doc, nm) = {} THEN <<1, 0>>
  ELSE LET lo == MinOf(Opens(doc, nm))
           cl == {j \in lo..Len(doc) : IsClose(doc[j], nm)}
       IN <<lo, IF cl = {} THEN Len(doc) ELSE MinOf(cl)>>
Block(doc, nm) == LET r == BlockRange(doc, nm) IN MapSeq(SubSeq(doc, r[1], r[2]), RStrip)
\* "all lines before the SITE/ID block", the header line itself excluded
HeaderBlock(doc) ==
  LET o == {i \in 2..Len(doc) : IsOpen(doc[i], "SITE/ID")}
  IN MapSeq(SubSeq(doc, 2, IF o = {} THEN Len(doc) ELSE MinOf(o) - 1), RStrip)
\* the comment block, white space removed on both sides, with the line that says who rewrote the file before its last line
CommentsOf(doc) ==
  LET b == MapSeq(Block(doc, "FILE/COMMENT"), Strip)
  IN IF b = <<>> THEN <<Stamp>> ELSE SubSeq(b, 1, Len(b) - 1) \o <<Stamp>> \o <<b[Len(b)]>>
Custom(doc, i, j) == MapSeq(SubSeq(doc, i, IF j > Len(doc) THEN Len(doc) ELSE j), Strip)
BlockList(doc) == LET ix == SelectSeq([i \in 1..Len(doc) |-> i], LAMBDA i : doc[i].k = "open") IN [q \in 1..Len(ix) |-> doc[ix[q]].nm]
\* the records of a block: its data lines, never its comment lines
Records(doc, nm) ==
  LET r == BlockRange(doc, nm)
      ix == SelectSeq([i \in 1..Len(doc) |-> i], LAMBDA i : i > r[1] /\ i <= r[2] /\ doc[i].k = "data")
  IN [q \in 1..Len(ix) |-> doc[ix[q]].f]

(* ------------------------- the scanners as built ------------------------ *)
\* for line in file: if line.startswith('+NAME'): go = True / if go: keep(line.rstrip()) / if line.startswith('-NAME'): break
ScanStep(s, ln, nm) ==
  IF s.done THEN s
  ELSE LET go == s.go \/ IsOpen(ln, nm)
       IN [go |-> go, out |-> IF go THEN Append(s.out, RStrip(ln)) ELSE s.out, done |-> IsClose(ln, nm)]
RECURSIVE ScanFold(_, _, _, _)
ScanFold(doc, i, nm, s) == IF i > Len(doc) THEN s ELSE ScanFold(doc, i + 1, nm, Let1(s, LAMBDA x : ScanStep(x, doc[i], nm)))
Scan(doc, nm) == ScanFold(doc, 1, nm, [go |-> FALSE, out |-> <<>>, done |-> FALSE]).out
\* next(f); line = readline(); while line: keep(line); line = readline(); if line.startswith('+SITE/ID'): break
\* - the second line of the file is kept before it is ever looked at
ScanHeader(doc) ==
  LET o == {i \in 3..Len(doc) : IsOpen(doc[i], "SITE/ID")}
  IN MapSeq(SubSeq(doc, 2, IF o = {} THEN Len(doc) ELSE MinOf(o) - 1), RStrip)
\* read_solution_epochs: between the opening and the closing line everything that does not start with '*Code PT' is a record
\* read_disconts: between the opening and the closing line every line is a record
ScanRecords(doc, nm) ==
  LET r == BlockRange(doc, nm)
      rec(i) == i > r[1] /\ i <= r[2] /\ ~IsClose(doc[i], nm)
                /\ (nm = "SOLUTION/EPOCHS" => ~(doc[i].k = "note" /\ doc[i].nm = "cols"))
      ix == SelectSeq([i \in 1..Len(doc) |-> i], rec)
  IN [q \in 1..Len(ix) |-> ix[q]]                           \* line numbers taken as records
\* where the code as built differs from the meaning (each is a named, reproducible situation, cf. known_findings.json)
SiteIdOnLine2(doc)        == Len(doc) >= 2 /\ IsOpen(doc[2], "SITE/ID")
CommentInsideRecords(doc, nm) ==
  LET r == BlockRange(doc, nm)
  IN \E i \in (r[1] + 1)..r[2] : doc[i].k = "note" /\ ~(nm = "SOLUTION/EPOCHS" /\ doc[i].nm = "cols")

(* -------------------------------- writing ------------------------------- *)
NoVal == <<Ln("none", "")>>          \* comparable with every register value
RegNames == CanonSet \cup {"header"}
RECURSIVE Laid(_, _, _)
Laid(regs, S, i) == IF i > Len(Canon) THEN <<>>
                    ELSE (IF Canon[i] \in S THEN regs[Canon[i]] \o <<Sep>> ELSE <<>>) \o Laid(regs, S, i + 1)
\* writeSINEX(fp, header=..., comment=..., siteID=..., ...): what is given is written, in the fixed order, a rule after each, %ENDSNX last
Written(regs, S, wh) == (IF wh THEN regs["header"] \o <<Sep>> ELSE <<>>) \o Laid(regs, S, 1) \o <<Trailer>>

(* ------------------------------ well-formedness ------------------------- *)
\* header first, trailer last, blocks opened and closed on their own lines, not nested, each name once, data only inside
G0 == [open |-> "none", seen |-> {}, err |-> ""]
GStep(g, ln) ==
  IF g.err # "" \/ ln.k \in {"note", "stamp"} THEN g
  ELSE IF ln.k = "open" THEN (IF g.open # "none" THEN [g EXCEPT !.err = "nested"]
                              ELSE IF ln.nm \in g.seen THEN [g EXCEPT !.err = "twice"]
                              ELSE [g EXCEPT !.open = ln.nm, !.seen = @ \cup {ln.nm}])
  ELSE IF ln.k = "close" THEN (IF g.open # ln.nm THEN [g EXCEPT !.err = "close"] ELSE [g EXCEPT !.open = "none"])
  ELSE IF ln.k = "data" THEN (IF g.open = "none" THEN [g EXCEPT !.err = "data_outside"] ELSE g)
  ELSE [g EXCEPT !.err = "header_or_trailer_inside"]
RECURSIVE GFold(_, _, _)
GFold(doc, i, g) == IF i > Len(doc) THEN g ELSE GFold(doc, i + 1, Let1(g, LAMBDA x : GStep(x, doc[i])))
WellFormed(doc) ==
  /\ Len(doc) >= 2 /\ doc[1].k = "header" /\ doc[Len(doc)].k = "trailer"
  /\ LET g == GFold(SubSeq(doc, 2, Len(doc) - 1), 1, G0) IN g.err = "" /\ g.open = "none"

(* ------------------------------ state machine --------------------------- *)
VARIABLES plan,    \* writing phase: the block plans so far
          phase,   \* "writing" | "open"
          A,       \* the file that is open
          regs,    \* what the readers returned (RegNames -> sequence of lines | NoVal)
          prev,    \* history: <<file the registers were read from, S, wh, registers>> of the last Write
          gen,     \* how many written files have been opened
          h        \* history: labels of the calls (replayed against the real functions)
vars == <<plan, phase, A, regs, prev, gen, h>>

NoRegs == [n \in RegNames |-> NoVal]
Init == plan = <<>> /\ phase = "writing" /\ A = <<>> /\ regs = NoRegs /\ prev = <<>> /\ gen = 0 /\ h = <<>>
AddBlock(b) == /\ phase = "writing" /\ Len(plan) < MaxBlocks
               /\ (b.nm = "FILE/COMMENT" => \A q \in 1..Len(plan) : plan[q].nm # "FILE/COMMENT")
               /\ (b.nm = "FILE/COMMENT" => b.closed /\ ~b.cols)
               /\ plan' = Append(plan, b) /\ UNCHANGED <<phase, A, regs, prev, gen, h>>
CloseFile(hnote, sep) == /\ phase = "writing" /\ phase' = "open" /\ A' = Render(plan, hnote, sep)
                         /\ h' = <<<<"doc", hnote, sep>>>> /\ UNCHANGED <<plan, regs, prev, gen>>
Call(lab) == h' = Append(h, lab)
ReadBlock(nm) == /\ phase = "open" /\ nm \in Generic
                 /\ regs' = [regs EXCEPT ![nm] = Scan(A, nm)] /\ Call(<<"block", nm>>)
                 /\ UNCHANGED <<plan, phase, A, prev, gen>>
ReadComments  == /\ phase = "open"
                 /\ regs' = [regs EXCEPT !["FILE/COMMENT"] = CommentsOf(A)] /\ Call(<<"comments">>)
                 /\ UNCHANGED <<plan, phase, A, prev, gen>>
\* (a file that is one unterminated line has no header LINE to hand to writeSINEX: the register would lack its newline)
ReadHeaderLine == /\ phase = "open" /\ Len(A) >= 2
                  /\ regs' = [regs EXCEPT !["header"] = <<A[1]>>] /\ Call(<<"hline">>)
                  /\ UNCHANGED <<plan, phase, A, prev, gen>>
Pure(lab) == phase = "open" /\ Call(lab) /\ UNCHANGED <<plan, phase, A, regs, prev, gen>>
ReadHeaderBlock == Len(A) >= 1 /\ Pure(<<"hblock">>)
ReadCustom(i, j) == i \in 1..Len(A) /\ j \in i..(Len(A) + 1) /\ Pure(<<"custom", i, j>>)
ListBlocks == Pure(<<"list">>)
ReadEpochs == Pure(<<"epochs">>)
ReadDisconts == Pure(<<"disconts">>)
Held == {n \in CanonSet : regs[n] # NoVal}
Write(S, wh) == /\ phase = "open" /\ gen < MaxGen /\ S \subseteq Held /\ (wh => regs["header"] # NoVal)
                /\ A' = Written(regs, S, wh) /\ prev' = <<A, S, wh, regs>> /\ regs' = NoRegs /\ gen' = gen + 1
                /\ Call(<<"write", S, wh>>) /\ UNCHANGED <<plan, phase>>
Readers == \/ \E nm \in Generic : ReadBlock(nm)
           \/ ReadComments \/ ReadHeaderLine \/ ReadHeaderBlock \/ ListBlocks \/ ReadEpochs \/ ReadDisconts
           \/ \E i \in 1..Len(A) : \E j \in i..(Len(A) + 1) : ReadCustom(i, j)
Next == \/ \E b \in Plans : AddBlock(b)
        \/ \E hn, sp \in BOOLEAN : CloseFile(hn, sp)
        \/ Readers
        \/ \E S \in SUBSET Held : \E wh \in BOOLEAN : Write(S, wh)
Spec == Init /\ [][Next]_vars

(* -------------------------------- properties ---------------------------- *)
\* the line loop with its flag and its break returns the first block of that name, and nothing when there is none
ScanIsMeaning == phase = "open" => \A nm \in Generic : Scan(A, nm) = Block(A, nm)
\* ... and the header block, except in the one situation where the code differs (AS BUILT)
HeaderBlockIsMeaning == (phase = "open" /\ Len(A) >= 1 /\ ~SiteIdOnLine2(A)) => ScanHeader(A) = HeaderBlock(A)
HeaderBlockIntended  == (phase = "open" /\ Len(A) >= 1) => ScanHeader(A) = HeaderBlock(A)         \* refuted by TLC: see MC_SinexBlocks_intended.cfg
\* the record readers take exactly the data lines, except when a comment line stands inside the block (AS BUILT)
\* the block, when present, is closed and holds nothing but data and comment lines
Closed(doc, nm) == LET r == BlockRange(doc, nm)
                   IN r[2] >= r[1] => IsClose(doc[r[2]], nm) /\ \A i \in (r[1] + 1)..(r[2] - 1) : doc[i].k \in {"data", "note", "stamp"}
RecordsAreMeaning ==
  phase = "open" => \A nm \in RecordBlocks :
     (Closed(A, nm) /\ ~CommentInsideRecords(A, nm)) => [q \in 1..Len(ScanRecords(A, nm)) |-> A[ScanRecords(A, nm)[q]].f] = Records(A, nm)
RecordsIntended ==
  phase = "open" => \A nm \in RecordBlocks : Closed(A, nm) => [q \in 1..Len(ScanRecords(A, nm)) |-> A[ScanRecords(A, nm)[q]].f] = Records(A, nm)
\* nothing a reader returns carries trailing blanks
Stripped == \A n \in RegNames : regs[n] # NoVal /\ n # "header" => \A q \in 1..Len(regs[n]) : regs[n][q].tw = 0
\* the written file: every block that was handed over is found again, unchanged, by the reader of that name
RoundTrip == gen >= 1 =>
               \A nm \in prev[2] \cap Generic : WellFormed(prev[1]) => Block(A, nm) = prev[4][nm]
\* ... the comment block too, now carrying the creation line before its closing line
CommentRoundTrip == gen >= 1 /\ "FILE/COMMENT" \in prev[2] =>
               (Block(prev[1], "FILE/COMMENT") # <<>> => MapSeq(Block(A, "FILE/COMMENT"), Strip) = prev[4]["FILE/COMMENT"])
\* ... in the fixed order of the format, whatever the order of the file the blocks came from
CanonicalOrder == gen >= 1 /\ WellFormed(prev[1]) =>
               BlockList(A) = SelectSeq(Canon, LAMBDA n : n \in prev[2] /\ prev[4][n] # <<>> /\ prev[4][n][1].k = "open")
\* a well-formed file with its header handed over gives a well-formed file
WellFormedKept == gen >= 1 /\ WellFormed(prev[1]) /\ prev[3] => WellFormed(A)
\* nothing is invented: every data line of the written file is a data line of the file it was read from
NothingInvented == gen >= 1 =>
               \A q \in 1..Len(A) : A[q].k = "data" => \E p \in 1..Len(prev[1]) : prev[1][p].k = "data" /\ prev[1][p].id = A[q].id
\* no reader changes the file
ReadersArePure == [][(phase = "open" /\ phase' = "open" /\ gen' = gen) => A' = A]_vars
TypeOK == /\ phase \in {"writing", "open"} /\ gen \in 0..MaxGen
          /\ \A q \in 1..Len(A) : A[q].k \in {"header", "open", "close", "data", "note", "stamp", "trailer"}

ASSUME LET d == Render(<<[nm |-> "SITE/ID", n |-> 2, closed |-> TRUE, cols |-> TRUE, text |-> FALSE],
                          [nm |-> "SOLUTION/EPOCHS", n |-> 1, closed |-> TRUE, cols |-> TRUE, text |-> TRUE]>>, TRUE, TRUE)
       IN /\ WellFormed(d) /\ Len(Block(d, "SITE/ID")) = 5 /\ Block(d, "SITE/RECEIVER") = <<>>
          /\ BlockList(d) = <<"SITE/ID", "SOLUTION/EPOCHS">> /\ Len(HeaderBlock(d)) = 1
          /\ Len(Records(d, "SOLUTION/EPOCHS")) = 1 /\ Len(ScanRecords(d, "SOLUTION/EPOCHS")) = 2
          /\ ~WellFormed(SubSeq(d, 1, 4)) /\ Scan(d, "SITE/ID") = Block(d, "SITE/ID")
=============================================================================
