------------------------------- MODULE DnaFile -------------------------------
(***************************************************************************)
(* Beyond the listed properties: geodepy.fileio.read_dnacoord - a          *)
(* fixed-column coordinate listing (DynAdjust style) read into DNACoord    *)
(* records.  The file is a sequence of lines; a line is sixteen fields in  *)
(* fixed columns (`Cols`, 0-based, end exclusive, as the reader slices     *)
(* them); the description runs from column 192 to the end of the line.     *)
(* Abstractly a field is <<class, id>>: the class says how the driver      *)
(* renders it (numbers: zero / positive / negative / `wide` = filling its  *)
(* columns completely, so that it touches its neighbours; texts: short /   *)
(* full width / with inner blanks / empty), the id makes every field of a  *)
(* document distinguishable.  Reading is the identity on abstract fields:  *)
(*   SameCount   as many records as lines                                  *)
(*   SameOrder   record i comes from line i                                *)
(*   Isolation   every field is taken from its own columns only            *)
(* and, numerically (Trace_DnaFile), a numeric field is the correctly      *)
(* rounded value of the decimal text in its columns, a text field is the   *)
(* text without its padding.  `Close(nl)` models whether the last line     *)
(* ends with a newline: both are ordinary text files.                      *)
(***************************************************************************)
EXTENDS Integers, Sequences, FiniteSets, TLC

CONSTANT MaxRecs
NumFields == <<"easting", "northing", "zone", "lat", "long", "ortho_ht", "ell_ht", "x", "y", "z", "x_sd", "y_sd", "z_sd">>
TxtFields == <<"pointid", "const", "desc">>
Cols == [pointid |-> <<0, 20>>, const |-> <<21, 25>>, easting |-> <<28, 40>>, northing |-> <<41, 58>>, zone |-> <<60, 63>>,
         lat |-> <<63, 78>>, long |-> <<78, 92>>, ortho_ht |-> <<93, 103>>, ell_ht |-> <<103, 114>>, x |-> <<115, 129>>,
         y |-> <<130, 144>>, z |-> <<145, 159>>, x_sd |-> <<160, 171>>, y_sd |-> <<172, 181>>, z_sd |-> <<182, 191>>,
         desc |-> <<192, 192>>]          \* description: from 192 to the end of the line
NumClasses == {"zero", "pos", "neg", "wide"}
TxtClasses == {"short", "full", "inner", "empty"}
\* a record shape: one class for all numeric fields, one field singled out with another class, classes of the three texts
Shapes == [base : NumClasses, special : 1..Len(NumFields), sclass : NumClasses, pid : TxtClasses \ {"empty"}, const : {"short", "full"},
           desc : TxtClasses]
ClassOf(sh, i) == IF i = sh.special THEN sh.sclass ELSE sh.base

VARIABLES doc,      \* the lines written so far: sequence of shapes
          phase,    \* "writing" | "closed" | "read"
          newline,  \* does the last line end with a newline
          out       \* what the reader returned: sequence of <<line number, shape>>
vars == <<doc, phase, newline, out>>

Init == doc = <<>> /\ phase = "writing" /\ newline = TRUE /\ out = <<>>
AddRecord(sh) == phase = "writing" /\ Len(doc) < MaxRecs /\ doc' = Append(doc, sh) /\ UNCHANGED <<phase, newline, out>>
Close(nl) == phase = "writing" /\ phase' = "closed" /\ newline' = nl /\ UNCHANGED <<doc, out>>
Read == phase = "closed" /\ phase' = "read" /\ out' = [i \in 1..Len(doc) |-> <<i, doc[i]>>] /\ UNCHANGED <<doc, newline>>
Next == (\E sh \in Shapes : AddRecord(sh)) \/ (\E nl \in BOOLEAN : Close(nl)) \/ Read
Spec == Init /\ [][Next]_vars

SameCount == phase = "read" => Len(out) = Len(doc)
SameOrder == phase = "read" => \A i \in 1..Len(out) : out[i][1] = i
Isolation == phase = "read" => \A i \in 1..Len(out) : out[i][2] = doc[i]
\* the columns of the fields do not overlap (a property of the layout itself)
Disjoint == \A f, g \in DOMAIN Cols : f # g /\ f # "desc" /\ g # "desc" => Cols[f][2] <= Cols[g][1] \/ Cols[g][2] <= Cols[f][1]
=============================================================================
