------------------------------ MODULE Calendar ------------------------------
(***************************************************************************)
(* Beyond the listed properties: geodepy.convert.date_to_yyyydoy /         *)
(* yyyydoy_to_date.  The proleptic Gregorian calendar as a state machine:  *)
(* the state is one day <<y, m, d, doy>>; NextDay is the only action.      *)
(* The string form is 'yyyy.doy' (doy zero-padded to three digits); the    *)
(* reverse function accepts 'yyyy.doy' and 'yyyydoy' and nothing else.     *)
(***************************************************************************)
EXTENDS Integers, Sequences, TLC

CONSTANTS FirstYear, LastYear
VARIABLES y, m, d, doy
vars == <<y, m, d, doy>>

Leap(yy) == (yy % 4 = 0 /\ yy % 100 # 0) \/ yy % 400 = 0
DaysIn(yy, mm) == IF mm \in {4, 6, 9, 11} THEN 30 ELSE IF mm = 2 THEN (IF Leap(yy) THEN 29 ELSE 28) ELSE 31
YearLen(yy) == IF Leap(yy) THEN 366 ELSE 365

Init == y = FirstYear /\ m = 1 /\ d = 1 /\ doy = 1
NextDay == /\ ~(y = LastYear /\ m = 12 /\ d = 31)
           /\ IF d < DaysIn(y, m) THEN d' = d + 1 /\ m' = m /\ y' = y /\ doy' = doy + 1
              ELSE IF m < 12 THEN d' = 1 /\ m' = m + 1 /\ y' = y /\ doy' = doy + 1
              ELSE d' = 1 /\ m' = 1 /\ y' = y + 1 /\ doy' = 1
Spec == Init /\ [][NextDay]_vars

Pad3(n) == IF n < 10 THEN "00" \o ToString(n) ELSE IF n < 100 THEN "0" \o ToString(n) ELSE ToString(n)
DotForm == ToString(y) \o "." \o Pad3(doy)
PlainForm == ToString(y) \o Pad3(doy)

DoyInRange == doy \in 1..YearLen(y)
LastDayIsYearLen == (m = 12 /\ d = 31) => doy = YearLen(y)
MonthsOK == m \in 1..12 /\ d \in 1..DaysIn(y, m)
=============================================================================
