-------------------------- MODULE Trace_SinexBlocks --------------------------
(***************************************************************************)
(* Trace validation for the block-level SINEX interface (SinexBlocks.tla). *)
(* Events (one per real call, logged at its return, with what it returned  *)
(* tokenised into line records - kind, block name, identity, leading and   *)
(* trailing blanks; nothing is judged by the driver):                      *)
(*   doc       a file was put on disk (its lines)                          *)
(*   block     read_sinex_<nm>_block -> lines                              *)
(*   comments  read_sinex_comments -> lines                                *)
(*   hline     read_sinex_header_line -> line, ends with a newline or not  *)
(*   hblock    read_sinex_header_block -> lines                            *)
(*   custom    read_sinex_custom(i, j) -> lines                            *)
(*   list      list_sinex_blocks -> printed names                          *)
(*   epochs / disconts   read_solution_epochs / read_disconts -> tuples    *)
(*   numeric   read_sinex_estimate / _matrix / _sites (C18) on the start   *)
(*             file and on the file rewritten from all its blocks: digests *)
(*   write     writeSINEX(what was read, S, header or not) -> the lines of *)
(*             the file it wrote, which is the open file from then on      *)
(* Every read is compared with the MEANING of the reader (Block,           *)
(* HeaderBlock, ...), every write with Written(); the spec's own actions   *)
(* move the state, so the model invariants (RoundTrip, CanonicalOrder,     *)
(* WellFormedKept, ...) are evaluated along every real trace.              *)
(* Clauses: <event>.raised | .count | .lines | .blanks | .newline, with    *)
(* the named situation appended where the specification knows the code     *)
(* deviates (site_id_on_line_2, comment_inside_block).                     *)
(***************************************************************************)
EXTENDS SinexBlocks, Json, IOUtils

Data   == JsonDeserialize(IOEnv.TRACE_FILE)
Traces == Data.traces
VARIABLES tid, l, dead,
          fnl      \* does the last line of the open file end with a newline (start documents: either; written files: never)
tvars == <<vars, tid, l, dead, fnl>>
T == Traces[tid]
Report(clause) == PrintT(<<"FAIL", tid, l, clause>>)
SetOf(s) == {s[i] : i \in 1..Len(s)}

Diff(obs, exp) == IF obs = exp THEN ""
                  ELSE IF Len(obs) # Len(exp) THEN "count"
                  ELSE IF MapSeq(obs, Strip) = MapSeq(exp, Strip) THEN "blanks" ELSE "lines"
Verdict(ev, what) == IF ev.exc # "" THEN "raised" ELSE what
Judge(name, f) == (IF f = "" THEN TRUE ELSE Report(name \o "." \o f)) /\ dead' = (f # "")
\* a difference in a situation where the specification KNOWS the code deviates (SinexBlocks: AS BUILT) is reported under its own
\* tag with the trace's own number and the trace goes on, so that the rest of it is still checked
JudgeDev(name, f, dev) == IF f # "" /\ dev THEN PrintT(<<"DEV", T.gid, l, name \o "." \o f>>) /\ dead' = FALSE ELSE Judge(name, f)

OpenDoc(lines) == /\ phase' = "open" /\ A' = lines /\ regs' = NoRegs /\ h' = <<>> /\ UNCHANGED <<plan, prev, gen>>

TraceInit == tid \in 1..Len(Traces) /\ l = 1 /\ dead = FALSE /\ fnl = FALSE /\ Init
Step ==
  /\ ~dead /\ l <= Len(T.ev)
  /\ LET ev == T.ev[l] IN
     CASE ev.k = "doc" -> OpenDoc(ev.lines) /\ dead' = FALSE /\ fnl' = ev.fnl
       [] ev.k = "block" ->
            /\ ReadBlock(ev.nm)
            /\ \E f \in {Verdict(ev, Diff(ev.out, Block(A, ev.nm)))} : Judge("block", f)
       [] ev.k = "comments" ->
            /\ ReadComments
            /\ \E f \in {Verdict(ev, Diff(ev.out, CommentsOf(A)))} : Judge("comments", f)
       [] ev.k = "hline" ->
            /\ ReadHeaderLine
            /\ \E f \in {Verdict(ev, IF ev.out # <<A[1]>> THEN "lines" ELSE IF ev.nl # (Len(A) > 1 \/ fnl) THEN "newline" ELSE "")} : Judge("hline", f)
       [] ev.k = "hblock" ->
            /\ ReadHeaderBlock
            /\ \E f \in {Verdict(ev, LET d == Diff(ev.out, HeaderBlock(A))
                                     IN IF d # "" /\ SiteIdOnLine2(A) THEN d \o ".site_id_on_line_2" ELSE d)} :
                 JudgeDev("hblock", f, SiteIdOnLine2(A))
       [] ev.k = "custom" ->
            /\ ReadCustom(ev.i, ev.j)
            /\ \E f \in {Verdict(ev, Diff(ev.out, Custom(A, ev.i, ev.j)))} : Judge("custom", f)
       [] ev.k = "list" ->
            /\ ListBlocks
            /\ \E f \in {Verdict(ev, IF ev.out = BlockList(A) THEN "" ELSE "names")} : Judge("list", f)
       [] ev.k \in {"epochs", "disconts"} ->
            /\ Pure(<<ev.k>>)
            /\ LET nm == IF ev.k = "epochs" THEN "SOLUTION/EPOCHS" ELSE "SOLUTION/DISCONTINUITY" IN
               \E f \in {Verdict(ev, IF ~Closed(A, nm) \/ ev.out = Records(A, nm) THEN ""
                                     ELSE IF CommentInsideRecords(A, nm) THEN "records.comment_inside_block"
                                     ELSE IF Len(ev.out) # Len(Records(A, nm)) THEN "count" ELSE "records")} :
                    JudgeDev(ev.k, f, CommentInsideRecords(A, nm))
       [] ev.k = "numeric" ->          \* the numeric readers of C18 on the start file and on the file rewritten from all its blocks
            /\ Pure(<<"numeric">>)
            /\ \E f \in {Verdict(ev, IF ev.before = ev.after THEN "" ELSE "changed_by_rewriting")} : Judge("numeric", f)
       [] ev.k = "write" ->
            /\ Write(SetOf(ev.S), ev.wh)
            /\ \E f \in {Verdict(ev, Diff(ev.lines, Written(regs, SetOf(ev.S), ev.wh)))} : Judge("write", f)
  /\ l' = l + 1 /\ UNCHANGED tid
  /\ (T.ev[l].k = "write" => fnl' = FALSE) /\ (T.ev[l].k \notin {"write", "doc"} => fnl' = fnl)
TraceSpec == TraceInit /\ [][Step]_tvars
Consumed == (~dead /\ l = Len(T.ev) + 1) => PrintT(<<"END", tid>>)
=============================================================================
