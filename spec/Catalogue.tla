----------------------------- MODULE Catalogue -----------------------------
(***************************************************************************)
(* C11 - the shipped transformation catalogue (geodepy.constants).         *)
(*                                                                         *)
(* A parameter set is                                                      *)
(*   [from, to : label strings, ep : day number (0 = no date epoch),       *)
(*    p : 14 numbers <<tx,ty,tz,sc,rx,ry,rz, d_tx..d_rz>> in m, ppm,       *)
(*    arc-seconds (per year)]                                              *)
(* Numbers are BigFix values.  The operators on sets - Neg (reverse the    *)
(* direction), Shift (re-reference to another epoch), Iers2Trans (unit and *)
(* sign convention change) - are the intended semantics of                 *)
(* Transformation.__neg__, Transformation.__add__ and iers2trans.          *)
(*                                                                         *)
(* The state machine explores words over {Neg, Shift(e)} from a catalogue  *)
(* entry; the audit part quantifies over the whole catalogue (labels,      *)
(* forward/reverse pairs, ITRF triangles).  The catalogue itself is the    *)
(* constant Cat, produced from the live module by the driver (CatDump).    *)
(***************************************************************************)
EXTENDS BigFix, CatDump, FiniteSets, TLC

\* The catalogue is the constant CatData of module CatDump (sequence of records: name tokens, labels,
\* epoch, parameters) and RefEpochData (set of day numbers: every date reference epoch).  They are
\* plain definitions, not CONSTANT parameters: TLC caches definitions but re-evaluates a
\* `CONSTANT X <- Def` substitution on every access (measured: 59 s vs 2 s for the triple set).
Cat == CatData
RefEpochs == RefEpochData

NP == 14
P(t, i) == t.p[i]

(* ----------------------------- operators ------------------------------- *)
\* reverse direction: labels swapped, same epoch, all 14 numbers negated
NegSet(t) == [from |-> t.to, to |-> t.from, ep |-> t.ep, p |-> [i \in 1..NP |-> Neg(t.p[i])]]

\* elapsed Julian years between day numbers, exact to 1e-20: days / 365.25 = 4 days / 1461
Years(d0, d1) == DivSmall(FromInt(4 * (d1 - d0)), 1461)

\* re-reference to epoch e: labels and rates kept, parameters advanced linearly
ShiftSet(t, e) == LET y == Years(t.ep, e)
                  IN [from |-> t.from, to |-> t.to, ep |-> e,
                      p |-> [i \in 1..NP |-> IF i <= 7 THEN Add(t.p[i], Mul(t.p[i + 7], y)) ELSE t.p[i]]]

\* IERS convention (mm, ppb, mas; opposite rotation sense) -> metres, ppm, arc-seconds
IsRot(i) == i \in {5, 6, 7, 12, 13, 14}
Iers2Trans(from, to, e, v) ==
  [from |-> from, to |-> to, ep |-> e,
   p |-> [i \in 1..NP |-> IF IsRot(i) THEN Neg(DivSmall(v[i], 1000)) ELSE DivSmall(v[i], 1000)]]

(* ----------------------------- tolerances ------------------------------ *)
Round8  == Dec(5001, 3)                    \* half a unit of the 8th decimal (+ float noise): 5.001e-9
\* published rounding: 0.15 mm, 0.015 ppb, 0.015 mas  in m / ppm / arc-seconds
TolTri(i) == LET k == IF i > 7 THEN i - 7 ELSE i
             IN IF k <= 3 THEN Dec(15000, 2)          \* 1.5e-4 m
                ELSE IF k = 4 THEN Dec(1500, 2)       \* 1.5e-5 ppm
                ELSE Dec(1500, 2)                     \* 1.5e-5 arc-seconds
\* + tiny allowance for the binary representation of the decimal catalogue values
Eps == Dec(1, 4)                           \* 1e-16

SameSet(a, b, tol) == /\ a.from = b.from /\ a.to = b.to /\ a.ep = b.ep
                      /\ \A i \in 1..NP : Within(a.p[i], b.p[i], tol)

(* --------------------------- audit: catalogue -------------------------- *)
N == Len(Cat)
Sets == [i \in 1..N |-> [from |-> Cat[i].from, to |-> Cat[i].to, ep |-> Cat[i].ep,
                          p |-> [k \in 1..NP |-> FromJ(Cat[i].p[k])]]]
SetOf(i) == Sets[i]

\* the name states the labels:  a_to_b[_suffix]  ->  from = A, to = B   (tokens upper-cased by alpha)
NameMatchesLabels(i) == Cat[i].from = Cat[i].na /\ Cat[i].to = Cat[i].nb

Partners(i) == {j \in 1..N : Cat[j].na = Cat[i].nb /\ Cat[j].nb = Cat[i].na /\ Cat[j].nx = Cat[i].nx}
\* reverse partner carries exactly the negated numbers, same epoch, swapped labels
ReverseIsNegation(i) == \A j \in Partners(i) : SameSet(SetOf(j), NegSet(SetOf(i)), Zero)

IsItrf(i) == Cat[i].fa = "ITRF" /\ Cat[i].fb = "ITRF" /\ Cat[i].nx = ""
Itrf == {i \in 1..N : IsItrf(i)}
\* ordered triples (A->B, B->C, A->C), A, B, C distinct ITRF realisations
Triples == UNION {UNION {{<<i, j, k>> : k \in {k \in Itrf : Cat[k].na = Cat[i].na /\ Cat[k].nb = Cat[j].nb}} :
                          j \in {j \in Itrf : Cat[j].na = Cat[i].nb /\ Cat[j].nb # Cat[i].na}} : i \in Itrf}
\* parameter i of the chain A->B->C minus the direct A->C, all brought to epoch e
TriBad(t, e) == LET a == ShiftSet(SetOf(t[1]), e) b == ShiftSet(SetOf(t[2]), e) c == ShiftSet(SetOf(t[3]), e)
                IN {i \in 1..NP : ~Leq(Abs(Sub(Add(a.p[i], b.p[i]), c.p[i])), Add(TolTri(i), Eps))}
=============================================================================
