---------------------------- MODULE Trace_Coord ----------------------------
(***************************************************************************)
(* Trace validation for C15.  A batch of traces recorded from the real     *)
(* geodepy.coord objects (harness/props/c15.py) is consumed event by       *)
(* event.  Each event names the public method called (the Coord action),   *)
(* its arguments, the observed object (projection alpha) and what the      *)
(* functional API returned for the same inputs.  The expected abstract     *)
(* state is computed by Coord!Post; every clause of the property is a      *)
(* named check evaluated here, on every step of every trace.               *)
(*                                                                         *)
(* Verdicts are total: a step that does not conform makes the trace        *)
(* `dead` and prints <<"FAIL", tid, l, clause>>; a trace consumed to its   *)
(* end prints <<"END", tid>>.                                              *)
(***************************************************************************)
EXTENDS Coord, BigFix, Json, IOUtils, TLC

TrHVals == {0, 3, 7}
Data   == JsonDeserialize(IOEnv.TRACE_FILE)
Traces == Data.traces

VARIABLES tid, l, seen, dead
tvars == <<s, start, h, tid, l, seen, dead>>

T == Traces[tid]

TolM    == Dec(3, 1)        \* 0.3 mm
TolGrid == Dec(31, 2)       \* 0.31 mm  (0.3 mm on the ground x point scale factor <= 1.03)
TolDeg  == Dec(2720, 3)     \* 0.3 mm / 110 574 m per degree = 2.72e-9 deg (generous side)
TolNot  == Dec(27800, 4)    \* 1e-8 arc-second = 2.78e-12 deg

NoSeen == [cart |-> <<>>, geo |-> <<>>, tm |-> <<>>]

HtOK(o, exp) == IF exp = None THEN o[1] = 0
                ELSE o[1] = 1 /\ Within(FromJ(o[2]), FromInt(exp), TolM)

PosClose(form, a, b) ==
  CASE form = "cart" -> \A i \in 1..3 : Within(FromJ(a[i]), FromJ(b[i]), TolM)
    [] form = "geo"  -> /\ Within(FromJ(a[1]), FromJ(b[1]), TolDeg)
                        /\ Leq(Mul(Abs(Sub(FromJ(a[2]), FromJ(b[2]))), FromJ(b[3])), TolDeg)
    [] form = "tm"   -> /\ a[1] = b[1]
                        /\ Within(FromJ(a[2]), FromJ(b[2]), TolGrid)
                        /\ Within(FromJ(a[3]), FromJ(b[3]), TolGrid)

SamePosNotation(a, b) == /\ Within(FromJ(a[1]), FromJ(b[1]), TolNot)
                         /\ Within(FromJ(a[2]), FromJ(b[2]), TolNot)

\* first failing clause of a sequence of <<name, holds>> pairs, "" if none
RECURSIVE FirstFail(_, _)
FirstFail(cs, i) == IF i > Len(cs) THEN "" ELSE IF ~cs[i][2] THEN cs[i][1] ELSE FirstFail(cs, i + 1)

AbstractChecks(obs, e, c) ==
  << <<"form", obs.form = e.form>>,
     <<"notation", obs.notn = e.notn>>,
     <<"ell_ht", HtOK(obs.ell, e.ell)>>,
     <<"orth_ht", HtOK(obs.orth, e.orth)>>,
     <<"nval", HtOK(obs.nval, e.nval)>>,
     <<"projection_label", e.form = "tm" => obs.prjlab = c.p>>,
     <<"hemisphere", e.form = "tm" => obs.hemi = (IF c.north THEN "N" ELSE "S")>> >>

RefPay(ev, pre) == IF ev.a \in {"GeoCart", "TMCart"}
                   THEN (IF pre.ell # None THEN ev.ref.pay_ell ELSE ev.ref.pay_0)
                   ELSE ev.ref.pay

StepChecks(ev, pre, e, c) ==
  LET obs == ev.obs IN
  AbstractChecks(obs, e, c) \o
  << <<"functional", RefPay(ev, pre) = "skip" \/ obs.pay = RefPay(ev, pre)>>,
     <<"position", ev.a = "GeoNotation" => SamePosNotation(ev.prepos, obs.pos)>>,
     <<"closure", seen[e.form] = <<>> \/ PosClose(e.form, seen[e.form], obs.pos)>>,
     \* a conversion returns a NEW object (Coord!Post computes the successor from the source, which stays what it was):
     \* the source observed after the call is bit-identical, and converting it once more gives the same object again
     <<"source_unchanged", ev.srcsame>>,
     <<"same_again_from_the_same_source", ev.again>> >>

Report(clause) == PrintT(<<"FAIL", tid, l, clause>>)

TraceInit == /\ tid \in 1..Len(Traces)
             /\ l = 1 /\ dead = FALSE /\ seen = NoSeen /\ h = <<>>
             /\ s = Traces[tid].start /\ start = s

\* first event: the observation of the freshly constructed start object
ObserveStart ==
  /\ ~dead /\ l = 1 /\ T.ev[1].a = "Init"
  /\ LET ev == T.ev[1] IN
     \E f \in {IF ev.exc # "" THEN "raised" ELSE FirstFail(AbstractChecks(ev.obs, s, T.cfg), 1)} :  \* singleton: evaluated once
        /\ (IF f = "" THEN TRUE ELSE Report("Init." \o f))
        /\ dead' = (f # "")
        /\ seen' = IF f = "" THEN [seen EXCEPT ![s.form] = ev.obs.pos] ELSE seen
  /\ l' = 2 /\ UNCHANGED <<s, start, h, tid>>

\* every later event: one public method call = one Coord action
Call ==
  /\ ~dead /\ l > 1 /\ l <= Len(T.ev)
  /\ LET ev  == T.ev[l]
         lab == <<ev.a, ev.n>>
     IN /\ Enabled(s, lab)                      \* the driver only calls methods the object has
        /\ \E e \in {Post(s, lab)} :
           \E f \in {IF ev.exc # "" THEN "raised" ELSE FirstFail(StepChecks(ev, s, e, T.cfg), 1)} :
              /\ (IF f = "" THEN TRUE ELSE Report(ev.a \o "." \o f))
              /\ dead' = (f # "")
              /\ s' = e
              /\ h' = Append(h, lab)
              /\ seen' = IF f = "" /\ seen[e.form] = <<>> THEN [seen EXCEPT ![e.form] = ev.obs.pos] ELSE seen
  /\ l' = l + 1 /\ UNCHANGED <<start, tid>>

TraceNext == ObserveStart \/ Call
TraceSpec == TraceInit /\ [][TraceNext]_tvars

\* acceptance bookkeeping (a CONSTRAINT that is always TRUE)
Consumed == (~dead /\ l = Len(T.ev) + 1) => PrintT(<<"END", tid>>)

\* the model's own invariants, re-checked on the expected states along real traces
ModelInv == TypeOK /\ HeightsCarried /\ CartStartCarried /\ EllCarried
=============================================================================
