SPECIFICATION PlanSpec
CONSTANT Files = {}
CONSTANT Variant = "ring4"
CONSTANT Fracs = {}
CHECK_DEADLOCK FALSE
