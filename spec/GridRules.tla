------------------------------ MODULE GridRules ------------------------------
(***************************************************************************)
(* The discrete rules and tolerances of the Transverse Mercator grid       *)
(* conversions (no variables): zones and central meridians (incl. ISG      *)
(* codes), hemisphere and false origin, sign of the convergence.           *)
(* A projection is [fe, fn, k0, zw, cm1, isg].  Used by Grid, Mga,         *)
(* GridGeodesic and their trace specifications.                            *)
(***************************************************************************)
EXTENDS BigFix, FiniteSets, Sequences, TLC

(* ------------------------- zones and central meridians ------------------ *)
\* central meridian (whole degrees) of a zone code
CMdeg(prj, zone) ==
  IF prj.isg THEN ((zone \div 10) - 1) * prj.zw * 3 + prj.cm1 + ((zone % 10) - 2) * prj.zw
  ELSE zone * prj.zw + prj.cm1 - prj.zw
ISGCodes == {541, 542, 543, 551, 552, 553, 561, 562, 563, 572}
ValidZone(prj, zone) == IF prj.isg THEN zone \in ISGCodes ELSE zone \in 1..60
\* the automatic zone: its central meridian is within half a zone width of the longitude
\* (on a boundary either neighbour qualifies)
ZoneRule(prj, zone, lon) ==
  /\ ValidZone(prj, zone)
  /\ Leq(MulSmall(Abs(Sub(lon, FromInt(CMdeg(prj, zone)))), 2), FromInt(prj.zw))

\* integer version on a lattice of hundredths of a degree (exhaustive model check)
ZoneRule100(zw, cm1, zone, lon100) ==
  LET cm100 == (zone * zw + cm1 - zw) * 100
      d == IF lon100 >= cm100 THEN lon100 - cm100 ELSE cm100 - lon100
  IN zone \in 1..60 /\ 2 * d <= zw * 100
\* the as-specified automatic zone for a non-ISG projection: zones tile [cm1 - zw/2, ...)
AutoZone100(zw, cm1, lon100) == ((lon100 * 2 - (cm1 * 2 - zw) * 100) \div (zw * 200)) + 1

(* ----------------------- hemisphere and false origin -------------------- *)
HemiOf(lat) == IF lat.neg /\ ~IsZero(lat) THEN "South" ELSE "North"
FNeff(prj, hemi) == IF hemi = "South" THEN prj.fn ELSE Zero
\* northing relative to the equator has the sign of the latitude
NorthSign(prj, hemi, north, lat) ==
  LET d == Sub(north, FNeff(prj, hemi)) IN
  IF IsZero(lat) THEN IsZero(d) ELSE IF lat.neg THEN Sign(d) <= 0 ELSE Sign(d) >= 0

(* -------------------------- convergence sign ---------------------------- *)
\* grid bearing = azimuth + convergence: with dl = lon - CM,  sign(conv) = - sign(dl) * sign(lat)
ConvSign(conv, lat, dl) ==
  IF IsZero(lat) \/ IsZero(dl) THEN TRUE      \* on the axes the value itself is checked (zero)
  ELSE Sign(conv) = 0 \/ Sign(conv) = -(Sign(dl) * Sign(lat))

(* ------------------------------ tolerances ------------------------------ *)
Mm02   == Dec(2, 1)          \* 0.2 mm
Mm04   == Dec(4, 1)          \* 0.4 mm (two 0.2 mm quantities)
Deg2e9 == Dec(2000, 3)       \* 2e-9 deg
Deg1e9 == Dec(1000, 3)       \* 1e-9 deg
Deg1e10 == Dec(100, 3)       \* 1e-10 deg
Psf2e8 == Dec(2, 2)          \* 2e-8
Psf4e8 == Dec(4, 2)
Half4  == Dec(5000, 2)       \* 0.5e-4 m: output rounding of eastings / northings
Half8  == Dec(5001, 3)       \* 0.5e-8 (+) : output rounding of the point scale factor

=============================================================================
