SPECIFICATION Spec
CONSTANT FirstYear = 1900
CONSTANT LastYear = 2100
INVARIANT DoyInRange
INVARIANT LastDayIsYearLen
INVARIANT MonthsOK
CHECK_DEADLOCK FALSE
