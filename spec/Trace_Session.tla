---------------------------- MODULE Trace_Session ----------------------------
(***************************************************************************)
(* Trace validation of cross-module sessions (Session.tla).  One event per *)
(* call: the action label with its argument indices, the observed new      *)
(* value (kind + numbers) and `unchanged`: whether every value already in  *)
(* the driver's workspace is bit-identical after the call.  Clauses:       *)
(*   raised, not_enabled (the call is not one the specification allows     *)
(*   here), kind, notation, immutable, same_denotation (a value denoting   *)
(*   the same point in the same frame and form as an earlier one differs   *)
(*   from it by more than 4 mm / its equivalent in degrees).               *)
(***************************************************************************)
EXTENDS Session, BigFix, Json, IOUtils

Data   == JsonDeserialize(IOEnv.TRACE_FILE)
Traces == Data.traces
TrPoints == {1, 2, 3}
TrSouth == {1, 3}
TrNear == {<<1, 3>>, <<3, 1>>}
VARIABLES tid, l, dead, first
tvars == <<vars, tid, l, dead, first>>
T == Traces[tid]
Report(clause) == PrintT(<<"FAIL", tid, l, clause>>)
J(x) == FromJ(x)
Mm4 == Dec(40, 1)
DegTol == DivSmall(Mm4, 109900)           \* 4 mm in degrees of latitude (largest angle: never a false alarm)

Class(k) == CASE k \in {"geo", "llh"} -> "G" [] k \in {"cart", "xyz"} -> "X" [] k \in {"tm", "grid"} -> "T" [] k = "line" -> "L"
              [] k = "gline" -> "GL"
Key(v) == <<Class(v.k), v.p, v.f, v.foot>>
RECURSIVE Find(_, _, _)
Find(al, key, i) == IF i > Len(al) THEN <<>> ELSE IF al[i][1] = key THEN <<al[i][2]>> ELSE Find(al, key, i + 1)

\* numeric agreement of two observations o, q of the same class
Close(c, foot, o, q) ==
  CASE c = "G" -> /\ Within(J(o.lat), J(q.lat), DegTol)
                  /\ Leq(Mul(Abs(Sub(J(o.lon), J(q.lon))), J(q.cos)), DegTol)
                  /\ (foot \/ ~o.hasht \/ ~q.hasht \/ Within(J(o.h), J(q.h), Mm4))
    [] c = "X" -> Within(J(o.x), J(q.x), Mm4) /\ Within(J(o.y), J(q.y), Mm4) /\ Within(J(o.z), J(q.z), Mm4)
    \* grid coordinates are comparable within one zone only (the grid direct computation answers in the first point's zone)
    [] c = "T" -> o.zone # q.zone \/ (Within(J(o.e), J(q.e), Mm4) /\ Within(J(o.n_), J(q.n_), Mm4))
    [] c = "L" -> Within(J(o.s), J(q.s), Mm4)
    [] c = "GL" -> Within(J(o.s), J(q.s), Mm4)

\* the action of Session the event claims, applied to the specification's workspace
Act(ev) == CASE ev.a = "NewGeo" -> NewGeo(ev.i, ev.n) [] ev.a = "GeoCart" -> GeoCart(ev.i) [] ev.a = "CartGeo" -> CartGeo(ev.i, ev.n)
             [] ev.a = "GeoTM" -> GeoTM(ev.i) [] ev.a = "TMGeo" -> TMGeo(ev.i, ev.n) [] ev.a = "GeoNotation" -> GeoNotation(ev.i, ev.n)
             [] ev.a = "Tuple" -> Tuple(ev.i) [] ev.a = "F_llh2xyz" -> F_llh2xyz(ev.i) [] ev.a = "F_xyz2llh" -> F_xyz2llh(ev.i)
             [] ev.a = "F_geo2grid" -> F_geo2grid(ev.i) [] ev.a = "F_grid2geo" -> F_grid2geo(ev.i)
             [] ev.a = "Inverse" -> Inverse(ev.i, ev.j) [] ev.a = "Direct" -> Direct(ev.i, ev.j)
             [] ev.a = "To94" -> To94(ev.i) [] ev.a = "To2020" -> To2020(ev.i)
             [] ev.a = "ToAtrf" -> ToAtrf(ev.i) [] ev.a = "FromAtrf" -> FromAtrf(ev.i)
             [] ev.a = "MgaTo94" -> MgaTo94(ev.i) [] ev.a = "MgaTo2020" -> MgaTo2020(ev.i)
             [] ev.a = "GridInverse" -> GridInverse(ev.i, ev.j) [] ev.a = "GridDirect" -> GridDirect(ev.i, ev.j)

TraceInit == tid \in 1..Len(Traces) /\ l = 1 /\ dead = FALSE /\ first = <<>> /\ ws = <<>> /\ hist = <<>>

Step == /\ ~dead /\ l <= Len(T.ev)
        /\ LET ev == T.ev[l] IN
           IF ~ENABLED Act(ev) THEN Report(ev.a \o ".not_enabled") /\ dead' = TRUE /\ UNCHANGED <<vars, first>>
           ELSE /\ Act(ev)
                /\ LET v == ws'[Len(ws')]
                       prev == Find(first, Key(v), 1)
                   IN \E f \in {IF ev.exc # "" THEN "raised"
                                ELSE IF ev.obs.k # v.k THEN "kind"
                                ELSE IF v.k = "geo" /\ ev.obs.n # v.n THEN "notation"
                                ELSE IF ~ev.unchanged THEN "immutable"
                                ELSE IF prev # <<>> /\ ~Close(Class(v.k), v.foot, ev.obs, prev[1]) THEN "same_denotation"
                                ELSE ""} :
                        /\ (IF f = "" THEN TRUE ELSE Report(ev.a \o "." \o f))
                        /\ dead' = (f # "")
                        /\ first' = IF prev = <<>> /\ f = "" THEN Append(first, <<Key(v), ev.obs>>) ELSE first
        /\ l' = l + 1 /\ UNCHANGED tid
TraceSpec == TraceInit /\ [][Step]_tvars
Consumed == (~dead /\ l = Len(T.ev) + 1) => PrintT(<<"END", tid>>)
=============================================================================
