INIT Init
NEXT Next
