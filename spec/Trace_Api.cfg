SPECIFICATION TraceSpec
CONSTRAINT Consumed
INVARIANT ModelInv
CHECK_DEADLOCK FALSE
