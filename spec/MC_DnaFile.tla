----------------------------- MODULE MC_DnaFile -----------------------------
EXTENDS DnaFile
\* documents for replay: every behaviour that reaches Read prints its document
Emit == phase = "read" => PrintT(<<"BEH", doc, newline>>)
\* exhaustive run: shapes reduced to their themes (special field 1 or the zone, which touches the latitude)
Reduced == \A i \in 1..Len(doc) : doc[i].special \in {3, 4} /\ doc[i].pid = "short" /\ doc[i].const = "short"
=============================================================================
