------------------------------- MODULE Coord -------------------------------
(***************************************************************************)
(* C15 - coordinate objects (geodepy.coord): CoordCart / CoordGeo /        *)
(* CoordTM as one state machine.  One action per public method.            *)
(*                                                                         *)
(* Abstract state of "the current object":                                 *)
(*   form   "cart" | "geo" | "tm"                                          *)
(*   notn   angle notation of a geo object ("float","dec","hp","gon",      *)
(*          "dms","ddm"), "na" otherwise                                   *)
(*   ell, orth   heights carried by geo / tm objects (None = absent;       *)
(*          0 is a VALUE, not absence)                                     *)
(*   hpos   ellipsoidal height embedded in x,y,z of a cart object          *)
(*   nval   geoid separation carried by a cart object (None = absent)      *)
(* Heights are symbolic small integers (metres); the position itself is    *)
(* not part of the abstract state: no action is allowed to change it, the  *)
(* numerical side of that is checked on observed values in Trace_Coord.    *)
(*                                                                         *)
(* The actions are deterministic, so each is given as a function           *)
(* Post_X(s, args) and the action is  s' = Post_X(s, args).  The trace     *)
(* specification re-uses the same Post_X.                                  *)
(***************************************************************************)
EXTENDS Integers, Sequences, FiniteSets

CONSTANTS HVals      \* symbolic height values, e.g. {0, 3, 7}
None == -9999

Forms == {"cart", "geo", "tm"}
Nots  == {"float", "dec", "hp", "gon", "dms", "ddm"}
Opt   == HVals \cup {None}
NVals == {a - b : a \in HVals, b \in HVals}

VARIABLES s,        \* abstract state of the current object
          start,    \* history: the initial state (read by HeightsCarried)
          h         \* history: sequence of action labels taken so far
vars == <<s, start, h>>

CartState(hp, nv)       == [form |-> "cart", notn |-> "na", ell |-> None, orth |-> None, hpos |-> hp, nval |-> nv]
GeoState(n, e, o)       == [form |-> "geo",  notn |-> n,    ell |-> e,    orth |-> o,    hpos |-> 0,  nval |-> None]
TMState(e, o)           == [form |-> "tm",   notn |-> "na", ell |-> e,    orth |-> o,    hpos |-> 0,  nval |-> None]

StartStates ==
  {CartState(hp, nv) : hp \in HVals, nv \in NVals \cup {None}}
  \cup {GeoState(n, e, o) : n \in Nots, e \in Opt, o \in Opt}
  \cup {TMState(e, o) : e \in Opt, o \in Opt}

(* ------------------------- intended semantics ------------------------- *)
\* CoordGeo.cart(ellipsoid): position from ell (0 m if absent); N = ell - orth iff both present
Post_GeoCart(t) == CartState(IF t.ell = None THEN 0 ELSE t.ell,
                             IF t.ell # None /\ t.orth # None THEN t.ell - t.orth ELSE None)
\* CoordCart.geo(ellipsoid, notation): ell = computed height; orth = ell - N iff N present
Post_CartGeo(t, n) == GeoState(n, t.hpos, IF t.nval # None THEN t.hpos - t.nval ELSE None)
\* CoordGeo.tm(ellipsoid, projection): heights copied unchanged
Post_GeoTM(t) == TMState(t.ell, t.orth)
\* CoordTM.geo(ellipsoid, notation): heights copied unchanged
Post_TMGeo(t, n) == GeoState(n, t.ell, t.orth)
\* CoordGeo.notation(n): only the representation changes (all 36 pairs incl. n = notn)
Post_GeoNotation(t, n) == GeoState(n, t.ell, t.orth)
\* CoordCart.tm = CartGeo ; GeoTM          CoordTM.cart = TMGeo ; GeoCart
Post_CartTM(t) == Post_GeoTM(Post_CartGeo(t, "dec"))
Post_TMCart(t) == Post_GeoCart(Post_TMGeo(t, "dec"))

Labels == {<<"GeoCart", "na">>, <<"CartTM", "na">>, <<"GeoTM", "na">>, <<"TMCart", "na">>}
          \cup {<<a, n>> : a \in {"CartGeo", "TMGeo", "GeoNotation"}, n \in Nots}

Enabled(t, lab) == CASE lab[1] \in {"GeoCart", "GeoTM", "GeoNotation"} -> t.form = "geo"
                     [] lab[1] \in {"CartGeo", "CartTM"}               -> t.form = "cart"
                     [] lab[1] \in {"TMGeo", "TMCart"}                 -> t.form = "tm"
Post(t, lab) == CASE lab[1] = "GeoCart"     -> Post_GeoCart(t)
                  [] lab[1] = "CartGeo"     -> Post_CartGeo(t, lab[2])
                  [] lab[1] = "GeoTM"       -> Post_GeoTM(t)
                  [] lab[1] = "TMGeo"       -> Post_TMGeo(t, lab[2])
                  [] lab[1] = "GeoNotation" -> Post_GeoNotation(t, lab[2])
                  [] lab[1] = "CartTM"      -> Post_CartTM(t)
                  [] lab[1] = "TMCart"      -> Post_TMCart(t)

Step(lab) == /\ Enabled(s, lab)
             /\ s' = Post(s, lab)
             /\ h' = Append(h, lab)
             /\ UNCHANGED start

GeoCart        == Step(<<"GeoCart", "na">>)
GeoTM          == Step(<<"GeoTM", "na">>)
CartTM         == Step(<<"CartTM", "na">>)
TMCart         == Step(<<"TMCart", "na">>)
CartGeo        == \E n \in Nots : Step(<<"CartGeo", n>>)
TMGeo          == \E n \in Nots : Step(<<"TMGeo", n>>)
GeoNotation    == \E n \in Nots : Step(<<"GeoNotation", n>>)

Init == s \in StartStates /\ start = s /\ h = <<>>
Next == GeoCart \/ GeoTM \/ CartTM \/ TMCart \/ CartGeo \/ TMGeo \/ GeoNotation
Spec == Init /\ [][Next]_vars

(* ------------------------------ properties ----------------------------- *)
TypeOK == /\ s.form \in Forms
          /\ (s.form = "geo" => s.notn \in Nots) /\ (s.form # "geo" => s.notn = "na")
          /\ (s.form = "cart" => s.ell = None /\ s.orth = None)
          /\ (s.form # "cart" => s.nval = None /\ s.hpos = 0)

\* "Heights travel with the point": a start with both heights sees them again, unchanged, in
\* every later geo / tm state, and hpos = ell, N = ell - orth in every cart state.
BothAtStart == start.form # "cart" /\ start.ell # None /\ start.orth # None
HeightsCarried ==
  BothAtStart => /\ (s.form # "cart" => s.ell = start.ell /\ s.orth = start.orth)
                 /\ (s.form = "cart" => s.hpos = start.ell /\ s.nval = start.ell - start.orth)
\* a cart start with N present: every geo/tm state has both heights and ell - orth = N
CartStartCarried ==
  (start.form = "cart" /\ start.nval # None) =>
     /\ (s.form # "cart" => s.ell = start.hpos /\ s.orth = start.hpos - start.nval)
     /\ (s.form = "cart" => s.hpos = start.hpos /\ s.nval = start.nval)
\* an ellipsoidal height alone is never lost nor invented
EllCarried ==
  (start.form # "cart" /\ start.ell # None) => (IF s.form = "cart" THEN s.hpos = start.ell ELSE s.ell = start.ell)
\* absent heights are never invented by geo <-> tm / notation steps (action property)
ZeroIsAValue == [][(s.form # "cart" /\ s'.form # "cart") => (s'.ell = s.ell /\ s'.orth = s.orth)]_vars
\* N relation in every conversion to Cartesian form
NRelation == [][(s.form # "cart" /\ s'.form = "cart") =>
                   (s'.nval = IF s.ell # None /\ s.orth # None THEN s.ell - s.orth ELSE None)]_vars
\* composites equal their definition
CompositesAgree ==
  /\ (s.form = "cart" => Post_CartTM(s) = Post_GeoTM(Post_CartGeo(s, "hp")))
  /\ (s.form = "tm"   => Post_TMCart(s) = Post_GeoCart(Post_TMGeo(s, "float")))
\* notation change is idempotent and forgets nothing
NotationOnly ==
  s.form = "geo" => \A n \in Nots : LET t == Post_GeoNotation(s, n)
                                    IN t.ell = s.ell /\ t.orth = s.orth /\ Post_GeoNotation(t, s.notn) = s
=============================================================================
