-------------------------------- MODULE NTv2 --------------------------------
(***************************************************************************)
(* C17 - NTv2 grid-shift files (geodepy.ntv2reader, transform.ntv2_2d).    *)
(*                                                                         *)
(* An abstract file is  [hdr |-> ..., subs |-> <<sub_1, ..., sub_n>>];  a  *)
(* sub-grid is a record of INTEGERS                                        *)
(*   name, parent                      strings                             *)
(*   s, n, e, w     extents, unit 0.001 arc-second; longitudes are         *)
(*                  POSITIVE WEST (e < w), as stored in the file           *)
(*   dlat, dlon     increments, unit 0.001" (dlatu/dlonu: extra 1e-6")     *)
(*   rows, cols     node counts; row 0 = south edge, column 0 = EAST edge   *)
(*   sh, coef       the four fields are polynomials with integer           *)
(*                  coefficients over the node indices:                    *)
(*                  value_f(row, col) = SUM coef[f][i+1][j+1] col^i row^j  *)
(*                  / 2^sh   (i, j <= 2: bi-quadratic at most; exactly     *)
(*                  representable in a 32-bit float by construction)       *)
(* and the file also has the flat view the reader walks over: 16-byte      *)
(* records, 11 overview records, then per sub-grid 11 header records and   *)
(* rows*cols node records.                                                 *)
(*                                                                         *)
(* A query position is given relative to a reference sub-grid g:           *)
(*   q = [g, r, c, xn, yn]  lat = s_g + (r + yn*1e-8) dlat_g               *)
(*                          lon = e_g + (c + xn*1e-8) dlon_g  (pos. west)  *)
(* r in -1..rows-1, c in -1..cols-1, 0 <= xn, yn < 10^8: positions on      *)
(* nodes, edges, inside cells, and 1e-8 of a cell inside / outside every   *)
(* extent.  All geometry is exact BigFix arithmetic in arc-seconds.        *)
(*                                                                         *)
(* Contents: geometry and sub-grid choice; node addressing (records);      *)
(* allowed nodes; the cursor model of the reader (as shipped: "orig",      *)
(* as repaired: "ring4"); the exact expected values (blend of the four     *)
(* enclosing nodes, value of the polynomial field) and the property's      *)
(* tolerance; the state machine  ReadFile / Interpolate / Transform2D.     *)
(***************************************************************************)
EXTENDS BigFix, FiniteSets, TLC

(* ------------------------------ geometry ------------------------------- *)
AbsI(k) == IF k < 0 THEN -k ELSE k
\* 0.001" integer (|m| < 2^31) -> arc-seconds
FromMilli(m) == LET a == AbsI(m) IN Mk(m < 0, Add(FromInt(a \div 1000), Dec((a % 1000) * 10, 1)).mag)
Frac8(k) == Dec(k, 2)                               \* k * 1e-8, 0 <= k < 10^8

SG(F, g) == F.subs[g]
NSub(F) == Len(F.subs)

QLat(F, q) == Add(FromMilli(SG(F, q.g).s + q.r * SG(F, q.g).dlat), Mul(Frac8(q.yn), FromMilli(SG(F, q.g).dlat)))
QLon(F, q) == Add(FromMilli(SG(F, q.g).e + q.c * SG(F, q.g).dlon), Mul(Frac8(q.xn), FromMilli(SG(F, q.g).dlon)))

\* position of a coordinate relative to a closed interval [lo, hi]: "in" (strictly), "edge", "out"
St1(v, lo, hi) == IF Lt(v, lo) \/ Gt(v, hi) THEN "out"
                  ELSE IF Eq(v, lo) \/ Eq(v, hi) THEN "edge" ELSE "in"
Status(S, lat, lon) ==
  LET a == St1(lat, FromMilli(S.s), FromMilli(S.n))
      b == St1(lon, FromMilli(S.e), FromMilli(S.w))
  IN IF a = "out" \/ b = "out" THEN "out" ELSE IF a = "in" /\ b = "in" THEN "in" ELSE "edge"

\* "where sub-grids overlap the one with the finest spacing is used"; equal spacing: any of them
Finest(F, set) == {h \in set : \A k \in set : SG(F, h).dlat <= SG(F, k).dlat}
\* Candidate sub-grids for a position (0 = none).  A position exactly ON an extent line belongs to the
\* closed extents but a double cannot be told from its neighbours there: every way of counting the
\* "edge" sub-grids in or out is accepted.
CandsOf(F, st) ==
  LET In == {h \in 1..NSub(F) : st[h] = "in"}
      Ed == {h \in 1..NSub(F) : st[h] = "edge"}
  IN UNION {IF In \cup E = {} THEN {0} ELSE Finest(F, In \cup E) : E \in SUBSET Ed}
StatusVec(F, lat, lon) == [h \in 1..NSub(F) |-> Status(SG(F, h), lat, lon)]
\* (set comprehension over a singleton: the position is evaluated once)
Cands(F, q) == UNION {CandsOf(F, StatusVec(F, ll[1], ll[2])) : ll \in {<<QLat(F, q), QLon(F, q)>>}}

\* (v - lo) / d in cells, d in 0.001": exact when the quotient is an integer, else truncated at 1e-20
\* (requires d < 200000 or d a multiple of 100)
InCells(v, loM, d) == IF d % 100 = 0 THEN DivSmall(MulSmall(Sub(v, FromMilli(loM)), 10), d \div 100)
                      ELSE DivSmall(MulSmall(Sub(v, FromMilli(loM)), 1000), d)
ClipI(k, lo, hi) == IF k < lo THEN lo ELSE IF k > hi THEN hi ELSE k

\* cell of sub-grid h that holds the position, with the cell-local coordinates x (towards WEST, column
\* index growing) and y (towards north):  [row, col, x, y];  a position on the north / west extent line is
\* given to the last cell with local coordinate 1
Locate(F, h, lat, lon) ==
  LET S  == SG(F, h)
      ty == InCells(lat, S.s, S.dlat)
      tx == InCells(lon, S.e, S.dlon)
      r  == ClipI(IntPart(ty), 0, S.rows - 2)
      c  == ClipI(IntPart(tx), 0, S.cols - 2)
  IN [row |-> r, col |-> c, x |-> Sub(tx, FromInt(c)), y |-> Sub(ty, FromInt(r))]
\* when the reference sub-grid is the chosen one the location is known without division
LocateOwn(F, q) ==
  LET S == SG(F, q.g)
      r == ClipI(q.r, 0, S.rows - 2)
      c == ClipI(q.c, 0, S.cols - 2)
  IN [row |-> r, col |-> c, x |-> Add(Frac8(q.xn), FromInt(q.c - c)), y |-> Add(Frac8(q.yn), FromInt(q.r - r))]
Loc(F, q, h) == IF h = q.g /\ q.r >= 0 /\ q.c >= 0 THEN LocateOwn(F, q) ELSE Locate(F, h, QLat(F, q), QLon(F, q))

\* cells touched by a position: a position exactly on a grid line touches the cells on both sides
TouchRows(S, p) == {p.row} \cup (IF IsZero(p.y) /\ p.row > 0 THEN {p.row - 1} ELSE {})
                           \cup (IF Eq(p.y, One) /\ p.row < S.rows - 2 THEN {p.row + 1} ELSE {})
TouchCols(S, p) == {p.col} \cup (IF IsZero(p.x) /\ p.col > 0 THEN {p.col - 1} ELSE {})
                           \cup (IF Eq(p.x, One) /\ p.col < S.cols - 2 THEN {p.col + 1} ELSE {})
RingCell(S, r, c) == r = 0 \/ c = 0 \/ r = S.rows - 2 \/ c = S.cols - 2       \* outermost ring of cells
Touched(S, p) == TouchRows(S, p) \X TouchCols(S, p)
RingClass(S, p) == LET t == Touched(S, p)
                   IN IF \A rc \in t : RingCell(S, rc[1], rc[2]) THEN "outer"
                      ELSE IF \A rc \in t : ~RingCell(S, rc[1], rc[2]) THEN "inner" ELSE "mixed"
AtNode(p) == (IsZero(p.x) \/ Eq(p.x, One)) /\ (IsZero(p.y) \/ Eq(p.y, One))

(* --------------------------- flat record view -------------------------- *)
Count(F, k) == SG(F, k).rows * SG(F, k).cols
RECURSIVE Before(_, _)
Before(F, k) == IF k = 1 THEN 11 ELSE Before(F, k - 1) + 11 + Count(F, k - 1)   \* records before sub-grid k's header
NodeBase(F, k) == Before(F, k) + 11
NodeRec(F, k, r, c) == NodeBase(F, k) + r * SG(F, k).cols + c
OwnNodes(F, k) == NodeBase(F, k)..(NodeBase(F, k) + Count(F, k) - 1)
TotalRecs(F) == Before(F, NSub(F)) + 11 + Count(F, NSub(F)) + 1                  \* + END record

\* the nodes a result may depend on: the 4 corners of the cell (bilinear), the 4x4 window around the cell
\* clipped to the sub-grid (bicubic) - always nodes of the chosen sub-grid only
Window(F, k, r, c, m) ==
  LET S == SG(F, k)
      lo == IF m = "bilinear" THEN 0 ELSE -1
      hi == IF m = "bilinear" THEN 1 ELSE 2
  IN {NodeRec(F, k, rr, cc) : rr \in {x \in (r + lo)..(r + hi) : x >= 0 /\ x < S.rows},
                              cc \in {x \in (c + lo)..(c + hi) : x >= 0 /\ x < S.cols}}
Allowed(F, k, p, m) == UNION {Window(F, k, rc[1], rc[2], m) : rc \in Touched(SG(F, k), p)}

(* ---------------------- cursor model of the reader --------------------- *)
\* record offsets (relative to node (0,0) of the chosen sub-grid) visited by ntv2_bilinear / ntv2_bicubic,
\* in reading order.  "orig" = the code as shipped, "ring4" = repaired: the four-node blend in the outer ring.
Off4(n, row, col) == LET p1 == row * n + col IN <<p1, p1 + 1, p1 + n, p1 + n + 1>>
Off16(n, row, col) == LET p5 == row * n + col - n - 1
                      IN <<p5, p5 + 1, p5 + 2, p5 + 3,
                           p5 + n, p5 + n + 1, p5 + n + 2, p5 + n + 3,
                           p5 + 2*n, p5 + 2*n + 1, p5 + 2*n + 2, p5 + 2*n + 3,
                           p5 + 3*n, p5 + 3*n + 1, p5 + 3*n + 2, p5 + 3*n + 3>>
Offsets(variant, S, row, col, m) ==
  IF m = "bilinear" THEN Off4(S.cols, row, col)
  ELSE IF variant = "ring4" /\ RingCell(S, row, col) THEN Off4(S.cols, row, col)
  ELSE Off16(S.cols, row, col)
ReadSeq(variant, F, k, row, col, m) ==
  LET o == Offsets(variant, SG(F, k), row, col, m) IN [i \in 1..Len(o) |-> NodeBase(F, k) + o[i]]

(* --------------------------- expected values --------------------------- *)
Pow2(k) == IF k = 0 THEN 1 ELSE IF k = 1 THEN 2 ELSE IF k = 2 THEN 4 ELSE IF k = 3 THEN 8 ELSE IF k = 4 THEN 16
           ELSE IF k = 5 THEN 32 ELSE IF k = 6 THEN 64 ELSE IF k = 7 THEN 128 ELSE 256
PowI(b, k) == IF k = 0 THEN 1 ELSE IF k = 1 THEN b ELSE b * b
A(S, f, i, j) == S.coef[f][i + 1][j + 1]
\* integer numerator of the node value
NodeInt(S, f, r, c) == LET t == [i \in 0..2 |-> [j \in 0..2 |-> A(S, f, i, j) * PowI(c, i) * PowI(r, j)]]
                       IN t[0][0] + t[0][1] + t[0][2] + t[1][0] + t[1][1] + t[1][2] + t[2][0] + t[2][1] + t[2][2]
Scale(S, v) == IF S.sh = 0 THEN v ELSE DivSmall(v, Pow2(S.sh))
NodeVal(S, f, r, c) == Scale(S, FromInt(NodeInt(S, f, r, c)))
MulI(v, k) == IF AbsI(k) < 200000 THEN MulSmall(v, k) ELSE Mul(v, FromInt(k))

\* "bilinear interpolation is the exact bilinear blend of the four enclosing nodes"
\*  n1 = (row, col)  n2 = (row, col+1)  n3 = (row+1, col)  n4 = (row+1, col+1);   xy = x*y
BlendI(n1, n2, n3, n4, x, y, xy) ==
  Add(Add(FromInt(n1), MulI(x, n2 - n1)), Add(MulI(y, n3 - n1), MulI(xy, n1 + n4 - n2 - n3)))
Blend(S, f, p, xy) == Scale(S, BlendI(NodeInt(S, f, p.row, p.col), NodeInt(S, f, p.row, p.col + 1),
                                      NodeInt(S, f, p.row + 1, p.col), NodeInt(S, f, p.row + 1, p.col + 1),
                                      p.x, p.y, xy))

\* the polynomial re-expanded about the cell corner (col, row):  SUM L[i][j] x^i y^j  (integers)
Binom(k, i) == IF i = 0 \/ i = k THEN 1 ELSE 2          \* k <= 2, 0 <= i <= k
LocalCoef(S, f, r, c) ==
  [i \in 0..2 |-> [j \in 0..2 |->
     LET t == [k \in i..2 |-> [l \in j..2 |-> A(S, f, k, l) * Binom(k, i) * Binom(l, j) * PowI(c, k - i) * PowI(r, l - j)]]
         row(k) == IF j = 0 THEN t[k][0] + t[k][1] + t[k][2] ELSE IF j = 1 THEN t[k][1] + t[k][2] ELSE t[k][2]
     IN IF i = 0 THEN row(0) + row(1) + row(2) ELSE IF i = 1 THEN row(1) + row(2) ELSE row(2)]]
\* monomials x^i y^j of the cell-local coordinates, computed once per position
Monos(x, y) == LET x2 == Mul(x, x) y2 == Mul(y, y) xy == Mul(x, y)
               IN [i \in 0..2 |-> [j \in 0..2 |->
                     IF i = 0 THEN (IF j = 0 THEN One ELSE IF j = 1 THEN y ELSE y2)
                     ELSE IF i = 1 THEN (IF j = 0 THEN x ELSE IF j = 1 THEN xy ELSE Mul(x, y2))
                     ELSE (IF j = 0 THEN x2 ELSE IF j = 1 THEN Mul(x2, y) ELSE Mul(x2, y2))]]
PolyL(S, L, mo) == Scale(S, Sum(<<FromInt(L[0][0]), MulI(mo[0][1], L[0][1]), MulI(mo[0][2], L[0][2]),
                                  MulI(mo[1][0], L[1][0]), MulI(mo[1][1], L[1][1]), MulI(mo[1][2], L[1][2]),
                                  MulI(mo[2][0], L[2][0]), MulI(mo[2][1], L[2][1]), MulI(mo[2][2], L[2][2])>>))

\* "within 1e-6 of the field unit plus 1e-6 of the field's change across one cell".  The change across the
\* cell is taken on the generous side: the bound  SUM (i+j) |L[i][j]|  on |df/dx| + |df/dy| over the cell
\* (cell units), never smaller than the difference between two corners of the cell.
ChangeI(L) == AbsI(L[0][1]) + AbsI(L[1][0]) + 2 * (AbsI(L[1][1]) + AbsI(L[0][2]) + AbsI(L[2][0]))
              + 3 * (AbsI(L[1][2]) + AbsI(L[2][1])) + 4 * AbsI(L[2][2])
Micro == Dec(100, 2)                                  \* 1e-6
Tol(S, L) == Add(Micro, Scale(S, MulI(Micro, ChangeI(L))))

\* class of a field: "linear" (in latitude and longitude), else "biquadratic"
Degree(S, f) == IF \A i \in 0..2, j \in 0..2 : (i + j >= 2) => A(S, f, i, j) = 0 THEN 1 ELSE 2

(* ---------------------------- state machine ---------------------------- *)
\* One action per public call: read_ntv2_file, interpolate_ntv2 (linearised into the choice of the
\* sub-grid and cell, the node reads of the cursor, the return), ntv2_2d (the same, raising outside).
CONSTANTS Files,      \* set of abstract files explored
          Variant,    \* cursor model: "orig" (as shipped) | "ring4" (outer ring falls back to four nodes)
          Fracs       \* cell fractions (units 1e-8) of the query lattice
VARIABLES file, phase, call, qq, method, tgt, cell, reads, res
vars == <<file, phase, call, qq, method, tgt, cell, reads, res>>
Methods == {"bilinear", "bicubic"}
NoQ == [g |-> 0, r |-> 0, c |-> 0, xn |-> 0, yn |-> 0]
NoCell == [row |-> 0, col |-> 0]
Queries(F) == UNION {{[g |-> g, r |-> r, c |-> c, xn |-> xn, yn |-> yn] :
                        r \in -1..(SG(F, g).rows - 1), c \in -1..(SG(F, g).cols - 1), xn \in Fracs, yn \in Fracs} :
                     g \in 1..NSub(F)}
Init == /\ file \in Files /\ phase = "closed" /\ call = "" /\ qq = NoQ /\ method = "" /\ tgt = 0
        /\ cell = NoCell /\ reads = <<>> /\ res = ""
ReadFile == /\ phase = "closed" /\ phase' = "open"
            /\ UNCHANGED <<file, call, qq, method, tgt, cell, reads, res>>
\* the caller fixes a position (no library code runs)
Choose == /\ phase = "open" /\ phase' = "chosen" /\ qq' \in Queries(file)
          /\ UNCHANGED <<file, call, method, tgt, cell, reads, res>>
Begin(kind, q, m) ==
  /\ phase = "chosen" /\ call' = kind /\ qq' = q /\ method' = m /\ reads' = <<>>
  /\ \E h \in Cands(file, q) :
        /\ tgt' = h
        /\ IF h = 0 THEN /\ res' = (IF kind = "t2d" THEN "raised" ELSE "none")
                         /\ phase' = "done" /\ cell' = NoCell
           ELSE /\ res' = "" /\ phase' = "reading"
                /\ \E p \in {Loc(file, q, h)} : \E rc \in Touched(SG(file, h), p) :
                      cell' = [row |-> rc[1], col |-> rc[2]]
  /\ UNCHANGED file
Interpolate == /\ call = ""
               /\ \E m \in Methods : Begin("interp", qq, m)
Transform2D == /\ call = ""
               /\ \E m \in Methods : Begin("t2d", qq, m)
Plan == ReadSeq(Variant, file, tgt, cell.row, cell.col, method)
ReadNode == /\ phase = "reading" /\ Len(reads) < Len(Plan)
            /\ reads' = Append(reads, Plan[Len(reads) + 1])
            /\ UNCHANGED <<file, phase, call, qq, method, tgt, cell, res>>
Return == /\ phase = "reading" /\ Len(reads) = Len(Plan)
          /\ phase' = "done" /\ res' = "value"
          /\ UNCHANGED <<file, call, qq, method, tgt, cell, reads>>
\* the call has returned: the grid object is unchanged and ready for the next call (no state is kept)
Forget == /\ phase = "done" /\ phase' = "open" /\ call' = "" /\ qq' = NoQ /\ method' = "" /\ tgt' = 0
          /\ cell' = NoCell /\ reads' = <<>> /\ res' = "" /\ UNCHANGED file
Next == ReadFile \/ Choose \/ Interpolate \/ Transform2D \/ ReadNode \/ Return \/ Forget
Spec == Init /\ [][Next]_vars

(* ------------------------------ properties ----------------------------- *)
TypeOK == /\ phase \in {"closed", "open", "chosen", "reading", "done"} /\ call \in {"", "interp", "t2d"}
          /\ tgt \in 0..NSub(file) /\ res \in {"", "none", "raised", "value"}
\* "computed only from that sub-grid's own nodes ..."
ReadsOwnNodes == \A k \in 1..Len(reads) : reads[k] \in OwnNodes(file, tgt)
\* "... around the position": inside the 2x2 / clipped 4x4 window of the cell (no wrap-around into another row)
ReadsAroundPosition == \A k \in 1..Len(reads) : reads[k] \in Window(file, tgt, cell.row, cell.col, method)
\* outside every sub-grid nothing is read, interpolate returns no value and the 2-D transformation raises
OutsideNoValue == (call # "" /\ tgt = 0) => /\ reads = <<>>
                                            /\ res = (IF call = "t2d" THEN "raised" ELSE "none")
\* a value is returned only inside a sub-grid and only from a complete stencil
ValueOnlyInside == res = "value" => tgt # 0 /\ Len(reads) = Len(Plan)
\* the finest-spacing rule picks the innermost sub-grid of a nested family: no child of the chosen
\* sub-grid contains the position strictly
FinestIsDeepest ==
  (phase = "reading" /\ reads = <<>>) =>          \* evaluated once per call, right after the choice
     \A k \in 1..NSub(file) : SG(file, k).parent = SG(file, tgt).name =>
        Status(SG(file, k), QLat(file, qq), QLon(file, qq)) # "in"
\* the two oracles agree where both apply: the blend reproduces fields of degree <= (1,1) and node values
OraclesAgree ==
  (phase = "reading" /\ reads = <<>>) =>
     \E p \in {Loc(file, qq, tgt)} : \E S \in {SG(file, tgt)} : \E mo \in {Monos(p.x, p.y)} :
        \A f \in 1..4 :
           \E L \in {LocalCoef(S, f, p.row, p.col)} :
              /\ (L[2][0] = 0 /\ L[0][2] = 0 /\ L[2][1] = 0 /\ L[1][2] = 0 /\ L[2][2] = 0)
                    => Within(Blend(S, f, p, mo[1][1]), PolyL(S, L, mo), Dec(1, 4))
              /\ AtNode(p) => \E r \in {p.row + IntPart(p.y)} : \E c \in {p.col + IntPart(p.x)} :
                                 /\ Within(PolyL(S, L, mo), NodeVal(S, f, r, c), Dec(1, 4))
                                 /\ Within(Blend(S, f, p, mo[1][1]), NodeVal(S, f, r, c), Dec(1, 4))
=============================================================================
