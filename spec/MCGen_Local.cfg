SPECIFICATION Spec
CONSTANT Lats <- MCLats
CONSTANT Lons <- MCLons
CONSTANT Vecs <- MCVecs
CONSTANT Vcvs <- MCVcvs
CONSTANT Cols <- MCCols
CONSTANT Pairs <- MCPairs
CONSTANT KArgs <- MCKArgs
CONSTANT D = 2
CONSTRAINT Bound
CHECK_DEADLOCK FALSE
