----------------------------- MODULE AnglesExpr -----------------------------
(***************************************************************************)
(* C12 - arithmetic and comparison of angle objects (geodepy.angles).      *)
(*                                                                         *)
(* A stack machine: Push puts an angle object (class, value) on the stack, *)
(* every operator of the five classes is one instruction.  Values are      *)
(* exact decimal degrees (BigFix).  The intended semantics, straight from  *)
(* the property: an operator returns what the same operation gives on the  *)
(* operands' decimal-degree values, a binary operation returns the class   *)
(* of its LEFT operand, rounding moves the value by at most half a unit of *)
(* the rounded field, comparisons return the Boolean of the decimal-degree *)
(* values.  Programs (instruction sequences) are expression trees in       *)
(* postfix form.                                                           *)
(***************************************************************************)
EXTENDS BigFix, Sequences, FiniteSets, TLC

Classes == {"DECAngle", "HPAngle", "GONAngle", "DMSAngle", "DDMAngle"}
BinOps  == {"Add", "Sub"}
UnOps   == {"Neg", "Abs"}
ScalOps == {"MulK", "RMulK", "DivK"}
CmpOps  == {"Eq", "Ne", "Lt", "Gt"}
HasMod(c)   == c \in {"DMSAngle", "DDMAngle"}
HasRound(c) == c \in {"DECAngle", "GONAngle", "DMSAngle", "DDMAngle"}

(* ------------------------------ values --------------------------------- *)
\* floor(a / k) for 0 < k < 200000 (k in whole degrees), a in degrees, |a/k| < 2^31
FloorDiv(a, k) == LET q == IntPart(DivSmall(a, k))          \* truncated toward zero
                  IN IF a.neg /\ ~Eq(MulSmall(FromInt(q), k), a) THEN q - 1 ELSE q
ModK(a, k) == Sub(a, MulSmall(FromInt(FloorDiv(a, k)), k))   \* Python float % : sign of the divisor (k > 0)

BinVal(op, a, b) == IF op = "Add" THEN Add(a, b) ELSE Sub(a, b)
UnVal(op, a)     == IF op = "Neg" THEN Neg(a) ELSE Abs(a)
ScalVal(op, a, k) == IF op = "DivK" THEN DivSmall(MulSmall(a, IF k < 0 THEN -1 ELSE 1), IF k < 0 THEN -k ELSE k)
                     ELSE MulSmall(a, k)
CmpVal(op, a, b) == CASE op = "Eq" -> Eq(a, b) [] op = "Ne" -> ~Eq(a, b) [] op = "Lt" -> Lt(a, b) [] op = "Gt" -> Gt(a, b)

\* half a unit of the n-th place of the rounded field, in degrees (n in 0..6)
Pow10(n) == CASE n = 0 -> 1 [] n = 1 -> 10 [] n = 2 -> 100 [] n = 3 -> 1000 [] n = 4 -> 10000 [] n = 5 -> 100000 [] n = 6 -> 1000000
HalfUnit(cls, n) ==
  CASE cls = "DECAngle" -> DivSmall(FromRat(1, 2), Pow10(n))                       \* degrees
    [] cls = "GONAngle" -> DivSmall(FromRat(9, 20), Pow10(n))                      \* 0.5 gon = 0.45 deg
    [] cls = "DMSAngle" -> DivSmall(DivSmall(FromRat(1, 2), 3600), Pow10(n))       \* 0.5 arc-second
    [] cls = "DDMAngle" -> DivSmall(DivSmall(FromRat(1, 2), 60), Pow10(n))         \* 0.5 arc-minute

Tol == Dec(27778, 4)            \* 1e-8 arc-second = 2.7778e-12 degrees
Lim == FromInt(720)
InDomain(v) == Leq(Abs(v), Lim)

(* --------------------------- the stack machine -------------------------- *)
\* model-level values are whole multiples of 30 arc-minutes: v = half-degrees as an integer
CONSTANTS Leaves,        \* e.g. {-3, 0, 1, 2}  (half degrees)
          ModelClasses,  \* classes the model pushes
          MaxLen
VARIABLES stack,       \* sequence of [cls, v]
          prog,        \* history: the instructions executed (the program)
          cmp          \* "" or the result of the comparison that ended the program
vars == <<stack, prog, cmp>>
Top(n) == stack[Len(stack) + 1 - n]
Pop(n) == SubSeq(stack, 1, Len(stack) - n)
Running == cmp = "" /\ Len(prog) < MaxLen

Push(c, v) == /\ Running /\ Len(stack) < 3
              /\ stack' = Append(stack, [cls |-> c, v |-> v]) /\ prog' = Append(prog, <<"Push", c, v>>) /\ UNCHANGED cmp
Bin(op) == /\ Running /\ Len(stack) >= 2
           /\ stack' = Append(Pop(2), [cls |-> Top(2).cls,                           \* class of the LEFT operand
                                       v |-> IF op = "Add" THEN Top(2).v + Top(1).v ELSE Top(2).v - Top(1).v])
           /\ prog' = Append(prog, <<op, "", 0>>) /\ UNCHANGED cmp
Un(op) == /\ Running /\ Len(stack) >= 1
          /\ stack' = Append(Pop(1), [cls |-> Top(1).cls,
                                      v |-> IF op = "Neg" THEN -Top(1).v ELSE IF Top(1).v < 0 THEN -Top(1).v ELSE Top(1).v])
          /\ prog' = Append(prog, <<op, "", 0>>) /\ UNCHANGED cmp
Scal(op, k) == /\ Running /\ Len(stack) >= 1 /\ (op = "DivK" => Top(1).v % k = 0)
               /\ stack' = Append(Pop(1), [cls |-> Top(1).cls, v |-> IF op = "DivK" THEN Top(1).v \div k ELSE Top(1).v * k])
               /\ prog' = Append(prog, <<op, "", k>>) /\ UNCHANGED cmp
ModStep(k) == /\ Running /\ Len(stack) >= 1 /\ HasMod(Top(1).cls)
          /\ stack' = Append(Pop(1), [cls |-> Top(1).cls, v |-> Top(1).v % (2 * k)])
          /\ prog' = Append(prog, <<"ModK", "", k>>) /\ UNCHANGED cmp
RoundStep(n) == /\ Running /\ Len(stack) >= 1 /\ HasRound(Top(1).cls)
            /\ stack' = stack /\ prog' = Append(prog, <<"Round", "", n>>) /\ UNCHANGED cmp     \* half degrees are unchanged at n >= 1
Compare(op) == /\ Running /\ Len(stack) = 2
           /\ cmp' = (CASE op = "Eq" -> IF Top(2).v = Top(1).v THEN "T" ELSE "F"
                        [] op = "Ne" -> IF Top(2).v # Top(1).v THEN "T" ELSE "F"
                        [] op = "Lt" -> IF Top(2).v < Top(1).v THEN "T" ELSE "F"
                        [] op = "Gt" -> IF Top(2).v > Top(1).v THEN "T" ELSE "F")
           /\ stack' = <<>> /\ prog' = Append(prog, <<op, "", 0>>)

Init == stack = <<>> /\ prog = <<>> /\ cmp = ""
Next == \/ \E c \in ModelClasses, v \in Leaves : Push(c, v)
        \/ \E op \in BinOps : Bin(op)
        \/ \E op \in UnOps : Un(op)
        \/ \E k \in {2, 3} : Scal("MulK", k) \/ Scal("RMulK", k) \/ Scal("DivK", k)
        \/ \E k \in {90, 360} : ModStep(k)
        \/ \E n \in {0, 3} : RoundStep(n)
        \/ \E op \in CmpOps : Compare(op)
Spec == Init /\ [][Next]_vars

\* guard of the property: intermediate magnitudes stay below 720 degrees (1440 half degrees)
Magnitude == \A i \in 1..Len(stack) : stack[i].v <= 1440 /\ stack[i].v >= -1440
=============================================================================
