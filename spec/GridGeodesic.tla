---------------------------- MODULE GridGeodesic ----------------------------
(***************************************************************************)
(* C14 - geodesic computations on grid coordinates (geodepy.geodesy        *)
(* vincinv_utm / vincdir_utm / line_sf).                                   *)
(*                                                                         *)
(* InvUTM is the behaviour  Grid2Geo(pt1); Grid2Geo(pt2); Inverse; LineSF  *)
(* with  grid distance = ellipsoidal distance * line scale factor  and     *)
(* grid bearing_i = azimuth_i + convergence_i  (each in its own zone).     *)
(* DirUTM is an ITERATION: Grid2Geo; repeat { Direct(dist / lsf);          *)
(* Geo2Grid(zone 1); LineSF } until the line scale factor moves by no more *)
(* than 1e-9; Grid2Geo(pt2).  The model abstracts the change of the line   *)
(* scale factor by its decimal exponent: the first estimate is good to     *)
(* 1e-3 or better and every pass gains at least three digits (assumption   *)
(* recorded; the observed number of passes is reported as evidence), so    *)
(* the loop terminates (liveness under weak fairness).                     *)
(***************************************************************************)
EXTENDS Integers, Sequences

VARIABLES mode,   \* "inv" | "dir"
          pc,     \* step of the behaviour
          digits, \* dir: number of correct digits of the line scale factor estimate
          passes  \* dir: passes of the loop so far
vars == <<mode, pc, digits, passes>>

Init == /\ mode \in {"inv", "dir"} /\ pc = "start" /\ passes = 0
        /\ digits \in 3..9                           \* quality of the first (straight-line) estimate
InvSteps == <<"start", "geo1", "geo2", "inverse", "linesf", "done">>
NextOf(s) == CHOOSE i \in 1..5 : InvSteps[i] = s
InvStep == /\ mode = "inv" /\ pc # "done"
           /\ pc' = InvSteps[NextOf(pc) + 1] /\ UNCHANGED <<mode, digits, passes>>
DirStart == mode = "dir" /\ pc = "start" /\ pc' = "loop" /\ UNCHANGED <<mode, digits, passes>>
DirPass == /\ mode = "dir" /\ pc = "loop"
           /\ passes' = passes + 1
           /\ \E gain \in 3..6 : digits' = digits + gain          \* contraction: at least three more digits per pass
           /\ pc' = IF digits >= 9 THEN "geo2" ELSE "loop"        \* leaves the loop when the last change was <= 1e-9
           /\ UNCHANGED mode
DirFinish == mode = "dir" /\ pc = "geo2" /\ pc' = "done" /\ UNCHANGED <<mode, digits, passes>>
Next == InvStep \/ DirStart \/ DirPass \/ DirFinish
Spec == Init /\ [][Next]_vars /\ WF_vars(Next)

Terminates == <>(pc = "done")
FewPasses == passes <= 4
=============================================================================
