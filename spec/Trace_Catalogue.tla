-------------------------- MODULE Trace_Catalogue --------------------------
(***************************************************************************)
(* Trace validation for C11: words over {Neg, Shift(e)} executed on the    *)
(* real Transformation constants, and iers2trans() on IERS-style tuples.   *)
(* Every step is judged against Catalogue!NegSet / ShiftSet / Iers2Trans.  *)
(* A step that conforms moves the specification state to the OBSERVED set  *)
(* (so that each step is judged on its own and the 8-decimal rounding of   *)
(* __add__ does not accumulate); PathIndependent relates the current set   *)
(* to the catalogue entry it started from.                                 *)
(***************************************************************************)
EXTENDS Catalogue, Json, IOUtils, Sequences

Data   == JsonDeserialize(IOEnv.TRACE_FILE)
Traces == Data.traces

VARIABLES tid, l, cur, base, nsh, dead
tvars == <<tid, l, cur, base, nsh, dead>>
T == Traces[tid]

ObsSet(o) == [from |-> o.from, to |-> o.to, ep |-> o.ep, p |-> [k \in 1..NP |-> FromJ(o.p[k])]]
Empty == [from |-> "", to |-> "", ep |-> 0, p |-> [k \in 1..NP |-> Zero]]

RECURSIVE FirstFail(_, _)
FirstFail(cs, i) == IF i > Len(cs) THEN "" ELSE IF ~cs[i][2] THEN cs[i][1] ELSE FirstFail(cs, i + 1)

PName == <<"tx", "ty", "tz", "sc", "rx", "ry", "rz", "d_tx", "d_ty", "d_tz", "d_sc", "d_rx", "d_ry", "d_rz">>
\* per-parameter comparison: first parameter outside tolerance, "" if none
RECURSIVE BadParam(_, _, _, _, _)
BadParam(a, b, tolP, tolR, i) ==
  IF i > NP THEN ""
  ELSE IF ~Within(a.p[i], b.p[i], IF i <= 7 THEN tolP ELSE tolR) THEN PName[i]
  ELSE BadParam(a, b, tolP, tolR, i + 1)

Compare(obs, exp, tolP, tolR) ==
  IF obs.from # exp.from THEN "from_label"
  ELSE IF obs.to # exp.to THEN "to_label"
  ELSE IF obs.ep # exp.ep THEN "epoch"
  ELSE BadParam(obs, exp, tolP, tolR, 1)

Report(clause) == PrintT(<<"FAIL", tid, l, clause>>)

TraceInit == /\ tid \in 1..Len(Traces) /\ l = 1 /\ dead = FALSE /\ nsh = 0
             /\ cur = (IF Traces[tid].kind = "word" THEN SetOf(Traces[tid].idx) ELSE Empty)
             /\ base = cur

\* first event of a word trace: the catalogue entry as the driver sees it (binds CatDump to the object used)
Start == /\ ~dead /\ l = 1 /\ T.kind = "word" /\ T.ev[1].a = "Start"
         /\ \E f \in {Compare(ObsSet(T.ev[1].obs), cur, Zero, Zero)} :   \* (\E over a singleton: evaluated once)
               /\ (IF f = "" THEN TRUE ELSE Report("Start." \o f))
               /\ dead' = (f # "")
         /\ l' = 2 /\ UNCHANGED <<tid, cur, base, nsh>>

NegStep == /\ ~dead /\ l > 1 /\ l <= Len(T.ev) /\ T.ev[l].a = "Neg"
           /\ LET ev == T.ev[l] IN
              \E obs \in {ObsSet(ev.obs)} :
              \E f \in {IF ev.exc # "" THEN "raised" ELSE Compare(obs, NegSet(cur), Zero, Zero)} :
                 /\ (IF f = "" THEN TRUE ELSE Report("Neg." \o f))
                 /\ dead' = (f # "")
                 /\ cur' = IF f = "" THEN obs ELSE cur
           /\ base' = NegSet(base) /\ l' = l + 1 /\ UNCHANGED <<tid, nsh>>

\* Shift: parameters on the 8-decimal lattice nearest the exact value, rates and labels untouched,
\* and (path independence) the result is the catalogue entry re-referenced directly, within one
\* rounding per shift performed so far
ShiftStep == /\ ~dead /\ l > 1 /\ l <= Len(T.ev) /\ T.ev[l].a = "Shift"
             /\ LET ev == T.ev[l] IN
                \E obs \in {ObsSet(ev.obs)} :
                \E expC \in {ShiftSet(cur, ev.e)} : \E expB \in {ShiftSet(base, ev.e)} :
                \E f1 \in {IF ev.exc # "" THEN "raised" ELSE Compare(obs, expC, Round8, Zero)} :
                \E f \in {IF f1 # "" THEN f1
                          ELSE IF Compare(obs, expB, MulSmall(Round8, nsh + 1), Zero) # ""
                               THEN "path_independence" ELSE ""} :
                   /\ (IF f = "" THEN TRUE ELSE Report("Shift." \o f))
                   /\ dead' = (f # "")
                   /\ cur' = IF f = "" THEN obs ELSE cur
             /\ nsh' = nsh + 1 /\ l' = l + 1 /\ UNCHANGED <<tid, base>>

\* iers2trans on a tuple of IERS-convention values (mm, ppb, mas)
IersStep == /\ ~dead /\ T.kind = "iers" /\ l <= Len(T.ev) /\ T.ev[l].a = "Iers"
            /\ LET ev == T.ev[l] IN
               \E obs \in {ObsSet(ev.obs)} :
               \E f \in {IF ev.exc # "" THEN "raised"
                         ELSE Compare(obs, Iers2Trans(ev.from, ev.to, ev.e, [k \in 1..NP |-> FromJ(ev.v[k])]), Round8, Round8)} :
                  /\ (IF f = "" THEN TRUE ELSE Report("Iers." \o f))
                  /\ dead' = (f # "")
                  /\ cur' = IF f = "" THEN obs ELSE cur
            /\ l' = l + 1 /\ UNCHANGED <<tid, base, nsh>>

TraceNext == Start \/ NegStep \/ ShiftStep \/ IersStep
TraceSpec == TraceInit /\ [][TraceNext]_tvars
Consumed == (~dead /\ l = Len(T.ev) + 1) => PrintT(<<"END", tid>>)
=============================================================================
