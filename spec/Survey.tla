------------------------------- MODULE Survey -------------------------------
(***************************************************************************)
(* C19 - survey reductions (geodepy.survey, geodepy.convert.polar2rect /   *)
(* rect2polar).                                                            *)
(*                                                                         *)
(* 1. A traverse state machine on the rational-trig lattice.  A direction  *)
(*    is a triple <<p, q, r>> with p^2 + q^2 = r^2: sin = p/r, cos = q/r   *)
(*    (bearing clockwise from north, so east = r*sin, north = r*cos).      *)
(*    Distances are chosen as multiples of r, so every point of a traverse *)
(*    has INTEGER coordinates and the expected result of radiations() /    *)
(*    joins() / polar2rect() / rect2polar() is exact.  One action per      *)
(*    public call: Radiate (survey.radiations), JoinBack (survey.joins),   *)
(*    Polar (convert.polar2rect), Rect (convert.rect2polar), Reduce        *)
(*    (survey.va_conv), Params (survey.first_vel_params), Correct          *)
(*    (survey.first_vel_corrn).                                            *)
(* 2. The validity tables (S): for which argument combinations a call must *)
(*    return / must raise.  FvDefined is the intended table ("physically   *)
(*    valid atmosphere", 0 is a VALUE), FvAsBuilt the table of the code as *)
(*    found (Python truthiness of 0), kept beside it.                      *)
(* 3. Sine and cosine in fixed point (Taylor/Horner, truncation < 1e-19),  *)
(*    so that TLC itself is the oracle for bearings that are not on the    *)
(*    lattice.                                                             *)
(* 4. The relational laws of the property over OBSERVED values (closure,   *)
(*    Pythagoras, proportionality, CO2 form, 1 ppm agreement, dispersion). *)
(*    They are evaluated by Trace_Survey on values logged from the code.   *)
(***************************************************************************)
EXTENDS BigFix, FiniteSets, TLC

CONSTANTS Triples,    \* Pythagorean triples <<a, b, c>> generating the direction lattice
          Mults,      \* leg multipliers m (distance = m * r * psf denominator)
          Origins,    \* start points <<E, N>>, integer metres
          Rots,       \* rotation arguments: directions, or <<>> = argument omitted
          Psfs,       \* scale-factor arguments <<num, den>>, or <<>> = argument omitted
          MaxLegs     \* bound on the length of a traverse

None == -9999         \* "argument absent" in integer-coded argument tuples
NoArg == <<>>

(* ======================= 1. direction lattice ========================== *)
Axes == {<<0, 1, 1>>, <<1, 0, 1>>, <<0, -1, 1>>, <<-1, 0, 1>>}      \* N E S W
DirsOf(T) == Axes \cup UNION {UNION {{<<sa * t[1], sb * t[2], t[3]>>, <<sa * t[2], sb * t[1], t[3]>>}
                                       : sa \in {1, -1}, sb \in {1, -1}} : t \in T}
Dirs == DirsOf(Triples)
North == <<0, 1, 1>>
IsDir(d) == d[1] * d[1] + d[2] * d[2] = d[3] * d[3] /\ d[3] > 0
\* angle addition on rational sines and cosines (not reduced)
DirAdd(a, b) == <<a[1] * b[2] + a[2] * b[1], a[2] * b[2] - a[1] * b[1], a[3] * b[3]>>
DirOpp(a) == <<-a[1], -a[2], a[3]>>
AbsI(n) == IF n < 0 THEN -n ELSE n
SgnI(n) == IF n < 0 THEN -1 ELSE IF n > 0 THEN 1 ELSE 0

\* quadrant of the bearing of the vector (dx, dy): k means bearing in [90k, 90k + 90)
Quad(dx, dy) == IF dx >= 0 /\ dy > 0 THEN 0
                ELSE IF dx > 0 /\ dy <= 0 THEN 1
                ELSE IF dx <= 0 /\ dy < 0 THEN 2
                ELSE 3                                   \* dx < 0, dy >= 0   ((0,0) is excluded by callers)

(* --------------------------- legs of a traverse ------------------------ *)
EffRot(leg) == IF leg.rot = NoArg THEN North ELSE leg.rot
EffPsf(leg) == IF leg.psf = NoArg THEN <<1, 1>> ELSE leg.psf
LegDir(leg) == DirAdd(leg.d, EffRot(leg))                         \* bearing + rotation
LegOK(leg)  == leg.m * EffPsf(leg)[1] <= 20000 /\ leg.m * EffPsf(leg)[2] <= 20000
LegDist(leg) == leg.m * EffPsf(leg)[2] * LegDir(leg)[3]           \* the `dist` argument (integer metres)
LegLen(leg)  == leg.m * EffPsf(leg)[1] * LegDir(leg)[3]           \* dist * psf
LegVec(leg)  == <<leg.m * EffPsf(leg)[1] * LegDir(leg)[1], leg.m * EffPsf(leg)[1] * LegDir(leg)[2]>>
Post_Radiate(p, leg) == <<p[1] + LegVec(leg)[1], p[2] + LegVec(leg)[2]>>
Limit == 10000000                                                 \* plane coordinates up to 1e7 m
InRange(p) == AbsI(p[1]) <= Limit /\ AbsI(p[2]) <= Limit

LegSet == [d : Dirs, rot : Rots, m : Mults, psf : Psfs]

\* joins(a, b): the vector and the quadrant of its bearing
JoinOf(a, b) == [dx |-> b[1] - a[1], dy |-> b[2] - a[2], quad |-> Quad(b[1] - a[1], b[2] - a[2])]

(* ------------------------- zenith angle reduction ---------------------- *)
\* zenith direction z = <<p, q, r>>: sin z = p/r, cos z = q/r.  z in (0,180) iff p > 0,
\* z in (180,360) iff p < 0; p = 0 (z = 0 or 180) is not a zenith angle: the call raises.
\* slope = k * r decimetres, heights in centimetres (None = argument omitted = 0).
VaDefined(z) == z[1] # 0
HtVal(h) == IF h = None THEN 0 ELSE h
\* hz and |raw height difference| in decimetres; the sign of the raw height difference is fixed by
\* geometry only for face-left readings (z < 180: up iff z < 90)
VaOf(z, k, hi, ht) == [hz |-> k * AbsI(z[1]), rawabs |-> k * AbsI(z[2]),
                       rawsgn |-> IF z[1] > 0 THEN SgnI(z[2]) ELSE None,
                       shift_cm |-> HtVal(hi) - HtVal(ht), slope |-> k * z[3]]

(* ================= 2. validity tables (first velocity) ================= *)
\* cell = <<temp C, pressure Pa (hPa*100), humidity %, wet temp C, CO2 ppm, wavelength (um*100)>>,
\* None = argument omitted.
CTemp(c) == c[1]   CPres(c) == c[2]   CHum(c) == c[3]   CWet(c) == c[4]   CCo2(c) == c[5]   CWl(c) == c[6]

\* intended: "ret" the correction is defined, the call must return; "raise" the arguments do not
\* determine an atmosphere, the call must refuse; "free" the property is silent (a wet-bulb above the
\* dry-bulb temperature is not a physical atmosphere; the CO2-aware form documents humidity as the
\* moisture argument).  Presence is `# None`: 0 degrees and 0 % are values.
FvDefined(c) ==
  IF CCo2(c) = None
  THEN IF CHum(c) # None THEN "ret"
       ELSE IF CWet(c) = None THEN "raise"
       ELSE IF CWet(c) > CTemp(c) THEN "free" ELSE "ret"
  ELSE IF CWl(c) = None THEN "raise"
       ELSE IF CHum(c) # None THEN "ret"
       ELSE IF CWet(c) = None THEN "raise" ELSE "free"

\* as found in the repository before the repair (truthiness: 0 counts as absent)
Truthy(v) == v # None /\ v # 0
FvAsBuilt(c) ==
  IF ~Truthy(CCo2(c))
  THEN IF ~Truthy(CHum(c)) /\ ~Truthy(CWet(c)) THEN "raise" ELSE "ret"
  ELSE IF Truthy(CTemp(c)) /\ Truthy(CPres(c)) /\ Truthy(CHum(c)) /\ Truthy(CWl(c)) THEN "ret" ELSE "raise"

\* first_vel_params cell = <<n_REF given?, frequency given?, unit_length given?>> (BOOLEANs)
ParDefined(c) == IF c[1] \/ (c[2] /\ c[3]) THEN "ret" ELSE "raise"

(* ====================== 3. trigonometry in BigFix ====================== *)
\* Horner form of the Taylor series, y = x^2, x in [0, pi/2]: 14 factors leave a remainder
\* below (pi/2)^29/29! < 1e-25; every product truncates at 1e-20, total error < 1e-18.
NT == 14
RECURSIVE SinH(_, _)
SinH(y, i) == IF i > NT THEN One ELSE Sub(One, DivSmall(Mul(y, SinH(y, i + 1)), (2 * i) * (2 * i + 1)))
RECURSIVE CosH(_, _)
CosH(y, i) == IF i > NT THEN One ELSE Sub(One, DivSmall(Mul(y, CosH(y, i + 1)), (2 * i - 1) * (2 * i)))
\* TLC re-evaluates LET definitions and operator arguments at every use in state context; the set
\* comprehensions below bind y, x to VALUES, so that every product is computed once
SCX(x) == CHOOSE r \in {<<Mul(x, SinH(y, 1)), CosH(y, 1)>> : y \in {Mul(x, x)}} : TRUE
SinCosRad(x0) == CHOOSE r \in {SCX(x) : x \in {x0}} : TRUE
Turn(sc, m) == IF m = 0 THEN <<sc[1], sc[2]>>
               ELSE IF m = 1 THEN <<sc[2], Neg(sc[1])>>
               ELSE IF m = 2 THEN <<Neg(sc[1]), Neg(sc[2])>>
               ELSE <<Neg(sc[2]), sc[1]>>
\* b = angle + 720 degrees (a value): quadrant q, remainder in [0, 90)
SCB(b) == LET q == IntPart(b) \div 90
          IN CHOOSE r \in {Turn(sc, q % 4) : sc \in {SinCosRad(DivSmall(Mul(Sub(b, FromInt(90 * q)), Pi), 180))}} : TRUE
\* angle in degrees, -720 <= a < 1080: <<sin, cos>>
SinCosDeg(a) == CHOOSE r \in {SCB(b) : b \in {Add(a, FromInt(720))}} : TRUE
AngleOK(a) == Geq(a, FromInt(-720)) /\ Lt(a, FromInt(1080))

(* ============================ 4. the laws ============================== *)
\* tolerances   (Dec(n, k) = n * 10^(-4k))
E9  == Dec(1000, 3)                          \* 1000e-12 = 1e-9
E10 == Dec(100, 3)                           \* 1e-10
E12 == Dec(1, 3)                             \* 1e-12
E14 == Dec(100, 4)                           \* 1e-14
E6  == Dec(100, 2)                           \* 1e-6
Tiny == Dec(1000, 5)                         \* 1e-17: fixed-point noise of a few products
Rel(x, e) == Add(Mul(Abs(x), e), Tiny)

\* a direction observed as an angle (degrees) agrees with the rational direction d within tol (radians,
\* compared per component of the unit vector: generous side)
AngleIsDir(a, d, tol) ==
  \E sc \in {SinCosDeg(a)} :
     /\ Within(MulSmall(sc[1], d[3]), FromInt(d[1]), MulSmall(tol, d[3]))
     /\ Within(MulSmall(sc[2], d[3]), FromInt(d[2]), MulSmall(tol, d[3]))

InCircle(b) == Geq(b, Zero) /\ Lt(b, FromInt(360))                 \* bearing in [0, 360)
\* quadrant k, with 1e-7 degrees of slack at the axes (the bearing itself is judged by the
\* `bearing` clause; an angle within 1e-9 rad of an axis may fall on either side of it) and wrap-around
QSlack == Dec(10, 2)
InQuad(b, k) == \/ (Geq(b, Sub(FromInt(90 * k), QSlack)) /\ Leq(b, Add(FromInt(90 * k + 90), QSlack)))
                \/ (k = 3 /\ Leq(b, QSlack))
                \/ (k = 0 /\ Geq(b, Sub(FromInt(360), QSlack)))

\* joins: distance d and bearing b observed for the vector (dx, dy) (numbers), all clauses
\*  dist:    d^2 = dx^2 + dy^2 within 2.1e-9 relative  (d within 1e-9 d)
\*  circle:  0 <= b < 360
\*  quadrant: the quadrant of b follows the signs of dx, dy
\*  bearing: d sin b = dx, d cos b = dy within 1e-9 d  (clockwise from north)
JoinDistOK(dx, dy, d) == \E s2 \in {Add(Sq(dx), Sq(dy))} :
                            Geq(d, Zero) /\ Within(Sq(d), s2, Add(Mul(s2, Dec(2100, 3)), Tiny))
SgnQuad(dx, dy) == Quad(Sign(dx), Sign(dy))
JoinBearingOK(dx, dy, d, sc) == /\ Within(Mul(d, sc[1]), dx, Rel(d, E9))
                                /\ Within(Mul(d, sc[2]), dy, Rel(d, E9))

\* radiations: observed point o for from-point p, distance d, scale k, total angle a (degrees):
\* o = p + d k (sin a, cos a) within 1e-9 d k per coordinate
\* plus one unit in the last place of the resulting coordinate (a double cannot hold it more precisely:
\* 2.3e-16 (|p| + length)); the closure law below keeps the literal tolerance of the property
Ulp(x) == Mul(Abs(x), Dec(23000, 5))
RadiateOK(p, o, d, k, sc) == \E len \in {Mul(d, k)} :
                                /\ Within(Sub(o[1], p[1]), Mul(len, sc[1]), Add(Rel(len, E9), Ulp(Add(Abs(p[1]), len))))
                                /\ Within(Sub(o[2], p[2]), Mul(len, sc[2]), Add(Rel(len, E9), Ulp(Add(Abs(p[2]), len))))
\* closure: radiated point reproduces the second point within 1e-9 of the distance
ClosureOK(o, p2, d) == Within(o[1], p2[1], Rel(d, E9)) /\ Within(o[2], p2[2], Rel(d, E9))

\* zenith reduction: hz^2 + (dh - hi + ht)^2 = slope^2  (1e-9 relative)
PythagorasOK(hz, dhraw, slope) == Within(Add(Sq(hz), Sq(dhraw)), Sq(slope), Rel(Sq(slope), E9))

\* first velocity correction proportional to the distance: f2 d1 = f1 d2
ProportionalOK(d1, f1, d2, f2) == Within(Mul(f2, d1), Mul(f1, d2), Rel(Mul(f1, d2), E10))
\* CO2-aware form: f = (nref / ng - 1) d  <=>  (f + d) ng = d nref,  ng = 1 + N/1e8  (1e-12 d)
Co2FormOK(d, f, nref, ngm1e8) == LET ng == Add(One, Mul(ngm1e8, Dec(1, 2)))
                                 IN Within(Mul(Add(f, d), ng), Mul(d, nref), Rel(d, E12))
\* the two branches agree within 1 ppm of the distance
AgreeOK(d, fa, fb) == Leq(Abs(Sub(fa, fb)), Mul(d, E6))
\* dispersion: N_g = N_p + sigma dN_p/dsigma, central difference with sigma/(2h) = k:
\* N_g = P0 + k (P+ - P-), truncation sigma^3 P'''/(24 k^2) and float noise 2k ulp(P) both < 1e-5
\* for k = 10000 (units of 1e-8 of refractive index); tolerance 1e-4 = 1e-12 of index
DispersionOK(g, p0, pp, pm, k) == Within(g, Add(p0, MulSmall(Sub(pp, pm), k)), Dec(1, 1))
\* the wavelengths used for the difference: lp (2k+1) = l0 2k, lm (2k-1) = l0 2k  (1e-14 relative)
StencilOK(l0, lp, lm, k) == /\ Within(MulSmall(lp, 2 * k + 1), MulSmall(l0, 2 * k), MulSmall(Dec(100, 4), 2 * k))
                            /\ Within(MulSmall(lm, 2 * k - 1), MulSmall(l0, 2 * k), MulSmall(Dec(100, 4), 2 * k))

(* ========================= the state machine =========================== *)
VARIABLES pt,        \* current point of the traverse <<E, N>>
          start,     \* history: where the traverse started
          legs,      \* history: legs radiated so far
          last       \* the last public call and its abstract result
vars == <<pt, start, legs, last>>

NoCall == [op |-> "none"]

Radiate(leg) ==
  /\ Len(legs) < MaxLegs /\ LegOK(leg) /\ InRange(Post_Radiate(pt, leg))
  /\ pt' = Post_Radiate(pt, leg)
  /\ legs' = Append(legs, leg)
  /\ last' = [op |-> "Radiate", from |-> pt, leg |-> leg, to |-> Post_Radiate(pt, leg)]
  /\ UNCHANGED start

\* joins(current point, start point): defined when they differ
JoinBack ==
  /\ pt # start
  /\ last' = [op |-> "Join", from |-> pt, to |-> start, exp |-> JoinOf(pt, start)]
  /\ UNCHANGED <<pt, start, legs>>

\* convert.polar2rect(m r, d) / convert.rect2polar(m p, m q): called directly, no point involved
Polar(d, m) == /\ last' = [op |-> "Polar", d |-> d, m |-> m, exp |-> <<m * d[1], m * d[2]>>]
               /\ UNCHANGED <<pt, start, legs>>
Rect(d, m)  == /\ last' = [op |-> "Rect", d |-> d, m |-> m, exp |-> [r |-> m * d[3], quad |-> Quad(d[1], d[2])]]
               /\ UNCHANGED <<pt, start, legs>>

Reduce(z, k, hi, ht) ==
  /\ last' = [op |-> "Reduce", z |-> z, k |-> k, hi |-> hi, ht |-> ht,
              exp |-> IF VaDefined(z) THEN VaOf(z, k, hi, ht) ELSE [raises |-> TRUE]]
  /\ UNCHANGED <<pt, start, legs>>

Params(c)  == /\ last' = [op |-> "Params", cell |-> c, exp |-> ParDefined(c)]
              /\ UNCHANGED <<pt, start, legs>>
Correct(c) == /\ last' = [op |-> "Correct", cell |-> c, exp |-> FvDefined(c)]
              /\ UNCHANGED <<pt, start, legs>>

Init == pt \in Origins /\ start = pt /\ legs = <<>> /\ last = NoCall

(* ------------------------- model-level properties ---------------------- *)
RECURSIVE SumVec(_, _)
SumVec(ls, i) == IF i > Len(ls) THEN <<0, 0>>
                 ELSE LET r == SumVec(ls, i + 1) v == LegVec(ls[i]) IN <<v[1] + r[1], v[2] + r[2]>>
\* a traverse ends at its start plus the sum of its legs
TraverseSum == pt = <<start[1] + SumVec(legs, 1)[1], start[2] + SumVec(legs, 1)[2]>>
\* joins inverts radiations: the join of the two ends of a leg has length dist*psf, the direction
\* bearing + rotation, and lies in the quadrant that the signs demand
JoinInvertsRadiate ==
  last.op = "Radiate" =>
     LET j == JoinOf(last.from, last.to) l == last.leg
     IN /\ j.dx * j.dx + j.dy * j.dy = LegLen(l) * LegLen(l)
        /\ j.dx * LegDir(l)[2] = j.dy * LegDir(l)[1]
        /\ SgnI(j.dx) = SgnI(LegDir(l)[1]) /\ SgnI(j.dy) = SgnI(LegDir(l)[2])
        /\ IsDir(LegDir(l))
\* rotation adds to the bearing, the scale factor scales the vector
RotationAndScale ==
  last.op = "Radiate" =>
     LET l == last.leg
         plain == [d |-> LegDir(l), rot |-> NoArg, m |-> l.m * EffPsf(l)[1], psf |-> NoArg]
     IN Post_Radiate(last.from, plain) = last.to /\ LegDist(plain) = LegLen(l)
\* radiating back along the opposite bearing returns to the from-point
OppositeReturns ==
  last.op = "Radiate" =>
     Post_Radiate(last.to, [last.leg EXCEPT !.d = DirOpp(last.leg.d)]) = last.from
\* polar <-> rectangular are mutual inverses on the lattice
PolarRectInverse ==
  /\ last.op = "Polar" => last.exp[1] * last.exp[1] + last.exp[2] * last.exp[2] = (last.m * last.d[3]) * (last.m * last.d[3])
  /\ last.op = "Rect"  => last.exp.r * last.exp.r = (last.m * last.d[1]) * (last.m * last.d[1]) + (last.m * last.d[2]) * (last.m * last.d[2])
\* Pythagoras, and heights shift only the height difference
ReducePythagoras ==
  (last.op = "Reduce" /\ VaDefined(last.z)) =>
     /\ last.exp.hz * last.exp.hz + last.exp.rawabs * last.exp.rawabs = last.exp.slope * last.exp.slope
     /\ last.exp.hz = VaOf(last.z, last.k, None, None).hz
     /\ last.exp.rawabs = VaOf(last.z, last.k, None, None).rawabs
     /\ last.exp.hz > 0
\* 0 degrees Celsius and 0 % humidity are values: replacing a zero by another admissible present value
\* never changes whether the correction is defined
ZeroIsAValue ==
  last.op = "Correct" =>
     LET c == last.cell
     IN /\ (CTemp(c) = 0 /\ (CWet(c) = None \/ CWet(c) <= 0)) => FvDefined([c EXCEPT ![1] = 15]) = last.exp
        /\ CHum(c) = 0 => FvDefined([c EXCEPT ![3] = 50]) = last.exp
        /\ (CWet(c) = 0 /\ CTemp(c) >= 10) => FvDefined([c EXCEPT ![4] = 10]) = last.exp
\* a valid atmosphere (humidity given; wavelength given when CO2 is) is always defined
ValidAtmosphereDefined ==
  last.op = "Correct" =>
     ((CHum(last.cell) # None /\ (CCo2(last.cell) # None => CWl(last.cell) # None)) => last.exp = "ret")
=============================================================================
