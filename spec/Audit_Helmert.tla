---------------------------- MODULE Audit_Helmert ----------------------------
(* The formula applied to the live catalogue, decided inside the specification: *)
(* for every shipped set and a point in every octant (|x|,|y|,|z| = 5e7 m and   *)
(* an Earth-surface point) set-then-negation closes within the figures the      *)
(* property states, conform14 at the reference epoch IS conform7, and the       *)
(* plate-motion set is the identity at 2020-01-01.                              *)
EXTENDS Helmert, Sequences
VARIABLE item
Oct(k, m) == << FromInt(IF k % 2 = 0 THEN m ELSE -m), FromInt(IF (k \div 2) % 2 = 0 THEN m ELSE -m),
                FromInt(IF (k \div 4) % 2 = 0 THEN m ELSE -m) >>
Pts == {Oct(k, 50000000) : k \in 0..7} \cup {<<FromInt(-4052052), FromInt(4212836), FromInt(-2545105)>>}
Items == (1..N) \X (0..8)
PtOf(j) == IF j = 8 THEN <<FromInt(-4052052), FromInt(4212836), FromInt(-2545105)>> ELSE Oct(j, 50000000)
IsAGDSet(i) == Cat[i].fa = "AGD" \/ Cat[i].fb = "AGD"
Close3(a, b, tol) == \A i \in 1..3 : Within(a[i], b[i], tol)
Check(it) ==
  LET t == SetOf(it[1]) p == PtOf(it[2])
      back == Conform7(NegSet(t), Conform7(t, p))
      okRev == Close3(back, p, IF IsAGDSet(it[1]) THEN Dec(20, 1) ELSE Dec(1000, 2))
      okBound == Close3(back, p, Add(ReverseBound(t, p), Dec(1, 3)))
      okRef == t.ep = 0 \/ Conform14(t, t.ep, p) = Conform7(t, p)
      okId  == ~(Cat[it[1]].name \in {"atrf2014_to_gda2020", "itrf2014_to_gda2020"}) \/ Conform14(t, t.ep, p) = p
  IN IF okRev /\ okBound /\ okRef /\ okId THEN TRUE
     ELSE PrintT(<<"FAIL", Cat[it[1]].name, it[2], okRev, okBound, okRef, okId>>)
Init == item \in Items /\ Check(item)
Next == UNCHANGED item
Spec == Init /\ [][Next]_item
=============================================================================
