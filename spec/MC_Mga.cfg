SPECIFICATION Spec
INVARIANT OrderOK
INVARIANT HeightRule
INVARIANT VcvRule
PROPERTY Terminates
CHECK_DEADLOCK FALSE
