------------------------------- MODULE Purity -------------------------------
(***************************************************************************)
(* C09 - library calls are pure.                                           *)
(*                                                                         *)
(* Threads execute programs (sequences of abstract library calls, chosen    *)
(* call by call within a budget).  The                                      *)
(* shipped constants are `Cells` (object, attribute) holding symbolic      *)
(* values.  A call is Start -> (as-built only: a sequence of WriteCell     *)
(* steps, one shared attribute per step: the read-modify-write of          *)
(* Transformation.__add__ on the shared TransformationSD) -> Finish; the   *)
(* result of a call is the uninterpreted value <<call, values it read>>.   *)
(*                                                                         *)
(* Intended library: Writes(c) = {} for every c.  TLC checks the           *)
(* non-interference theorem on the model: every interleaving gives every   *)
(* call the result of its first evaluation (Determinism), the constants    *)
(* never change (NoSharedWrite), every call returns (Returns).  With the   *)
(* as-built write sets the same run refutes Determinism: the model can     *)
(* express the defect (anti-vacuity).                                      *)
(***************************************************************************)
EXTENDS Integers, Sequences, FiniteSets, TLC

CONSTANTS Threads,      \* e.g. {1, 2}
          CallIds,      \* abstract call classes, e.g. {"conv", "tr14", "tr14b"}
          Cells,        \* shared cells, e.g. {"sd_tx", "sd_ty"}
          MaxLen,       \* program length bound per thread
          Adders,       \* the calls that re-reference a parameter set (go through Transformation.__add__)
          AsBuilt       \* BOOLEAN: use the as-built write sets

\* which cells a call reads / (as built, before the repair) rewrites
Reads(c)  == IF c \in Adders THEN Cells ELSE {}
Writes(c) == IF AsBuilt /\ c \in Adders THEN Cells ELSE {}

VARIABLES shared,   \* cell -> symbolic value
          budget,   \* thread -> number of calls it may still start (its program is chosen call by call)
          pc,       \* thread -> "idle" | "run"
          cur,      \* thread -> call in progress
          pending,  \* thread -> cells still to be rewritten by the call in progress
          seen,     \* thread -> values read so far by the call in progress (cell -> value)
          first,    \* call -> result of its first completed evaluation (or <<>>)
          ok,       \* FALSE once a completed call differed from its first evaluation
          sched     \* history: the schedule <<kind, thread, call>> (for replay)
vars == <<shared, budget, pc, cur, pending, seen, first, ok, sched>>

Pristine == [c \in Cells |-> 0]

Init == /\ shared = Pristine
        /\ budget \in [Threads -> 0..MaxLen]
        /\ pc = [t \in Threads |-> "idle"] /\ cur = [t \in Threads |-> ""]
        /\ pending = [t \in Threads |-> {}] /\ seen = [t \in Threads |-> <<>>]
        /\ first = [c \in CallIds |-> <<>>] /\ ok = TRUE /\ sched = <<>>

StartC(t, c) == /\ pc[t] = "idle" /\ budget[t] > 0
                /\ cur' = [cur EXCEPT ![t] = c]
                /\ pending' = [pending EXCEPT ![t] = Writes(c)]
                /\ seen' = [seen EXCEPT ![t] = [x \in Reads(c) |-> shared[x]]]   \* snapshot of what it reads first
                /\ sched' = Append(sched, <<"S", t, c>>)
                /\ budget' = [budget EXCEPT ![t] = budget[t] - 1]
                /\ pc' = [pc EXCEPT ![t] = "run"]
                /\ UNCHANGED <<shared, first, ok>>
Start(t) == \E c \in CallIds : StartC(t, c)

\* as-built only: rewrite one shared attribute with a value depending on the old one
WriteCell(t) == /\ pc[t] = "run" /\ pending[t] # {}
                /\ \E w \in pending[t] :
                     /\ shared' = [shared EXCEPT ![w] = shared[w] + 1]
                     /\ pending' = [pending EXCEPT ![t] = pending[t] \ {w}]
                     /\ seen' = [seen EXCEPT ![t] = [x \in DOMAIN seen[t] |-> IF x = w THEN shared[w] + 1 ELSE seen[t][x]]]
                /\ UNCHANGED <<budget, pc, cur, first, ok, sched>>

Finish(t) == /\ pc[t] = "run" /\ pending[t] = {}
             /\ LET c == cur[t]
                    res == <<c, seen[t]>>
                IN /\ first' = IF first[c] = <<>> THEN [first EXCEPT ![c] = res] ELSE first
                   /\ ok' = (ok /\ (first[c] = <<>> \/ first[c] = res))
                   /\ sched' = Append(sched, <<"F", t, c>>)
             /\ pc' = [pc EXCEPT ![t] = "idle"]
             /\ UNCHANGED <<shared, budget, cur, pending, seen>>

Next == \E t \in Threads : Start(t) \/ WriteCell(t) \/ Finish(t)
Spec == Init /\ [][Next]_vars /\ \A t \in Threads : WF_vars(Start(t) \/ WriteCell(t) \/ Finish(t))

(* ------------------------------ properties ----------------------------- *)
NoSharedWrite == shared = Pristine
Determinism   == ok
Done    == \A t \in Threads : pc[t] = "idle" /\ budget[t] = 0
Returns == <>Done
=============================================================================
