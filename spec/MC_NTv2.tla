------------------------------ MODULE MC_NTv2 ------------------------------
(* Exhaustive configuration of NTv2: eleven small file shapes (1..4 sub-grids, nested, chained,      *)
(* disjoint, flush with the parent's edge, partially overlapping, every file order, 3x3 .. 5x6       *)
(* nodes), the complete query lattice (every cell, every node, half cells, 1e-8 of a cell inside     *)
(* and outside every extent), both methods, both calls.  The same shapes are printed ("TPL") and     *)
(* instantiated with real extents / increments / fields by the driver.                               *)
EXTENDS NTv2

\* coefficient tables a[f][i+1][j+1] (i: power of the column index, j: power of the row index)
C0 == <<0, 0, 0>>
Lin(a, b, c) == << <<a, b, 0>>, <<c, 0, 0>>, C0 >>
CoefA == << Lin(10, 2, 3), << <<1, 0, 1>>, <<0, 1, 0>>, <<1, 0, 0>> >>, << <<0, 1, 0>>, <<2, 3, 0>>, C0 >>, Lin(5, 0, 0) >>
CoefB == << Lin(-7, 5, -4), << <<3, -2, 1>>, <<1, 2, -1>>, <<-1, 1, 1>> >>, Lin(0, 0, 1), << <<9, 0, 0>>, <<0, 0, 0>>, <<0, 0, 2>> >> >>
CoefC == << Lin(100, -1, 1), Lin(0, 7, 0), << <<2, 0, 0>>, <<0, 5, 0>>, C0 >>, << <<0, 0, 3>>, C0, <<-2, 0, 0>> >> >>
CoefD == << Lin(33, 1, 1), << <<0, 0, -1>>, <<0, 1, 0>>, <<2, 0, 0>> >>, Lin(-50, 3, 0), Lin(1, 1, -1) >>

MkSub(name, parent, s, e, dlat, dlon, rows, cols, sh, coef) ==
  [name |-> name, parent |-> parent, s |-> s, n |-> s + (rows - 1) * dlat, e |-> e, w |-> e + (cols - 1) * dlon,
   dlat |-> dlat, dlon |-> dlon, dlatu |-> 0, dlonu |-> 0, rows |-> rows, cols |-> cols, sh |-> sh, coef |-> coef]

GA  == MkSub("A", "NONE", 0, 0, 400, 400, 5, 6, 0, CoefA)
GB  == MkSub("B", "A", 400, 400, 200, 200, 5, 5, 1, CoefB)
GC  == MkSub("C", "NONE", -3000, -4000, 300, 150, 4, 3, 0, CoefC)
GD  == MkSub("D", "B", 600, 600, 100, 100, 5, 4, 2, CoefD)
GB1 == MkSub("B1", "A", 0, 0, 200, 200, 3, 5, 0, CoefB)                 \* flush with the parent's S and E edges
GB2 == MkSub("B2", "A", 800, 1200, 200, 200, 5, 5, 3, CoefD)            \* flush with the parent's N and W edges
GE  == MkSub("E", "NONE", 800, 1000, 250, 250, 5, 7, 0, CoefC)          \* overlaps A partially, finer
G3  == MkSub("S3", "NONE", -800, 7000, 400, 300, 3, 3, 0, CoefB)        \* every cell is a ring cell
G4  == MkSub("S4", "NONE", 5000, -9000, 300, 400, 4, 5, 1, CoefD)

Tpl == << [subs |-> <<GA>>], [subs |-> <<G3>>], [subs |-> <<G4>>],
          [subs |-> <<GA, GB>>], [subs |-> <<GB, GA>>],
          [subs |-> <<GA, GC>>],
          [subs |-> <<GA, GB, GD>>],
          [subs |-> <<GA, GB1, GB2>>],
          [subs |-> <<GC, GA, GD, GB>>],
          [subs |-> <<GA, GE>>], [subs |-> <<GE, G3, GA>>] >>
MCFiles == {Tpl[i] : i \in 1..Len(Tpl)}
MCFilesSmall == {Tpl[i] : i \in {2, 5, 10}}
MCTiny == {Tpl[2]}
FracsFull == {0, 1, 50000000, 99999999}
FracsHalf == {0, 50000000}
EmitTpl == \A i \in 1..Len(Tpl) : PrintT(<<"TPL", i, Tpl[i].subs>>)
ASSUME EmitTpl
=============================================================================
