------------------------------- MODULE MC_Grid -------------------------------
(* Exhaustive part of the grid model: (i) the automatic-zone rule on the complete  *)
(* 0.01-degree longitude lattice for every zone system that tiles the globe with    *)
(* at most 60 zones, in integer arithmetic; (ii) the strata the conformance driver  *)
(* must visit, printed for it; (iii) the two-action state machine (a conversion     *)
(* never leaves the stratum).                                                       *)
EXTENDS Grid
ZoneSystems == {<<6, -177>>, <<8, -176>>, <<10, -175>>, <<12, -174>>}
Lon100 == -18000..17999
ZoneLatticeOK == \A zs \in ZoneSystems : \A x \in Lon100 :
                   ZoneRule100(zs[1], zs[2], AutoZone100(zs[1], zs[2], x), x)
ASSUME ZoneLatticeOK
\* the ten ISG codes have central meridians 2 degrees apart inside AMG zones 54..57
ASSUME \A z \in ISGCodes : CMdeg([isg |-> TRUE, zw |-> 2, cm1 |-> -177], z) \in 139..159
Bound == steps <= 2 /\ (steps = 0 /\ form = "geo" => PrintT(<<"STRATUM", stratum>>))
=============================================================================
