---------------------------- MODULE Trace_DnaFile ----------------------------
(***************************************************************************)
(* Trace validation for read_dnacoord.  Events: `add` (a line of the given *)
(* shape was written), `close` (the file was closed, with or without a     *)
(* final newline), `read` (the reader returned n records or raised), `rec` *)
(* (record i as returned: for every numeric field the exact decimal value  *)
(* of the text the driver put into its columns and the value returned; for *)
(* every text field the text without padding and the string returned).     *)
(* Clauses: raised, count, numeric.<field> (returned value is not the      *)
(* correctly rounded double of the text: relative 3e-16), text.<field>.    *)
(***************************************************************************)
EXTENDS DnaFile, BigFix, Json, IOUtils

Data   == JsonDeserialize(IOEnv.TRACE_FILE)
Traces == Data.traces
VARIABLES tid, l, dead
tvars == <<vars, tid, l, dead>>
T == Traces[tid]
Report(clause) == PrintT(<<"FAIL", tid, l, clause>>)
Shape(o) == [base |-> o.base, special |-> o.special, sclass |-> o.sclass, pid |-> o.pid, const |-> o.const, desc |-> o.desc]

RECURSIVE FirstBad(_, _, _)
FirstBad(ev, names, i) ==
  IF i > Len(names) THEN ""
  ELSE LET f == names[i] e == FromJ(ev.exp[f]) o == FromJ(ev.obs[f])
       IN IF ~Within(o, e, Add(Mul(Abs(e), Dec(3, 4)), Dec(1, 5))) THEN "numeric." \o f ELSE FirstBad(ev, names, i + 1)
RECURSIVE FirstBadTxt(_, _, _)
FirstBadTxt(ev, names, i) ==
  IF i > Len(names) THEN "" ELSE IF ev.texp[names[i]] # ev.tobs[names[i]] THEN "text." \o names[i] ELSE FirstBadTxt(ev, names, i + 1)

TraceInit == tid \in 1..Len(Traces) /\ l = 1 /\ dead = FALSE /\ Init
Step == /\ ~dead /\ l <= Len(T.ev)
        /\ LET ev == T.ev[l] IN
           CASE ev.k = "add" -> AddRecord(Shape(ev.shape)) /\ dead' = FALSE
             [] ev.k = "close" -> Close(ev.nl) /\ dead' = FALSE
             [] ev.k = "read" -> /\ Read
                                 /\ \E f \in {IF ev.exc # "" THEN "raised" ELSE IF ev.n # Len(doc) THEN "count" ELSE ""} :
                                      (IF f = "" THEN TRUE ELSE Report("read." \o f)) /\ dead' = (f # "")
             [] ev.k = "rec" -> /\ phase = "read" /\ ev.i \in 1..Len(out) /\ UNCHANGED vars
                                /\ \E f \in {LET a == FirstBad(ev, NumFields, 1) IN IF a # "" THEN a ELSE FirstBadTxt(ev, TxtFields, 1)} :
                                     (IF f = "" THEN TRUE ELSE Report("rec." \o f)) /\ dead' = (f # "")
        /\ l' = l + 1 /\ UNCHANGED tid
TraceSpec == TraceInit /\ [][Step]_tvars
Consumed == (~dead /\ l = Len(T.ev) + 1) => PrintT(<<"END", tid>>)
=============================================================================
