-------------------------------- MODULE Grid --------------------------------
(***************************************************************************)
(* C01 / C02 / C10 - Transverse Mercator grid conversions                  *)
(* (geodepy.convert.geo2grid / grid2geo / psfandgridconv).                 *)
(*                                                                         *)
(* A projection is [fe, fn, k0, zw, cm1, isg]: false easting, false        *)
(* northing (assigned to the equator in the southern hemisphere; 0 in the  *)
(* north), central scale, zone width and central meridian of zone 1 (whole *)
(* degrees), ISG flag (3-digit zone codes = 10 * AMG zone + sub-zone).     *)
(* Numbers are BigFix values; zone arithmetic is integer arithmetic.       *)
(*                                                                         *)
(* This module states the discrete rules (zone, central meridian,          *)
(* hemisphere, false origin, sign of the convergence) and the relational   *)
(* laws that the exact Transverse Mercator projection obeys (symmetries,   *)
(* scalings, forward/inverse agreement).  The state machine is the pair of *)
(* actions Forward / Inverse on "the current point in its current form".   *)
(***************************************************************************)
EXTENDS BigFix, FiniteSets, Sequences, TLC

(* ------------------------- zones and central meridians ------------------ *)
\* central meridian (whole degrees) of a zone code
CMdeg(prj, zone) ==
  IF prj.isg THEN ((zone \div 10) - 1) * prj.zw * 3 + prj.cm1 + ((zone % 10) - 2) * prj.zw
  ELSE zone * prj.zw + prj.cm1 - prj.zw
ISGCodes == {541, 542, 543, 551, 552, 553, 561, 562, 563, 572}
ValidZone(prj, zone) == IF prj.isg THEN zone \in ISGCodes ELSE zone \in 1..60
\* the automatic zone: its central meridian is within half a zone width of the longitude
\* (on a boundary either neighbour qualifies)
ZoneRule(prj, zone, lon) ==
  /\ ValidZone(prj, zone)
  /\ Leq(MulSmall(Abs(Sub(lon, FromInt(CMdeg(prj, zone)))), 2), FromInt(prj.zw))

\* integer version on a lattice of hundredths of a degree (exhaustive model check)
ZoneRule100(zw, cm1, zone, lon100) ==
  LET cm100 == (zone * zw + cm1 - zw) * 100
      d == IF lon100 >= cm100 THEN lon100 - cm100 ELSE cm100 - lon100
  IN zone \in 1..60 /\ 2 * d <= zw * 100
\* the as-specified automatic zone for a non-ISG projection: zones tile [cm1 - zw/2, ...)
AutoZone100(zw, cm1, lon100) == ((lon100 * 2 - (cm1 * 2 - zw) * 100) \div (zw * 200)) + 1

(* ----------------------- hemisphere and false origin -------------------- *)
HemiOf(lat) == IF lat.neg /\ ~IsZero(lat) THEN "South" ELSE "North"
FNeff(prj, hemi) == IF hemi = "South" THEN prj.fn ELSE Zero
\* northing relative to the equator has the sign of the latitude
NorthSign(prj, hemi, north, lat) ==
  LET d == Sub(north, FNeff(prj, hemi)) IN
  IF IsZero(lat) THEN IsZero(d) ELSE IF lat.neg THEN Sign(d) <= 0 ELSE Sign(d) >= 0

(* -------------------------- convergence sign ---------------------------- *)
\* grid bearing = azimuth + convergence: with dl = lon - CM,  sign(conv) = - sign(dl) * sign(lat)
ConvSign(conv, lat, dl) ==
  IF IsZero(lat) \/ IsZero(dl) THEN TRUE      \* on the axes the value itself is checked (zero)
  ELSE Sign(conv) = 0 \/ Sign(conv) = -(Sign(dl) * Sign(lat))

(* ------------------------------ tolerances ------------------------------ *)
Mm02   == Dec(2, 1)          \* 0.2 mm
Mm04   == Dec(4, 1)          \* 0.4 mm (two 0.2 mm quantities)
Deg2e9 == Dec(2000, 3)       \* 2e-9 deg
Deg1e9 == Dec(1000, 3)       \* 1e-9 deg
Deg1e10 == Dec(100, 3)       \* 1e-10 deg
Psf2e8 == Dec(2, 2)          \* 2e-8
Psf4e8 == Dec(4, 2)
Half4  == Dec(5000, 2)       \* 0.5e-4 m: output rounding of eastings / northings
Half8  == Dec(5001, 3)       \* 0.5e-8 (+) : output rounding of the point scale factor

(* ------------------------------ state machine --------------------------- *)
\* strata of positions the conversions are exercised on (enumerated by TLC, sampled inside by the driver)
Hemis    == {"N", "S"}
Sides    == {"W", "E", "CM"}
DlonBand == {"0", "0-3", "3-10", "10-30"}
LatBand  == {"eq", "low", "mid", "high", "limit"}
ZoneCls  == {"1", "mid", "60", "isg"}
EllCls   == {"grs80", "wgs84", "ans", "intl24", "rand"}
PrjCls   == {"utm", "isg", "rand"}
Strata == {s \in [hemi : Hemis, side : Sides, dlon : DlonBand, lat : LatBand, zone : ZoneCls, ell : EllCls, prj : PrjCls] :
             /\ (s.side = "CM") = (s.dlon = "0")
             /\ (s.zone = "isg") = (s.prj = "isg")
             /\ (s.prj = "isg" => s.dlon \in {"0", "0-3"} /\ s.lat \in {"eq", "low", "mid"})
             /\ (s.lat = "eq" => s.hemi = "N")}

VARIABLES form,    \* "geo" | "grid"
          stratum, \* the stratum of the current point
          steps    \* number of conversions applied
vars == <<form, stratum, steps>>
Init == form \in {"geo", "grid"} /\ stratum \in Strata /\ steps = 0
Forward == form = "geo" /\ form' = "grid" /\ steps' = steps + 1 /\ UNCHANGED stratum
Inverse == form = "grid" /\ form' = "geo" /\ steps' = steps + 1 /\ UNCHANGED stratum
Next == Forward \/ Inverse
Spec == Init /\ [][Next]_vars
\* a conversion never changes the point: the stratum is invariant (action property); on observed
\* values this is closure, decided in Trace_Grid
PointKept == [][stratum' = stratum]_vars
=============================================================================
