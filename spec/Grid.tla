-------------------------------- MODULE Grid --------------------------------
(***************************************************************************)
(* C01 / C02 / C10 - Transverse Mercator grid conversions                  *)
(* (geodepy.convert.geo2grid / grid2geo / psfandgridconv).                 *)
(*                                                                         *)
(* A projection is [fe, fn, k0, zw, cm1, isg]: false easting, false        *)
(* northing (assigned to the equator in the southern hemisphere; 0 in the  *)
(* north), central scale, zone width and central meridian of zone 1 (whole *)
(* degrees), ISG flag (3-digit zone codes = 10 * AMG zone + sub-zone).     *)
(* Numbers are BigFix values; zone arithmetic is integer arithmetic.       *)
(*                                                                         *)
(* This module states the discrete rules (zone, central meridian,          *)
(* hemisphere, false origin, sign of the convergence) and the relational   *)
(* laws that the exact Transverse Mercator projection obeys (symmetries,   *)
(* scalings, forward/inverse agreement).  The state machine is the pair of *)
(* actions Forward / Inverse on "the current point in its current form".   *)
(***************************************************************************)
EXTENDS GridRules

(* ------------------------------ state machine --------------------------- *)
\* strata of positions the conversions are exercised on (enumerated by TLC, sampled inside by the driver)
Hemis    == {"N", "S"}
Sides    == {"W", "E", "CM"}
DlonBand == {"0", "0-3", "3-10", "10-30"}
LatBand  == {"eq", "low", "mid", "high", "limit"}
ZoneCls  == {"1", "mid", "60", "isg"}
EllCls   == {"grs80", "wgs84", "ans", "intl24", "rand"}
PrjCls   == {"utm", "isg", "rand"}
Strata == {s \in [hemi : Hemis, side : Sides, dlon : DlonBand, lat : LatBand, zone : ZoneCls, ell : EllCls, prj : PrjCls] :
             /\ (s.side = "CM") = (s.dlon = "0")
             /\ (s.zone = "isg") = (s.prj = "isg")
             /\ (s.prj = "isg" => s.dlon \in {"0", "0-3"} /\ s.lat \in {"eq", "low", "mid"})
             /\ (s.lat = "eq" => s.hemi = "N")}

VARIABLES form,    \* "geo" | "grid"
          stratum, \* the stratum of the current point
          steps    \* number of conversions applied
vars == <<form, stratum, steps>>
Init == form \in {"geo", "grid"} /\ stratum \in Strata /\ steps = 0
Forward == form = "geo" /\ form' = "grid" /\ steps' = steps + 1 /\ UNCHANGED stratum
Inverse == form = "grid" /\ form' = "geo" /\ steps' = steps + 1 /\ UNCHANGED stratum
Next == Forward \/ Inverse
Spec == Init /\ [][Next]_vars
\* a conversion never changes the point: the stratum is invariant (action property); on observed
\* values this is closure, decided in Trace_Grid
PointKept == [][stratum' = stratum]_vars
=============================================================================
