------------------------------ MODULE MC_Sinex ------------------------------
(* Model-checking wrapper for Sinex: exhaustive check on small documents     *)
(* (histories hidden by a VIEW: no invariant reads h or ck) and behaviour    *)
(* generation (history in the state: the state space is the tree of paths).  *)
EXTENDS Sinex, Randomization
CONSTANTS D,        \* depth of generated behaviours (number of editor calls)
          NRand,    \* number of random removal sets drawn by TLC (seeded by -seed) for the large documents
          Rot       \* TRUE: emit RemoveStns(S) only for the start variant S is assigned to (sweep of all subsets)

\* site 2 has two solution numbers, site 3 a single solution numbered 3
MasterSmall == << <<1, 1>>, <<2, 1>>, <<2, 2>>, <<3, 3>>, <<4, 2>> >>
\* twelve stations, solution numbers 1..3, site 3 with two solutions (13 entries, 39 / 78 parameters)
MasterBig == << <<1, 1>>, <<2, 2>>, <<3, 1>>, <<3, 2>>, <<4, 3>>, <<5, 1>>, <<6, 1>>, <<7, 2>>,
                <<8, 1>>, <<9, 1>>, <<10, 3>>, <<11, 1>>, <<12, 1>> >>
AllVariants == {<<v, t, b, c>> : v \in BOOLEAN, t \in {"L", "U"}, b \in BOOLEAN, c \in BOOLEAN}
\* four layouts for the large documents: vel x tri, with bd / comm tied to them
BigVariants == {<<TRUE, "L", FALSE, TRUE>>, <<FALSE, "U", FALSE, FALSE>>, <<TRUE, "U", TRUE, TRUE>>, <<FALSE, "L", TRUE, FALSE>>}
BigVariants2 == {<<TRUE, "L", FALSE, TRUE>>, <<FALSE, "U", TRUE, FALSE>>}
VarIdx(x) == 2 * Bool(x.vel) + Bool(x.tri = "U")

View == <<d, start>>

IsRead(lab) == lab[1] \in {"ReadEstimate", "ReadMatrix", "ReadSites"}
EditorsOnly == \A k \in 1..Len(h) : ~IsRead(h[k])
RECURSIVE SubsetIdx(_)
SubsetIdx(S) == IF S = {} THEN 0 ELSE LET s == CHOOSE x \in S : TRUE IN 2 ^ (s - 1) + SubsetIdx(S \ {s})
Selected == (Rot /\ Len(h) >= 1 /\ h[1][1] = "RemoveStns") => SubsetIdx(h[1][2]) % 4 = VarIdx(start)
StartParams(x) == [ent |-> x.ent, vel |-> x.vel, tri |-> x.tri, bd |-> x.bd, comm |-> x.comm]
\* removal sets are printed as ascending sequences
RECURSIVE SeqOf(_)
SeqOf(S) == IF S = {} THEN <<>> ELSE LET m == CHOOSE x \in S : \A y \in S : x <= y IN <<m>> \o SeqOf(S \ {m})
Emit == IF Len(h) = D THEN PrintT(<<"BEH", StartParams(start), [k \in 1..Len(h) |-> <<h[k][1], SeqOf(h[k][2]), h[k][3]>>]>>)
        ELSE TRUE
Bound == Len(h) <= D /\ EditorsOnly /\ Selected /\ Emit

\* generation on large documents: a fixed family of removal sets instead of all 4095
PickSets == {{}, {1}, {12}, {3}, {2, 3, 4}, {1, 3, 5, 7, 9, 11}, {2, 4, 6, 8, 10, 12}, 1..11, 2..12, {1, 2, 4, 5, 6, 7, 8, 9, 10, 11, 12}}
NextPick == (\E S \in PickSets : RemoveStns(S)) \/ RemoveVel \/ RemoveZeros
SpecPick == Init /\ [][NextPick]_vars
\* random removal sets drawn once per run by TLC itself
RandSets == RandomSetOfSubsets(NRand, 6, 1..12) \ {1..12}
NextRand == (\E S \in RandSets : RemoveStns(S)) \/ RemoveVel \/ RemoveZeros
SpecRand == Init /\ [][NextRand]_vars
\* sweep of every removal set (depth 1)
NextStns == \E S \in SUBSET SitesOf(d) : RemoveStns(S)
SpecStns == Init /\ [][NextStns]_vars
SpecEd == Init /\ [][Editors]_vars
=============================================================================
