SPECIFICATION TraceSpec
CONSTANT Threads <- TrThreads
CONSTANT CallIds <- TrCalls
CONSTANT Cells <- TrCells
CONSTANT Adders <- TrAdders
CONSTANT MaxLen = 50
CONSTANT AsBuilt = FALSE
CONSTRAINT Consumed
INVARIANT ModelInv
CHECK_DEADLOCK FALSE
