-------------------------- MODULE Audit_Catalogue --------------------------
(* Audit of the live catalogue (constant Cat from CatDump, written by the     *)
(* driver from vars(geodepy.constants)): one state per audit item, every      *)
(* failing item is printed as <<"FAIL", kind, ...>>.                          *)
EXTENDS Catalogue
VARIABLE item
Items == {<<"label", i, 0, 0, 0>> : i \in 1..Len(CatData)}
         \cup {<<"pair", i, 0, 0, 0>> : i \in 1..Len(CatData)}
         \cup {<<"tri", t[1], t[2], t[3], e>> : t \in Triples, e \in RefEpochData}
Check(it) ==
  CASE it[1] = "label" -> IF NameMatchesLabels(it[2]) THEN TRUE
                          ELSE PrintT(<<"FAIL", "label", CatData[it[2]].name, CatData[it[2]].from, CatData[it[2]].to>>)
    [] it[1] = "pair"  -> IF ReverseIsNegation(it[2]) THEN TRUE
                          ELSE PrintT(<<"FAIL", "pair", CatData[it[2]].name>>)
    [] it[1] = "tri"   -> LET bad == TriBad(<<it[2], it[3], it[4]>>, it[5])
                          IN IF bad = {} THEN TRUE
                             ELSE PrintT(<<"FAIL", "tri", CatData[it[2]].name, CatData[it[3]].name, CatData[it[4]].name,
                                           it[5], bad>>)
Init == item \in Items /\ Check(item)
Next == UNCHANGED item
Spec == Init /\ [][Next]_item
\* counts reported once
Counts == PrintT(<<"COUNTS", Len(CatData), Cardinality({i \in 1..Len(CatData) : Partners(i) # {}}),
                   Cardinality(Triples), Cardinality(RefEpochData)>>)
ASSUME Counts
=============================================================================
