SPECIFICATION MCSpec
CONSTANT Names = {"FILE/COMMENT", "SITE/ID", "SOLUTION/EPOCHS"}
CONSTANT ReadNames = {"SITE/ID", "SOLUTION/EPOCHS", "SITE/ANTENNA"}
CONSTANT MaxBlocks = 2
CONSTANT MaxData = 1
CONSTANT MaxGen = 1
CONSTANT HLen = 99
VIEW View
CONSTRAINT Reduced
INVARIANT TypeOK
INVARIANT ScanIsMeaning
INVARIANT HeaderBlockIsMeaning
INVARIANT RecordsAreMeaning
INVARIANT Stripped
INVARIANT RoundTrip
INVARIANT CommentRoundTrip
INVARIANT CanonicalOrder
INVARIANT WellFormedKept
INVARIANT NothingInvented
PROPERTY ReadersArePure
CHECK_DEADLOCK FALSE
