INIT Init
NEXT Next
