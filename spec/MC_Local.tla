------------------------------ MODULE MC_Local ------------------------------
(* Model-checking wrapper for Local: exhaustive check on the exact lattice   *)
(* (sines and cosines in {0, +-3/5, +-4/5, +-1}: every BigFix number is an   *)
(* exact decimal, so the invariants hold with equality) and behaviour        *)
(* generation (history in the state; the driver replays every printed        *)
(* behaviour on the real functions).                                         *)
EXTENDS Local
CONSTANTS D,                    \* depth of generated behaviours
          GI, GJ                \* behaviour generation runs one process per station: LatSeq[GI], LonSeq[GJ]

LatSeq == << <<-1, 0, 1>>, <<0, 1, 1>>, <<3, 4, 5>>, <<-4, 3, 5>>, <<1, 0, 1>> >>
LonSeq == << <<0, 1, 1>>, <<1, 0, 1>>, <<0, -1, 1>>, <<-1, 0, 1>>, <<3, 4, 5>>, <<4, -3, 5>>, <<-4, -3, 5>>, <<-3, 4, 5>> >>
MCLats == {LatSeq[i] : i \in 1..Len(LatSeq)}
MCLons == {LonSeq[i] : i \in 1..Len(LonSeq)}
GenLats == {LatSeq[GI]}
GenLons == {LonSeq[GJ]}
\* quick exhaustive run: three latitudes (south pole, equator, 36.87) x three longitudes (0, 143.13, -143.13)
MCLatsQ == {<<-1, 0, 1>>, <<0, 1, 1>>, <<3, 4, 5>>}
MCLonsQ == {<<0, 1, 1>>, <<4, -3, 5>>, <<-4, -3, 5>>}
MCVecs == {<<1, 2, 3>>, <<0, 0, 7>>, <<-5, 4, 0>>}
MCVcvs == { << <<4, 0, 0>>, <<0, 1, 0>>, <<0, 0, 9>> >>,              \* diagonal
            << <<1, 2, 2>>, <<2, 4, 4>>, <<2, 4, 4>> >>,              \* singular (rank 1)
            << <<4, 1, 0>>, <<1, 3, 1>>, <<0, 1, 2>> >>,              \* full
            << <<97, 96, 0>>, <<96, 153, 0>>, <<0, 0, 25>> >> }       \* ellipse 15 x 5 at bearing atan(3/4)
MCCols == {<<4, 1, 9>>, <<0, 0, 1>>}
MCPairs == << << << <<4, 1, 0>>, <<1, 3, 1>>, <<0, 1, 2>> >>, << <<0, 0, 0>>, <<0, 0, 0>>, <<0, 0, 0>> >> >>,   \* uncorrelated stations
             << << <<4, 1, 0>>, <<1, 3, 1>>, <<0, 1, 2>> >>, << <<1, 1, 0>>, <<0, 1, 1>>, <<1, 0, 1>> >> >>,   \* cov12 not symmetric
             << << <<1, 2, 2>>, <<2, 4, 4>>, <<2, 4, 4>> >>, << <<1, 2, 2>>, <<2, 4, 4>>, <<2, 4, 4>> >> >> >>  \* fully correlated copy
MCKInts == <<-5, 0, 1, 2, 119, 120, 121, 200>>
MCKArgs == [i \in 1..9 |-> IF i <= 8 THEN [int |-> TRUE, v |-> MCKInts[i]] ELSE [int |-> FALSE, v |-> 2]]

ASSUME PrintT(<<"PAIRS", MCPairs>>)
NoKArgs == <<>>
View == <<pos, frame, val, orig, out>>
Emit == IF Len(h) = D THEN PrintT(<<"BEH", pos, orig[1], orig[2], h>>) ELSE TRUE
Bound == Len(h) <= D /\ Emit
=============================================================================
