---------------------------- MODULE Trace_Purity ----------------------------
(***************************************************************************)
(* Trace validation for C09.  A trace is one history: programs of calls    *)
(* run by 1..8 real threads against the real library with the write        *)
(* barrier of geodepy/constants.py switched on (GEODEPY_VERIF=1).          *)
(* Events, in the global order in which the driver logged them:            *)
(*   S  thread t starts call `cls` (concrete call key `key`)               *)
(*   W  thread t wrote attribute `attr` of shipped constant `obj`          *)
(*   E  thread t finished: result hash, arguments-unchanged flag,          *)
(*      constants-snapshot-unchanged flag, exception text                  *)
(* The trace is judged against Purity with AsBuilt = FALSE: S and E are    *)
(* Purity!Start / Purity!Finish of that thread; a W event has NO           *)
(* corresponding action in the intended specification, so it is a          *)
(* non-conformance naming the object and attribute (transient writes are   *)
(* seen even if undone later).  E must in addition repeat, bit for bit,    *)
(* the result of the first evaluation of the same concrete call anywhere   *)
(* in the history AND the result the call gives when it is the only call   *)
(* a fresh interpreter ever makes (`iso`: "whatever other library calls    *)
(* were made before it"), leave the caller's arguments and the deep        *)
(* snapshot of every module-level constant unchanged.                      *)
(***************************************************************************)
EXTENDS Purity, Json, IOUtils

Data   == JsonDeserialize(IOEnv.TRACE_FILE)
Traces == Data.traces
TrThreads == 1..8
TrCells == {"sd"}
TrAdders == {"tr14", "tr14vcv", "tr_atrf", "tr_alg"}
TrCalls == {"conv_grid", "conv_cart", "conv_misc", "geod_dir", "geod_inv", "geod_utm", "stat_rot", "stat_vcv",
            "stat_err", "surv", "tr7", "tr14", "tr14vcv", "tr_atrf", "tr_mga", "tr_alg"}

VARIABLES tid, l, dead, firstObs
tvars == <<vars, tid, l, dead, firstObs>>
T == Traces[tid]

Report(clause) == PrintT(<<"FAIL", tid, l, clause>>)

\* budgets come from the trace header: thread -> length of its program
BudgetOf(tr, t) == IF t <= Len(tr.progs) THEN Len(tr.progs[t]) ELSE 0

TraceInit == /\ tid \in 1..Len(Traces) /\ l = 1 /\ dead = FALSE /\ firstObs = <<>>
             /\ shared = Pristine
             /\ budget = [t \in Threads |-> BudgetOf(Traces[tid], t)]
             /\ pc = [t \in Threads |-> "idle"] /\ cur = [t \in Threads |-> ""]
             /\ pending = [t \in Threads |-> {}] /\ seen = [t \in Threads |-> <<>>]
             /\ first = [c \in CallIds |-> <<>>] /\ ok = TRUE /\ sched = <<>>

Ev == T.ev[l]
IsEv(k) == ~dead /\ l <= Len(T.ev) /\ T.ev[l].k = k

\* lookup in the association list firstObs: <<key, res>> pairs
RECURSIVE Lookup(_, _, _)
Lookup(al, key, i) == IF i > Len(al) THEN "" ELSE IF al[i][1] = key THEN al[i][2] ELSE Lookup(al, key, i + 1)

TrStart == /\ IsEv("S")
           /\ IF pc[Ev.t] = "idle" /\ budget[Ev.t] > 0 /\ Ev.cls \in CallIds
              THEN StartC(Ev.t, Ev.cls) /\ UNCHANGED <<dead, firstObs>>
              ELSE Report("Start.not_enabled") /\ dead' = TRUE /\ UNCHANGED <<vars, firstObs>>
           /\ l' = l + 1 /\ UNCHANGED tid

\* no action of the intended specification writes a shipped constant
TrWrite == /\ IsEv("W")
           /\ Report("Write." \o Ev.obj \o "." \o Ev.attr) /\ dead' = TRUE
           /\ l' = l + 1 /\ UNCHANGED <<vars, tid, firstObs>>

TrEnd == /\ IsEv("E")
         /\ IF pc[Ev.t] = "run" /\ cur[Ev.t] = Ev.cls
            THEN \E prev \in {Lookup(firstObs, Ev.key, 1)} :
                 \E f \in {IF Ev.exc # "" THEN "End.raised"
                           ELSE IF ~Ev.args_same THEN "End.argument_mutated"
                           ELSE IF ~Ev.consts_same THEN "End.constants_changed"
                           ELSE IF prev # "" /\ prev # Ev.res THEN "End.result_differs"
                           ELSE IF Ev.iso # "" /\ Ev.iso # Ev.res THEN "End.result_depends_on_history"
                           ELSE ""} :
                   /\ Finish(Ev.t)
                   /\ (IF f = "" THEN TRUE ELSE Report(f))
                   /\ dead' = (f # "")
                   /\ firstObs' = IF prev = "" THEN Append(firstObs, <<Ev.key, Ev.res>>) ELSE firstObs
            ELSE Report("End.not_enabled") /\ dead' = TRUE /\ UNCHANGED <<vars, firstObs>>
         /\ l' = l + 1 /\ UNCHANGED tid

TraceNext == TrStart \/ TrWrite \/ TrEnd
TraceSpec == TraceInit /\ [][TraceNext]_tvars
Consumed == (~dead /\ l = Len(T.ev) + 1) => PrintT(<<"END", tid>>)
\* the intended model's invariants along every real history
ModelInv == NoSharedWrite /\ Determinism
=============================================================================
