-------------------------------- MODULE Api --------------------------------
(***************************************************************************)
(* C20 - the HTTP API (api/app.py) returns exactly what the library        *)
(* computes.                                                               *)
(*                                                                         *)
(* A request is a function `query` from field names to tokens.  Serving a  *)
(* request is the pipeline                                                 *)
(*    Receive -> Parse -> ConvIn(from type) -> LibCall(endpoint, wiring)   *)
(*            -> ConvOut(to type) -> Respond(200, json)                    *)
(* one action per stage (the stages are the linearisation points of the    *)
(* one public call GET /<endpoint>), plus Index (GET /) and Done (the      *)
(* server keeps nothing between requests).                                 *)
(*                                                                         *)
(* S-tables (the whole content of the property on the structural side):    *)
(*   ArgFields  endpoint -> ordered query fields feeding the library args  *)
(*   ArgAngle   which of these are angles (converted) / lengths (never)    *)
(*   ResKeys    endpoint -> ordered JSON keys fed by the library results   *)
(*   ResAngle   which results are angles                                   *)
(*   ConvInTable / ConvOutTable  angle type -> conversion; absent = dd     *)
(*   Routes     what the index route must list                             *)
(*                                                                         *)
(* The numeric meaning of tokens, of the two conversions and of the two    *)
(* library functions is a PARAMETER of every stage (operator arguments     *)
(* N, H, L, P):                                                            *)
(*   - here they are interpreted freely (uninterpreted constructors        *)
(*     SymNum / SymHp2Dec / SymLib / SymDec2Hp), which makes wiring and    *)
(*     conversion discipline visible in the terms and lets TLC check the   *)
(*     tables exhaustively;                                                *)
(*   - in Trace_Api they are the tables observed by calling the real       *)
(*     library directly, so the same Post_X functions compute, bit for     *)
(*     bit, what the real API must hand to the library and must answer.    *)
(*                                                                         *)
(* `cls` is the class of the request's numbers and of its query-string     *)
(* syntax (the discrete skeleton of the quantifier: domains of C04/C05,    *)
(* negative hemispheres, HP / decimal, field order, number format).  It    *)
(* does not influence any stage: it is what TLC enumerates for the driver. *)
(***************************************************************************)
EXTENDS Integers, Sequences, FiniteSets

Range(s) == {s[i] : i \in DOMAIN s}
IndexOf(s, x) == CHOOSE i \in DOMAIN s : s[i] = x

(* ------------------------------ S-tables ------------------------------- *)
Endpoints == {"vincinv", "vincdir"}
ArgFields == [vincinv |-> <<"lat1", "lon1", "lat2", "lon2">>,
              vincdir |-> <<"lat1", "lon1", "azimuth1to2", "ell_dist">>]
ArgAngle  == [vincinv |-> <<TRUE, TRUE, TRUE, TRUE>>,
              vincdir |-> <<TRUE, TRUE, TRUE, FALSE>>]
ResKeys   == [vincinv |-> <<"ell_dist", "azimuth1to2", "azimuth2to1">>,
              vincdir |-> <<"lat2", "lon2", "azimuth2to1">>]
ResAngle  == [vincinv |-> <<FALSE, TRUE, TRUE>>,
              vincdir |-> <<TRUE, TRUE, TRUE>>]
Routes    == {"/"} \cup {"/" \o e : e \in Endpoints}

TypeFields   == {"from_angle_type", "to_angle_type"}
AngleTypes   == {"dd", "dms"}
TypeTokens   == AngleTypes \cup {"absent"}
DefaultType  == "dd"
Eff(t)       == IF t = "absent" THEN DefaultType ELSE t
ConvInTable  == [dd |-> "id", dms |-> "hp2dec"]
ConvOutTable == [dd |-> "id", dms |-> "dec2hp"]
InOp(ep, i, from) == IF ArgAngle[ep][i] THEN ConvInTable[Eff(from)] ELSE "id"
OutOp(ep, i, to)  == IF ResAngle[ep][i] THEN ConvOutTable[Eff(to)] ELSE "id"

(* ---------------- classes of inputs (quantifier skeleton) --------------- *)
Hemis   == {"S", "N"}
Sides   == {"W", "E"}
Geoms   == {"near", "far", "meridian", "parallel", "equator", "straddle", "coincident", "hemis", "polar"}
AzCls   == {"c0", "c90", "c180", "c270", "c360", "q1", "q2", "q3", "q4"}
DistCls == {"zero", "short", "mid", "long"}
Fmts    == {"repr", "exp17", "fix20"}
Ords    == {"canon", "rev", "rot"}
Classes(ep) ==
  IF ep = "vincinv"
  THEN [h1 : Hemis, w1 : Sides, geom : Geoms, az : {"na"}, dist : {"na"}, fmt : Fmts, ord : Ords]
  ELSE [h1 : Hemis, w1 : Sides, geom : {"na"}, az : AzCls, dist : DistCls, fmt : Fmts, ord : Ords]
NoClass == [h1 |-> "na", w1 |-> "na", geom |-> "na", az |-> "na", dist |-> "na", fmt |-> "na", ord |-> "na"]

(* ----------------------------- the pipeline ----------------------------- *)
\* each stage is a function of the previous stage's value; N H L P give numbers their meaning
Post_Route(q, ep) ==
  [ep   |-> ep,
   from |-> IF "from_angle_type" \in DOMAIN q THEN q["from_angle_type"] ELSE "absent",
   to   |-> IF "to_angle_type" \in DOMAIN q THEN q["to_angle_type"] ELSE "absent"]
Post_Parse(q, r, N(_)) == [f \in Range(ArgFields[r.ep]) |-> N(q[f])]
Post_ConvIn(r, p, H(_)) ==
  [i \in DOMAIN ArgFields[r.ep] |->
     IF InOp(r.ep, i, r.from) = "hp2dec" THEN H(p[ArgFields[r.ep][i]]) ELSE p[ArgFields[r.ep][i]]]
Post_LibCall(r, a, L(_, _)) == L(r.ep, a)
Post_ConvOut(r, res, P(_)) ==
  [i \in DOMAIN ResKeys[r.ep] |-> IF OutOp(r.ep, i, r.to) = "dec2hp" THEN P(res[i]) ELSE res[i]]
Post_Respond(r, o) ==
  [status |-> 200, body |-> [k \in Range(ResKeys[r.ep]) |-> o[IndexOf(ResKeys[r.ep], k)]]]
Post_Index == [status |-> 200, body |-> Routes]
\* the whole service as one function (used by the invariants)
Serve(q, ep, N(_), H(_), L(_, _), P(_)) ==
  LET r == Post_Route(q, ep)
  IN Post_Respond(r, Post_ConvOut(r, Post_LibCall(r, Post_ConvIn(r, Post_Parse(q, r, N), H), L), P))

(* -------------------------- free interpretation ------------------------- *)
NumTok(f)     == "#" \o f                                   \* the token sent in field f
SymNum(tok)   == [src |-> tok, conv |-> "id"]
SymHp2Dec(v)  == [v EXCEPT !.conv = "hp2dec"]
SymLib(ep, a) == [i \in DOMAIN ResKeys[ep] |-> [fn |-> ep, idx |-> i, args |-> a, conv |-> "id"]]
SymDec2Hp(v)  == [v EXCEPT !.conv = "dec2hp"]

MkQuery(ep, f, t) ==
  [x \in Range(ArgFields[ep]) \cup (IF f = "absent" THEN {} ELSE {"from_angle_type"})
                              \cup (IF t = "absent" THEN {} ELSE {"to_angle_type"}) |->
     IF x = "from_angle_type" THEN f ELSE IF x = "to_angle_type" THEN t ELSE NumTok(x)]
NumFields(q) == DOMAIN q \ TypeFields

VARIABLES pc,       \* stage of the request being served ("Idle" between requests)
          query,    \* the request: field -> token
          rq,       \* routing decision: endpoint and the two angle-type tokens (or "absent")
          cls,      \* class of the numbers / syntax of the request
          parsed,   \* numeric field -> number
          args,     \* the arguments handed to the library function, in order
          result,   \* what the library function returned, in order
          out,      \* the results after output conversion
          resp      \* the HTTP response
vars == <<pc, query, rq, cls, parsed, args, result, out, resp>>

Nothing == <<>>
NoRq    == [ep |-> "none", from |-> "absent", to |-> "absent"]

Init == /\ pc = "Idle" /\ query = Nothing /\ rq = NoRq /\ cls = NoClass
        /\ parsed = Nothing /\ args = Nothing /\ result = Nothing /\ out = Nothing /\ resp = Nothing

ReceiveA(ep, q, c) ==
  /\ pc = "Idle"
  /\ query' = q /\ rq' = Post_Route(q, ep) /\ cls' = c /\ pc' = "Received"
  /\ UNCHANGED <<parsed, args, result, out, resp>>
ParseA(N(_)) ==
  /\ pc = "Received" /\ NumFields(query) = Range(ArgFields[rq.ep])
  /\ parsed' = Post_Parse(query, rq, N) /\ pc' = "Parsed"
  /\ UNCHANGED <<query, rq, cls, args, result, out, resp>>
ConvInA(H(_)) ==
  /\ pc = "Parsed"
  /\ args' = Post_ConvIn(rq, parsed, H) /\ pc' = "ConvertedIn"
  /\ UNCHANGED <<query, rq, cls, parsed, result, out, resp>>
LibCallA(L(_, _)) ==
  /\ pc = "ConvertedIn"
  /\ result' = Post_LibCall(rq, args, L) /\ pc' = "Called"
  /\ UNCHANGED <<query, rq, cls, parsed, args, out, resp>>
ConvOutA(P(_)) ==
  /\ pc = "Called"
  /\ out' = Post_ConvOut(rq, result, P) /\ pc' = "ConvertedOut"
  /\ UNCHANGED <<query, rq, cls, parsed, args, result, resp>>
RespondA ==
  /\ pc = "ConvertedOut"
  /\ resp' = Post_Respond(rq, out) /\ pc' = "Responded"
  /\ UNCHANGED <<query, rq, cls, parsed, args, result, out>>
IndexA ==
  /\ pc = "Idle"
  /\ resp' = Post_Index /\ pc' = "Listed" /\ rq' = [NoRq EXCEPT !.ep = "index"]
  /\ UNCHANGED <<query, cls, parsed, args, result, out>>
DoneA ==
  /\ pc \in {"Responded", "Listed"}
  /\ pc' = "Idle" /\ query' = Nothing /\ rq' = NoRq /\ cls' = NoClass
  /\ parsed' = Nothing /\ args' = Nothing /\ result' = Nothing /\ out' = Nothing /\ resp' = Nothing

Receive == /\ pc = "Idle"       \* (guard first: TLC must not enumerate the requests in every state)
           /\ \E ep \in Endpoints : \E f \in TypeTokens : \E t \in TypeTokens : \E c \in Classes(ep) :
                 ReceiveA(ep, MkQuery(ep, f, t), c)
Parse   == ParseA(SymNum)
ConvIn  == ConvInA(SymHp2Dec)
LibCall == LibCallA(SymLib)
ConvOut == ConvOutA(SymDec2Hp)
Respond == RespondA
Index   == IndexA
Done    == DoneA

Next == Receive \/ Parse \/ ConvIn \/ LibCall \/ ConvOut \/ Respond \/ Index \/ Done
Spec == Init /\ [][Next]_vars

(* ------------------------------ properties ----------------------------- *)
PCs == {"Idle", "Received", "Parsed", "ConvertedIn", "Called", "ConvertedOut", "Responded", "Listed"}
AfterConvIn  == {"ConvertedIn", "Called", "ConvertedOut", "Responded"}
AfterCall    == {"Called", "ConvertedOut", "Responded"}
AfterConvOut == {"ConvertedOut", "Responded"}

TypeOK == /\ pc \in PCs
          /\ rq.ep \in Endpoints \cup {"none", "index"}
          /\ rq.from \in TypeTokens /\ rq.to \in TypeTokens
          /\ (pc \notin {"Idle", "Listed"} => rq.ep \in Endpoints /\ cls \in Classes(rq.ep))

\* which query field feeds which library argument: the i-th argument comes from the i-th field of
\* the endpoint's table and from nothing else; no numeric field is dropped, none is used twice
Wiring ==
  pc \in AfterConvIn =>
     /\ Len(args) = Len(ArgFields[rq.ep])
     /\ \A i \in DOMAIN args : args[i].src = query[ArgFields[rq.ep][i]]
     /\ Cardinality({args[i].src : i \in DOMAIN args}) = Len(args)
     /\ {args[i].src : i \in DOMAIN args} = {query[f] : f \in NumFields(query)}

\* unit discipline: a token is in the unit named by from_angle_type; hp2dec maps HP to decimal
\* degrees and is meaningless on anything else; the library must only ever see decimal degrees
UnitIn(v, u) == IF v.conv = "hp2dec" THEN (IF u = "dms" THEN "dd" ELSE "nonsense") ELSE u
LibrarySeesDD ==
  pc \in AfterConvIn =>
     \A i \in DOMAIN args : ArgAngle[rq.ep][i] => UnitIn(args[i], Eff(rq.from)) = "dd"
\* ... and the answer is in the unit named by to_angle_type (the library returns decimal degrees)
UnitOut(v) == IF v.conv = "dec2hp" THEN "dms" ELSE "dd"
AnswerInRequestedUnit ==
  pc \in AfterConvOut =>
     \A i \in DOMAIN out : ResAngle[rq.ep][i] => UnitOut(out[i]) = Eff(rq.to)

\* lengths are never converted, whatever the angle types
LengthsPassThrough ==
  /\ (pc \in AfterConvIn  => \A i \in DOMAIN args : ~ArgAngle[rq.ep][i] => args[i] = parsed[ArgFields[rq.ep][i]])
  /\ (pc \in AfterConvOut => \A i \in DOMAIN out : ~ResAngle[rq.ep][i] => out[i] = result[i])

\* decimal degrees pass through unchanged
DDPassThrough ==
  /\ (pc \in AfterConvIn /\ Eff(rq.from) = "dd" => \A i \in DOMAIN args : args[i] = parsed[ArgFields[rq.ep][i]])
  /\ (pc \in AfterConvOut /\ Eff(rq.to) = "dd" => out = result)

\* the library function called is the endpoint's, on exactly the converted arguments
CallsTheLibrary ==
  pc \in AfterCall => \A i \in DOMAIN result : result[i].fn = rq.ep /\ result[i].idx = i /\ result[i].args = args

\* an absent angle type behaves as "dd"; input and output types act independently
Explicit(q) == [x \in DOMAIN q \cup TypeFields |-> IF x \in DOMAIN q THEN q[x] ELSE DefaultType]
AbsentMeansDD ==
  pc = "Responded" =>
     resp = Serve(Explicit(query), rq.ep, SymNum, SymHp2Dec, SymLib, SymDec2Hp)
TypesIndependent ==
  /\ (pc \in AfterConvIn =>
        \A t \in TypeTokens : Post_ConvIn([rq EXCEPT !.to = t], parsed, SymHp2Dec) = args)
  /\ (pc \in AfterConvOut =>
        \A f \in TypeTokens : Post_ConvOut([rq EXCEPT !.from = f], result, SymDec2Hp) = out)

\* status 200, a JSON object with exactly the endpoint's keys, each fed by its own result
ResponseShape ==
  pc = "Responded" =>
     /\ resp.status = 200
     /\ DOMAIN resp.body = Range(ResKeys[rq.ep])
     /\ \A i \in DOMAIN ResKeys[rq.ep] : resp.body[ResKeys[rq.ep][i]] = out[i]
\* the stages compose to the service function
StagesCompose ==
  pc = "Responded" => resp = Serve(query, rq.ep, SymNum, SymHp2Dec, SymLib, SymDec2Hp)

\* the index route lists every endpoint (and itself)
IndexComplete ==
  pc = "Listed" => /\ resp.status = 200
                   /\ \A e \in Endpoints : ("/" \o e) \in resp.body
                   /\ "/" \in resp.body

\* nothing survives a request
Stateless == pc = "Idle" => /\ query = Nothing /\ parsed = Nothing /\ args = Nothing
                            /\ result = Nothing /\ out = Nothing /\ resp = Nothing
=============================================================================
