SPECIFICATION TraceSpec
CONSTANT Names = {"SITE/ID"}
CONSTANT MaxBlocks = 0
CONSTANT MaxData = 0
CONSTANT MaxGen = 50
CONSTRAINT Consumed
INVARIANT TypeOK
INVARIANT Stripped
INVARIANT RoundTrip
INVARIANT CommentRoundTrip
INVARIANT CanonicalOrder
INVARIANT WellFormedKept
INVARIANT NothingInvented
CHECK_DEADLOCK FALSE
