--------------------------- MODULE Trace_Geodesic ---------------------------
(***************************************************************************)
(* Trace validation for C04 (vincdir) and C05 (vincinv).  One event = one  *)
(* law instance, all numbers observed from real calls.  Clause prefixes    *)
(* c04_ / c05_ say which property a failure belongs to.  Event kinds:      *)
(*  DMER  direct along a meridian between Pythagorean latitudes (optionally*)
(*        across a pole): end latitude from MeridianArc                    *)
(*  DEQ   direct along the equator: a * dlambda                            *)
(*  DFLOW Direct(s1+s2) against Direct(s1) then Direct(s2)                 *)
(*  DREV  Direct then Direct back with the reverse azimuth                 *)
(*  DSYM  two direct calls related by reflection / mirror / longitude      *)
(*        shift / zero distance / angle-object arguments                   *)
(*  ISWAP ISHIFT ICOIN  inverse: swap symmetry, longitude offset, coincident*)
(*  IMER  IEQ  inverse on a meridian / the equator against the oracles     *)
(*  ICLOSE inverse then direct with its output arrives at the second point *)
(*  DGE   direct against the exact geodesic (GeodesicOracle): end point     *)
(*        within 1 mm, reverse azimuth within 1e-8 deg                     *)
(*  IGE   inverse: the exact geodesic followed with the returned distance   *)
(*        and azimuth arrives within 2 mm; reverse azimuth                 *)
(***************************************************************************)
EXTENDS Geodesic, GeodesicOracle, Ellipsoids, Json, IOUtils

Data   == JsonDeserialize(IOEnv.TRACE_FILE)
Traces == Data.traces
VARIABLES tid, l, dead
tvars == <<vars, tid, l, dead>>
T == Traces[tid]
Report(clause) == PrintT(<<"FAIL", tid, l, clause>>)
J(x) == FromJ(x)

N3(ell) == ThirdFlat(J(ell.invf), J(ell.n0))
OracleOK(ell) == NOK(J(ell.invf), N3(ell))
Arc(ell, tri) == Meridian(J(ell.a), N3(ell), tri)
Deg90 == FromInt(90)
Quarter(ell) == Meridian(J(ell.a), N3(ell), <<1, 0, 1>>)

\* tolerance in degrees of latitude for a position tolerance in metres
LatTol(m) == DivSmall(m, 109900)          \* dividing by the MINIMUM metres per degree gives the LARGEST angle: never a false alarm

(* ------------------------------- C04 ----------------------------------- *)
DMERChecks(o) ==
  IF ~OracleOK(o.ell) THEN << <<"oracle_start_value", FALSE>> >> ELSE
  LET m1 == Arc(o.ell, o.tri1) m2 == Arc(o.ell, o.tri2) q == Quarter(o.ell)
      \* distance the specification assigns to this run
      sExact == IF o.cross = 0 THEN Abs(Sub(m2, m1))
                ELSE IF o.az = 0 THEN Add(Sub(q, m1), Sub(q, m2)) ELSE Add(Add(q, m1), Add(q, m2))
      slack == Abs(Sub(J(o.s), sExact))                     \* the driver's float s against the exact arc
      tol == LatTol(Add(Mm1, slack))
      lonExp == IF o.cross = 0 THEN J(o.lon1) ELSE Add(J(o.lon1), FromInt(180))
      azExp == IF o.cross = 0 THEN (IF o.az = 0 THEN FromInt(180) ELSE Zero) ELSE (IF o.az = 0 THEN Zero ELSE FromInt(180))
      nearPole == Gt(Abs(J(o.out.lat)), FromInt(89))
  IN << <<"c04_meridian_driver_distance", Leq(slack, Dec(1, 1))>>,       \* machinery: s handed over is the arc (0.1 mm)
        <<"c04_meridian_latitude", Within(J(o.out.lat), LatDeg(o.tri2), tol)>>,
        <<"c04_meridian_longitude", nearPole \/ Leq(EastSep(J(o.out.lon), lonExp, J(o.cos2)), Mm1)>>,
        <<"c04_meridian_reverse_azimuth", nearPole \/ Leq(Abs(AzDiff(J(o.out.az), azExp)), Add(Az1e8, Az1e9))>> >>

DEQChecks(o) ==
  LET a == J(o.ell.a)
      \* longitude travelled = s * 180 / (a pi) degrees; check a * pi/180 * dlon = s within 1 mm
      dl == Fold2(Sub(J(o.out.lon), J(o.lon1)))
      dist == DivSmall(Mul(Mul(a, Pi), Abs(dl)), 180)
      sgnOK == IF o.kdeg = 0 THEN TRUE ELSE IF o.az = 90 THEN ~dl.neg ELSE dl.neg
  IN << <<"c04_equator_latitude", Leq(Mul(Abs(J(o.out.lat)), MPerDegMin), Mm1)>>,
        <<"c04_equator_distance", Within(dist, J(o.s), Mm1) \/ (o.kdeg = 180 /\ Within(Sub(Mul(a, Pi), dist), Zero, Mm1))>>,
        <<"c04_equator_direction", o.kdeg >= 180 \/ sgnOK>>,
        <<"c04_equator_reverse_azimuth", Leq(Abs(AzDiff(J(o.out.az), IF o.az = 90 THEN FromInt(270) ELSE FromInt(90))), Add(Az1e8, Az1e9))>> >>

\* whole = Direct(p, az, s1+s2);  leg1 = Direct(p, az, s1); leg2 = Direct(leg1 point, leg1.az - 180, s2)
DFLOWChecks(o) ==
  LET tol == Add(Add(MulSmall(Mm1, 3), AzEffect(Add(Az1e8, Az1e9), J(o.s2))), Dec(1, 1))     \* 3 calls + azimuth of leg 1 carried over s2
  IN << <<"c04_flow_position", PosWithin(J(o.whole.lat), J(o.whole.lon), J(o.leg2.lat), J(o.leg2.lon), J(o.cos2), tol)>>,
        <<"c04_flow_reverse_azimuth", Gt(Abs(J(o.whole.lat)), FromInt(89)) \/
                                      Leq(Abs(AzDiff(J(o.whole.az), J(o.leg2.az))), MulSmall(Add(Az1e8, Az1e9), 3))>> >>

\* out = Direct(p, az, s);  back = Direct(out point, out.az, s)
DREVChecks(o) ==
  LET tol == Add(Add(MulSmall(Mm1, 2), AzEffect(Add(Az1e8, Az1e9), J(o.s))), Dec(1, 1))
  IN << <<"c04_reversal_position", PosWithin(J(o.back.lat), J(o.back.lon), J(o.p.lat), J(o.p.lon), J(o.cos1), tol)>>,
        <<"c04_reversal_azimuth", Gt(Abs(J(o.p.lat)), FromInt(89)) \/ Gt(Abs(J(o.out.lat)), FromInt(89)) \/
                                  Leq(Abs(AzDiff(J(o.back.az), J(o.p.az))), MulSmall(Add(Az1e8, Az1e9), 2))>> >>

\* a, b: two direct calls; rel says how b's input was derived from a's
DSYMChecks(o) ==
  LET tol == Add(MulSmall(Mm1, 2), Dec(1, 1)) IN
  CASE o.rel = "reflect" ->      \* lat -> -lat, az -> 180 - az : lat2 -> -lat2, lon2 same
         << <<"c04_reflect_latitude", Leq(NorthSep(J(o.b.lat), Neg(J(o.a.lat))), tol)>>,
            <<"c04_reflect_longitude", Leq(EastSep(J(o.b.lon), J(o.a.lon), J(o.cos)), tol)>> >>
    [] o.rel = "mirror" ->       \* az -> 360 - az : dlon -> -dlon, lat2 same
         << <<"c04_mirror_latitude", Leq(NorthSep(J(o.b.lat), J(o.a.lat)), tol)>>,
            <<"c04_mirror_longitude", Leq(EastSep(Sub(J(o.b.lon), J(o.lon1)), Neg(Sub(J(o.a.lon), J(o.lon1))), J(o.cos)), tol)>> >>
    [] o.rel = "shift" ->        \* lon1 -> lon1 + off : lon2 -> lon2 + off
         << <<"c04_shift_latitude", Leq(NorthSep(J(o.b.lat), J(o.a.lat)), tol)>>,
            <<"c04_shift_longitude", Leq(EastSep(Sub(J(o.b.lon), J(o.off)), J(o.a.lon), J(o.cos)), tol)>>,
            <<"c04_shift_azimuth", Gt(Abs(J(o.a.lat)), FromInt(89)) \/ Leq(Abs(AzDiff(J(o.b.az), J(o.a.az))), MulSmall(Add(Az1e8, Az1e9), 2))>> >>
    [] o.rel = "zero" ->         \* s = 0 is the identity
         << <<"c04_zero_distance", PosWithin(J(o.a.lat), J(o.a.lon), J(o.lat1), J(o.lon1), J(o.cos), Mm1)>> >>
    [] o.rel = "args" ->         \* angle-class arguments = their decimal-degree values
         << <<"c04_angle_classes", o.a.hex = o.b.hex>> >>

\* Clairaut: along a geodesic sin(azimuth) * cos(reduced latitude) is constant.  sa / cb = sine of the azimuth and cosine
\* of the reduced latitude at each end (elementary auxiliaries of the call's inputs and outputs, from alpha); the constant
\* may change by at most d(azimuth) + d(latitude) = 1e-8 deg (+ output rounding) + 1 mm / 6.3e6 m
ClairautTol == Add(DegToRad(Add(Az1e8, Az1e9)), Dec(1700, 3))
DCLChecks(o) ==
  << <<"c04_clairaut_constant", Gt(Abs(J(o.lat2)), FromInt(89)) \/
                                Within(Mul(J(o.sa1), J(o.cb1)), Mul(J(o.sa2), J(o.cb2)), ClairautTol)>> >>

(* ------------------------------- C05 ----------------------------------- *)
\* an azimuth change d (deg) moves the far end of a line by at least |d| (rad) * 0.99 * 6.3e6 * sin(sigma) metres;
\* (division by a variable quantity is avoided: the clause is cross-multiplied instead)
AzMovesLessThan(dazDeg, sinsig, m) == Leq(Mul(Mul(DegToRad(Abs(dazDeg)), FromInt(6237000)), sinsig), m)

ISWAPChecks(o) ==
  << <<"c05_swap_distance", Within(J(o.ab.s), J(o.ba.s), Mm1)>>,
     <<"c05_swap_azimuth_12", AzMovesLessThan(Sub(Abs(AzDiff(J(o.ab.a12), J(o.ba.a21))), MulSmall(Az1e9, 2)), J(o.sinsig), Mm1)>>,
     <<"c05_swap_azimuth_21", AzMovesLessThan(Sub(Abs(AzDiff(J(o.ab.a21), J(o.ba.a12))), MulSmall(Az1e9, 2)), J(o.sinsig), Mm1)>> >>
ISHIFTChecks(o) ==
  << <<"c05_shift_distance", Within(J(o.ab.s), J(o.sh.s), Mm1)>>,
     <<"c05_shift_azimuth_12", AzMovesLessThan(Sub(Abs(AzDiff(J(o.ab.a12), J(o.sh.a12))), MulSmall(Az1e9, 2)), J(o.sinsig), Mm1)>>,
     <<"c05_shift_azimuth_21", AzMovesLessThan(Sub(Abs(AzDiff(J(o.ab.a21), J(o.sh.a21))), MulSmall(Az1e9, 2)), J(o.sinsig), Mm1)>> >>
\* Clairaut for the inverse solution: the two returned azimuths belong to ONE geodesic; a difference d of the constant
\* corresponds to an azimuth error of at least d radians, which must not move the far end by more than 2 x 1 mm
ICLChecks(o) ==
  << <<"c05_clairaut_constant",
       Leq(Mul(Mul(Sub(Abs(Sub(Mul(J(o.sa1), J(o.cb1)), Mul(J(o.sa2), J(o.cb2)))), DegToRad(MulSmall(Az1e9, 2))), FromInt(6237000)),
               J(o.sinsig)), Mm2)>> >>
ICOINChecks(o) == << <<"c05_coincident", IsZero(J(o.out.s))>> >>
IMERChecks(o) ==
  IF ~OracleOK(o.ell) THEN << <<"oracle_start_value", FALSE>> >> ELSE
  LET d == Abs(Sub(Arc(o.ell, o.tri2), Arc(o.ell, o.tri1)))
      north == o.tri2[1] * o.tri1[3] > o.tri1[1] * o.tri2[3]          \* sin lat2 > sin lat1
  IN << <<"c05_meridian_distance", Within(J(o.out.s), d, Add(Mm1, Dec(5, 1)))>>,       \* + 0.5 mm output rounding
        <<"c05_meridian_azimuth_12", Leq(Abs(AzDiff(J(o.out.a12), IF north THEN Zero ELSE FromInt(180))), Add(Az1e8, Az1e9))>>,
        <<"c05_meridian_azimuth_21", Leq(Abs(AzDiff(J(o.out.a21), IF north THEN FromInt(180) ELSE Zero)), Add(Az1e8, Az1e9))>> >>
IEQChecks(o) ==
  LET d == DivSmall(MulSmall(Mul(J(o.ell.a), Pi), o.kdeg), 180)
  IN << <<"c05_equator_distance", Within(J(o.out.s), d, Add(Mm1, Dec(5, 1)))>>,
        <<"c05_equator_azimuth_12", Leq(Abs(AzDiff(J(o.out.a12), IF o.east THEN FromInt(90) ELSE FromInt(270))), Add(Az1e8, Az1e9))>>,
        <<"c05_equator_azimuth_21", Leq(Abs(AzDiff(J(o.out.a21), IF o.east THEN FromInt(270) ELSE FromInt(90))), Add(Az1e8, Az1e9))>> >>
\* inv = vincinv(p1, p2); dir = vincdir(p1, inv.a12, inv.s); rev = vincdir back from dir with dir.az, same s
ICLOSEChecks(o) ==
  LET directConsistent == PosWithin(J(o.rev.lat), J(o.rev.lon), J(o.p1.lat), J(o.p1.lon), J(o.cos1),
                                    Add(Add(MulSmall(Mm1, 2), AzEffect(Add(Az1e8, Az1e9), J(o.inv.s))), Dec(1, 1)))
      arrives == PosWithin(J(o.dir.lat), J(o.dir.lon), J(o.p2.lat), J(o.p2.lon), J(o.cos2), Add(Add(Mm2, Mm1), Dec(6, 1)))
      \* 2 mm (property) + 1 mm (the direct routine's own tolerance) + 0.6 mm (distance rounded to 1 mm, azimuth to 1e-9 deg)
      poleDeg == Sub(Deg90, Abs(J(o.p2.lat)))
      \* |a21 - dir.az| <= 2e-8 deg + angle subtending 2 mm at the distance from the nearer pole (cross-multiplied)
      excess == Sub(Abs(AzDiff(J(o.inv.a21), J(o.dir.az))), Add(MulSmall(Az1e8, 2), MulSmall(Az1e9, 2)))
  IN << <<"c05_closure_with_direct", ~directConsistent \/ arrives>>,
        <<"c04_attributed_direct_inconsistent", directConsistent>>,
        <<"c05_closure_reverse_azimuth", ~directConsistent \/ ~arrives \/ Leq(poleDeg, One) \/
                                         Leq(Mul(Mul(DegToRad(excess), poleDeg), MPerDegMin), Mm2)>> >>

(* ------------------- C04 / C05 against the exact geodesic --------------- *)
\* the ellipsoid is taken from its DEFINING numbers (a, 1/f); for the shipped ones these are the published constants
EllOK(ell) == ConstantsOK(ell.name, J(ell.a), J(ell.invf))
Flat(ell) == Recip(J(ell.invf))
MmSq(n) == Dec(100 * n * n, 2)         \* (n mm)^2 in m^2: n^2 * 1e-6
ExactClauses(pre, ell, ex, p2, z2, dlon, tolmm, azOK(_)) ==
  IF ~ex.ok THEN (IF ex.why = "not_applicable" THEN << <<pre \o "_shipped_ellipsoid_constants", EllOK(ell)>> >>
                  ELSE << <<pre \o "_exact_" \o ex.why, FALSE>> >>)
  ELSE << <<pre \o "_shipped_ellipsoid_constants", EllOK(ell)>>,
          <<pre \o "_exact_geodesic_end_point", Leq(MissSquared(J(ell.a), Flat(ell), p2, dlon, ex), MmSq(tolmm))>>,
          <<pre \o "_exact_geodesic_reverse_azimuth", azOK(AzMiss(z2, ex))>> >>
\* leaving a POLE the azimuth is meant in the limit along the meridian of lon1: the line is the meridian of longitude
\* lon1 + 180 - az (north pole) / lon1 + az (south pole), left heading due south / due north
PoleStart(lat1) == Eq(Abs(lat1), D90)
AzEff(lat1, az) == IF ~PoleStart(lat1) THEN az ELSE IF lat1.neg THEN Zero ELSE D180
LonOff(lat1, az) == IF ~PoleStart(lat1) THEN Zero ELSE IF lat1.neg THEN az ELSE Sub(D180, az)
DGEChecks(o) ==
  Let(SinCosDeg(J(o.out.lat)), LAMBDA p2 : Let(SinCosDeg(Sub(J(o.out.az), D180)), LAMBDA z2 :
  Let(GeodesicDirect(Flat(o.ell), SinCosDeg(J(o.lat1)), SinCosDeg(AzEff(J(o.lat1), J(o.az))), SOverB(J(o.s), J(o.ell.a), Flat(o.ell)), p2, z2), LAMBDA ex :
      ExactClauses("c04", o.ell, ex, p2, z2, Sub(Sub(J(o.out.lon), J(o.lon1)), LonOff(J(o.lat1), J(o.az))), 1,
                   LAMBDA m : Gt(Abs(J(o.out.lat)), FromInt(89)) \/ (m.same /\ Leq(Abs(m.sin), DegToRad(Az1e8)))))))
\* reverse azimuth: 1e-8 deg + the angle 2 mm subtends at the distance r from the nearer pole (cross-multiplied with a LOWER
\* bound of r: a (1 - e^2) * colatitude, so that the tolerance is never smaller than the stated one)
IGEChecks(o) ==
  Let(SinCosDeg(J(o.lat2)), LAMBDA p2 : Let(SinCosDeg(Sub(J(o.out.a21), D180)), LAMBDA z2 :
  Let(Mul(Mul(J(o.ell.a), Sq(Sub(One, Flat(o.ell)))), RadOf(Sub(D90, Abs(J(o.lat2))))), LAMBDA r :
  Let(GeodesicDirect(Flat(o.ell), SinCosDeg(J(o.lat1)), SinCosDeg(AzEff(J(o.lat1), J(o.out.a12))), SOverB(J(o.out.s), J(o.ell.a), Flat(o.ell)), p2, z2), LAMBDA ex :
      ExactClauses("c05", o.ell, ex, p2, z2, Sub(Sub(J(o.lon2), J(o.lon1)), LonOff(J(o.lat1), J(o.out.a12))), 2,
                   LAMBDA m : m.same /\ Leq(Mul(Sub(Abs(m.sin), DegToRad(Az1e8)), r), Mm2))))))

Checks(ev) == CASE ev.k = "DMER" -> DMERChecks(ev.o) [] ev.k = "DEQ" -> DEQChecks(ev.o) [] ev.k = "DFLOW" -> DFLOWChecks(ev.o)
                [] ev.k = "DREV" -> DREVChecks(ev.o) [] ev.k = "DSYM" -> DSYMChecks(ev.o) [] ev.k = "ISWAP" -> ISWAPChecks(ev.o)
                [] ev.k = "ISHIFT" -> ISHIFTChecks(ev.o) [] ev.k = "ICOIN" -> ICOINChecks(ev.o) [] ev.k = "IMER" -> IMERChecks(ev.o)
                [] ev.k = "IEQ" -> IEQChecks(ev.o) [] ev.k = "ICLOSE" -> ICLOSEChecks(ev.o)
                [] ev.k = "DCL" -> DCLChecks(ev.o) [] ev.k = "ICL" -> ICLChecks(ev.o)
                [] ev.k = "DGE" -> DGEChecks(ev.o) [] ev.k = "IGE" -> IGEChecks(ev.o)

RECURSIVE ReportAll(_, _)
ReportAll(cs, i) == IF i > Len(cs) THEN TRUE ELSE (IF cs[i][2] THEN TRUE ELSE Report(cs[i][1])) /\ ReportAll(cs, i + 1)

IsDirect(k) == k \in {"DMER", "DEQ", "DFLOW", "DREV", "DSYM", "DCL", "DGE"}
TraceInit == /\ tid \in 1..Len(Traces) /\ l = 1 /\ dead = FALSE
             /\ kind = (IF IsDirect(Traces[tid].ev[1].k) THEN "direct" ELSE "inverse")
             /\ case = Traces[tid].ev[1].tag /\ legs = 0
Step == /\ ~dead /\ l <= Len(T.ev)
        /\ LET ev == T.ev[l] IN
           IF ev.exc # "" THEN Report(ev.k \o "_raised") /\ dead' = TRUE
           ELSE \E cs \in {Checks(ev)} : ReportAll(cs, 1) /\ dead' = FALSE
        /\ legs' = legs + 1 /\ UNCHANGED <<kind, case>>
        /\ l' = l + 1 /\ UNCHANGED tid
TraceSpec == TraceInit /\ [][Step]_tvars
Consumed == (l = Len(T.ev) + 1) => PrintT(<<"END", tid>>)
=============================================================================
