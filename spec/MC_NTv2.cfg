SPECIFICATION Spec
CONSTANT Files <- MCFilesSmall
CONSTANT Variant = "ring4"
CONSTANT Fracs <- FracsHalf
INVARIANT TypeOK
INVARIANT ReadsOwnNodes
INVARIANT ReadsAroundPosition
INVARIANT OutsideNoValue
INVARIANT ValueOnlyInside
INVARIANT FinestIsDeepest
INVARIANT OraclesAgree
CHECK_DEADLOCK FALSE
