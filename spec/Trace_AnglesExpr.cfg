SPECIFICATION TraceSpec
CONSTANT Leaves <- TrLeaves
CONSTANT ModelClasses <- Classes
CONSTANT MaxLen = 6
CONSTRAINT Consumed
CHECK_DEADLOCK FALSE
