INIT Init
NEXT Next
