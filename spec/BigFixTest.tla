----------------------------- MODULE BigFixTest -----------------------------
(* Self-test of BigFix, evaluated by TLC at start-up (ASSUME).               *)
EXTENDS BigFix, TLC
VARIABLE x
Init == x = 0
Next == x' = x /\ x = 0
\* 1/298.257222101 by Newton: 0.00335281068118231893543414612...
F298 == [neg |-> FALSE, mag |-> <<0, 0, 1000, 2210, 2572, 298>>]   \* 298.2572 2210 1000 0000 0000
Rf == RecipIt(F298, Dec(335281, 2), 6)                                \* start 0.00335281
ASSUME Eq(Add(FromInt(7), FromInt(-9)), FromInt(-2))
ASSUME Eq(Mul(FromInt(-12345), FromInt(6789)), FromInt(-83810205))
ASSUME Eq(Mul(FromRat(1, 4), FromRat(1, 8)), FromRat(1, 32))
ASSUME Eq(Sub(Dec(15, 2), Dec(15, 2)), Zero)
ASSUME Cmp(Dec(-1, 5), Zero) = -1 /\ Cmp(Dec(1, 5), Dec(1, 4)) = -1
ASSUME Within(Mul(Rf, F298), One, Dec(1000, 5))
ASSUME Within(Rf, [neg |-> FALSE, mag |-> <<1894, 1823, 681, 5281, 33>>], Dec(2, 5)) \* 0.0033 5281 0681 1823 1894
ASSUME Within(RSqrtIt(FromInt(4), FromRat(45, 100), 8), FromRat(1, 2), Dec(2, 5))
ASSUME IntPart(FromInt(-83810205)) = -83810205
ASSUME Eq(MulSmall(FromRat(1, 8), -24), FromInt(-3))
ASSUME Lt(PiLo, PiHi) /\ Within(Mul(PiLo, PiLo), [neg |-> FALSE, mag |-> <<1883, 3586, 1089, 440, 8696, 9>>], Dec(10, 5)) \* pi^2 = 9.8696 0440 1089 3586 1883
ASSUME Eq(FromJ(<<1, 0, 0, 0, 0, 5000>>), FromRat(-1, 2))
ASSUME Eq(FromJ(<<0>>), Zero)
=============================================================================
