------------------------------ MODULE MC_Angles ------------------------------
EXTENDS Angles, TLC
\* chains do not depend on the angle: generate them from ONE lattice point per start notation,
\* the driver pairs every chain with lattice points (printed once by Lattice below)
OnePoint == ang = [neg |-> FALSE, w |-> 0, f |-> 0]
Bound == Len(h) <= MaxChain /\ OnePoint /\ (Len(h) = MaxChain => PrintT(<<"BEH", h>>))
View == <<rep, ang>>
=============================================================================
