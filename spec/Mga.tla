--------------------------------- MODULE Mga ---------------------------------
(***************************************************************************)
(* C13 - MGA94 <-> MGA2020 (geodepy.transform.transform_mga94_to_mga2020 / *)
(* transform_mga2020_to_mga94).                                            *)
(*                                                                         *)
(* The transformation IS a behaviour: the stepwise composition             *)
(*   Grid2Geo -> [Local2Cart] -> Llh2Xyz -> Conform7(P or -P) -> Xyz2Llh   *)
(*   -> [Cart2Local] -> Geo2Grid(natural zone)                             *)
(* of public functions, with the height rule (no input height: 0 m goes    *)
(* in, 0 m comes out, the horizontal result is that of the point on the    *)
(* ellipsoid) and the covariance rule (a covariance comes out iff one went *)
(* in: the GDA94<->GDA2020 set carries uncertainties).                     *)
(* The model below is the control skeleton; the numbers are checked on     *)
(* observed values in Trace_Mga (each stage's input is the previous        *)
(* stage's output, bit for bit; the final tuple is the pipeline's return). *)
(***************************************************************************)
EXTENDS Integers, Sequences, FiniteSets

Dirs == {"94to2020", "2020to94"}
Hts  == {"absent", "given", "zero"}
Vcvs == {"none", "m33", "m31"}
Stages == <<"grid", "geo", "cart", "cart2", "geo2", "grid2">>

VARIABLES dir, ht, vcv, pc, htIn, vcvForm, done
vars == <<dir, ht, vcv, pc, htIn, vcvForm, done>>

Init == /\ dir \in Dirs /\ ht \in Hts /\ vcv \in Vcvs /\ pc = 1 /\ done = <<>>
        /\ htIn = "unset" /\ vcvForm = (IF vcv = "none" THEN "none" ELSE "local")

Grid2Geo == /\ pc = 1 /\ pc' = 2 /\ done' = Append(done, "grid2geo")
            /\ htIn' = (IF ht = "absent" THEN "0" ELSE "h")                   \* the height that goes into llh2xyz
            /\ vcvForm' = (IF vcv = "none" THEN "none" ELSE "cart")           \* vcv_local2cart at the input position
            /\ UNCHANGED <<dir, ht, vcv>>
Llh2Xyz  == pc = 2 /\ pc' = 3 /\ done' = Append(done, "llh2xyz") /\ UNCHANGED <<dir, ht, vcv, htIn, vcvForm>>
Helmert7 == pc = 3 /\ pc' = 4 /\ done' = Append(done, IF dir = "94to2020" THEN "conform7(P)" ELSE "conform7(-P)")
            /\ UNCHANGED <<dir, ht, vcv, htIn, vcvForm>>
Xyz2Llh  == /\ pc = 4 /\ pc' = 5 /\ done' = Append(done, "xyz2llh")
            /\ vcvForm' = (IF vcv = "none" THEN "none" ELSE "local")          \* vcv_cart2local at the OUTPUT position
            /\ UNCHANGED <<dir, ht, vcv, htIn>>
Geo2Grid == pc = 5 /\ pc' = 6 /\ done' = Append(done, "geo2grid(natural zone)") /\ UNCHANGED <<dir, ht, vcv, htIn, vcvForm>>
Next == Grid2Geo \/ Llh2Xyz \/ Helmert7 \/ Xyz2Llh \/ Geo2Grid
Spec == Init /\ [][Next]_vars /\ WF_vars(Next)

\* what the pipeline must return at the end
HeightOut == IF ht = "absent" THEN "0" ELSE "computed"
VcvOut    == IF vcv = "none" THEN "none" ELSE "local"
Finished == pc = 6
OrderOK == Finished => done = <<"grid2geo", "llh2xyz", IF dir = "94to2020" THEN "conform7(P)" ELSE "conform7(-P)", "xyz2llh",
                                "geo2grid(natural zone)">>
HeightRule == Finished => (ht = "absent" <=> htIn = "0")
VcvRule == Finished => vcvForm = VcvOut
Terminates == <>Finished
=============================================================================
