SPECIFICATION TraceSpec
CONSTRAINT Consumed
CHECK_DEADLOCK FALSE
