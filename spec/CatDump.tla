------------------------------ MODULE CatDump ------------------------------
(* STUB for parsing only.  The real module is generated on every run by       *)
(* harness/props/c11.py from vars(geodepy.constants) and replaces this file   *)
(* in TLC's scratch directory.                                                *)
CatData == << [name |-> "a1_to_b2", na |-> "A1", nb |-> "B2", nx |-> "", fa |-> "A", fb |-> "B",
               from |-> "A1", to |-> "B2", ep |-> 0,
               p |-> << <<0>>, <<0>>, <<0>>, <<0>>, <<0>>, <<0>>, <<0>>, <<0>>, <<0>>, <<0>>, <<0>>, <<0>>, <<0>>, <<0>> >>] >>
RefEpochData == {730120}
=============================================================================
