----------------------------- MODULE MeridianArc -----------------------------
(***************************************************************************)
(* Ground truth on meridians, inside the specification.                    *)
(*                                                                         *)
(* For a latitude with rational sine and cosine (Pythagorean triple        *)
(* <<p, q, r>>: sin = p/r, cos = q/r >= 0):                                *)
(*  - the latitude itself, phi = atan(p/q), by the alternating arctangent  *)
(*    series after a rational argument reduction (|x| <= tan(pi/8)), 26    *)
(*    terms: remainder < 0.4143^53/53 < 1e-21;                             *)
(*  - sin / cos of 2 phi .. 10 phi, rational, by the addition formulas;    *)
(*  - the meridian distance from the equator by Helmert's series in the    *)
(*    third flattening n = f/(2-f), complete to n^5:                       *)
(*      M = a/(1+n) [ (1 + n^2/4 + n^4/64) phi                             *)
(*                    - 3/2 (n - n^3/8 - n^5/64) sin 2phi                  *)
(*                    + 15/16 (n^2 - n^4/4) sin 4phi                       *)
(*                    - 35/48 (n^3 - 5/16 n^5) sin 6phi                    *)
(*                    + 315/512 n^4 sin 8phi - 693/1280 n^5 sin 10phi ]    *)
(*    neglected terms are O(n^6): below 6e-9 m for 1/f >= 150 (the series  *)
(*    was compared once, while building, with 40-digit quadrature of the   *)
(*    meridian integrand: 6e-9 m at 1/f = 150, 1e-10 m at 1/f = 298).      *)
(* Everything is BigFix arithmetic (resolution 1e-20).                     *)
(***************************************************************************)
EXTENDS BigFix

RatS(n, d) == FromRat(n, d)              \* |n| < 1e8, 0 < d < 200000

\* sum_{k=0}^{K} (-1)^k x^(2k+1)/(2k+1), |x| <= 0.4143
RECURSIVE AtanSum(_, _, _, _, _)
AtanSum(x2, pow, k, K, acc) ==
  IF k > K THEN acc
  ELSE AtanSum(x2, Mul(pow, x2), k + 1, K,
               IF k % 2 = 0 THEN Add(acc, DivSmall(pow, 2 * k + 1)) ELSE Sub(acc, DivSmall(pow, 2 * k + 1)))
AtanSmall(x) == AtanSum(Sq(x), x, 0, 25, Zero)

HalfPi == DivSmall(Pi, 2)
QuarterPi == DivSmall(Pi, 4)
\* atan(p/q) for integers p >= 0, q >= 0, not both zero, p, q <= 1000
AtanPos(p, q) ==
  IF p * 1000 <= 414 * q THEN AtanSmall(RatS(p, q))
  ELSE IF q * 1000 <= 414 * p THEN Sub(HalfPi, AtanSmall(RatS(q, p)))
  ELSE Add(QuarterPi, AtanSmall(RatS(p - q, p + q)))          \* atan x = pi/4 + atan((x-1)/(x+1))
\* latitude (radians) of the triple <<p, q, r>>, q >= 0
LatRad(t) == IF t[1] >= 0 THEN AtanPos(t[1], t[2]) ELSE Neg(AtanPos(-t[1], t[2]))
\* radians -> degrees: * 180 / pi, with 1/pi by Newton (start 0.3183098861837907) verified below
InvPi == RecipIt(Pi, [neg |-> FALSE, mag |-> <<0, 7907, 8618, 3098, 3183>>], 3)
ASSUME Within(Mul(InvPi, Pi), One, Dec(1, 4))
Deg(rad) == MulSmall(Mul(rad, InvPi), 180)
LatDeg(t) == Deg(LatRad(t))

\* multiple angles: <<sin 2kphi, cos 2kphi>> for k = 1..5
Trig(t) ==
  LET s == RatS(t[1], t[3]) c == RatS(t[2], t[3])
      s2 == MulSmall(Mul(s, c), 2) c2 == Sub(Sq(c), Sq(s))
      s4 == MulSmall(Mul(s2, c2), 2) c4 == Sub(Sq(c2), Sq(s2))
      s6 == Add(Mul(s4, c2), Mul(c4, s2)) c6 == Sub(Mul(c4, c2), Mul(s4, s2))
      s8 == MulSmall(Mul(s4, c4), 2) c8 == Sub(Sq(c4), Sq(s4))
      s10 == Add(Mul(s8, c2), Mul(c8, s2))
  IN <<s2, s4, s6, s8, s10>>

\* third flattening n = 1 / (2 invf - 1) by Newton from a start value; verified by NOK
ThirdFlat(invf, n0) == RecipIt(Sub(MulSmall(invf, 2), One), n0, 3)
NOK(invf, n) == Within(Mul(n, Sub(MulSmall(invf, 2), One)), One, Dec(1, 4))

\* meridian distance from the equator to the latitude of triple t, metres
Meridian(a, n, t) ==
  LET n2 == Sq(n) n3 == Mul(n2, n) n4 == Sq(n2) n5 == Mul(n4, n)
      sn == Trig(t)
      phi == LatRad(t)
      c0 == Add(Add(One, DivSmall(n2, 4)), DivSmall(n4, 64))
      c2 == Neg(DivSmall(MulSmall(Sub(Sub(n, DivSmall(n3, 8)), DivSmall(n5, 64)), 3), 2))
      c4 == DivSmall(MulSmall(Sub(n2, DivSmall(n4, 4)), 15), 16)
      c6 == Neg(DivSmall(MulSmall(Sub(n3, DivSmall(MulSmall(n5, 5), 16)), 35), 48))
      c8 == DivSmall(MulSmall(n4, 315), 512)
      c10 == Neg(DivSmall(MulSmall(n5, 693), 1280))
      inv1n == RecipIt(Add(One, n), Sub(One, n), 4)
      br == Add(Add(Add(Add(Add(Mul(c0, phi), Mul(c2, sn[1])), Mul(c4, sn[2])), Mul(c6, sn[3])), Mul(c8, sn[4])), Mul(c10, sn[5]))
  IN Mul(Mul(a, inv1n), br)
=============================================================================
