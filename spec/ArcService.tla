----------------------------- MODULE ArcService -----------------------------
(* Oracle service: TLC computes meridian distances (MeridianArc) for the requested *)
(* (ellipsoid, Pythagorean latitude) pairs and prints them; the driver uses them   *)
(* to choose the distances it hands to the direct geodesic routine.  The trace     *)
(* specification recomputes every arc itself; nothing printed here is trusted.     *)
EXTENDS MeridianArc, Json, IOUtils, Sequences, TLC
Req == JsonDeserialize(IOEnv.TRACE_FILE).req
VARIABLE i
Init == /\ i \in 1..Len(Req)
        /\ PrintT(<<"ARC", i, Meridian(FromJ(Req[i].a), ThirdFlat(FromJ(Req[i].invf), FromJ(Req[i].n0)), Req[i].tri)>>)
Next == UNCHANGED i
Spec == Init /\ [][Next]_i
=============================================================================
