----------------------------- MODULE Ellipsoids -----------------------------
(***************************************************************************)
(* The reference ellipsoids GeodePy ships, by their PUBLISHED defining     *)
(* constants (semi-major axis in metres, inverse flattening).  A property  *)
(* quantified over "GRS80, WGS84, ANS, International 1924" is about these  *)
(* figures: an oracle that reads a and 1/f back from geodepy.constants     *)
(* would inherit a mistyped constant.  Every trace event carries the name  *)
(* under which the driver obtained the ellipsoid; ConstantsOK is a clause  *)
(* of the events of C03, C04 and C05.                                      *)
(***************************************************************************)
EXTENDS BigFix

Shipped == {"grs80", "wgs84", "ans", "intl24"}
Published(name) == CASE name = "grs80" -> <<FromInt(6378137), [neg |-> FALSE, mag |-> <<0, 0, 1000, 2210, 2572, 298>>]>>     \* 298.257222101
                     [] name = "wgs84" -> <<FromInt(6378137), [neg |-> FALSE, mag |-> <<0, 0, 3000, 2356, 2572, 298>>]>>     \* 298.257223563
                     [] name = "ans" -> <<FromInt(6378160), [neg |-> FALSE, mag |-> <<0, 0, 0, 0, 2500, 298>>]>>             \* 298.25
                     [] name = "intl24" -> <<FromInt(6378388), FromInt(297)>>
\* a: within 1e-8 m, 1/f: within 1e-12 (the constants are doubles)
ConstantsOK(name, a, invf) == name \notin Shipped \/ (Within(a, Published(name)[1], Dec(1, 2)) /\ Within(invf, Published(name)[2], Dec(1, 3)))
=============================================================================
