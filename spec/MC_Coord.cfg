SPECIFICATION Spec
CONSTANT HVals <- MCHVals
CONSTANT D = 0
VIEW View
INVARIANT TypeOK
INVARIANT HeightsCarried
INVARIANT CartStartCarried
INVARIANT EllCarried
INVARIANT CompositesAgree
INVARIANT NotationOnly
PROPERTY ZeroIsAValue
PROPERTY NRelation
CHECK_DEADLOCK FALSE
