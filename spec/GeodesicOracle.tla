--------------------------- MODULE GeodesicOracle ---------------------------
(***************************************************************************)
(* The exact geodesic of an ellipsoid of revolution, inside the            *)
(* specification (Bessel's auxiliary sphere; Helmert; Karney 2013 eqs 7-8):*)
(*   tan beta = (1-f) tan phi,  sin alpha0 = sin alpha cos beta (Clairaut) *)
(*   sin sigma = sin beta / cos alpha0,  cos sigma = cos beta cos alpha / cos alpha0 *)
(*   s / b      = INT_{sigma1}^{sigma2} h(sigma) d sigma,  h = sqrt(1 + k^2 sin^2 sigma),  k^2 = e'^2 cos^2 alpha0 *)
(*   lambda12   = omega12 - f sin alpha0 INT (2-f) / (1 + (1-f) h) d sigma  *)
(*   omega      = atan2(sin alpha0 sin sigma, cos sigma)                   *)
(* This is the DIRECT problem solved in the specification: given (phi1,    *)
(* alpha1, s) it yields the end point of the exact geodesic, to which the  *)
(* result of the code is then compared.  The arc length sigma2 at which    *)
(* INT h = s/b is found by ONE Newton step (with the second-order term)    *)
(* from a start value; the start value is read off the code's own answer   *)
(* (sigma2 ~ atan2(sin beta2, cos beta2 cos alpha2)), which is sound: the  *)
(* start value only has to lie within 1e-4 rad of the solution; a correct  *)
(* answer (1 mm, 1e-8 deg) gives a start within 3.3e-10 / cos(alpha0), and *)
(* an answer whose start value is further than 1e-4 rad from the solution  *)
(* is itself more than 600 m away from the geodesic.  After the step the   *)
(* remaining error is O(k^2 d^3) < 1e-14 rad.                              *)
(* The two integrals are evaluated by Romberg extrapolation on 16, 32 or 64   *)
(* equal panels; nodes follow from sin/cos of the panel width by the rotation*)
(* recurrence; integrands are written as 1 + (small), so that the          *)
(* quadrature only carries the O(e^2) part.  Sines and cosines of the      *)
(* observed angles are Taylor series here (SinCosDeg), arctangents those of*)
(* MeridianArc / KruegerTM: no value computed by a floating-point library  *)
(* enters.  Validated once against a 50-digit evaluation                   *)
(* (harness.selfcheck).                                                    *)
(* Not applicable (reported as such, never as a verdict): lines whose      *)
(* cos(alpha0) < 1e-3 (within 0.06 deg of running along the equator),      *)
(* where sigma is not determined by latitude and azimuth; the equatorial   *)
(* closed form (Geodesic DEQ/IEQ) covers alpha0 = 90 deg exactly.          *)
(***************************************************************************)
EXTENDS KruegerTM, Trig

TwoPi == MulSmall(Pi, 2)
\* atan2(y, x) in (-pi, pi], not both zero
Atan2(yy, xx) ==
  IF IsZero(xx) THEN (IF yy.neg THEN Neg(HalfPi) ELSE HalfPi)
  ELSE IF ~xx.neg THEN (IF yy.neg THEN Neg(AtanRatio(Abs(yy), xx)) ELSE AtanRatio(yy, xx))
  ELSE (IF yy.neg THEN Sub(AtanRatio(Abs(yy), Abs(xx)), Pi) ELSE Sub(Pi, AtanRatio(yy, Abs(xx))))
\* 1/sqrt(v), v > 1e-24: scaled into [0.5, 2] by powers of 4 first (KruegerTM!RSqrtScaled stops after 12 scalings)
RECURSIVE RSqrtWide(_, _)
RSqrtWide(v, depth) ==
  IF depth > 45 THEN Zero
  ELSE IF Gt(v, Two) THEN Half(RSqrtWide(DivSmall(v, 4), depth + 1))
  ELSE IF Lt(v, FromRat(1, 2)) THEN MulSmall(RSqrtWide(MulSmall(v, 4), depth + 1), 2)
  ELSE RSqrtIt(v, One, 7)
\* unit vector along <<x, y>> and its length
Unit2(x, y) == Let(Add(Sq(x), Sq(y)), LAMBDA n2 : Let(RSqrtWide(n2, 0), LAMBDA r : <<Mul(x, r), Mul(y, r), Mul(n2, r)>>))
\* rotation of <<sin, cos>> by an angle given as <<sin, cos>>
Rot(sc, d) == <<Add(Mul(sc[1], d[2]), Mul(sc[2], d[1])), Sub(Mul(sc[2], d[2]), Mul(sc[1], d[1]))>>

(* ------------------------------ quadrature ------------------------------ *)
\* sqrt(1 + x) for 0 <= x < 0.02 (Newton on the reciprocal root from 1)
Sqrt1p(x) == Let(Add(One, x), LAMBDA v : Mul(v, RSqrtIt(v, One, 4)))
\* the two integrands minus one at a node with sine sn, as a pair <<S, L>>:
\*   S = h - 1,   L = (1-f)(1-h) / (1 + (1-f) h)       (h = sqrt(1 + k^2 sn^2); (2-f)/(1+(1-f)h) = 1 + L)
Pair2(g, h) == <<Sub(h, One), Mul(Mul(g, Sub(One, h)), RecipIt(Add(One, Mul(g, h)), Half(One), 4))>>
Integrands(g, k2, sn) == Let(Sqrt1p(Mul(k2, Sq(sn))), LAMBDA h : Pair2(g, h))
\* nodes sigma_j = sigma1 + j * delta, j = 0..n, by the rotation recurrence; returns the EXPLICIT sequence of integrand pairs
RECURSIVE NodeVals(_, _, _, _, _, _, _)
NodeVals(acc, sc, d, j, n, g, k2) ==
  IF j > n THEN acc
  ELSE Let(<<Append(acc, Integrands(g, k2, sc[1])), Rot(sc, d)>>, LAMBDA t : NodeVals(t[1], t[2], d, j + 1, n, g, k2))
\* trapezoid sum of values v[1..n+1] with stride st (n divisible by st), step width = st * delta; c = component 1 or 2
RECURSIVE SumStride(_, _, _, _, _)
SumStride(v, c, i, st, n) == IF i > n + 1 THEN Zero ELSE Add(v[i][c], SumStride(v, c, i + st, st, n))
Trap(v, c, st, n, delta) == Mul(MulSmall(delta, st), Sub(SumStride(v, c, 1, st, n), Half(Add(v[1][c], v[n + 1][c]))))
RECURSIVE Richardson(_, _, _)
Richardson(row, prev, j) ==      \* row: current R[m][0..j-1] being extended; prev = R[m-1][*]
  IF j > Len(prev) THEN row
  ELSE Let(Append(row, Add(row[j], DivSmall(Sub(row[j], prev[j]), (CASE j = 1 -> 3 [] j = 2 -> 15 [] j = 3 -> 63 [] j = 4 -> 255
                                                                        [] j = 5 -> 1023 [] j = 6 -> 4095)))),
           LAMBDA r : Richardson(r, prev, j + 1))
RECURSIVE RombergRows(_, _, _, _, _, _)
RombergRows(v, c, n, delta, st, prev) ==
  Let(Trap(v, c, st, n, delta), LAMBDA t : Let(Richardson(<<t>>, prev, 1), LAMBDA row :
      IF st = 1 THEN row[Len(row)] ELSE RombergRows(v, c, n, delta, st \div 2, row)))
\* levels from 2 panels up to n panels (a level with a single panel of up to 3 rad would spoil the extrapolation).
\* Error c_m (h_0 ... h_m)^2 max|f^(2m+2)| (b - a), f = O(k^2) with derivatives 2^j k^2 / 4:  below 3e-15 rad (2e-8 m) for
\* n = 16 up to 0.4 rad, n = 32 up to 1.5 rad, n = 64 up to 3.3 rad
Romberg(v, c, delta, n) == RombergRows(v, c, n, delta, n \div 2, <<>>)
Panels(sig12) == IF Leq(Abs(sig12), Dec(4000, 1)) THEN 16 ELSE IF Leq(Abs(sig12), Dec(15000, 1)) THEN 32 ELSE 64

(* ---------------------------- the direct problem ------------------------ *)
\* reduced latitude: <<sin beta, cos beta>> from <<sin phi, cos phi>> (cos phi >= 0)
Reduced(g, p) == Let(Unit2(Mul(g, p[1]), p[2]), LAMBDA u : <<u[1], u[2]>>)
\* geodetic latitude back: <<sin phi, cos phi>> from <<sin beta, cos beta>>
Geodetic(g, b) == Let(Unit2(b[1], Mul(g, b[2])), LAMBDA u : <<u[1], u[2]>>)
MinCosAlpha0 == Dec(10, 1)         \* 1e-3
MaxNewton == Dec(1, 1)             \* 1e-4 rad

\* step 5: everything known; assemble the exact end point
\*   sc2: <<sin, cos>> of sigma2 (exact), jint = INT (1 + L) up to sigma2, om1 = omega(sigma1)
Direct5(g, f, sa0, ca0, om1, sc2, jint) ==
  Let(<<Mul(ca0, sc2[1]), Mul(ca0, sc2[2])>>, LAMBDA w :            \* sin beta2, cos beta2 cos alpha2
  Let(Unit2(sa0, w[2]), LAMBDA u :                                   \* <<sin alpha2, cos alpha2, cos beta2>>
  Let(Sub(Atan2(Mul(sa0, sc2[1]), sc2[2]), om1), LAMBDA dom :
  Let(IF sa0.neg THEN (IF Gt(dom, Dec(1, 3)) THEN Sub(dom, TwoPi) ELSE dom)
      ELSE (IF Lt(dom, Dec(-1, 3)) THEN Add(dom, TwoPi) ELSE dom), LAMBDA om12 :
      [ok |-> TRUE, why |-> "", phi2 |-> Geodetic(g, <<w[1], u[3]>>), az2 |-> <<u[1], u[2]>>,
       lam12 |-> Sub(om12, Mul(Mul(f, sa0), jint)), cosbeta2 |-> u[3], ca0 |-> ca0]))))
\* step 4: Newton step from the start value (sc20 = <<sin, cos>> of sigma2 start; sig120 = sigma2 start - sigma1)
Direct4(g, f, sa0, ca0, k2, om1, sc20, sig120, v, delta, sOverB, n) ==
  Let(<<Add(sig120, Romberg(v, 1, delta, n)), Add(sig120, Romberg(v, 2, delta, n))>>, LAMBDA ints :     \* INT h, INT (1+L) to the start value
  Let(Add(One, v[n + 1][1]), LAMBDA h2 : Let(RecipIt(h2, One, 5), LAMBDA rh2 :
  Let(Mul(Sub(sOverB, ints[1]), rh2), LAMBDA d :
      IF Gt(Abs(d), MaxNewton) THEN [ok |-> FALSE, why |-> "end_point_not_near_the_geodesic"]
      ELSE Let(Sub(d, Mul(Half(Mul(Mul(Mul(k2, sc20[1]), sc20[2]), Sq(rh2))), Sq(d))), LAMBDA ds :   \* d - h'/(2h) d^2, h' = k2 sin cos / h
           Direct5(g, f, sa0, ca0, om1, Rot(sc20, SinCosRad(ds)), Add(ints[2], Mul(Add(One, v[n + 1][2]), ds))))))))
\* step 3: panel width, nodes
Direct3(g, f, sa0, ca0, k2, om1, sc1, sc20, sig120, sOverB) ==
  Let(Panels(sig120), LAMBDA n : Let(DivSmall(sig120, n), LAMBDA delta :
  Let(NodeVals(<<>>, sc1, SinCosRad(delta), 0, n, g, k2), LAMBDA v :
      Direct4(g, f, sa0, ca0, k2, om1, sc20, sig120, v, delta, sOverB, n))))
\* step 2: sigma1, start value of sigma2 from the answer under test (p2 = <<sin phi2, cos phi2>>, z2 = <<sin alpha2, cos alpha2>>)
Direct2(g, f, sa0, ca0, b1, z1, p2, z2, sOverB) ==
  Let(Unit2(b1[1], Mul(b1[2], z1[2])), LAMBDA sc1 :                       \* <<sin sigma1, cos sigma1, cos alpha0>>
  Let(Reduced(g, p2), LAMBDA b2 : Let(Unit2(b2[1], Mul(b2[2], z2[2])), LAMBDA sc20 :
      IF Lt(sc20[3], Half(MinCosAlpha0)) THEN [ok |-> FALSE, why |-> "end_point_azimuth_not_of_this_geodesic"]
      ELSE Let(Atan2(Sub(Mul(sc20[1], sc1[2]), Mul(sc20[2], sc1[1])), Add(Mul(sc20[2], sc1[2]), Mul(sc20[1], sc1[1]))), LAMBDA a :
           \* omega1; leaving a pole (cos beta1 = 0) the limit along the meridian of lon1 is meant: omega1 = 0 heading along it, pi heading away
           Direct3(g, f, sa0, ca0, Mul(Sub(Recip(Sq(g)), One), Sq(ca0)),
                   IF IsZero(sc1[2]) /\ IsZero(Mul(sa0, sc1[1])) THEN (IF z1[2].neg THEN Pi ELSE Zero) ELSE Atan2(Mul(sa0, sc1[1]), sc1[2]),
                   <<sc1[1], sc1[2]>>, <<sc20[1], sc20[2]>>, IF Lt(a, FromInt(-1)) THEN Add(a, TwoPi) ELSE a, sOverB)))))
\* step 1.  f: flattening; p1 = <<sin phi1, cos phi1>>; z1 = <<sin alpha1, cos alpha1>>; sOverB = s / b;
\*          p2, z2: the end point and forward azimuth there AS RETURNED by the code (start value only)
\* result: [ok = FALSE, why] or [ok = TRUE, phi2 = <<sin, cos>>, az2 = <<sin, cos>>, lam12 (radians, unreduced), cosbeta2, ca0]
\*         why = "not_applicable" when cos(alpha0) < 1e-3
GeodesicDirect(f, p1, z1, sOverB, p2, z2) ==
  Let(Sub(One, f), LAMBDA g : Let(Reduced(g, p1), LAMBDA b1 :
  Let(Mul(z1[1], b1[2]), LAMBDA sa0 : Let(Sqrt(Add(Sq(z1[2]), Sq(Mul(z1[1], b1[1])))), LAMBDA ca0 :
      IF Lt(ca0, MinCosAlpha0) THEN [ok |-> FALSE, why |-> "not_applicable"]
      ELSE Direct2(g, f, sa0, ca0, b1, z1, p2, z2, sOverB)))))

(* ------------------- comparison of an answer with the exact end point --- *)
\* squared metres between the returned point (p2 = <<sin, cos>> of its latitude; dlam = lon2 - lon1 in degrees) and the exact one
\*   north = M dphi, east = 2 sqrt(r r*) sin(dlambda/2) with r = N cos phi (chord: valid up to the pole)
RECURSIVE FoldPi(_, _)
FoldPi(x, n) == IF n = 0 THEN x ELSE IF Gt(x, Pi) THEN FoldPi(Sub(x, TwoPi), n - 1)
                ELSE IF Lt(x, Neg(Pi)) THEN FoldPi(Add(x, TwoPi), n - 1) ELSE x
MissSquared(a, f, p2, dlamDeg, ex) ==
  Let(Mul(f, Sub(Two, f)), LAMBDA e2 : Let(RSqrt(Sub(One, Mul(e2, Sq(p2[1])))), LAMBDA rw :          \* 1 / W
  Let(Mul(a, rw), LAMBDA nu : Let(Mul(Mul(nu, Sub(One, e2)), Sq(rw)), LAMBDA rho :
  Let(Sub(Mul(p2[1], ex.phi2[2]), Mul(p2[2], ex.phi2[1])), LAMBDA dphi :                              \* sin(phi2 - phi2*)
  Let(SinCosRad(Half(FoldPi(Sub(RadOf(dlamDeg), ex.lam12), 3))), LAMBDA hl :
      \* factors multiplied BEFORE squaring: sin^2 of 1e-10 would vanish at the 1e-20 resolution
      Add(Sq(Mul(rho, dphi)), MulSmall(Mul(Mul(Mul(nu, Abs(p2[2])), hl[1]), Mul(Mul(nu, ex.phi2[2]), hl[1])), 4))))))))
\* s / b with b = a (1 - f), scaled by 1e-6 first so that the reciprocal keeps 19 digits
SOverB(s, a, f) == Mul(Mul(s, Dec(100, 2)), Recip(Mul(Mul(a, Sub(One, f)), Dec(100, 2))))
\* sine of (returned azimuth - exact azimuth) and whether they point the same way
AzMiss(z2, ex) == [sin |-> Sub(Mul(z2[1], ex.az2[2]), Mul(z2[2], ex.az2[1])),
                   same |-> ~Add(Mul(z2[2], ex.az2[2]), Mul(z2[1], ex.az2[1])).neg]
=============================================================================
