--------------------------- MODULE Trace_Calendar ---------------------------
(* Every day of 1900..2100, in order: date_to_yyyydoy(date) must be the spec's DotForm of the  *)
(* day reached by NextDay, yyyydoy_to_date of both string forms must return that very day;     *)
(* malformed strings (a separate event kind) must be rejected with ValueError.                 *)
EXTENDS Calendar, Json, IOUtils
Data   == JsonDeserialize(IOEnv.TRACE_FILE)
Traces == Data.traces
VARIABLES tid, l, dead
tvars == <<vars, tid, l, dead>>
T == Traces[tid]
Report(clause) == PrintT(<<"FAIL", tid, l, clause>>)
TraceInit == /\ tid \in 1..Len(Traces) /\ l = 1 /\ dead = FALSE
             /\ y = Traces[tid].y0 /\ m = Traces[tid].m0 /\ d = Traces[tid].d0 /\ doy = Traces[tid].doy0
DayEvent == /\ ~dead /\ l <= Len(T.ev) /\ T.ev[l].k = "day"
            /\ LET ev == T.ev[l] IN
               \E f \in {IF ev.exc # "" THEN "raised"
                         ELSE IF ev.date # <<y, m, d>> THEN "driver_out_of_step"
                         ELSE IF ev.str # DotForm THEN "date_to_yyyydoy"
                         ELSE IF ev.back_dot # <<y, m, d>> THEN "yyyydoy_to_date_dot_form"
                         ELSE IF ev.back_plain # <<y, m, d>> THEN "yyyydoy_to_date_plain_form"
                         ELSE ""} :
                  /\ (IF f = "" THEN TRUE ELSE Report(f))
                  /\ dead' = (f # "")
            /\ (IF l < Len(T.ev) /\ T.ev[l + 1].k = "day" THEN NextDay ELSE UNCHANGED vars)
            /\ l' = l + 1 /\ UNCHANGED tid
BadEvent == /\ ~dead /\ l <= Len(T.ev) /\ T.ev[l].k = "bad"
            /\ (IF T.ev[l].raised = "ValueError" THEN TRUE ELSE Report("malformed_string_accepted"))
            /\ dead' = (T.ev[l].raised # "ValueError")
            /\ l' = l + 1 /\ UNCHANGED <<vars, tid>>
TraceSpec == TraceInit /\ [][DayEvent \/ BadEvent]_tvars
Consumed == (~dead /\ l = Len(T.ev) + 1) => PrintT(<<"END", tid>>)
=============================================================================
