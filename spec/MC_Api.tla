------------------------------- MODULE MC_Api -------------------------------
(* Model-checking wrapper for Api: exhaustive check of the tables and the    *)
(* pipeline (MC_Api.cfg) and request generation: every Responded state is a  *)
(* complete request (endpoint, angle types, class of numbers and syntax)     *)
(* together with the plan the specification prescribes for it - which field  *)
(* feeds which argument through which conversion, which result feeds which   *)
(* key - that the driver follows when it calls the library directly.         *)
EXTENDS Api, TLC

PlanIn  == [i \in DOMAIN args |-> <<ArgFields[rq.ep][i], args[i].conv>>]
PlanOut == [i \in DOMAIN out |-> <<ResKeys[rq.ep][i], out[i].conv>>]
Emit == IF pc = "Responded" THEN PrintT(<<"REQ", rq, cls, PlanIn, PlanOut>>)
        ELSE IF pc = "Listed" THEN PrintT(<<"IDX", resp.body>>) ELSE TRUE
\* thorough: every class; quick: one syntax per class of numbers, laid out so that every
\* (endpoint, from, to, geometry | azimuth x distance) meets every number format and field order
QuickSyntax == <<cls.h1, cls.w1, cls.fmt, cls.ord>> \in
                  {<<"na", "na", "na", "na">>, <<"S", "W", "repr", "canon">>, <<"S", "E", "exp17", "rev">>,
                   <<"N", "W", "fix20", "rot">>, <<"N", "E", "repr", "rot">>}
GenAll   == Emit
GenQuick == QuickSyntax /\ Emit
=============================================================================
