SPECIFICATION Spec
CONSTRAINT Bound
PROPERTY PointKept
CHECK_DEADLOCK FALSE
