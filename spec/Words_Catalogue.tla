--------------------------- MODULE Words_Catalogue ---------------------------
(* The action alphabet of MC_Catalogue without the numbers: every word of      *)
(* length D over {Neg, Shift(e)} from every dated catalogue entry, printed     *)
(* for replay on the real objects.  (Same Init/Next structure as MC_Catalogue; *)
(* kept separate because evaluating 14 fixed-point parameters per state is     *)
(* not needed to enumerate the words.)                                         *)
EXTENDS CatDump, Integers, Sequences, TLC
CONSTANT D
VARIABLES idx, w
Dated == {i \in 1..Len(CatData) : CatData[i].ep # 0}
Init == idx \in Dated /\ w = <<>>
DoNeg == w' = Append(w, <<"Neg", 0>>) /\ UNCHANGED idx
DoShift(e) == w' = Append(w, <<"Shift", e>>) /\ UNCHANGED idx
Next == DoNeg \/ \E e \in RefEpochData : DoShift(e)
Spec == Init /\ [][Next]_<<idx, w>>
Bound == Len(w) <= D /\ (Len(w) = D => PrintT(<<"BEH", idx, w>>))
=============================================================================
