SPECIFICATION TraceSpec
CONSTANT Files = {}
CONSTANT Variant = "ring4"
CONSTANT Fracs = {}
CONSTRAINT Consumed
CHECK_DEADLOCK FALSE
