---------------------------- MODULE PurityProof ----------------------------
(***************************************************************************)
(* TLAPS proof of the non-interference theorem of Purity.tla for the       *)
(* INTENDED library (no call writes a shared cell), for ANY set of         *)
(* threads, call classes, cells and any program-length bound: TLC checks   *)
(* the same on 2 threads x 3 calls; this removes the bound.                *)
(*   tlapm -I spec spec/proofs/PurityProof.tla                                          *)
(***************************************************************************)
EXTENDS Purity, TLAPS

ASSUME Intended == AsBuilt = FALSE

\* what a call reads while the constants are pristine
Seen0(c) == [x \in Reads(c) |-> 0]
IndInv == /\ shared = Pristine
          /\ ok = TRUE
          /\ pc \in [Threads -> {"idle", "run"}]
          /\ cur \in [Threads -> CallIds \cup {""}]
          /\ pending = [t \in Threads |-> {}]
          /\ seen \in [Threads -> UNION {{<<>>}, {Seen0(c) : c \in CallIds}}]
          /\ \A t \in Threads : pc[t] = "run" => cur[t] \in CallIds /\ seen[t] = Seen0(cur[t])
          /\ first \in [CallIds -> UNION {{<<>>}, {<<c, Seen0(c)>> : c \in CallIds}}]
          /\ \A c \in CallIds : first[c] # <<>> => first[c] = <<c, Seen0(c)>>

LEMMA NoWrites == \A c \in CallIds : Writes(c) = {}
  BY Intended DEF Writes

THEOREM InitInv == Init => IndInv
  BY DEF Init, IndInv, Pristine, Seen0

THEOREM StepInv == IndInv /\ [Next]_vars => IndInv'
<1> SUFFICES ASSUME IndInv, [Next]_vars PROVE IndInv'
  OBVIOUS
<1>1. CASE UNCHANGED vars
  BY <1>1 DEF IndInv, vars, Seen0, Pristine
<1>2. ASSUME NEW t \in Threads, NEW c \in CallIds, StartC(t, c) PROVE IndInv'
  <2>1. Writes(c) = {} BY NoWrites
  <2>2. [x \in Reads(c) |-> shared[x]] = Seen0(c)
    <3>1. \A x \in Reads(c) : x \in Cells BY DEF Reads
    <3>2. \A x \in Reads(c) : shared[x] = 0 BY <3>1 DEF IndInv, Pristine
    <3> QED BY <3>2 DEF Seen0
  <2>3. seen' = [seen EXCEPT ![t] = Seen0(c)] BY <1>2, <2>2 DEF StartC
  <2>4. seen' \in [Threads -> UNION {{<<>>}, {Seen0(cc) : cc \in CallIds}}] BY <2>3 DEF IndInv
  <2>5. pending' = [tt \in Threads |-> {}] BY <1>2, <2>1 DEF StartC, IndInv
  <2>6. \A tt \in Threads : pc'[tt] = "run" => cur'[tt] \in CallIds /\ seen'[tt] = Seen0(cur'[tt])
    BY <1>2, <2>3 DEF StartC, IndInv
  <2>7. pc' \in [Threads -> {"idle", "run"}] /\ cur' \in [Threads -> CallIds \cup {""}] BY <1>2 DEF StartC, IndInv
  <2>8. UNCHANGED <<shared, first, ok>> BY <1>2 DEF StartC
  <2> QED BY <2>4, <2>5, <2>6, <2>7, <2>8 DEF IndInv, Seen0, Pristine
<1>3. ASSUME NEW t \in Threads, WriteCell(t) PROVE IndInv'
  BY <1>3 DEF WriteCell, IndInv          \* never enabled: pending[t] = {}
<1>4. ASSUME NEW t \in Threads, Finish(t) PROVE IndInv'
  BY <1>4 DEF Finish, IndInv, Seen0, Pristine
<1> QED BY <1>1, <1>2, <1>3, <1>4 DEF Next, Start

THEOREM Safe == IndInv => Determinism /\ NoSharedWrite
  BY DEF IndInv, Determinism, NoSharedWrite

THEOREM NonInterference == Spec => [](Determinism /\ NoSharedWrite)
<1>1. Init /\ [][Next]_vars => []IndInv
  BY InitInv, StepInv, PTL
<1> QED BY <1>1, Safe, PTL DEF Spec
=============================================================================
