SPECIFICATION Spec
INVARIANT TypeOK
INVARIANT Wiring
INVARIANT LibrarySeesDD
INVARIANT AnswerInRequestedUnit
INVARIANT LengthsPassThrough
INVARIANT DDPassThrough
INVARIANT CallsTheLibrary
INVARIANT AbsentMeansDD
INVARIANT TypesIndependent
INVARIANT ResponseShape
INVARIANT StagesCompose
INVARIANT IndexComplete
INVARIANT Stateless
CHECK_DEADLOCK TRUE
