----------------------------- MODULE Trace_NTv2 -----------------------------
(***************************************************************************)
(* Trace validation for C17.  A trace is one synthetic NTv2 file (the      *)
(* abstract file of module NTv2, written to disk as a binary .gsb by the   *)
(* driver) and the calls made on it with the real code:                    *)
(*   Read    geodepy.ntv2reader.read_ntv2_file         (NTv2!ReadFile)      *)
(*   Interp  interpolate_ntv2(grid, lat, lon, method)  (NTv2!Choose ..     *)
(*           Interpolate .. ReadNode* .. Return .. Forget as one step)     *)
(*   T2D     geodepy.transform.ntv2_2d(grid, lat, lon, forward, method)    *)
(* Each event carries the abstract position q, what the code returned      *)
(* (fixed-point encoded), the bit pattern of the result on the clean file  *)
(* and on a copy in which every record outside NTv2!Allowed is NaN, and    *)
(* the node records the code read.  Every clause of the property is a      *)
(* named check; the first failing clause of a step is printed as           *)
(* <<"FAIL", id, l, clause>>.  A failing step does not end the trace: the  *)
(* calls are independent (the grid object keeps no state), every step is   *)
(* judged.  PlanSpec prints, before the code runs, which sub-grid and      *)
(* which records each call may depend on (used for the NaN copies).        *)
(***************************************************************************)
EXTENDS NTv2, Json, IOUtils

Data   == JsonDeserialize(IOEnv.TRACE_FILE)
Traces == Data.traces

VARIABLES tid, l
tvars == <<file, phase, call, qq, method, tgt, cell, reads, res, tid, l>>
T == Traces[tid]

\* evaluate `v` once and apply Op to the value
Bind(v, Op(_)) == CHOOSE r \in {Op(w) : w \in {v}} : TRUE
Str(k) == IF k = 1 THEN "1" ELSE IF k = 2 THEN "2" ELSE IF k = 3 THEN "3" ELSE "4"

(* ------------------------------ Read ----------------------------------- *)
HalfMilli == Dec(5, 1)              \* 0.0005"  : "extents to 0.001 arc-second"
HalfMicro == Dec(50, 2)             \* 0.0000005": "increments to 1e-6 arc-second"
IncVal(m, u) == Add(FromMilli(m), Dec(u * 100, 2))
SubHdrFail(S, o) ==
  IF o.name # S.name THEN "sub_name"
  ELSE IF o.parent # S.parent THEN "parent"
  ELSE IF o.created # S.cd \o "/" \o S.cm \o "/" \o S.cy THEN "created"
  ELSE IF o.updated # S.ud \o "/" \o S.um \o "/" \o S.uy THEN "updated"
  ELSE IF ~Within(FromJ(o.s), FromMilli(S.s), HalfMilli) THEN "s_lat"
  ELSE IF ~Within(FromJ(o.n), FromMilli(S.n), HalfMilli) THEN "n_lat"
  ELSE IF ~Within(FromJ(o.e), FromMilli(S.e), HalfMilli) THEN "e_long"
  ELSE IF ~Within(FromJ(o.w), FromMilli(S.w), HalfMilli) THEN "w_long"
  ELSE IF ~Within(FromJ(o.dlat), IncVal(S.dlat, S.dlatu), HalfMicro) THEN "lat_inc"
  ELSE IF ~Within(FromJ(o.dlon), IncVal(S.dlon, S.dlonu), HalfMicro) THEN "long_inc"
  ELSE IF o.gs_count # S.rows * S.cols THEN "gs_count"
  ELSE ""
RECURSIVE SubsFail(_, _, _)
SubsFail(F, o, k) == IF k > NSub(F) THEN ""
                     ELSE Bind(SubHdrFail(SG(F, k), o.subs[k]), LAMBDA f : IF f # "" THEN f ELSE SubsFail(F, o, k + 1))
ReadFail(F, ev) ==
  LET o == ev.obs H == F.hdr IN
  IF ev.exc # "" THEN "raised"
  ELSE IF o.num_orec # 11 THEN "num_orec"
  ELSE IF o.num_srec # 11 THEN "num_srec"
  ELSE IF o.num_file # NSub(F) THEN "num_file"
  ELSE IF o.gs_type # H.gs_type THEN "gs_type"
  ELSE IF o.version # H.version THEN "version"
  ELSE IF o.system_f # H.system_f THEN "system_f"
  ELSE IF o.system_t # H.system_t THEN "system_t"
  ELSE IF o.major_f # H.major_f THEN "major_f"
  ELSE IF o.minor_f # H.minor_f THEN "minor_f"
  ELSE IF o.major_t # H.major_t THEN "major_t"
  ELSE IF o.minor_t # H.minor_t THEN "minor_t"
  ELSE IF Len(o.subs) # NSub(F) THEN "subgrid_count"
  ELSE SubsFail(F, o, 1)

(* ---------------------------- Interp / T2D ----------------------------- *)
DegStr(d) == IF d = 1 THEN "linear" ELSE "biquadratic"
\* one field of one call against candidate sub-grid S, position p (cell-local), monomials mo
FieldFail(S, ev, f, p, mo) ==
  Bind(LocalCoef(S, f, p.row, p.col), LAMBDA L :
  Bind(Tol(S, L), LAMBDA tol :
  Bind(FromJ(ev.v[f]), LAMBDA o :
    LET ring == RingClass(S, p)
        deg  == Degree(S, f)
        tag(name) == ev.m \o "." \o name \o "|" \o ring \o "|" \o DegStr(deg) \o "|" \o Str(f)
    IN IF ev.m = "bilinear"
       THEN IF Within(o, Blend(S, f, p, mo[1][1]), tol) THEN ""
            ELSE tag(IF AtNode(p) THEN "node_value" ELSE IF deg = 1 THEN "linear_field" ELSE "blend")
       ELSE IF Within(o, PolyL(S, L, mo), tol) THEN ""
            ELSE IF AtNode(p) THEN tag("node_value")
            ELSE IF deg = 1 THEN tag("linear_field")
            ELSE IF ring = "mixed" /\ Within(o, Blend(S, f, p, mo[1][1]), tol) THEN ""
            ELSE tag("biquadratic"))))
RECURSIVE FieldsFail(_, _, _, _, _)
FieldsFail(S, ev, p, mo, f) ==
  IF f > 4 THEN "" ELSE Bind(FieldFail(S, ev, f, p, mo), LAMBDA x : IF x # "" THEN x ELSE FieldsFail(S, ev, p, mo, f + 1))
ValueFail(F, ev, h) ==
  Bind(Loc(F, ev.q, h), LAMBDA p : Bind(Monos(p.x, p.y), LAMBDA mo : FieldsFail(SG(F, h), ev, p, mo, 1)))
MinOf(set) == CHOOSE h \in set : \A k \in set : h <= k
\* C = candidate sub-grids (0 = none)
ResultFail(F, ev, C) ==
  IF ev.none = 1 THEN (IF 0 \in C THEN "" ELSE "no_value_inside_subgrid")
  ELSE IF C = {0} THEN "value_outside_every_subgrid"
  ELSE Bind([h \in C \ {0} |-> ValueFail(F, ev, h)], LAMBDA vf :
         IF \E h \in DOMAIN vf : vf[h] = "" THEN ""
         ELSE IF Cardinality(DOMAIN vf) = 1 THEN vf[MinOf(DOMAIN vf)]
         \* several candidates (position exactly on an extent line) and none accepted: the failure is reported
         \* for the candidate whose own four enclosing nodes blend to the observed value, if there is one
         ELSE Bind({h \in DOMAIN vf : ValueFail(F, [ev EXCEPT !.m = "bilinear"], h) = ""}, LAMBDA used :
                IF used # {} THEN vf[MinOf(used)] ELSE vf[MinOf(DOMAIN vf)]))
\* the position handed to the code is the abstract position (binding of the driver's unit change)
DegTol == Dec(1, 3)                                        \* 1e-12 degree
PositionFail(F, ev) ==
  IF ~Within(FromJ(ev.lat), DivSmall(QLat(F, ev.q), 3600), DegTol) THEN "driver.latitude"
  ELSE IF ~Within(FromJ(ev.lon), Neg(DivSmall(QLon(F, ev.q), 3600)), DegTol) THEN "driver.longitude" ELSE ""
OwnNodesFail(ev) == IF ev.pp # "skip" /\ ev.pp # ev.pay THEN "own_nodes" ELSE ""
First3(a, b, c) == IF a # "" THEN a ELSE IF b # "" THEN b ELSE c
InterpFail(F, ev) ==
  Bind(Cands(F, ev.q), LAMBDA C :
    IF ev.exc # "" THEN "raised"
    ELSE Bind(PositionFail(F, ev), LAMBDA pf : IF pf # "" THEN pf
         ELSE Bind(ResultFail(F, ev, C), LAMBDA rf : IF rf # "" THEN rf ELSE OwnNodesFail(ev))))
\* "adds the latitude shift and subtracts the positive-west longitude shift (arc-seconds) forward, the opposite in reverse"
ShiftFail(ev) ==
  LET dlat == DivSmall(FromJ(ev.v[1]), 3600)
      dlon == DivSmall(FromJ(ev.v[2]), 3600)
      elat == IF ev.fwd = 1 THEN Add(FromJ(ev.lat), dlat) ELSE Sub(FromJ(ev.lat), dlat)
      elon == IF ev.fwd = 1 THEN Sub(FromJ(ev.lon), dlon) ELSE Add(FromJ(ev.lon), dlon)
  IN IF ~Within(FromJ(ev.out[1]), elat, DegTol) THEN "t2d.latitude_shift"
     ELSE IF ~Within(FromJ(ev.out[2]), elon, DegTol) THEN "t2d.longitude_shift" ELSE ""
T2DFail(F, ev) ==
  Bind(Cands(F, ev.q), LAMBDA C :
    Bind(PositionFail(F, ev), LAMBDA pf : IF pf # "" THEN pf
    ELSE IF ev.exc # "" THEN (IF 0 \in C /\ ev.exc = "ValueError" THEN "" ELSE "t2d.raised")
    ELSE IF C = {0} \/ ev.none = 1 THEN "t2d.outside_must_raise"
    ELSE Bind(ResultFail(F, ev, C), LAMBDA rf : IF rf # "" THEN rf
              ELSE Bind(ShiftFail(ev), LAMBDA sf : IF sf # "" THEN sf
              \* the same whole-degree position handed over as Python ints and as floats: the same numbers, the same answer
              ELSE IF ~ev.intsame THEN "t2d.int_arguments" ELSE ""))))

\* the reads of the code against the cursor model (information only: another I/O strategy is not an error)
CursorMatches(F, ev, C) ==
  \/ ev.none = 1 \/ ev.exc # "" \/ C = {0}
  \/ \E h \in C \ {0} : \E p \in {Loc(F, ev.q, h)} : \E rc \in Touched(SG(F, h), p) :
        ev.reads = ReadSeq(Variant, F, h, rc[1], rc[2], ev.m)

Report(clause) == PrintT(<<"FAIL", T.id, l, clause>>)

TraceInit == /\ tid \in 1..Len(Traces) /\ l = 1
             /\ file = Traces[tid].file /\ phase = "closed" /\ call = "" /\ qq = NoQ /\ method = "" /\ tgt = 0
             /\ cell = NoCell /\ reads = <<>> /\ res = ""
Keep == UNCHANGED <<file, call, qq, method, tgt, cell, reads, res, tid>>
TrRead == /\ l = 1 /\ T.ev[1].a = "Read" /\ phase = "closed" /\ phase' = "open"
          /\ \E f \in {ReadFail(file, T.ev[1])} : IF f = "" THEN TRUE ELSE Report("Read." \o f)
          /\ l' = 2 /\ Keep
TrInterp == /\ l > 1 /\ l <= Len(T.ev) /\ T.ev[l].a = "Interp" /\ phase = "open" /\ phase' = "open"
            /\ \E f \in {InterpFail(file, T.ev[l])} : IF f = "" THEN TRUE ELSE Report(f)
            /\ (IF CursorMatches(file, T.ev[l], Cands(file, T.ev[l].q)) THEN TRUE ELSE PrintT(<<"IOSTRAT", T.id, l>>))
            /\ l' = l + 1 /\ Keep
TrT2D == /\ l > 1 /\ l <= Len(T.ev) /\ T.ev[l].a = "T2D" /\ phase = "open" /\ phase' = "open"
         /\ \E f \in {T2DFail(file, T.ev[l])} : IF f = "" THEN TRUE ELSE Report(f)
         /\ l' = l + 1 /\ Keep
TraceNext == TrRead \/ TrInterp \/ TrT2D
TraceSpec == TraceInit /\ [][TraceNext]_tvars
Consumed == (l = Len(T.ev) + 1) => PrintT(<<"END", T.id>>)

(* ------------------------------- planning ------------------------------ *)
\* before the code runs: for each call the candidate sub-grids, the ring class and the records the result
\* may depend on (only when the sub-grid is determined)
PlanOf(F, ev) ==
  Bind(Cands(F, ev.q), LAMBDA C :
    IF Cardinality(C) # 1 THEN <<0, -1, "ambiguous", {}>>
    ELSE Bind(MinOf(C), LAMBDA h :
      IF h = 0 THEN <<1, 0, "none", {}>>
      ELSE Bind(Loc(F, ev.q, h), LAMBDA p : <<1, h, RingClass(SG(F, h), p), Allowed(F, h, p, ev.m)>>)))
PlanStep == /\ l <= Len(T.ev)
            /\ (IF T.ev[l].a = "Read" THEN TRUE ELSE PrintT(<<"PLAN", T.id, l>> \o PlanOf(file, T.ev[l])))
            /\ l' = l + 1 /\ UNCHANGED <<file, phase, call, qq, method, tgt, cell, reads, res, tid>>
PlanSpec == TraceInit /\ [][PlanStep]_tvars
=============================================================================
