----------------------------- MODULE KruegerTest -----------------------------
EXTENDS KruegerTM, TLC
VARIABLE x
Init == x = 0
Next == x' = x /\ x = 0
InvF == [neg |-> FALSE, mag |-> <<0, 0, 1000, 2210, 2572, 298>>]          \* 298.257222101
Nn == ThirdFlat(InvF, [neg |-> FALSE, mag |-> <<0, 0, 394, 7922, 16>>])
A == FromInt(6378137)
R1 == TMRatios(Nn, <<3, 4, 5>>, <<5, 12, 13>>)
R2 == TMRatios(Nn, <<-12, 5, 13>>, <<-7, 24, 25>>)
R3 == TMRatios(Nn, <<0, 1, 1>>, <<8, 15, 17>>)
R4 == TMRatios(Nn, <<40, 9, 41>>, <<33, 544, 545>>)
AA == RectRadius(A, Nn)
ASSUME PrintT(<<"TM", 1, Mul(AA, R1.eta), Mul(AA, R1.xi), R1.res, ScaleOverK0(A, Nn, <<3, 4, 5>>, R1), Deg(ConvMagnitude(<<5, 12, 13>>, R1))>>)
ASSUME PrintT(<<"TM", 2, Mul(AA, R2.eta), Mul(AA, R2.xi), R2.res, ScaleOverK0(A, Nn, <<-12, 5, 13>>, R2), Deg(ConvMagnitude(<<-7, 24, 25>>, R2))>>)
ASSUME PrintT(<<"TM", 3, Mul(AA, R3.eta), Mul(AA, R3.xi), R3.res, ScaleOverK0(A, Nn, <<0, 1, 1>>, R3), Deg(ConvMagnitude(<<8, 15, 17>>, R3))>>)
ASSUME PrintT(<<"TM", 4, Mul(AA, R4.eta), Mul(AA, R4.xi), R4.res, ScaleOverK0(A, Nn, <<40, 9, 41>>, R4), Deg(ConvMagnitude(<<33, 544, 545>>, R4))>>)
=============================================================================
