------------------------------- MODULE BigFix -------------------------------
(***************************************************************************)
(* Signed multi-limb fixed-point arithmetic for TLC.                       *)
(*                                                                         *)
(* TLC integers are 32 bit, TLA+ has no reals.  Every metric quantity of   *)
(* the GeodePy specification (metres, degrees, arc-seconds, ppm, matrix    *)
(* entries) is therefore held as                                           *)
(*     [neg |-> BOOLEAN, mag |-> Seq(0..9999)]                             *)
(* `mag` little endian, base 10^4, with FL fractional limbs: the value is  *)
(*     (-1)^neg * SUM mag[i] * 10^(4(i-1-FL)).                             *)
(* `mag` never has a zero top limb (canonical form), zero is <<>>.         *)
(* FL = 5 gives a resolution of 1e-20; magnitudes up to 10^(4*(19-FL))     *)
(* keep every schoolbook column sum below 2^31.                            *)
(*                                                                         *)
(* The JSON encoding used in traces is the tuple <<sgn, l1, l2, ...>>      *)
(* (sgn 1 = negative), produced by harness/fix.py from the exact binary    *)
(* value of a Python float.                                                *)
(***************************************************************************)
EXTENDS Integers, Sequences

FL == 5
Base == 10000

Limb(s, i) == IF i >= 1 /\ i <= Len(s) THEN s[i] ELSE 0
MaxI(a, b) == IF a > b THEN a ELSE b
MinI(a, b) == IF a < b THEN a ELSE b

RECURSIVE TrimTo(_, _)
TrimTo(s, n) == IF n = 0 THEN <<>>
                ELSE IF s[n] # 0 THEN SubSeq(s, 1, n) ELSE TrimTo(s, n - 1)
Trim(s) == TrimTo(s, Len(s))

\* propagate carries over non-negative wide limbs (< 2^31)
RECURSIVE Carry(_, _, _)
Carry(s, i, c) ==
  IF i > Len(s) THEN (IF c = 0 THEN <<>> ELSE <<c % Base>> \o Carry(s, i, c \div Base))
  ELSE LET t == s[i] + c IN <<t % Base>> \o Carry(s, i + 1, t \div Base)
Norm(s) == Trim(Carry(s, 1, 0))

RECURSIVE CmpFrom(_, _, _)
CmpFrom(a, b, i) == IF i = 0 THEN 0
                    ELSE IF Limb(a, i) > Limb(b, i) THEN 1
                    ELSE IF Limb(a, i) < Limb(b, i) THEN -1
                    ELSE CmpFrom(a, b, i - 1)
CmpM(a, b) == CmpFrom(a, b, MaxI(Len(a), Len(b)))

AddM(a, b) == Norm([i \in 1..MaxI(Len(a), Len(b)) |-> Limb(a, i) + Limb(b, i)])

RECURSIVE SubFrom(_, _, _, _, _)
SubFrom(a, b, i, n, br) ==
  IF i > n THEN <<>>
  ELSE LET d == Limb(a, i) - Limb(b, i) - br
       IN IF d < 0 THEN <<d + Base>> \o SubFrom(a, b, i + 1, n, 1)
          ELSE <<d>> \o SubFrom(a, b, i + 1, n, 0)
SubM(a, b) == Trim(SubFrom(a, b, 1, MaxI(Len(a), Len(b)), 0))   \* requires a >= b

RECURSIVE ColSum(_, _, _, _, _)
ColSum(a, b, k, i, hi) == \* sum_{i..hi} a[i]*b[k+1-i]
  IF i > hi THEN 0 ELSE a[i] * b[k + 1 - i] + ColSum(a, b, k, i + 1, hi)
MulM(a, b) == IF a = <<>> \/ b = <<>> THEN <<>>
              ELSE Norm([k \in 1..(Len(a) + Len(b) - 1) |->
                           ColSum(a, b, k, MaxI(1, k + 1 - Len(b)), MinI(Len(a), k))])
ShiftR(s, n) == IF Len(s) <= n THEN <<>> ELSE SubSeq(s, n + 1, Len(s))
ShiftL(s, n) == IF s = <<>> THEN <<>> ELSE [i \in 1..(Len(s) + n) |-> IF i <= n THEN 0 ELSE s[i - n]]

RECURSIVE DivSmallFrom(_, _, _, _)
DivSmallFrom(s, d, i, rem) == \* long division from the top limb; big-endian quotient
  IF i = 0 THEN <<>>
  ELSE LET cur == rem * Base + s[i] IN <<cur \div d>> \o DivSmallFrom(s, d, i - 1, cur % d)
Reverse(s) == [i \in 1..Len(s) |-> s[Len(s) + 1 - i]]
DivSmallM(s, d) == Trim(Reverse(DivSmallFrom(s, d, Len(s), 0)))   \* 0 < d < 2^31/Base

(* ---------------------------- signed numbers --------------------------- *)
Mk(n, m) == [neg |-> (n /\ m # <<>>), mag |-> m]
Zero == [neg |-> FALSE, mag |-> <<>>]
IsZero(x) == x.mag = <<>>
Neg(x) == Mk(~x.neg, x.mag)
Abs(x) == Mk(FALSE, x.mag)
Add(x, y) == IF x.neg = y.neg THEN Mk(x.neg, AddM(x.mag, y.mag))
             ELSE IF CmpM(x.mag, y.mag) >= 0 THEN Mk(x.neg, SubM(x.mag, y.mag))
             ELSE Mk(y.neg, SubM(y.mag, x.mag))
Sub(x, y) == Add(x, Neg(y))
Mul(x, y) == Mk(x.neg # y.neg, ShiftR(MulM(x.mag, y.mag), FL))     \* truncates toward zero
Sq(x) == Mul(x, x)
Cmp(x, y) == IF x.neg /\ ~y.neg THEN -1 ELSE IF ~x.neg /\ y.neg THEN 1
             ELSE IF x.neg THEN CmpM(y.mag, x.mag) ELSE CmpM(x.mag, y.mag)
Leq(x, y) == Cmp(x, y) <= 0
Lt(x, y) == Cmp(x, y) < 0
Geq(x, y) == Cmp(x, y) >= 0
Gt(x, y) == Cmp(x, y) > 0
Eq(x, y) == Cmp(x, y) = 0
Sign(x) == IF IsZero(x) THEN 0 ELSE IF x.neg THEN -1 ELSE 1
Within(x, y, tol) == Leq(Abs(Sub(x, y)), tol)
DivSmall(x, d) == Mk(x.neg, DivSmallM(x.mag, d))                   \* d in 1..200000
MulSmall(x, k) == IF k >= 0 THEN Mk(x.neg, Norm([i \in 1..Len(x.mag) |-> x.mag[i] * k]))
                  ELSE Mk(~x.neg, Norm([i \in 1..Len(x.mag) |-> x.mag[i] * (-k)]))  \* |k| < 200000
Max(x, y) == IF Geq(x, y) THEN x ELSE y
Min(x, y) == IF Leq(x, y) THEN x ELSE y

\* integer (|n| < 10^8) as a fixed-point number
FromInt(n) == LET a == IF n < 0 THEN -n ELSE n
              IN Mk(n < 0, Trim([i \in 1..(FL + 2) |-> IF i = FL + 1 THEN a % Base
                                                       ELSE IF i = FL + 2 THEN a \div Base ELSE 0]))
\* rational n/d with |n| < 10^8, 0 < d < 200000
FromRat(n, d) == DivSmall(FromInt(n), d)
\* n * 10^(-4k), |n| < 10^8, 0 <= k <= FL   (e.g. Dec(15, 2) = 15e-8)
Dec(n, k) == LET a == IF n < 0 THEN -n ELSE n
             IN Mk(n < 0, Trim([i \in 1..(FL + 2 - k) |-> IF i = FL + 1 - k THEN a % Base
                                                          ELSE IF i = FL + 2 - k THEN a \div Base ELSE 0]))
\* trace encoding <<sgn, l1, ..., ln>>
FromJ(t) == [neg |-> (t[1] = 1 /\ Len(t) > 1), mag |-> Tail(t)]
\* integer part (truncated toward zero) when it fits 32 bits
IntPart(x) == LET m == x.mag
                  v == Limb(m, FL + 1) + Base * Limb(m, FL + 2)
              IN IF x.neg THEN -v ELSE v

One == FromInt(1)
Two == FromInt(2)
Three == FromInt(3)

\* sums over sequences of numbers, flat (no deep recursion)
RECURSIVE SumSeq(_, _)
SumSeq(s, i) == IF i > Len(s) THEN Zero ELSE Add(s[i], SumSeq(s, i + 1))
Sum(s) == SumSeq(s, 1)
Dot3(a, b) == Add(Add(Mul(a[1], b[1]), Mul(a[2], b[2])), Mul(a[3], b[3]))

\* reciprocal / reciprocal square root / square root by Newton from a start value
RECURSIVE RecipIt(_, _, _)
RecipIt(d, x, n) == IF n = 0 THEN x ELSE RecipIt(d, Mul(x, Sub(Two, Mul(d, x))), n - 1)
RECURSIVE RSqrtIt(_, _, _)
RSqrtIt(v, r, n) == IF n = 0 THEN r
                    ELSE RSqrtIt(v, DivSmall(Mul(r, Sub(Three, Mul(v, Mul(r, r)))), 2), n - 1)

\* pi bracket: PiLo < pi < PiHi  (3.14159265358979323846...)
PiLo == [neg |-> FALSE, mag |-> <<3846, 7932, 3589, 9265, 1415, 3>>]   \* 3.1415 9265 3589 7932 3846 | 2643...
PiHi == [neg |-> FALSE, mag |-> <<3847, 7932, 3589, 9265, 1415, 3>>]
Pi == PiLo
=============================================================================
