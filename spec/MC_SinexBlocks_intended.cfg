SPECIFICATION MCSpec
CONSTANT Names = {"SITE/ID", "SOLUTION/EPOCHS"}
CONSTANT ReadNames = {"SITE/ID"}
CONSTANT MaxBlocks = 1
CONSTANT MaxData = 1
CONSTANT MaxGen = 0
CONSTANT HLen = 99
VIEW View
CONSTRAINT Reduced
INVARIANT HeaderBlockIntended
INVARIANT RecordsIntended
CHECK_DEADLOCK FALSE
