SPECIFICATION TraceSpec
CONSTANT MaxRecs = 50
CONSTRAINT Consumed
INVARIANT SameCount
INVARIANT Isolation
CHECK_DEADLOCK FALSE
