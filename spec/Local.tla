------------------------------- MODULE Local -------------------------------
(***************************************************************************)
(* C16 - local east/north/up frame (geodepy.statistics, enu2xyz / xyz2enu  *)
(* of geodepy.geodesy): rotation matrix, vector and covariance rotation,   *)
(* error ellipse, relative error, 95 % coverage factors.                   *)
(*                                                                         *)
(* Positions are pairs of angles with RATIONAL sine and cosine             *)
(* <<p, q, r>>, sin = p/r, cos = q/r, p^2 + q^2 = r^2 (every rational      *)
(* t = tan(a/2) = m/n gives <<2mn, n^2-m^2, n^2+m^2>>: the lattice is      *)
(* dense), so that the rotation matrix has rational entries which module   *)
(* LocalFrame computes in BigFix; the specification IS the oracle there.   *)
(* Everywhere else the clauses are polynomial identities evaluated on      *)
(* observed numbers (Trace_Local).                                         *)
(*                                                                         *)
(* State machine ("a workspace holding one value"):                        *)
(*   pos    the station  <<lat, lon>>  (two rational-trig angles)          *)
(*   frame  "cart" | "local"  frame in which val is expressed              *)
(*   val    [kind |-> "none"|"vec"|"vcv"|"col", m |-> ...]                  *)
(*   orig   the start <<frame, val>>   (history, read by the invariants)   *)
(*   out    result of the last observing call (ellipse, relative error,    *)
(*          coverage factor), NoOut otherwise                              *)
(*   h      labels of the calls made so far                                *)
(* One action per public function.  All actions are deterministic and are  *)
(* written as functions Post_X (module LocalFrame) so that Trace_Local     *)
(* re-uses them.                                                           *)
(***************************************************************************)
EXTENDS LocalFrame

(* ---------------------------- state machine ---------------------------- *)
CONSTANTS Lats, Lons,         \* rational-trig angles of the stations
          Vecs, Vcvs, Cols,   \* integer seeds: triples, 3x3 symmetric PSD tuples, triples of variances
          Pairs,              \* sequence of <<var2, cov12>> integer seeds for RelErr (second station, cross-covariance)
          KArgs               \* sequence of arguments of k_val95

VARIABLES pos, frame, val, orig, out, h
vars == <<pos, frame, val, orig, out, h>>

FixV(t) == <<FromInt(t[1]), FromInt(t[2]), FromInt(t[3])>>
FixM(m) == <<FixV(m[1]), FixV(m[2]), FixV(m[3])>>
NoOut == [kind |-> "none"]
NoVal == [kind |-> "none", m |-> <<>>]
Frames == {"cart", "local"}

\* (the three kinds are kept apart: TLC cannot compare a vector with a matrix inside one set)
Init == /\ pos \in Lats \X Lons
        /\ \/ frame \in Frames /\ \E t \in Vecs : val = [kind |-> "vec", m |-> FixV(t)]
           \/ frame \in Frames /\ \E m \in Vcvs : val = [kind |-> "vcv", m |-> FixM(m)]
           \/ frame \in Frames /\ \E t \in Cols : val = [kind |-> "col", m |-> FixV(t)]
           \/ frame = "cart" /\ val = NoVal
        /\ orig = <<frame, val>> /\ out = NoOut /\ h = <<>>

R == RotM(pos)

Convert(name, kinds, from, post) ==
  /\ val.kind \in kinds /\ frame = from
  /\ \E m \in {post} : val' = [kind |-> val.kind, m |-> m]
  /\ frame' = Other(frame) /\ out' = NoOut /\ h' = Append(h, <<name, 0>>)
  /\ UNCHANGED <<pos, orig>>

Enu2Xyz == Convert("Enu2Xyz", {"vec"}, "local", Post_Enu2Xyz(R, val.m))
Xyz2Enu == Convert("Xyz2Enu", {"vec"}, "cart", Post_Xyz2Enu(R, val.m))
\* (a rotated column has dropped its covariances: it is not rotated again, there is no inverse to expect)
Fresh == val = orig[2] /\ frame = orig[1]
VcvC2L  == \/ Convert("VcvC2L", {"vcv"}, "cart", Post_VcvC2L(R, val.m))
           \/ Fresh /\ Convert("VcvC2L", {"col"}, "cart", Post_ColC2L(R, val.m))
VcvL2C  == \/ Convert("VcvL2C", {"vcv"}, "local", Post_VcvL2C(R, val.m))
           \/ Fresh /\ Convert("VcvL2C", {"col"}, "local", Post_ColL2C(R, val.m))
\* observing calls: the value stays
Ellipse == /\ val.kind = "vcv" /\ out = NoOut
           /\ \E e \in {EllipseOf(val.m)} : out' = [kind |-> "ellipse", e |-> e, V |-> val.m]
           /\ h' = Append(h, <<"Ellipse", 0>>) /\ UNCHANGED <<pos, frame, val, orig>>
\* (the three blocks must come from one joint covariance: the relative variance is positive semi-definite)
RelErr == /\ val.kind = "vcv" /\ frame = "cart" /\ out = NoOut
          /\ \E i \in 1..Len(Pairs) :
             \E Dm \in {RelVar(val.m, FixM(Pairs[i][1]), FixM(Pairs[i][2]))} :          \* (singletons: evaluated once)
               /\ IsPSD(Dm)
               /\ \E r \in {RelErrOf(Post_VcvC2L(R, Dm))} :
                    out' = [kind |-> "relerr", e |-> r.ell, V |-> r.L, up2 |-> r.up2]
               /\ h' = Append(h, <<"RelErr", i>>)
          /\ UNCHANGED <<pos, frame, val, orig>>
KVal == /\ val.kind = "none" /\ out = NoOut
        /\ \E i \in 1..Len(KArgs) : /\ out' = [kind |-> "k", arg |-> KArgs[i], k |-> KAbstract(KArgs[i])]
                                     /\ h' = Append(h, <<"KVal", i>>)
        /\ UNCHANGED <<pos, frame, val, orig>>

Next == Enu2Xyz \/ Xyz2Enu \/ VcvC2L \/ VcvL2C \/ Ellipse \/ RelErr \/ KVal
Spec == Init /\ [][Next]_vars

(* ------------------------------ properties ----------------------------- *)
\* On the lattices used by MC_Local (denominators 1 and 5) every number is an exact decimal with
\* fewer than 20 places, so BigFix is exact and the laws are checked with tolerance ModelEps only
\* where a square root is involved.
ModelEps == Dec(1, 4)                       \* 1e-16

TypeOK == /\ frame \in Frames /\ val.kind \in {"none", "vec", "vcv", "col"}
          /\ IsLat(pos[1]) /\ IsPyth(pos[2])
          /\ out.kind \in {"none", "ellipse", "relerr", "k"}

\* the frame is a right-handed orthonormal rotation whose up axis is the ellipsoid normal.  No action
\* changes the station (PosFixed) and the frame depends on nothing else, so the frame laws are evaluated
\* once per station: in its empty-workspace state.
PosFixed == [][pos' = pos /\ orig' = orig]_vars
AtStart == val.kind = "none" /\ out = NoOut
FrameOrthonormal == AtStart => MatMul(Transp(R), R) = Ident /\ MatMul(R, Transp(R)) = Ident
FrameRightHanded == AtStart => Det(R) = One /\ Cross(Col(R, 1), Col(R, 2)) = Col(R, 3)
UpIsNormal == AtStart => Col(R, 3) = NormalSC(SinOf(pos[1]), CosOf(pos[1]), SinOf(pos[2]), CosOf(pos[2]))
EastIsHorizontal == AtStart => R[3][1] = Zero /\ ~Lt(R[3][2], Zero)      \* east has no polar component, north points poleward

\* conversions are exact inverses: back in the starting frame the value is the starting value
RoundTrip == (val.kind \in {"vec", "vcv"} /\ frame = orig[1]) => val = orig[2]
\* vectors keep their length in every frame
LengthKept == val.kind = "vec" => Len2(val.m) = Len2(orig[2].m)
\* covariances stay symmetric and keep trace, sum of principal minors and determinant (= eigenvalues)
SymmetryKept == val.kind = "vcv" => IsSym(val.m, Zero)
SpectrumKept == val.kind = "vcv" => /\ Tr(val.m) = Tr(orig[2].m)
                                    /\ Minors(val.m) = Minors(orig[2].m)
                                    /\ Det(val.m) = Det(orig[2].m)
\* a 3x1 column is the diagonal of the rotated diagonal matrix (action property: one step)
ColumnIsRotatedDiagonal ==
  [][(val.kind = "col" /\ frame' # frame) =>
       val'.m = DiagOf(IF frame = "cart" THEN Post_VcvC2L(R, Diag(val.m)) ELSE Post_VcvL2C(R, Diag(val.m)))]_vars
\* total variance of a column is kept (trace), each rotated variance is non-negative
ColumnTraceKept == val.kind = "col" => /\ Sum3(val.m[1], val.m[2], val.m[3]) = Sum3(orig[2].m[1], orig[2].m[2], orig[2].m[3])
                                       /\ \A i \in 1..3 : ~Lt(val.m[i], Zero)
\* error ellipse: squared semi-axes are the eigenvalues of the horizontal block, major >= minor >= 0
EllipseAxes == out.kind \in {"ellipse", "relerr"} =>
                 /\ Within(Add(out.e.a2, out.e.b2), Tr2(out.V), ModelEps)
                 /\ Within(Mul(out.e.a2, out.e.b2), Det2(out.V), Mul(ModelEps, Add(One, Tr2(out.V))))
                 /\ Geq(out.e.a2, out.e.b2) /\ Geq(out.e.b2, Neg(ModelEps))
\* relative error is the ellipse of var1 + var2 - cov12 - cov12^T in the local frame, up error its up variance
RelErrUp == out.kind = "relerr" => out.up2 = out.V[3][3] /\ ~Lt(out.up2, Zero)
\* coverage-factor table addressing
KTable == out.kind = "k" =>
            /\ (out.k.kind = "TypeError") = ~out.arg.int
            /\ (out.k.kind = "entry" => out.k.i \in KMin..KMax
                                        /\ (out.arg.v \in KMin..KMax => out.k.i = out.arg.v)
                                        /\ (out.arg.v < KMin => out.k.i = KMin))
            /\ (out.k.kind = "normal") = (out.arg.int /\ out.arg.v > KMax)
=============================================================================
