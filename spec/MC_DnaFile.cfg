SPECIFICATION Spec
CONSTANT MaxRecs = 2
CONSTRAINT Reduced
INVARIANT SameCount
INVARIANT SameOrder
INVARIANT Isolation
INVARIANT Disjoint
CHECK_DEADLOCK FALSE
