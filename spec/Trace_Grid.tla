----------------------------- MODULE Trace_Grid -----------------------------
(***************************************************************************)
(* Trace validation for C01, C02 and C10.  Every event was produced by     *)
(* calls of geo2grid / grid2geo (and the stand-alone mga2gda) on the real  *)
(* code.  Event kinds:                                                     *)
(*  P     one geographic position: forward conversion, then the inverse    *)
(*        conversion of what the forward returned                          *)
(*  PAIR  two P observations in a stated relation (mirror in the central   *)
(*        meridian, mirror in the equator, two projections, two ellipsoids *)
(*        with the same flattening, angle-object arguments, explicit zone) *)
(*  IRT   one grid coordinate on a lattice: inverse, forward with the      *)
(*        explicit zone, and the mirrored-hemisphere inverse               *)
(*  STA   stand-alone mga2gda.grid2geo against the library                 *)
(*  ZONE  automatic zone on the 0.01-degree longitude lattice              *)
(* The clause names say which property a failure belongs to (c01_ / c02_ / *)
(* c10_); each check reports only its own clauses.                         *)
(***************************************************************************)
EXTENDS Grid, KruegerTM, Ellipsoids, Trig, Json, IOUtils

Data   == JsonDeserialize(IOEnv.TRACE_FILE)
Traces == Data.traces
VARIABLES tid, l, dead
tvars == <<vars, tid, l, dead>>
T == Traces[tid]
Report(clause) == PrintT(<<"FAIL", tid, l, clause>>)
RECURSIVE FirstFail(_, _)
FirstFail(cs, i) == IF i > Len(cs) THEN "" ELSE IF ~cs[i][2] THEN cs[i][1] ELSE FirstFail(cs, i + 1)

Prj(p) == [fe |-> FromJ(p.fe), fn |-> FromJ(p.fn), k0 |-> FromJ(p.k0), zw |-> p.zw, cm1 |-> p.cm1, isg |-> p.isg]
\* observation of one position
Lat(o) == FromJ(o.lat)   Lon(o) == FromJ(o.lon)
E(o) == FromJ(o.fwd.e)   N(o) == FromJ(o.fwd.n)
DL(o) == Sub(Lon(o), FromInt(CMdeg(Prj(o.prj), o.fwd.zone)))
EOff(o) == Sub(E(o), Prj(o.prj).fe)
NOff(o) == Sub(N(o), FNeff(Prj(o.prj), o.fwd.hemi))

\* tolerance in degrees of longitude equivalent to the property's 2e-9 deg PLUS the envelope of the
\* documented 0.1 mm output rounding of the easting the inverse starts from (DESIGN 6.1): the literal
\* statement (2e-9 deg) is clause c02_closure_geo_literal, the envelope version c02_closure_geo
LonEnv(o) == Add(Deg2e9, FromJ(o.lonround))     \* lonround = 0.5e-4 m / (nu cos lat) in degrees, from alpha

GridOK(e, n) == /\ Geq(e, FromInt(-2830000)) /\ Leq(e, FromInt(3830000))
                /\ Geq(n, Zero) /\ Leq(n, FromInt(10000000))

PChecks(o) ==
  LET prj == Prj(o.prj) lat == Lat(o) lon == Lon(o) dl == DL(o) IN
  << <<"c01_zone_rule", o.zonearg # 0 \/ ZoneRule(prj, o.fwd.zone, lon)>>,
     <<"c01_zone_explicit", o.zonearg = 0 \/ o.fwd.zone = o.zonearg>>,
     <<"c01_hemisphere", o.fwd.hemi = HemiOf(lat)>>,
     <<"c01_false_northing", NorthSign(prj, o.fwd.hemi, N(o), lat)>>,
     <<"c01_on_central_meridian", ~IsZero(dl) \/ Eq(E(o), prj.fe)>>,
     <<"c01_on_equator", ~IsZero(lat) \/ IsZero(NOff(o))>>,
     <<"c10_psf_on_cm", ~IsZero(dl) \/ Within(FromJ(o.fwd.psf), prj.k0, Half8)>>,
     <<"c10_conv_on_axes", ~(IsZero(dl) \/ IsZero(lat)) \/ Within(FromJ(o.fwd.conv), Zero, Deg1e9)>>,
     <<"c10_conv_sign", ConvSign(FromJ(o.fwd.conv), lat, dl)>>,
     \* the inverse is only required for eastings inside its accepted range and northings in [0, 1e7]
     <<"c02_inverse_accepts", ~GridOK(E(o), N(o)) \/ o.inv.exc = "">>,
     <<"c02_closure_geo_lat", ~GridOK(E(o), N(o)) \/ o.inv.exc # "" \/ Within(FromJ(o.inv.lat), lat, Deg2e9)>>,
     <<"c02_closure_geo_lon", ~GridOK(E(o), N(o)) \/ o.inv.exc # "" \/ Within(FromJ(o.inv.lon), lon, LonEnv(o))>>,
     <<"c02_closure_geo_lon_literal", ~GridOK(E(o), N(o)) \/ o.inv.exc # "" \/ Within(FromJ(o.inv.lon), lon, Deg2e9)>>,
     <<"c10_psf_fwd_inv", ~GridOK(E(o), N(o)) \/ o.inv.exc # "" \/ Within(FromJ(o.inv.psf), FromJ(o.fwd.psf), Psf2e8)>>,
     <<"c10_conv_fwd_inv", ~GridOK(E(o), N(o)) \/ o.inv.exc # "" \/
                           Within(FromJ(o.inv.conv), FromJ(o.fwd.conv), Add(Deg1e9, FromJ(o.convround)))>> >>

\* relations between two observations a (first) and b (second)
PairChecks(rel, a, b) ==
  CASE rel = "mirror_cm" ->          \* b.lon = 2 CM - a.lon, same zone
         << <<"c01_mirror_cm_east", Within(EOff(b), Neg(EOff(a)), Mm04)>>,
            <<"c01_mirror_cm_north", Within(N(b), N(a), Mm04)>>,
            <<"c10_mirror_cm_psf", Within(FromJ(b.fwd.psf), FromJ(a.fwd.psf), Psf4e8)>>,
            <<"c10_mirror_cm_conv", Within(FromJ(b.fwd.conv), Neg(FromJ(a.fwd.conv)), MulSmall(Deg1e9, 2))>> >>
    [] rel = "mirror_eq" ->          \* b.lat = - a.lat
         << <<"c01_mirror_eq_north", Within(NOff(b), Neg(NOff(a)), Mm04)>>,
            <<"c01_mirror_eq_east", Within(E(b), E(a), Mm04)>>,
            <<"c10_mirror_eq_psf", Within(FromJ(b.fwd.psf), FromJ(a.fwd.psf), Psf4e8)>>,
            <<"c10_mirror_eq_conv", Within(FromJ(b.fwd.conv), Neg(FromJ(a.fwd.conv)), MulSmall(Deg1e9, 2))>> >>
    [] rel = "projection" ->         \* same position and ellipsoid, other fe / fn / k0: offsets scale with k0
         LET ka == Prj(a.prj).k0 kb == Prj(b.prj).k0 IN
         << <<"c01_projection_east", Within(Mul(EOff(a), kb), Mul(EOff(b), ka), Mm04)>>,
            <<"c01_projection_north", Within(Mul(NOff(a), kb), Mul(NOff(b), ka), Mm04)>>,
            <<"c10_projection_psf", Within(Mul(FromJ(a.fwd.psf), kb), Mul(FromJ(b.fwd.psf), ka), Psf4e8)>>,
            <<"c10_projection_conv", Within(FromJ(a.fwd.conv), FromJ(b.fwd.conv), Deg1e9)>> >>
    [] rel = "homothety" ->          \* same 1/f, semi-major axes aa and ab: offsets scale with a
         LET aa == FromJ(a.ell.a) ab == FromJ(b.ell.a) IN
         << <<"c01_homothety_east", Within(Mul(EOff(a), ab), Mul(EOff(b), aa), MulSmall(Mm04, 6400000))>>,
            <<"c01_homothety_north", Within(Mul(NOff(a), ab), Mul(NOff(b), aa), MulSmall(Mm04, 6400000))>>,
            <<"c10_homothety_psf", Within(FromJ(a.fwd.psf), FromJ(b.fwd.psf), Psf4e8)>> >>
    [] rel = "same_call" ->          \* angle-object arguments / explicit natural zone / Projection object equal to utm
         << <<"c01_same_result", a.fwd.hex = b.fwd.hex>> >>

\* one grid coordinate on the lattice; a point whose latitude leaves the band [-80, 84] must be
\* rejected by the forward conversion, inside the band the round trip must close
InBand(lat) == Geq(lat, FromInt(-80)) /\ Leq(lat, FromInt(84))
InLon(lon) == Geq(lon, FromInt(-180)) /\ Leq(lon, FromInt(180))
IRTChecks(o) ==
  LET lat == FromJ(o.lat) lon == FromJ(o.lon)
      dl == Sub(lon, FromInt(CMdeg(Prj(o.prj), o.zone))) IN
  IF Gt(Abs(dl), FromInt(30)) THEN <<>>                       \* beyond 30 deg from the central meridian: outside the quantifier
  ELSE IF ~InBand(lat) \/ ~InLon(lon) THEN << <<"c02_forward_rejects_outside_domain", o.back.exc # "">> >>
  ELSE
  << <<"c02_forward_accepts", o.back.exc = "">>,
     <<"c02_closure_grid_east", o.back.exc # "" \/ Within(FromJ(o.back.e), FromJ(o.e), Mm02)>>,
     \* on the equator (N = fn, South) and (N = 0, North) are the same point: the representation may flip
     <<"c02_closure_grid_north", o.back.exc # "" \/ IsZero(lat) \/ Within(FromJ(o.back.n), FromJ(o.n), Mm02)>>,
     <<"c02_closure_grid_zone", o.back.exc # "" \/ (o.back.zone = o.zone /\ (IsZero(lat) \/ o.back.hemi = o.hemi))>>,
     \* the mirror northing fn - N is a floating-point difference (not exactly the mirror image: up to 2e-9 m off), and the
     \* latitudes / longitudes are printed to 11 decimals: "opposite / identical" up to one unit of that rounding
     <<"c02_mirror_hemisphere_lat", o.mirror.skip \/ Within(FromJ(o.mirror.lat), Neg(FromJ(o.lat)), Dec(15, 3))>>,
     <<"c02_mirror_hemisphere_lon", o.mirror.skip \/ Within(FromJ(o.mirror.lon), FromJ(o.lon), Dec(15, 3))>>,
     <<"c10_psf_fwd_inv", o.back.exc # "" \/ Within(FromJ(o.back.psf), FromJ(o.psf), Psf2e8)>>,
     <<"c10_conv_fwd_inv", o.back.exc # "" \/ Within(FromJ(o.back.conv), FromJ(o.conv), Add(Deg1e9, FromJ(o.convround)))>> >>

STAChecks(o) ==
  << <<"c02_standalone_lat", Within(FromJ(o.sta.lat), FromJ(o.lib.lat), Deg1e10)>>,
     <<"c02_standalone_lon", Within(FromJ(o.sta.lon), FromJ(o.lib.lon), Deg1e10)>> >>

ZoneChecks(o) ==
  << <<"c01_zone_rule", ZoneRule100(o.zw, o.cm1, o.zone, o.lon100)>> >>

\* on the central meridian at a Pythagorean latitude: northing = false northing + k0 * meridian distance
\* (MeridianArc, exact), easting = false easting; the inverse returns the latitude atan(p/q)
CMChecks(o) ==
  LET prj == Prj(o.prj)
      n == ThirdFlat(FromJ(o.ell.invf), FromJ(o.n0))
  IN IF ~NOK(FromJ(o.ell.invf), n) THEN << <<"oracle_start_value", FALSE>> >>
     ELSE \* (arguments are evaluated once)
     LET F(m, latd) ==
          << <<"c01_cm_northing", Within(N(o), Add(FNeff(prj, o.fwd.hemi), Mul(prj.k0, m)), Mm02)>>,
             <<"c01_cm_easting", Eq(E(o), prj.fe)>>,
             <<"c01_hemisphere", o.fwd.hemi = (IF o.tri[1] < 0 THEN "South" ELSE "North")>>,
             <<"c02_cm_inverse_lat", o.inv.exc # "" \/ Within(FromJ(o.inv.lat), latd, Dec(2500, 3))>>,
             <<"c02_cm_inverse_lon", o.inv.exc # "" \/ Eq(FromJ(o.inv.lon), FromInt(CMdeg(prj, o.fwd.zone)))>>,
             <<"c10_psf_on_cm", Within(FromJ(o.fwd.psf), prj.k0, Half8)>>,
             <<"c10_conv_on_axes", Within(FromJ(o.fwd.conv), Zero, Deg1e9)>> >>
     IN F(Meridian(FromJ(o.ell.a), n, o.tri), LatDeg(o.tri))

\* anywhere within 30 degrees of the central meridian, at a Pythagorean latitude and a Pythagorean longitude
\* difference: the EXACT Transverse Mercator image, scale factor and convergence from KruegerTM (in-spec oracle)
TMChecks(o) ==
  LET prj == Prj(o.prj)
      n == ThirdFlat(FromJ(o.ell.invf), FromJ(o.n0))
  IN IF ~NOK(FromJ(o.ell.invf), n) THEN << <<"oracle_start_value", FALSE>> >>
     ELSE
     LET F(t, AA, londeg) ==
          LET sgn == IF (o.tdl[1] > 0) = (o.tri[1] > 0) THEN -1 ELSE 1        \* sign(conv) = - sign(dl) sign(lat)
              convExp == MulSmall(Deg(ConvMagnitude(o.tdl, t)), sgn)
              lonExp == Add(FromInt(CMdeg(prj, o.fwd.zone)), IF o.tdl[1] < 0 THEN Neg(londeg) ELSE londeg)
          IN << <<"oracle_residuals", ResidualsOK(t.res)>>,
                <<"c01_shipped_ellipsoid_constants", ConstantsOK(o.ell.name, FromJ(o.ell.a), FromJ(o.ell.invf))>>,
                <<"c02_shipped_ellipsoid_constants", ConstantsOK(o.ell.name, FromJ(o.ell.a), FromJ(o.ell.invf))>>,
                <<"c10_shipped_ellipsoid_constants", ConstantsOK(o.ell.name, FromJ(o.ell.a), FromJ(o.ell.invf))>>,
                <<"c01_tm_easting", Within(E(o), Add(prj.fe, Mul(prj.k0, Mul(AA, t.eta))), Mm02)>>,
                <<"c01_tm_northing", Within(N(o), Add(FNeff(prj, o.fwd.hemi), Mul(prj.k0, Mul(AA, t.xi))), Mm02)>>,
                <<"c10_tm_scale_factor", Within(FromJ(o.fwd.psf), Mul(prj.k0, ScaleOverK0(FromJ(o.ell.a), n, o.tri, t)), Add(Psf2e8, Half8))>>,
                <<"c10_tm_convergence", o.tri[1] = 0 \/ o.tdl[1] = 0 \/ Within(FromJ(o.fwd.conv), convExp, Deg1e9)>>,
                <<"c02_tm_inverse_lat", ~GridOK(E(o), N(o)) \/ o.inv.exc # "" \/ Within(FromJ(o.inv.lat), LatDeg(o.tri), Dec(2500, 3))>>,
                <<"c02_tm_inverse_lon", ~GridOK(E(o), N(o)) \/ o.inv.exc # "" \/ Within(FromJ(o.inv.lon), lonExp, LonEnv(o))>> >>
     IN F(TMRatios(n, o.tri, o.tdl), RectRadius(FromJ(o.ell.a), n),
          Deg(AtanPos(IF o.tdl[1] < 0 THEN -o.tdl[1] ELSE o.tdl[1], o.tdl[2])))

\* the same at ANY position within 30 degrees of the central meridian: sines and cosines of the latitude and of the longitude
\* difference from the specification's own series (Trig), the exact projection from KruegerTM's generic form
FoldDl(d) == IF Gt(d, D180) THEN Sub(d, D360) ELSE IF Lt(d, Neg(D180)) THEN Add(d, D360) ELSE d
TMAChecks(o) ==
  LET prj == Prj(o.prj)
      n == ThirdFlat(FromJ(o.ell.invf), FromJ(o.n0))
      lat == FromJ(o.lat)
      \* central meridian from the zone system AS BUILT, in exact arithmetic (the width may be fractional: 1.5 or 2.5 degree zones)
      cmx == IF prj.isg THEN FromInt(CMdeg(prj, o.fwd.zone))
             ELSE Add(Sub(MulSmall(FromJ(o.prj.zwx), o.fwd.zone), FromJ(o.prj.zwx)), FromJ(o.prj.cm1x))
      dl == FoldDl(Sub(FromJ(o.lon), cmx))
  IN IF ~NOK(FromJ(o.ell.invf), n) THEN << <<"oracle_start_value", FALSE>> >>
     ELSE
     Let(<<SinCosDeg(lat), SinCosDeg(dl)>>, LAMBDA sc :
     Let(TMRatiosSC(n, sc[1][1], sc[1][2], sc[2][1], sc[2][2]), LAMBDA t :
     Let(RectRadius(FromJ(o.ell.a), n), LAMBDA AA :
     LET sgn == IF IsZero(dl) \/ IsZero(lat) THEN 0 ELSE IF dl.neg = lat.neg THEN -1 ELSE 1        \* sign(conv) = - sign(dl) sign(lat)
         convExp == MulSmall(Deg(ConvMagnitudeSC(sc[2][1], sc[2][2], t)), sgn)
     IN << <<"oracle_residuals", ResidualsOK(t.res)>>,
           <<"c01_shipped_ellipsoid_constants", ConstantsOK(o.ell.name, FromJ(o.ell.a), FromJ(o.ell.invf))>>,
                <<"c02_shipped_ellipsoid_constants", ConstantsOK(o.ell.name, FromJ(o.ell.a), FromJ(o.ell.invf))>>,
                <<"c10_shipped_ellipsoid_constants", ConstantsOK(o.ell.name, FromJ(o.ell.a), FromJ(o.ell.invf))>>,
           <<"c01_tm_easting", Within(E(o), Add(prj.fe, Mul(prj.k0, Mul(AA, t.eta))), Mm02)>>,
           <<"c01_tm_northing", Within(N(o), Add(FNeff(prj, o.fwd.hemi), Mul(prj.k0, Mul(AA, t.xi))), Mm02)>>,
           <<"c10_tm_scale_factor", Within(FromJ(o.fwd.psf), Mul(prj.k0, ScaleOverK0SC(FromJ(o.ell.a), n, sc[1][1], sc[1][2], t)), Add(Psf2e8, Half8))>>,
           <<"c10_tm_convergence", sgn = 0 \/ Within(FromJ(o.fwd.conv), convExp, Deg1e9)>>,
           <<"c02_tm_inverse_lat", ~GridOK(E(o), N(o)) \/ o.inv.exc # "" \/ Within(FromJ(o.inv.lat), lat, Dec(2500, 3))>>,
           \* (an explicit zone across the +-180 meridian: the inverse answers central meridian + difference, i.e. the same meridian
           \*  written beyond +-180 - compared modulo 360)
           <<"c02_tm_inverse_lon", ~GridOK(E(o), N(o)) \/ o.inv.exc # "" \/
                                   Leq(Abs(FoldDl(Sub(FromJ(o.inv.lon), FromJ(o.lon)))), LonEnv(o))>> >>)))

Checks(ev) == CASE ev.k = "P" -> PChecks(ev.o)
                [] ev.k = "TM" -> TMChecks(ev.o)
                [] ev.k = "TMA" -> TMAChecks(ev.o)
                [] ev.k = "CM" -> CMChecks(ev.o)
                [] ev.k = "PAIR" -> PairChecks(ev.rel, ev.a, ev.b)
                [] ev.k = "IRT" -> IRTChecks(ev.o)
                [] ev.k = "STA" -> STAChecks(ev.o)
                [] ev.k = "ZONE" -> ZoneChecks(ev.o)

\* all failing clauses of an event are reported (a trace = one event here), so that each property's
\* check can pick its own
RECURSIVE ReportAll(_, _)
ReportAll(cs, i) == IF i > Len(cs) THEN TRUE
                    ELSE (IF cs[i][2] THEN TRUE ELSE Report(cs[i][1])) /\ ReportAll(cs, i + 1)

\* an event is the composition Forward ; Inverse (P, PAIR) or Inverse ; Forward (IRT) of Grid's actions on
\* one point: the form returns to where it started, two conversions are counted, the stratum is kept
TraceInit == /\ tid \in 1..Len(Traces) /\ l = 1 /\ dead = FALSE
             /\ form = (IF Traces[tid].ev[1].k \in {"IRT", "STA"} THEN "grid" ELSE "geo")
             /\ stratum = Traces[tid].ev[1].tag /\ steps = 0
Step == /\ ~dead /\ l <= Len(T.ev)
        /\ LET ev == T.ev[l] IN
           IF ev.exc # "" THEN Report(ev.k \o "_raised") /\ dead' = TRUE
           ELSE \E cs \in {Checks(ev)} : ReportAll(cs, 1) /\ dead' = FALSE
        /\ form' = form /\ stratum' = stratum /\ steps' = steps + 2      \* (Forward \cdot Inverse) or (Inverse \cdot Forward)
        /\ l' = l + 1 /\ UNCHANGED tid
TraceSpec == TraceInit /\ [][Step]_tvars
Consumed == (l = Len(T.ev) + 1) => PrintT(<<"END", tid>>)
=============================================================================
