------------------------------ MODULE Trace_Mga ------------------------------
(***************************************************************************)
(* Trace validation for C13.  One trace = one transformation: the pipeline *)
(* call, the driver's own stepwise calls of the public functions, and (for *)
(* RT traces) the transformation back.  Stage events are consumed by       *)
(* Mga's actions in order; clauses:                                        *)
(*   chain      a stage's input is not the previous stage's output (bits)  *)
(*   equals_composition  the pipeline's return differs from the stepwise   *)
(*              result by more than one unit of the 4-decimal output       *)
(*              rounding                                                    *)
(*   height_rule, vcv_rule, natural_zone                                   *)
(*   helmert    the conform7 stage against Helmert.tla (1 um)              *)
(*   vcv_symmetric / vcv_psd / vcv_value (rotation, J Q J^T with the       *)
(*              published uncertainties, rotation back: all in the spec)   *)
(*   round_trip_position (0.3 mm) / round_trip_height (0.2 mm)             *)
(***************************************************************************)
EXTENDS Mga, Helmert, GridRules, Trig, Json, IOUtils

Data   == JsonDeserialize(IOEnv.TRACE_FILE)
Traces == Data.traces
VARIABLES tid, l, dead, prevhex
tvars == <<vars, tid, l, dead, prevhex>>
T == Traces[tid]
Report(clause) == PrintT(<<"FAIL", tid, l, clause>>)
J(x) == FromJ(x)
Vec(v) == <<J(v[1]), J(v[2]), J(v[3])>>
MatJ(m) == <<Vec(m[1]), Vec(m[2]), Vec(m[3])>>
Tr3(m) == Add(Add(m[1][1], m[2][2]), m[3][3])
Minor2(m, i, j) == Sub(Mul(m[i][i], m[j][j]), Mul(m[i][j], m[j][i]))
Det3(m) == Add(Sub(Mul(m[1][1], Sub(Mul(m[2][2], m[3][3]), Mul(m[2][3], m[3][2]))),
                   Mul(m[1][2], Sub(Mul(m[2][1], m[3][3]), Mul(m[2][3], m[3][1])))),
               Mul(m[1][3], Sub(Mul(m[2][1], m[3][2]), Mul(m[2][2], m[3][1]))))
PSD(m) == LET t == Tr3(m) e1 == Mul(Dec(10, 3), t) e2 == Mul(e1, t) e3 == Mul(e2, t)
          IN /\ \A i \in 1..3 : Geq(m[i][i], Neg(e1))
             /\ Geq(Minor2(m, 1, 2), Neg(e2)) /\ Geq(Minor2(m, 1, 3), Neg(e2)) /\ Geq(Minor2(m, 2, 3), Neg(e2))
             /\ Geq(Det3(m), Neg(e3))
Symm(m) == LET e == Mul(Dec(1, 3), Tr3(m))
           IN Within(m[1][2], m[2][1], e) /\ Within(m[1][3], m[3][1], e) /\ Within(m[2][3], m[3][2], e)

UTM == [fe |-> FromInt(500000), fn |-> FromInt(10000000), k0 |-> Dec(99960000, 2), zw |-> 6, cm1 |-> -177, isg |-> FALSE]
GdaSet(ev) == LET base == [from |-> "GDA94", to |-> "GDA2020", ep |-> 0, p |-> [k \in 1..NP |-> J(ev.p14[k])]]
              IN IF ev.neg THEN NegSet(base) ELSE base

\* the covariance the property describes: the input (local east-north-up at the INPUT position) carried through the
\* transformation, plus the contribution of the PUBLISHED one-sigma uncertainties of the GDA94 <-> GDA2020 parameters
\* (GDA2020 Technical Manual v1.2, table 3.2: translations 0.7 / 0.6 / 0.7 mm, scale 0.00010 ppm, rotations 0.000011 /
\* 0.000010 / 0.000011 arc-seconds), expressed in the local frame at the OUTPUT position
PublishedSd == <<Dec(7, 1), Dec(6, 1), Dec(7, 1), Dec(1, 1), Dec(1100, 2), Dec(1000, 2), Dec(1100, 2)>>
ExpectedVcv(ev) ==
  Let(EnuFrame(J(ev.pos1[1]), J(ev.pos1[2])), LAMBDA r1 : Let(EnuFrame(J(ev.pos2[1]), J(ev.pos2[2])), LAMBDA r2 :
  Let(MatMul3(MatMul3(r1, MatJ(ev.vin)), Transp3(r1)), LAMBDA vc :
  Let(Propagate(GdaSet(ev), Vec(ev.xyz), vc, PublishedSd), LAMBDA vc2 : MatMul3(MatMul3(Transp3(r2), vc2), r2)))))
VcvValueOK(ev) == Let(ExpectedVcv(ev), LAMBDA e : Let(MatJ(ev.vout), LAMBDA o :
                      \A i \in 1..3 : \A j \in 1..3 : Within(o[i][j], e[i][j], Add(Mul(Dec(10, 3), Tr3(e)), Dec(100, 5)))))   \* 1e-9 trace + 1e-18

\* "equals the stepwise composition": the same zone, and easting / northing / height equal up to one unit of the documented output
\* rounding (4 decimals: an implementation that orders its floating-point operations differently may round the last digit the other
\* way - still the same composition); covariances equal to 1e-9 of the trace
Unit4 == Add(Dec(1, 1), Dec(1, 3))          \* 1e-4 + 1e-12
SameAsSteps(ev) == /\ ev.ret.zone = ev.step.zone
                   /\ Within(J(ev.ret.e), J(ev.step.e), Unit4) /\ Within(J(ev.ret.n), J(ev.step.n), Unit4)
                   /\ Within(J(ev.ret.h), J(ev.step.h), Unit4)
SameVcv(a, b) == \A i \in 1..3 : \A j \in 1..3 : Within(a[i][j], b[i][j], Add(Mul(Dec(10, 3), Tr3(b)), Dec(100, 5)))

TraceInit == /\ tid \in 1..Len(Traces) /\ l = 1 /\ dead = FALSE /\ prevhex = ""
             /\ dir = Traces[tid].dir /\ ht = Traces[tid].ht /\ vcv = Traces[tid].vcv /\ pc = 1 /\ done = <<>>
             /\ htIn = "unset" /\ vcvForm = (IF Traces[tid].vcv = "none" THEN "none" ELSE "local")

\* stage events: the driver's own calls of the public functions, in pipeline order
StageAction(name) == CASE name = "grid2geo" -> Grid2Geo [] name = "llh2xyz" -> Llh2Xyz [] name = "conform7" -> Helmert7
                       [] name = "xyz2llh" -> Xyz2Llh [] name = "geo2grid" -> Geo2Grid
StageEnabled(name) == pc = (CASE name = "grid2geo" -> 1 [] name = "llh2xyz" -> 2 [] name = "conform7" -> 3
                              [] name = "xyz2llh" -> 4 [] name = "geo2grid" -> 5)
Stage == /\ ~dead /\ l <= Len(T.ev) /\ T.ev[l].k = "stage"
         /\ LET ev == T.ev[l] IN
            IF ~StageEnabled(ev.name) THEN Report("stage_order") /\ dead' = TRUE /\ UNCHANGED <<vars, prevhex>>
            ELSE \E f \in {IF ev.exc # "" THEN "raised"
                           ELSE IF prevhex # "" /\ ev.inhex # prevhex THEN "chain"
                           ELSE IF ev.name = "llh2xyz" /\ (T.ht = "absent") # (ev.h0) THEN "height_rule"
                           ELSE IF ev.name = "conform7" /\ ~(\A i \in 1..3 : Within(Vec(ev.out)[i], Conform7(GdaSet(ev), Vec(ev.in))[i], Dec(100, 2)))
                                THEN "helmert"
                           ELSE IF ev.name = "geo2grid" /\ ~ZoneRule(UTM, ev.zone, J(ev.lon)) THEN "natural_zone"
                           ELSE ""} :
                 /\ StageAction(ev.name)
                 /\ (IF f = "" THEN TRUE ELSE Report(ev.name \o "." \o f))
                 /\ dead' = (f # "")
                 /\ prevhex' = ev.outhex
         /\ l' = l + 1 /\ UNCHANGED tid

\* the pipeline's own return value against the stepwise result
Pipeline == /\ ~dead /\ l <= Len(T.ev) /\ T.ev[l].k = "pipeline"
            /\ LET ev == T.ev[l] IN
               \E f \in {IF ev.exc # "" THEN "raised"
                         ELSE IF ~Finished THEN "stage_order"
                         ELSE IF ~SameAsSteps(ev) THEN "equals_composition"
                         ELSE IF T.ht = "absent" /\ ~IsZero(J(ev.htout)) THEN "height_rule"
                         ELSE IF (ev.vout # <<>>) # (VcvOut # "none") THEN "vcv_rule"
                         ELSE IF ev.vout # <<>> /\ ev.vcv33 /\ ~Symm(MatJ(ev.vout)) THEN "vcv_symmetric"
                         ELSE IF ev.vout # <<>> /\ ev.vcv33 /\ ~PSD(MatJ(ev.vout)) THEN "vcv_psd"
                         ELSE IF ev.vout # <<>> /\ ev.vcv33 /\ ev.vstep # <<>> /\ ~SameVcv(MatJ(ev.vout), MatJ(ev.vstep)) THEN "vcv_equals_composition"
                         ELSE IF ev.vout # <<>> /\ ev.vcv33 /\ ~VcvValueOK(ev) THEN "vcv_value"
                         ELSE ""} :
                  /\ (IF f = "" THEN TRUE ELSE Report("pipeline." \o f))
                  /\ dead' = (f # "")
            /\ l' = l + 1 /\ UNCHANGED <<vars, tid, prevhex>>

\* there and back: same ground position within 0.3 mm, same height within 0.2 mm
RoundTrip == /\ ~dead /\ l <= Len(T.ev) /\ T.ev[l].k = "roundtrip"
             /\ LET ev == T.ev[l]
                    sameZone == ev.zone0 = ev.zone2
                    posOK == IF sameZone THEN Within(J(ev.e2), J(ev.e0), Dec(3, 1)) /\ Within(J(ev.n2), J(ev.n0), Dec(3, 1))
                             ELSE /\ Leq(Mul(Abs(Sub(J(ev.lat2), J(ev.lat0))), FromInt(109900)), Dec(3, 1))
                                  /\ Leq(Mul(Mul(Abs(Sub(J(ev.lon2), J(ev.lon0))), FromInt(109900)), J(ev.cos0)), Dec(3, 1))
                IN \E f \in {IF ev.exc # "" THEN "raised"
                             ELSE IF ~posOK THEN "round_trip_position"
                             ELSE IF ~Within(J(ev.h2), J(ev.h0), Dec(2, 1)) THEN "round_trip_height"
                             ELSE ""} :
                     /\ (IF f = "" THEN TRUE ELSE Report("roundtrip." \o f))
                     /\ dead' = (f # "")
             /\ l' = l + 1 /\ UNCHANGED <<vars, tid, prevhex>>

TraceNext == Stage \/ Pipeline \/ RoundTrip
TraceSpec == TraceInit /\ [][TraceNext]_tvars
Consumed == (~dead /\ l = Len(T.ev) + 1) => PrintT(<<"END", tid>>)
=============================================================================
