---------------------------- MODULE MeridianTest ----------------------------
(* self-test of MeridianArc against values computed once with 40-digit quadrature *)
EXTENDS MeridianArc, TLC
VARIABLE x
Init == x = 0
Next == x' = x /\ x = 0
A == FromInt(6378137)
InvF == [neg |-> FALSE, mag |-> <<0, 0, 1000, 2210, 2572, 298>>]          \* 298.257222101
Nn == ThirdFlat(InvF, [neg |-> FALSE, mag |-> <<0, 0, 394, 7922, 16>>])   \* start 0.0016 7922 0394 (exact: ...0394 6287 4469)
ASSUME NOK(InvF, Nn)
ASSUME Within(Nn, [neg |-> FALSE, mag |-> <<4469, 6287, 394, 7922, 16>>], Dec(5, 5))
\* atan(3/4) = 0.6435011087932843868028, atan(-inf) = -pi/2, 90 degrees
ASSUME Within(LatRad(<<3, 4, 5>>), [neg |-> FALSE, mag |-> <<8680, 2843, 8793, 110, 6435>>], Dec(20, 5))
ASSUME Within(LatRad(<<-1, 0, 1>>), Neg(HalfPi), Dec(20, 5))
ASSUME Within(LatDeg(<<1, 0, 1>>), FromInt(90), Dec(1, 4))
\* GRS80 meridian distances by 40-digit quadrature: 4082072.680767814895690645 m, 10001965.72923046369151833 m
ASSUME Within(Meridian(A, Nn, <<3, 4, 5>>), [neg |-> FALSE, mag |-> <<4500, 6906, 4895, 6781, 6807, 2072, 408>>], Dec(1, 2))
ASSUME Within(Meridian(A, Nn, <<1, 0, 1>>), [neg |-> FALSE, mag |-> <<3000, 5183, 3691, 3046, 7292, 1965, 1000>>], Dec(1, 2))
ASSUME Eq(Meridian(A, Nn, <<-3, 4, 5>>), Neg(Meridian(A, Nn, <<3, 4, 5>>)))
=============================================================================
