---------------------------- MODULE Cells_Survey ----------------------------
(* Complete enumeration of the validity tables and of the strata of the      *)
(* relational laws (audit style: one state per item, every item printed for  *)
(* the driver).  The table laws are invariants over all items.               *)
(*   <<"CELL", cell, intended, as-built>>   first_vel_corrn validity table   *)
(*   <<"PAR", cell, intended>>              first_vel_params validity table  *)
(*   <<"ZEN", z>>                           zenith angles that are / are not *)
(*                                          admissible                       *)
(*   <<"STRAT", kind, ...>>                 strata of rand / va / fv / disp  *)
EXTENDS Survey
VARIABLE item

Temps == {-20, -5, 0, 15, 30, 45}
Press == {65000, 101325, 110000}
Hums  == {None, 0, 50, 100}
Wets  == {None, 0, 10}
Co2s  == {None, 300, 420, 600}
Wls   == {None, 40, 85, 160}
Cells == {<<t, p, h, w, c, wl>> : t \in Temps, p \in Press, h \in Hums, w \in Wets, c \in Co2s, wl \in Wls}
ParCells == {<<a, b, c>> : a \in BOOLEAN, b \in BOOLEAN, c \in BOOLEAN}

\* strata (the driver draws real numbers inside each)
\*  rand: coordinate magnitude class x distance class x direction class
\*        direction classes 1..8 octants, 9..12 axes N E S W, 13..20 one ulp either side of each axis
RandStrata == {<<"STRAT", "rand", mag, dcl, dir>> : mag \in 1..3, dcl \in 1..5, dir \in 1..20}
\*  va: zenith class (1 (0,90) 2 =90 3 (90,180) 4 (180,270) 5 =270 6 (270,360) 7..10 next to 0 / 180- / 180+ / 360)
\*      x slope class (0.1-1, 1-100, 100-5000, 5000-50000) x heights class (hi only, ht only, both, negative, zero given)
VaStrata == {<<"STRAT", "va", zc, sc, hc>> : zc \in 1..10, sc \in 1..4, hc \in 1..5}
\*  fv: temperature class (1 [-20,0) 2 =0 3 (0,25] 4 (25,45]) x pressure class (3) x moisture class
\*      (1 0 % 2 (0,50] 3 (50,100) 4 100 % 5 wet bulb) x CO2 class (1 300 2 420 3 600 4 in between)
\*      x wavelength class (1 [0.4,0.5) 2 [0.5,1.0] 3 (1.0,1.6])
FvStrata == {<<"STRAT", "fv", tc, pc, mc, cc, wc>> : tc \in 1..4, pc \in 1..3, mc \in 1..5, cc \in 1..4, wc \in 1..3}
\*  disp: temperature class x vapour pressure class (1 =0 2 (0,10] 3 (10,40]) x CO2 (1 omitted 2 300 3 420 4 600 5 between)
\*        x wavelength class
DispStrata == {<<"STRAT", "disp", tc, ec, cc, wc>> : tc \in 1..4, ec \in 1..3, cc \in 1..5, wc \in 1..3}

Items == {<<"CELL", c>> : c \in Cells} \cup {<<"PAR", c>> : c \in ParCells}
         \cup RandStrata \cup VaStrata \cup FvStrata \cup DispStrata

Emit(it) == IF it[1] = "CELL" THEN PrintT(<<"CELL", it[2], FvDefined(it[2]), FvAsBuilt(it[2])>>)
            ELSE IF it[1] = "PAR" THEN PrintT(<<"PAR", it[2], ParDefined(it[2])>>)
            ELSE PrintT(it)
CInit == item \in Items /\ Emit(item) /\ pt = <<0, 0>> /\ start = pt /\ legs = <<>> /\ last = NoCall
CNext == UNCHANGED <<item, vars>>
CSpec == CInit /\ [][CNext]_<<item, vars>>

IsCell == item[1] = "CELL"
Cl == item[2]
\* 0 degC and 0 % are values: every cell with humidity given (and a wavelength when CO2 is given) is defined
ValidAtmosphere == IsCell => ((CHum(Cl) # None /\ (CCo2(Cl) # None => CWl(Cl) # None)) => FvDefined(Cl) = "ret")
\* definedness depends on presence only (except for the wet-bulb-above-dry-bulb rule): the cell with every
\* given argument replaced by a standard value has the same verdict
Canon(c) == <<15, 101325, IF c[3] = None THEN None ELSE 50, IF c[4] = None THEN None ELSE 10,
              IF c[5] = None THEN None ELSE 420, IF c[6] = None THEN None ELSE 85>>
PresenceOnly == IsCell => (FvDefined(Cl) = "free" \/ FvDefined(Canon(Cl)) = FvDefined(Cl))
\* the as-built table deviates from the intended one exactly where a given argument is 0
AsBuiltDeviatesOnlyAtZero == IsCell => ((FvAsBuilt(Cl) # FvDefined(Cl) /\ FvDefined(Cl) # "free")
                                           => (\E i \in {1, 3, 4} : Cl[i] = 0))
\* without any moisture argument, or with CO2 but no wavelength, nothing can be computed
Undetermined == IsCell => (((CHum(Cl) = None /\ CWet(Cl) = None) \/ (CCo2(Cl) # None /\ CWl(Cl) = None)) => FvDefined(Cl) = "raise")

Counts == PrintT(<<"COUNT", Cardinality(Cells),
                   Cardinality({c \in Cells : FvDefined(c) = "ret"}),
                   Cardinality({c \in Cells : FvDefined(c) = "raise"}),
                   Cardinality({c \in Cells : FvDefined(c) = "free"}),
                   Cardinality({c \in Cells : FvDefined(c) = "ret" /\ FvAsBuilt(c) = "raise"}),
                   Cardinality({c \in Cells : FvDefined(c) = "raise" /\ FvAsBuilt(c) = "ret"})>>)
ASSUME Counts
=============================================================================
