----------------------------- MODULE Trace_Api -----------------------------
(***************************************************************************)
(* Trace validation for C20.  One trace = one HTTP request served by the   *)
(* real Flask application (harness/props/c20.py, Flask test client), cut   *)
(* into the stages of Api.tla:                                             *)
(*   Receive  the query string as sent (field -> token)                    *)
(*   Parse    token -> number (float.hex), by alpha                        *)
(*   ConvIn   table  number -> hp2dec(number)  obtained by calling the     *)
(*            LIBRARY directly, with the HP digits of the number           *)
(*   LibCall  the call the endpoint really made (recorded by a wrapper     *)
(*            around api.app.vincinv / vincdir) and the table              *)
(*            arguments -> results obtained by calling the library         *)
(*            directly                                                     *)
(*   ConvOut  table  number -> dec2hp(number)  from the library, with the  *)
(*            HP digits of the converted value                             *)
(*   Respond  status, content type, keys and values of the JSON answer     *)
(* The specification state is advanced with Api!Post_X, the numbers being  *)
(* interpreted by those observed tables: TLC computes from the query and   *)
(* the S-tables of Api.tla which number must reach which library argument  *)
(* and which value must appear under which key, and compares bit for bit   *)
(* (float.hex strings).  The two conversions are additionally judged       *)
(* against the exact HP arithmetic below (BigFix) with C08's tolerance.    *)
(*                                                                         *)
(* Verdicts are total: the first failing clause of a stage is printed as   *)
(* <<"FAIL", tid, l, clause>> and the trace becomes `dead`; a trace        *)
(* consumed to its end prints <<"END", tid>>.                              *)
(***************************************************************************)
EXTENDS Api, BigFix, Json, IOUtils, TLC

Data   == JsonDeserialize(IOEnv.TRACE_FILE)
Traces == Data.traces

VARIABLES tid, l, dead
tvars == <<pc, query, rq, cls, parsed, args, result, out, resp, tid, l, dead>>

T  == Traces[tid]
Ev == T.ev[l]

TolHP == Dec(27800, 4)      \* 1e-8 arc-second = 2.78e-12 deg (generous side), as in C08

(* --------------------- exact HP arithmetic (the oracle) ------------------ *)
\* an HP number as digits <<neg, D, MM, SS, sec>>: sec = seconds incl. fraction (BigFix encoding)
ValidHP(d) == d[3] < 60 /\ d[4] < 60
HpDeg(d) == LET v == Add(Add(FromInt(d[2]), FromRat(d[3], 60)), DivSmall(FromJ(d[5]), 3600))
            IN IF d[1] = 1 THEN Neg(v) ELSE v

RECURSIVE FirstFail(_, _)
FirstFail(cs, i) == IF i > Len(cs) THEN "" ELSE IF ~cs[i][2] THEN cs[i][1] ELSE FirstFail(cs, i + 1)
Report(clause) == PrintT(<<"FAIL", tid, l, clause>>)
Has(tab, k) == k \in DOMAIN tab

(* ------------- interpretations taken from the current event -------------- *)
TrNum(tok)    == IF Has(Ev.num, tok) THEN Ev.num[tok] ELSE "unparsed:" \o tok
TrHp2Dec(x)   == IF Has(Ev.tab, x) THEN Ev.tab[x].h ELSE "no-hp2dec-reference:" \o x
Join(a)       == a[1] \o "," \o a[2] \o "," \o a[3] \o "," \o a[4]
TrLib(ep, a)  == IF Ev.lib.fn = ep /\ Ev.lib.k = Join(a) THEN Ev.lib.r ELSE <<"no-library-reference", "", "">>
TrDec2Hp(x)   == IF Has(Ev.tab, x) THEN Ev.tab[x].h ELSE "no-dec2hp-reference:" \o x

TraceInit == /\ tid \in 1..Len(Traces) /\ l = 1 /\ dead = FALSE
             /\ Init

Stay == UNCHANGED <<tid>>

\* ---- GET /<endpoint>?<query> arrives
TrReceive ==
  /\ ~dead /\ l <= Len(T.ev) /\ Ev.a = "Receive" /\ T.kind = "req"
  /\ T.ep \in Endpoints
  /\ ReceiveA(T.ep, T.query, T.cls)
  /\ \E f \in {FirstFail(<< <<"Receive.angle_type_tokens",
                               \A x \in TypeFields \cap DOMAIN T.query : T.query[x] \in AngleTypes>>,
                            <<"Receive.class", T.cls \in Classes(T.ep)>> >>, 1)} :
        /\ (IF f = "" THEN TRUE ELSE Report(f))
        /\ dead' = (f # "")
  /\ l' = l + 1 /\ Stay

\* ---- tokens become numbers
TrParse ==
  /\ ~dead /\ l <= Len(T.ev) /\ Ev.a = "Parse" /\ pc = "Received"
  /\ \E f \in {FirstFail(<< <<"Parse.fields", NumFields(query) = Range(ArgFields[rq.ep])>>,
                            <<"Parse.tokens", \A x \in NumFields(query) : Has(Ev.num, query[x])>> >>, 1)} :
        /\ (IF f = "" THEN TRUE ELSE Report(f))
        /\ dead' = (f # "")
        /\ parsed' = IF f = "" THEN Post_Parse(query, rq, TrNum) ELSE parsed
  /\ pc' = "Parsed" /\ l' = l + 1 /\ Stay
  /\ UNCHANGED <<query, rq, cls, args, result, out, resp>>

\* ---- input conversion: HP -> decimal degrees for angles when from_angle_type = dms
ConvInChecks ==
  LET n == Len(ArgFields[rq.ep])
      conv(i) == InOp(rq.ep, i, rq.from) = "hp2dec"
      x(i) == parsed[ArgFields[rq.ep][i]]
  IN [i \in 1..n |-> <<"ConvIn.library_hp2dec_accepts." \o ArgFields[rq.ep][i],
                       conv(i) => Has(Ev.tab, x(i)) /\ Ev.tab[x(i)].h # "raised">>]
     \o
     [i \in 1..n |-> <<"ConvIn.hp2dec_denotes_same_angle." \o ArgFields[rq.ep][i],
                       (conv(i) /\ Has(Ev.tab, x(i)) /\ Ev.tab[x(i)].h # "raised") =>
                          /\ ValidHP(Ev.tab[x(i)].hp)
                          /\ Within(HpDeg(Ev.tab[x(i)].hp), FromJ(Ev.tab[x(i)].e), TolHP)>>]
TrConvIn ==
  /\ ~dead /\ l <= Len(T.ev) /\ Ev.a = "ConvIn" /\ pc = "Parsed"
  /\ \E f \in {FirstFail(ConvInChecks, 1)} :
        /\ (IF f = "" THEN TRUE ELSE Report(f))
        /\ dead' = (f # "")
        /\ args' = IF f = "" THEN Post_ConvIn(rq, parsed, TrHp2Dec) ELSE args
  /\ pc' = "ConvertedIn" /\ l' = l + 1 /\ Stay
  /\ UNCHANGED <<query, rq, cls, parsed, result, out, resp>>

\* ---- the library call: the recorded call must be the endpoint's function on exactly `args`
\* (rec = 0: the wrapper saw no call; keyword / extra arguments: positions unknown - e.g. after a
\* refactoring; then only the clauses on observable behaviour remain)
LibCallChecks ==
  LET n == Len(ArgFields[rq.ep]) IN
  << <<"LibCall.direct_reference", Ev.lib.fn = rq.ep /\ Ev.lib.k = Join(args)>>,
     <<"LibCall.function", Ev.rec = 1 => Ev.fn = rq.ep>> >>
  \o [i \in 1..n |-> <<"LibCall.arg." \o ArgFields[rq.ep][i],
                       (Ev.rec = 1 /\ Ev.nkw = 0 /\ Len(Ev.args) = n) => Ev.args[i] = args[i]>>]
  \o << <<"LibCall.returns_library_result", (Ev.rec = 1 /\ Ev.lib.exc = "") => Ev.res = Ev.lib.r>> >>
TrLibCall ==
  /\ ~dead /\ l <= Len(T.ev) /\ Ev.a = "LibCall" /\ pc = "ConvertedIn" /\ Ev.lib.exc = ""
  /\ \E f \in {FirstFail(LibCallChecks, 1)} :
        /\ (IF f = "" THEN TRUE ELSE Report(f))
        /\ dead' = (f # "")
        /\ result' = IF f = "" THEN Post_LibCall(rq, args, TrLib) ELSE result
  /\ pc' = "Called" /\ l' = l + 1 /\ Stay
  /\ UNCHANGED <<query, rq, cls, parsed, args, out, resp>>

\* ---- output conversion: decimal degrees -> HP for angles when to_angle_type = dms
ConvOutChecks ==
  LET n == Len(ResKeys[rq.ep])
      conv(i) == OutOp(rq.ep, i, rq.to) = "dec2hp"
  IN [i \in 1..n |-> <<"ConvOut.library_dec2hp_accepts." \o ResKeys[rq.ep][i],
                       conv(i) => Has(Ev.tab, result[i]) /\ Ev.tab[result[i]].h # "raised">>]
     \o
     [i \in 1..n |-> <<"ConvOut.dec2hp_denotes_same_angle." \o ResKeys[rq.ep][i],
                       (conv(i) /\ Has(Ev.tab, result[i]) /\ Ev.tab[result[i]].h # "raised") =>
                          /\ ValidHP(Ev.tab[result[i]].hp)
                          /\ Within(HpDeg(Ev.tab[result[i]].hp), FromJ(Ev.tab[result[i]].e), TolHP)>>]
TrConvOut ==
  /\ ~dead /\ l <= Len(T.ev) /\ Ev.a = "ConvOut" /\ pc = "Called"
  /\ \E f \in {FirstFail(ConvOutChecks, 1)} :
        /\ (IF f = "" THEN TRUE ELSE Report(f))
        /\ dead' = (f # "")
        /\ out' = IF f = "" THEN Post_ConvOut(rq, result, TrDec2Hp) ELSE out
  /\ pc' = "ConvertedOut" /\ l' = l + 1 /\ Stay
  /\ UNCHANGED <<query, rq, cls, parsed, args, result, resp>>

\* ---- the answer: 200, JSON, the endpoint's keys, each value = Post_Respond's, bit for bit
RespondChecks(e) ==
  LET n == Len(ResKeys[rq.ep]) IN
  << <<"Respond.status", Ev.status = e.status>>,
     <<"Respond.json", Ev.json>>,
     <<"Respond.keys", Ev.json => {Ev.keys[i] : i \in DOMAIN Ev.keys} = DOMAIN e.body>> >>
  \o [i \in 1..n |-> <<"Respond.value." \o ResKeys[rq.ep][i],
                       (Ev.json /\ Has(Ev.vals, ResKeys[rq.ep][i])) =>
                          Ev.vals[ResKeys[rq.ep][i]] = e.body[ResKeys[rq.ep][i]]>>]
TrRespond ==
  /\ ~dead /\ l <= Len(T.ev) /\ Ev.a = "Respond" /\ pc = "ConvertedOut"
  /\ \E e \in {Post_Respond(rq, out)} :
     \E f \in {FirstFail(RespondChecks(e), 1)} :
        /\ (IF f = "" THEN TRUE ELSE Report(f))
        /\ dead' = (f # "")
        /\ resp' = e
  /\ pc' = "Responded" /\ l' = l + 1 /\ Stay
  /\ UNCHANGED <<query, rq, cls, parsed, args, result, out>>

\* ---- the library itself raises on these arguments when called directly: there is nothing "the
\* library returns", the property is silent; the trace ends here, accepted as out of domain
TrLibRaises ==
  /\ ~dead /\ l <= Len(T.ev) /\ Ev.a = "LibCall" /\ pc = "ConvertedIn" /\ Ev.lib.exc # ""
  /\ \E f \in {FirstFail(<< <<"LibCall.direct_reference", Ev.lib.fn = rq.ep /\ Ev.lib.k = Join(args)>> >>, 1)} :
        /\ (IF f = "" THEN TRUE ELSE Report(f))
        /\ dead' = (f # "")
  /\ pc' = "OutOfDomain" /\ l' = Len(T.ev) + 1 /\ Stay
  /\ UNCHANGED <<query, rq, cls, parsed, args, result, out, resp>>

\* ---- GET / : the index lists every endpoint
IndexChecks(e) ==
  LET listed == {Ev.listed[i] : i \in DOMAIN Ev.listed}
      rules  == {Ev.rules[i] : i \in DOMAIN Ev.rules}
  IN << <<"Index.status", Ev.status = e.status>>,
        <<"Index.parsable", Ev.parsable>>,
        <<"Index.lists_specified_routes", e.body \subseteq listed>>,
        <<"Index.lists_every_registered_route", rules \subseteq listed>>,
        <<"Index.lists_only_routes", listed \subseteq rules>>,
        <<"Index.no_duplicates", Cardinality(listed) = Len(Ev.listed)>>,
        <<"Index.routes_resolve", \A i \in DOMAIN Ev.resolves : Ev.resolves[i]>> >>
TrIndex ==
  /\ ~dead /\ l <= Len(T.ev) /\ Ev.a = "Index" /\ T.kind = "index"
  /\ IndexA
  /\ \E f \in {FirstFail(IndexChecks(Post_Index), 1)} :
        /\ (IF f = "" THEN TRUE ELSE Report(f))
        /\ dead' = (f # "")
  /\ l' = l + 1 /\ Stay

TraceNext == TrReceive \/ TrParse \/ TrConvIn \/ TrLibCall \/ TrLibRaises \/ TrConvOut \/ TrRespond \/ TrIndex
TraceSpec == TraceInit /\ [][TraceNext]_tvars

\* acceptance bookkeeping (a CONSTRAINT that is always TRUE): a request trace must have reached
\* Responded (or ended where the library itself raises), an index trace Listed
Consumed == (~dead /\ l = Len(T.ev) + 1 /\ pc \in {"Responded", "Listed", "OutOfDomain"}) => PrintT(<<"END", tid>>)

\* the model's own invariants, re-checked on the expected states along real traces
ModelInv == ResponseShape /\ LengthsPassThrough /\ DDPassThrough
=============================================================================
