---------------------------- MODULE MC_AnglesExpr ----------------------------
EXTENDS AnglesExpr
MCLeaves == {-3, 0, 1, 2}
MCLeaf1 == {1}
MCTwo == {"DMSAngle", "HPAngle"}
MCAll == Classes
Complete == (Len(stack) = 1 /\ Len(prog) >= 2 /\ prog[Len(prog)][1] # "Push") \/ cmp # ""
Emit == Magnitude /\ (Complete => PrintT(<<"BEH", prog>>))
\* class of a binary result = class of its left operand, all the way down: the class on the stack is
\* always the class of some Push that is still the leftmost leaf of that stack entry
ClassIsALeafClass == \A i \in 1..Len(stack) : stack[i].cls \in ModelClasses
CmpIsBoolean == cmp \in {"", "T", "F"}
=============================================================================
