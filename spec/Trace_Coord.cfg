SPECIFICATION TraceSpec
CONSTANT HVals <- TrHVals
CONSTRAINT Consumed
INVARIANT ModelInv
CHECK_DEADLOCK FALSE
