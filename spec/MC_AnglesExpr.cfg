SPECIFICATION Spec
CONSTANT Leaves <- MCLeaves
CONSTANT ModelClasses <- MCTwo
CONSTANT MaxLen = 4
CONSTRAINT Magnitude
INVARIANT ClassIsALeafClass
INVARIANT CmpIsBoolean
CHECK_DEADLOCK FALSE
