----------------------- MODULE RefractivityConstants -----------------------
(***************************************************************************)
(* The constants of the Ciddor (1996) refractivity of air that GeodePy      *)
(* ships in survey.refractivity_constants(), by their PUBLISHED values      *)
(* (Peck & Reeder 1972 dry-air dispersion as amended by Ciddor, Owens 1967  *)
(* water-vapour dispersion, Davis 1992 enhancement factor and               *)
(* compressibility, the correction factor 1.022, R, the molar mass of      *)
(* water, the two standard conditions), transcribed independently of the   *)
(* repository.  A value is written as the shortest decimal that names its  *)
(* double (Python repr): the shipped double must be THE double nearest to   *)
(* the published decimal, so any slipped digit, sign or exponent differs.   *)
(* Same reasoning as Ellipsoids.tla: an oracle that reads the constants     *)
(* back from the library would inherit a mistyped one.                      *)
(***************************************************************************)
EXTENDS Sequences, Naturals
GroupNames == <<"dry_air_dispersion_k0_k3", "water_vapour_dispersion_w0_w3", "enhancement_factor_alpha_beta_gamma", "compressibility_a0_a1_a2_b0_b1_c0_c1_d_e", "cf_R_Mv", "standard_dry_air_tC_tK_pPa", "standard_water_vapour_tC_tK_pPa">>
Published == <<
  <<"238.0185", "5792105.0", "57.362", "167917.0">>,      \* dry_air_dispersion_k0_k3
  <<"295.235", "2.6422", "-0.03238", "0.004028">>,      \* water_vapour_dispersion_w0_w3
  <<"1.00062", "3.14e-08", "5.6e-07">>,      \* enhancement_factor_alpha_beta_gamma
  <<"1.58123e-06", "-2.9331e-08", "1.1043e-10", "5.707e-06", "-2.051e-08", "0.00019898", "-2.376e-06", "1.83e-11", "-7.65e-09">>,      \* compressibility_a0_a1_a2_b0_b1_c0_c1_d_e
  <<"1.022", "8.31451", "0.018015">>,      \* cf_R_Mv
  <<"15.0", "288.15", "101325.0">>,      \* standard_dry_air_tC_tK_pPa
  <<"20.0", "293.15", "1333.0">>      \* standard_water_vapour_tC_tK_pPa
>>
\* name of the first group that differs from the published table ("" when none does, "shape" when the table has another shape)
RECURSIVE FirstBadGroup(_, _)
FirstBadGroup(obs, i) == IF i > Len(Published) THEN ""
                         ELSE IF obs[i] # Published[i] THEN GroupNames[i] ELSE FirstBadGroup(obs, i + 1)
ConstantsVerdict(obs) == IF Len(obs) # Len(Published) THEN "shape" ELSE FirstBadGroup(obs, 1)
=============================================================================
