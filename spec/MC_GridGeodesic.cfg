SPECIFICATION Spec
INVARIANT FewPasses
PROPERTY Terminates
CHECK_DEADLOCK FALSE
