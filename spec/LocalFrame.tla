----------------------------- MODULE LocalFrame -----------------------------
(***************************************************************************)
(* C16 - the mathematics of the local east/north/up frame, shared by the   *)
(* state machine (Local), its model-checking wrapper (MC_Local) and the    *)
(* trace specification (Trace_Local): exact rotation matrix at stations    *)
(* with rational sines and cosines, the public calls as functions Post_X,  *)
(* error ellipse, relative variance, and the Student-t coverage            *)
(* probability in BigFix (finite sums; arctangent by its alternating       *)
(* series; pi by a rational bracket).                                      *)
(***************************************************************************)
EXTENDS BigFix, FiniteSets, TLC


(* ------------------------------ numerics ------------------------------- *)
Half(x) == DivSmall(x, 2)
Sum3(a, b, c) == Add(Add(a, b), c)
Abs3(v) == Sum3(Abs(v[1]), Abs(v[2]), Abs(v[3]))

\* integer ceiling square root by bisection (1 <= m < 2^27)
RECURSIVE ISqrtBis(_, _, _)
ISqrtBis(m, lo, hi) == \* smallest k in lo..hi with k*k >= m   (hi*hi >= m)
  IF lo >= hi THEN hi
  ELSE LET mid == (lo + hi) \div 2
       IN IF mid * mid >= m THEN ISqrtBis(m, lo, mid) ELSE ISqrtBis(m, mid + 1, hi)
ISqrtCeil(m) == ISqrtBis(m, 1, 11600)

\* 1/sqrt(v) for 1e-8 <= v < 1e8: start 1/ceil(sqrt(v+1)) (below the root, ratio >= 0.4), Newton
RSqrtBig(v) == RSqrtIt(v, FromRat(1, ISqrtCeil(IntPart(v) + 1)), 10)          \* 1 <= v < 1e8
Shl2(x) == Mk(x.neg, ShiftL(x.mag, 2))                                         \* x * 10^8
RSqrt(v) == IF Geq(v, One) THEN RSqrtBig(v)                                   \* 1e-16 <= v < 1e8
            ELSE IF Geq(Shl2(v), One) THEN MulSmall(RSqrtBig(Shl2(v)), 10000)
            ELSE MulSmall(MulSmall(RSqrtBig(Shl2(Shl2(v))), 10000), 10000)
\* sqrt: z0 = v r, then one Newton correction z0 + r (v - z0^2)/2 (restores the absolute resolution for large v)
SqrtCorr(v, r, z0) == Add(z0, Half(Mul(r, Sub(v, Sq(z0)))))
SqrtWith(v, r) == SqrtCorr(v, r, Mul(v, r))
Sqrt(v) == IF IsZero(v) THEN Zero ELSE SqrtWith(v, RSqrt(v))
\* 1/d for 1 <= d <= 2.5  (start 1/2: |1 - d/2| <= 1/2, squared at every step)
Recip12(d) == RecipIt(d, Half(One), 8)

(* ----------------------- rational-trig angles -------------------------- *)
IsPyth(a) == a[3] > 0 /\ a[1] * a[1] + a[2] * a[2] = a[3] * a[3]
SinOf(a) == FromRat(a[1], a[3])
CosOf(a) == FromRat(a[2], a[3])
IsLat(a) == IsPyth(a) /\ a[2] >= 0                       \* latitude: cosine >= 0

(* ------------------------------ 3x3 algebra ---------------------------- *)
\* matrices are tuples of rows; explicit tuples (TLC evaluates them eagerly)
E_(A, B, i, j) == Sum3(Mul(A[i][1], B[1][j]), Mul(A[i][2], B[2][j]), Mul(A[i][3], B[3][j]))
Row_(A, B, i) == <<E_(A, B, i, 1), E_(A, B, i, 2), E_(A, B, i, 3)>>
MatMul(A, B) == <<Row_(A, B, 1), Row_(A, B, 2), Row_(A, B, 3)>>
Transp(A) == << <<A[1][1], A[2][1], A[3][1]>>, <<A[1][2], A[2][2], A[3][2]>>, <<A[1][3], A[2][3], A[3][3]>> >>
MatVec(A, v) == <<Dot3(A[1], v), Dot3(A[2], v), Dot3(A[3], v)>>
RowAdd_(a, b) == <<Add(a[1], b[1]), Add(a[2], b[2]), Add(a[3], b[3])>>
RowSub_(a, b) == <<Sub(a[1], b[1]), Sub(a[2], b[2]), Sub(a[3], b[3])>>
MatAdd(A, B) == <<RowAdd_(A[1], B[1]), RowAdd_(A[2], B[2]), RowAdd_(A[3], B[3])>>
MatSub(A, B) == <<RowSub_(A[1], B[1]), RowSub_(A[2], B[2]), RowSub_(A[3], B[3])>>
Ident == << <<One, Zero, Zero>>, <<Zero, One, Zero>>, <<Zero, Zero, One>> >>
Diag(c) == << <<c[1], Zero, Zero>>, <<Zero, c[2], Zero>>, <<Zero, Zero, c[3]>> >>
DiagOf(A) == <<A[1][1], A[2][2], A[3][3]>>
Col(A, j) == <<A[1][j], A[2][j], A[3][j]>>
Cross(a, b) == <<Sub(Mul(a[2], b[3]), Mul(a[3], b[2])), Sub(Mul(a[3], b[1]), Mul(a[1], b[3])),
                 Sub(Mul(a[1], b[2]), Mul(a[2], b[1]))>>
Tr(A) == Sum3(A[1][1], A[2][2], A[3][3])
Min2(A, i, j) == Sub(Mul(A[i][i], A[j][j]), Mul(A[i][j], A[j][i]))
Minors(A) == Sum3(Min2(A, 1, 2), Min2(A, 1, 3), Min2(A, 2, 3))       \* sum of principal 2x2 minors
Det(A) == Dot3(A[1], Cross(A[2], A[3]))
IsPSD(A) == ~Lt(Tr(A), Zero) /\ ~Lt(Minors(A), Zero) /\ ~Lt(Det(A), Zero)      \* symmetric A: all eigenvalues >= 0
Norm1(A) == Sum3(Abs3(A[1]), Abs3(A[2]), Abs3(A[3]))                 \* sum of |entries| (>= spectral norm)
Len2(v) == Dot3(v, v)
MatClose(A, B, tol) == \A i \in 1..3 : \A j \in 1..3 : Within(A[i][j], B[i][j], tol)
VecClose(a, b, tol) == \A i \in 1..3 : Within(a[i], b[i], tol)
IsSym(A, tol) == Within(A[1][2], A[2][1], tol) /\ Within(A[1][3], A[3][1], tol) /\ Within(A[2][3], A[3][2], tol)

(* --------------------------- the local frame --------------------------- *)
\* columns east, north, up  (DynAdjust User's Guide 4.2.3)
RotSC(sp, cp, sl, cl) ==
  << <<Neg(sl), Neg(Mul(sp, cl)), Mul(cp, cl)>>,
     <<cl,      Neg(Mul(sp, sl)), Mul(cp, sl)>>,
     <<Zero,    cp,               sp>> >>
RotM(p) == RotSC(SinOf(p[1]), CosOf(p[1]), SinOf(p[2]), CosOf(p[2]))
\* unit normal of the ellipsoid at geodetic latitude/longitude (independent of the ellipsoid's size and flattening)
NormalSC(sp, cp, sl, cl) == <<Mul(cp, cl), Mul(cp, sl), sp>>

Other(f) == IF f = "cart" THEN "local" ELSE "cart"
\* the public calls, given the rotation matrix R of the station
Post_Enu2Xyz(R, v) == MatVec(R, v)
Post_Xyz2Enu(R, v) == MatVec(Transp(R), v)
Post_VcvC2L(R, V) == MatMul(Transp(R), MatMul(V, R))
Post_VcvL2C(R, V) == MatMul(R, MatMul(V, Transp(R)))
\* a 3x1 column of variances is a diagonal matrix and comes back as the rotated diagonal
Post_ColC2L(R, c) == DiagOf(Post_VcvC2L(R, Diag(c)))
Post_ColL2C(R, c) == DiagOf(Post_VcvL2C(R, Diag(c)))

\* error ellipse of the horizontal (east, north) block.  The orientation (bearing of the major
\* axis, clockwise from north) is kept as the un-normalised double-angle vector
\*   ax = <<v_ee - v_nn, 2 v_en>> = (a^2 - b^2) <<sin^2 B - cos^2 B, 2 sin B cos B>>
\* which needs no trigonometry; ax = <<0, 0>> is the circle (any bearing).
Tr2(V) == Add(V[1][1], V[2][2])
Det2(V) == Sub(Mul(V[1][1], V[2][2]), Mul(V[1][2], V[2][1]))
AxisOf(V) == <<Sub(V[1][1], V[2][2]), Add(V[1][2], V[2][1])>>
Disc(V) == LET ax == AxisOf(V) IN Add(Sq(ax[1]), Sq(ax[2]))
EllipseWith(t, z, ax) == [a2 |-> Half(Add(t, z)), b2 |-> Half(Sub(t, z)), ax |-> ax]
EllipseOf(V) == EllipseWith(Tr2(V), Sqrt(Disc(V)), AxisOf(V))
\* relative variance of two stations:  [I -I] S [I -I]^T = var1 + var2 - cov12 - cov12^T
RelVar(v1, v2, c12) == MatSub(MatSub(MatAdd(v1, v2), c12), Transp(c12))
RelErrOf(L) == [ell |-> EllipseOf(L), up2 |-> L[3][3], L |-> L]
Post_RelErr(R, v1, v2, c12) == RelErrOf(Post_VcvC2L(R, RelVar(v1, v2, c12)))

\* observed bearing B given by s = sin B, c = cos B: parallel to the major axis and pointing along it
BearingDouble(s, c) == <<Sub(Sq(s), Sq(c)), MulSmall(Mul(s, c), 2)>>
BearingOK(ax, s, c, tol) ==
  LET d == BearingDouble(s, c)
  IN /\ Within(Mul(d[1], ax[2]), Mul(d[2], ax[1]), tol)                    \* cross-multiplied tangent of 2B
     /\ Geq(Add(Mul(d[1], ax[1]), Mul(d[2], ax[2])), Neg(tol))             \* same sense (major, not minor, axis)

(* ------------------------- coverage factor k --------------------------- *)
\* k_val95(dof): arguments are [int |-> BOOLEAN, v |-> Int]
KMin == 1
KMax == 120
KAbstract(arg) == IF ~arg.int THEN [kind |-> "TypeError", i |-> 0]
                  ELSE IF arg.v < KMin THEN [kind |-> "entry", i |-> KMin]
                  ELSE IF arg.v > KMax THEN [kind |-> "normal", i |-> 0]      \* 1.96
                  ELSE [kind |-> "entry", i |-> arg.v]
K196 == Dec(19600, 1)
Delta5 == Dec(500, 2)                       \* 0.5e-5: "to five decimals"
P95 == Dec(9500, 1)
PEps == Dec(10, 4)                          \* 1e-15: guard for the truncation of ~400 BigFix operations (each < 1e-19)

\* A(t | nu) = P(|T_nu| <= t), Abramowitz & Stegun 26.7.3 / 26.7.4, theta = atan(t / sqrt(nu)):
\*   even nu:  A = sin(th) * SUM_{j=0}^{nu/2-1} c_j cos^{2j}(th),          c_j = c_{j-1} (2j-1)/(2j)
\*   odd  nu:  A = (2/pi) (th + sin(th) cos(th) SUM_{j=0}^{(nu-3)/2} d_j cos^{2j}(th)),  d_j = d_{j-1} (2j)/(2j+1)
\*   nu = 1 :  A = (2/pi) th
\* with sin(th) = t/sqrt(nu+t^2), cos^2(th) = nu/(nu+t^2): algebraic for even nu; for odd nu theta is
\* bracketed by the alternating arctangent series after two half-angle reductions and pi by PiLo/PiHi.
RECURSIVE SerEven(_, _, _, _)
SerEven(x, term, j, n) == \* SUM_{i>=j}^{n} of terms, term = term_j
  IF j > n THEN Zero ELSE Add(term, SerEven(x, DivSmall(MulSmall(Mul(term, x), 2 * j + 1), 2 * j + 2), j + 1, n))
RECURSIVE SerOdd(_, _, _, _)
SerOdd(x, term, j, n) ==
  IF j > n THEN Zero ELSE Add(term, SerOdd(x, DivSmall(MulSmall(Mul(term, x), 2 * j + 2), 2 * j + 3), j + 1, n))
\* arctangent of 0 <= u <= 0.42: lower and upper partial sums of u - u^3/3 + u^5/5 - ...
RECURSIVE AtanSer(_, _, _, _)
AtanSer(u2, pw, k, n) == \* SUM_{i=k}^{n} (-1)^i pw_i/(2i+1), pw_i = u^(2i+1)
  IF k > n THEN Zero
  ELSE Add(IF k % 2 = 0 THEN DivSmall(pw, 2 * k + 1) ELSE Neg(DivSmall(pw, 2 * k + 1)), AtanSer(u2, Mul(pw, u2), k + 1, n))
AtanLo(u) == AtanSer(Sq(u), u, 0, 27)       \* ends with a negative term: below the limit
AtanHi(u) == AtanSer(Sq(u), u, 0, 28)       \* ends with a positive term: above the limit
\* theta from sin and cos (0 < th < pi/2): tan(th/2) = s/(1+c), tan(th/4) = u/(1+sqrt(1+u^2)), th = 4 atan(tan(th/4))
QuarterTan1(u) == Mul(u, Recip12(Add(One, Sqrt(Add(One, Sq(u))))))
QuarterTan(s, c) == QuarterTan1(Mul(s, Recip12(Add(One, c))))
\* returns <<lo, hi>> with lo <= A(t|nu) <= hi up to PEps.  (Heavy intermediate values are operator
\* arguments, which TLC evaluates once, not LET definitions, which it re-evaluates at every use.)
CovEven(nu, s, x) == Mul(s, SerEven(x, One, 0, nu \div 2 - 1))
PiTimesA(at, g) == MulSmall(Add(MulSmall(at, 4), g), 2)                \* 2 (theta + g),  theta = 4 atan(tan(theta/4))
InvPiHi == RecipIt(PiHi, Dec(3000, 1), 8)      \* 1/pi from below and from above (up to 1e-19)
InvPiLo == RecipIt(PiLo, Dec(3000, 1), 8)
CovOdd3(q, g) == <<Mul(PiTimesA(AtanLo(q), g), InvPiHi), Mul(PiTimesA(AtanHi(q), g), InvPiLo)>>
CovOdd2(nu, s, x, c) == CovOdd3(QuarterTan(s, c), IF nu = 1 THEN Zero ELSE Mul(Mul(s, c), SerOdd(x, One, 0, (nu - 3) \div 2)))
CovOdd(nu, s, x) == CovOdd2(nu, s, x, Sqrt(x))
Pair(a) == <<a, a>>
Cov1(nu, s, x) == IF nu % 2 = 0 THEN Pair(CovEven(nu, s, x)) ELSE CovOdd(nu, s, x)
Cov0(nu, t, r) == Cov1(nu, Mul(t, r), MulSmall(Sq(r), nu))           \* sin = t r, cos^2 = nu r^2
Coverage(nu, t) == Cov0(nu, t, RSqrt(Add(FromInt(nu), Sq(t))))        \* r = 1/sqrt(nu + t^2)
\* q is the two-sided 95 % Student-t quantile of nu degrees of freedom rounded to five decimals:
\*   A(q - 0.5e-5) <= 0.95 <= A(q + 0.5e-5)     (refuted only when definitely false)
QuantileOK(nu, q) == /\ Leq(Coverage(nu, Sub(q, Delta5))[1], Add(P95, PEps))
                     /\ Geq(Coverage(nu, Add(q, Delta5))[2], Sub(P95, PEps))

=============================================================================
