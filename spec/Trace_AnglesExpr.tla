-------------------------- MODULE Trace_AnglesExpr --------------------------
(***************************************************************************)
(* Trace validation for C12.  A trace is one expression shape evaluated on *)
(* the real angle objects once per assignment of classes to its leaves.    *)
(* Every instruction event carries the observed result: its class, its own *)
(* .dec() value (exact float) and the angle alpha decodes from its fields. *)
(* Clauses:                                                                *)
(*   raised   the operator raised where the specification has a result     *)
(*   class    binary/unary result is not of the class of the left operand  *)
(*   value    result differs by more than 1e-8" from the operation applied *)
(*            to the operands' decimal-degree values                       *)
(*   round    rounding moved the value by more than half a unit            *)
(*   bool     comparison differs from the comparison of the decimal values *)
(*   operand_mutated  an operator changed one of its operands (an          *)
(*            expression that uses a value twice would then depend on the  *)
(*            order of evaluation)                                         *)
(*   same_angle_any_notation  the same expression evaluated with other     *)
(*            leaf classes gives a different angle                         *)
(***************************************************************************)
EXTENDS AnglesExpr, Json, IOUtils

Data   == JsonDeserialize(IOEnv.TRACE_FILE)
Traces == Data.traces
TrLeaves == {0}
VARIABLES tid, l, dead, st, ref, nops
\* nops < 0 marks an evaluation to which the cross-notation clause does not apply:
\*  - it contained a rounding step: rounding acts on the class's own field (the property derives the clause from the other operators);
\*  - it took a modulo of an operand within the accumulated tolerance of a multiple of k: modulo is discontinuous there, operands
\*    that agree within 1e-8" across notations legitimately come out near 0 in one notation and near k in another (each single
\*    operation still has to agree with the decimal-degree operation: clause `value`)
tvars == <<vars, tid, l, dead, st, ref, nops>>
T == Traces[tid]

Item(o) == [cls |-> o.cls, dec |-> FromJ(o.dec), ang |-> FromJ(o.ang)]
TopS(n) == st[Len(st) + 1 - n]
PopS(n) == SubSeq(st, 1, Len(st) - n)
Report(clause) == PrintT(<<"FAIL", tid, l, clause>>)

TraceInit == /\ tid \in 1..Len(Traces) /\ l = 1 /\ dead = FALSE /\ st = <<>> /\ ref = <<>> /\ nops = 0
             /\ stack = <<>> /\ prog = <<>> /\ cmp = ""

\* expected result of instruction ev on the observed stack: <<arity, class, value, tolerance>>
Expected(ev) ==
  CASE ev.op \in BinOps  -> <<2, TopS(2).cls, BinVal(ev.op, TopS(2).dec, TopS(1).dec), Tol>>
    [] ev.op \in UnOps   -> <<1, TopS(1).cls, UnVal(ev.op, TopS(1).dec), Tol>>
    [] ev.op \in ScalOps -> <<1, TopS(1).cls, ScalVal(ev.op, TopS(1).dec, ev.k), Tol>>
    [] ev.op = "ModK"    -> <<1, TopS(1).cls, ModK(TopS(1).dec, ev.k), Tol>>
    [] ev.op = "Round"   -> <<1, TopS(1).cls, TopS(1).dec, Add(HalfUnit(TopS(1).cls, ev.k), Tol)>>

\* twice the tolerance accumulated so far on either side of a multiple of k
NearWrap(ev) == ev.op = "ModK" /\ LET m == ModK(TopS(1).dec, ev.k) w == MulSmall(Tol, 4 * (nops + 1))
                                  IN Leq(m, w) \/ Geq(m, Sub(FromInt(ev.k), w))
Arity(ev) == IF ev.op \in BinOps \cup CmpOps THEN 2 ELSE IF ev.op \in {"Push", "Final"} THEN 0 ELSE 1

Step ==
  /\ ~dead /\ l <= Len(T.ev)
  /\ LET ev == T.ev[l] IN
     CASE Len(st) < Arity(ev) ->
            /\ Report(ev.op \o ".stack_underflow") /\ dead' = TRUE /\ UNCHANGED <<st, ref, nops>>
       [] ev.op = "Push" ->
            /\ st' = Append(st, Item(ev.res)) /\ UNCHANGED <<dead, ref, nops>>
       [] ev.op \in CmpOps ->
            /\ \E f \in {IF ev.exc # "" THEN "raised"
                         ELSE IF ev.bool # CmpVal(ev.op, TopS(2).dec, TopS(1).dec) THEN "bool"
                         ELSE IF ~ev.opsame THEN "operand_mutated" ELSE ""} :
                 /\ (IF f = "" THEN TRUE ELSE Report(ev.op \o "." \o f))
                 /\ dead' = (f # "")
            /\ st' = <<>> /\ UNCHANGED <<ref, nops>>
       [] ev.op = "Final" ->
            \* end of one evaluation of the shape: all evaluations must denote the same angle
            /\ \E f \in {IF st = <<>> \/ ref = <<>> \/ nops < 0 THEN ""
                         ELSE IF Within(TopS(1).ang, ref[1], MulSmall(Tol, 2 * (nops + 1))) THEN ""
                         ELSE "same_angle_any_notation"} :
                 /\ (IF f = "" THEN TRUE ELSE Report("Final." \o f))
                 /\ dead' = (f # "")
            /\ ref' = IF ref = <<>> /\ st # <<>> /\ nops >= 0 THEN <<TopS(1).ang>> ELSE ref
            /\ st' = <<>> /\ nops' = 0
       [] OTHER ->
            \E x \in {Expected(ev)} :
            IF ~InDomain(x[3]) THEN /\ PrintT(<<"SKIP", tid>>) /\ dead' = TRUE /\ PrintT(<<"END", tid>>)
                                    /\ UNCHANGED <<st, ref, nops>>
            ELSE
            \E f \in {IF ev.exc # "" THEN "raised"
                      ELSE IF ev.res.cls # x[2] THEN "class"
                      ELSE IF ~Within(FromJ(ev.res.ang), x[3], x[4]) THEN (IF ev.op = "Round" THEN "round" ELSE "value")
                      ELSE IF ~ev.opsame THEN "operand_mutated"
                      ELSE ""} :
              /\ (IF f = "" THEN TRUE ELSE Report(ev.op \o "." \o f))
              /\ dead' = (f # "")
              /\ st' = IF f = "" THEN Append(PopS(x[1]), Item(ev.res)) ELSE st
              /\ nops' = (IF ev.op = "Round" \/ nops < 0 \/ NearWrap(ev) THEN -1 ELSE nops + 1) /\ UNCHANGED ref
  /\ l' = l + 1 /\ UNCHANGED <<vars, tid>>

TraceSpec == TraceInit /\ [][Step]_tvars
Consumed == (~dead /\ l = Len(T.ev) + 1) => PrintT(<<"END", tid>>)
=============================================================================
