---------------------------- MODULE Trace_Sinex ----------------------------
(***************************************************************************)
(* Trace validation for C18.  harness/props/c18.py renders a start         *)
(* document (Data.docs[di]: abstract document, the texts of its records,   *)
(* its tokenised lines), replays a behaviour of Sinex.tla on the real      *)
(* geodepy.gnss functions in a scratch directory under a substituted       *)
(* clock, and logs per call the tokenised output.snx (editors) or the      *)
(* returned tuples (readers).  A chain feeds each output back as the next  *)
(* input.  Every clause of the property is a named check evaluated here on *)
(* every call; the expected document is Sinex!Post_X of the current one.   *)
(*                                                                         *)
(* The tokenizer is purely lexical (harness/sinexio.py): a line is         *)
(*   [k kind by first character, raw text without trailing blanks,         *)
(*    w blank-separated fields (exponent letter in lower case),            *)
(*    n the fields that are unsigned integers as numbers (else -1),        *)
(*    nm block name of a + or - line].                                     *)
(* Which block a line belongs to, what it must contain and whether the     *)
(* file is well formed is decided here.                                    *)
(*                                                                         *)
(* A "stamp" trace holds the strings returned by set_creation_time() for   *)
(* the 3600 seconds of one hour of one day; step l judges second l-1.      *)
(*                                                                         *)
(* Verdicts are total: the first failing clause of a step prints           *)
(* <<"FAIL", tid, l, clause>> and the trace becomes dead; a trace consumed *)
(* to its end prints <<"END", tid>>.                                       *)
(***************************************************************************)
EXTENDS Sinex, Json, IOUtils

Data   == JsonDeserialize(IOEnv.TRACE_FILE)
Traces == Data.traces
Docs   == Data.docs

VARIABLES tid, l, dead,
          fi        \* index of the event whose output is the current file (0: the rendered start document)
tvars == <<d, start, h, ck, tid, l, dead, fi>>

T  == Traces[tid]
D0 == Docs[T.di]
TX == D0.text
InLines(f) == IF f = 0 THEN D0.lines ELSE T.ev[f].lines
SetOf(s) == {s[k] : k \in 1..Len(s)}
TrMaster == <<>>
TrVariants == {}
ZeroToks == {"0.00000000000000e+00", "-0.00000000000000e+00"}

(* ------------------------ expected texts of records --------------------- *)
HeaderText(hd, st, n, v) ==
  "%=SNX " \o hd.ver \o " " \o hd.ag \o " " \o st \o " " \o hd.dag \o " " \o hd.start \o " " \o hd.end
  \o " " \o hd.tech \o " " \o ZPad(n, 5) \o " " \o hd.cons \o " " \o (IF v THEN "S V" ELSE "S")
EntIdx(e) == CHOOSE i \in 1..Len(D0.adoc.ent) : D0.adoc.ent[i] = e
Per0 == Len(TypesOf(D0.adoc.vel))
IdOf(oi, t) == (oi - 1) * Per0 + t
Cov(a, b) == TX.cov[Max2(a, b)][Min2(a, b)]
ExpTok(e, i, j) == Cov(e.est[i].id, e.est[j].id)
Raws(s) == [q \in 1..Len(s) |-> s[q].raw]
DataOf(lines, b) == SelectSeq(SubSeq(lines, b.lo + 1, b.hi - 1), LAMBDA x : x.k = "data")

(* ------------------------------ file clauses ---------------------------- *)
HeaderVerdict(hl, e, stamps) ==
  IF hl.raw \in {HeaderText(TX.hdr, st, N(e), e.vel) : st \in stamps} THEN ""
  ELSE IF Len(hl.w) < 11 THEN "Header.fixed_width_fields"
  ELSE IF hl.w[4] \notin stamps THEN "Header.creation_time"
  ELSE IF hl.w[9] # ZPad(N(e), 5) THEN "Header.parameter_count"
  ELSE "Header.fixed_width_fields"

EstVerdict(el, e) ==
  IF Len(el) # N(e) THEN "Estimates.exactly_the_remaining"
  ELSE IF \A k \in 1..N(e) : el[k].raw = " " \o SPad(k, 5) \o TX.estrest[e.est[k].id] THEN ""
  ELSE IF \E k \in 1..N(e) : el[k].w = <<>> \/ el[k].w[1] # ToString(k) THEN "Estimates.renumbered_consecutively"
  ELSE "Estimates.exactly_the_remaining"

LineShapeOK(x) == Len(x.w) >= 3 /\ Len(x.w) <= 5 /\ x.n[1] >= 1 /\ x.n[2] >= 1
ObsElems(ml) == UNION {{<<ml[q].n[1], ml[q].n[2] + k - 3, ml[q].w[k]>> : k \in 3..Len(ml[q].w)} : q \in 1..Len(ml)}
RECURSIVE SumW(_, _, _)
SumW(ml, lo, hi) == IF lo > hi THEN 0 ELSE IF lo = hi THEN Len(ml[lo].w) - 2
                    ELSE SumW(ml, lo, (lo + hi) \div 2) + SumW(ml, (lo + hi) \div 2 + 1, hi)
\* the matrix as a map (r, c) -> value: exactly the original with rows/columns deleted; an element
\* may be left out only if it is zero (representation free: any line blocking is accepted)
MatVerdict(ml, e) ==
  IF \E q \in 1..Len(ml) : ~LineShapeOK(ml[q]) THEN "Matrix.line_shape"
  ELSE Let1(ObsElems(ml), LAMBDA E :
         IF \E t \in E : ~InTri(e.tri, N(e), t[1], t[2]) THEN "Matrix.element_outside_triangle"
         ELSE IF \E t \in E : t[3] # ExpTok(e, t[1], t[2]) THEN "Matrix.rows_and_columns_deleted_exactly"
         ELSE IF Cardinality(E) # SumW(ml, 1, Len(ml)) THEN "Matrix.element_listed_twice"
         ELSE Let1({<<t[1], t[2]>> : t \in E}, LAMBDA P :
                IF \E p \in Tri(e) : p \notin P /\ ExpTok(e, p[1], p[2]) \notin ZeroToks
                THEN "Matrix.element_missing" ELSE ""))

FileVerdict2(lines, g, e, stamps) ==
  IF GVerdict(g) # "" THEN "WellFormed." \o GVerdict(g)
  ELSE IF [q \in 1..Len(g.blocks) |-> g.blocks[q].nm] \notin {BlockSeq(e), BlockSeq([e EXCEPT !.comm = ~e.comm])}
       THEN "WellFormed.blocks_present"            \* the comment block is optional, the four data blocks are not
  ELSE LET off == Len(g.blocks) - 4
           hv  == HeaderVerdict(SelectSeq(lines, LAMBDA x : x.k = "header")[1], e, stamps)
           mb  == g.blocks[off + 4]
       IN IF hv # "" THEN hv
          ELSE IF Raws(DataOf(lines, g.blocks[off + 1])) # [k \in 1..Len(SiteSeq(e.ent)) |-> TX.siteline[SiteSeq(e.ent)[k]]]
               THEN "SiteId.records_of_remaining_stations"
          ELSE IF Raws(DataOf(lines, g.blocks[off + 2])) # [k \in 1..Len(e.ent) |-> TX.entline[EntIdx(e.ent[k])]]
               THEN "Epochs.records_of_remaining_stations"
          ELSE Let1(EstVerdict(DataOf(lines, g.blocks[off + 3]), e), LAMBDA ev :
                 IF ev # "" THEN ev
                 ELSE IF lines[mb.lo].w # <<"+SOLUTION/MATRIX_ESTIMATE", e.tri, "COVA">> THEN "Matrix.triangle_and_type_kept"
                 ELSE MatVerdict(DataOf(lines, mb), e))
FileVerdict(lines, e, stamps) == Let1(Gram(lines), LAMBDA g : FileVerdict2(lines, g, e, stamps))

\* remove_matrixzeros_sinex: every matrix line that is not all zero is unchanged, in order, on its
\* own line; no all-zero line is left (the other blocks are judged by FileVerdict)
AllZeroLine(x) == Len(x.w) >= 3 /\ \A k \in 3..Len(x.w) : x.w[k] \in ZeroToks
MatData(lines) == Let1(Gram(lines), LAMBDA g : DataOf(lines, g.blocks[Len(g.blocks)]))
ZeroVerdict(lines, inl) ==
  Let1(MatData(lines), LAMBDA om :
    IF \E q \in 1..Len(om) : AllZeroLine(om[q]) THEN "ZeroLines.all_zero_line_left"
    ELSE IF Raws(om) # Raws(SelectSeq(MatData(inl), LAMBDA x : ~AllZeroLine(x))) THEN "ZeroLines.other_lines_unchanged"
    ELSE "")

(* ----------------------------- reader clauses --------------------------- *)
ExpEstRow(e, k) ==
  LET oi == EntIdx(e.ent[k])
  IN <<TX.entf[oi][1], TX.entf[oi][2], TX.entf[oi][3]>>
     \o [t \in 1..3 |-> TX.estval[IdOf(oi, t)]] \o [t \in 1..3 |-> TX.estsd[IdOf(oi, t)]]
     \o (IF e.vel THEN [t \in 1..3 |-> TX.estval[IdOf(oi, t + 3)]] \o [t \in 1..3 |-> TX.estsd[IdOf(oi, t + 3)]] ELSE <<>>)
\* documented order of read_sinex_matrix: var_x, covar_xy, covar_xz, var_y, covar_yz, var_z
Block6(a, b, c) == <<Cov(a, a), Cov(a, b), Cov(a, c), Cov(b, b), Cov(b, c), Cov(c, c)>>
ExpMatRow(e, k) ==
  LET oi == EntIdx(e.ent[k])
  IN <<TX.entf[oi][1], TX.entf[oi][2]>> \o Block6(IdOf(oi, 1), IdOf(oi, 2), IdOf(oi, 3))
     \o (IF e.vel THEN Block6(IdOf(oi, 4), IdOf(oi, 5), IdOf(oi, 6)) ELSE <<>>)
RowsVerdict(out, n, Exp(_), name) ==
  IF Len(out) # n THEN name \o ".one_tuple_per_record"
  ELSE IF \E k \in 1..n : out[k] # Exp(k) THEN name \o ".values_as_written" ELSE ""

(* --------------------------------- steps -------------------------------- *)
Report(clause) == PrintT(<<"FAIL", tid, l, clause>>)
Judge(f) == (IF f = "" THEN TRUE ELSE Report(f)) /\ dead' = (f # "")
Ev == T.ev[l]

TraceInit == /\ tid \in 1..Len(Traces) /\ l = 1 /\ dead = FALSE /\ fi = 0 /\ h = <<>> /\ ck = 0
             /\ d = (IF Traces[tid].kind = "stamp" THEN NewDoc(<<>>, FALSE, "L", FALSE, FALSE)
                     ELSE LET a == Docs[Traces[tid].di].adoc IN NewDoc(a.ent, a.vel, a.tri, a.bd, a.comm))
             /\ start = d

\* the rendered start document is itself judged by the same clauses (binds renderer and tokenizer)
Input == /\ ~dead /\ T.kind = "doc" /\ l <= Len(T.ev) /\ Ev.a = "Input"
         /\ \E f \in {FileVerdict(InLines(0), d, {TX.hdr.ctime})} : Judge(IF f = "" THEN "" ELSE "Input." \o f)
         /\ l' = l + 1 /\ UNCHANGED <<d, start, h, ck, tid, fi>>

EditStep(name, e, extra) ==
  /\ \E f1 \in {IF Ev.exc # "" THEN "raised" ELSE FileVerdict(Ev.lines, e, Stamps(Ev.clock))} :
     \E f \in {IF f1 # "" \/ ~extra THEN f1 ELSE ZeroVerdict(Ev.lines, InLines(fi))} :
        Judge(IF f = "" THEN "" ELSE name \o "." \o f)
  /\ d' = e /\ fi' = l /\ l' = l + 1
  /\ h' = Append(h, <<name, Ev.S, Ev.clock>>)
  /\ UNCHANGED <<start, ck, tid>>

TrRemoveStns  == /\ ~dead /\ T.kind = "doc" /\ l <= Len(T.ev) /\ Ev.a = "RemoveStns"
                 /\ En_RemoveStns(d, SetOf(Ev.S))
                 /\ EditStep("RemoveStns", Post_RemoveStns(d, SetOf(Ev.S)), FALSE)
TrRemoveVel   == /\ ~dead /\ T.kind = "doc" /\ l <= Len(T.ev) /\ Ev.a = "RemoveVel"
                 /\ En_RemoveVel(d)
                 /\ EditStep("RemoveVel", Post_RemoveVel(d), FALSE)
TrRemoveZeros == /\ ~dead /\ T.kind = "doc" /\ l <= Len(T.ev) /\ Ev.a = "RemoveZeros"
                 /\ EditStep("RemoveZeros", Post_RemoveZeros(d), TRUE)

ReadStep(name, f) == /\ Judge(IF f = "" THEN "" ELSE f)
                     /\ l' = l + 1 /\ h' = Append(h, <<name, {}, <<>>>>)
                     /\ UNCHANGED <<d, start, ck, tid, fi>>
TrReadEstimate == /\ ~dead /\ T.kind = "doc" /\ l <= Len(T.ev) /\ Ev.a = "ReadEstimate"
                  /\ \E f \in {IF Ev.exc # "" THEN "ReadEstimate.raised"
                               ELSE RowsVerdict(Ev.out, Len(d.ent), LAMBDA k : ExpEstRow(d, k), "ReadEstimate")} :
                        ReadStep("ReadEstimate", f)
TrReadMatrix   == /\ ~dead /\ T.kind = "doc" /\ l <= Len(T.ev) /\ Ev.a = "ReadMatrix"
                  /\ \E f \in {IF Ev.exc # "" THEN "ReadMatrix.raised"
                               ELSE RowsVerdict(Ev.out, Len(d.ent), LAMBDA k : ExpMatRow(d, k), "ReadMatrix")} :
                        ReadStep("ReadMatrix", f)
TrReadSites    == /\ ~dead /\ T.kind = "doc" /\ l <= Len(T.ev) /\ Ev.a = "ReadSites"
                  /\ \E f \in {IF Ev.exc # "" THEN "ReadSites.raised"
                               ELSE RowsVerdict(Ev.out, Len(SiteSeq(d.ent)), LAMBDA k : TX.sitef[SiteSeq(d.ent)[k]], "ReadSites")} :
                        ReadStep("ReadSites", f)

\* one second of the stamp lattice: set_creation_time() under the substituted clock
StampStep == /\ ~dead /\ T.kind = "stamp" /\ l <= Len(T.obs)
             /\ LET c == <<T.date[1], T.date[2], T.date[3], T.hour, (l - 1) \div 60, (l - 1) % 60, T.f>>
                IN Judge(IF T.obs[l] \in Stamps(c) THEN "" ELSE "Stamp.YY_DDD_SSSSS")
             /\ l' = l + 1 /\ UNCHANGED <<d, start, h, ck, tid, fi>>

TraceNext == Input \/ TrRemoveStns \/ TrRemoveVel \/ TrRemoveZeros \/ TrReadEstimate \/ TrReadMatrix \/ TrReadSites
             \/ StampStep
TraceSpec == TraceInit /\ [][TraceNext]_tvars

TLen == IF T.kind = "stamp" THEN Len(T.obs) ELSE Len(T.ev)
Consumed == (~dead /\ l = TLen + 1) => PrintT(<<"END", tid>>)
\* the model's own invariants, re-checked on the expected documents along real traces
ModelInv == TypeOK /\ EstimatesKeptInOrder /\ Renumbered /\ HeaderCountMatches
=============================================================================
