SPECIFICATION CSpec
CONSTANT Triples = {}
CONSTANT Mults = {}
CONSTANT Origins = {}
CONSTANT Rots = {}
CONSTANT Psfs = {}
CONSTANT MaxLegs = 0
INVARIANT ValidAtmosphere
INVARIANT PresenceOnly
INVARIANT AsBuiltDeviatesOnlyAtZero
INVARIANT Undetermined
CHECK_DEADLOCK FALSE
